"""IR kernel harness shared by C01 and C06 (DESIGN.md 4.1, 5/C01, 5/C06).

* `Real`            — runs operations of the public mutation alphabet on real `onnx_ir` objects;
                      objects are identified by creation index (the same numbering the Lean model uses).
* `Real.snapshot`   — canonical dump compared with the Lean model (`kernel.run`), record by record.
* `wf_oracle`       — the C01 invariant evaluated on the real objects through public accessors only
                      (independent of the model and of `snapshot`).
* `deep_snapshot`   — every public accessor of every reachable object (C06: before vs after a raising call).
* `gen_op`          — generator of operations: mostly valid arguments + a deliberate invalid stream.
* `run_random`      — generate + execute histories in worker processes, then diff against the model.
* round 4: GraphView operations (`VIEW_OPS`, `Real.views`, `Gen(views=True)`, `run_view_scenarios`, `graphview_member_probe`),
  the per-step timer (`STEP_LIMIT_S`, failures `nontermination:<call>`), `guarded` probes of the real code, and the probe
  `rnv_is_hoisted` that selects the model variant of `replace_nodes_and_values` (proposed_fixes/D83-partial.diff).
"""
from __future__ import annotations

import random
from typing import Any

from harness.common import Part, lean_batch, pmap

NAME_POOL = ["a", "b", "x", "val_0", "val_1", "val_2", "w", ""]
NODE_NAME_POOL = ["n0", "node_Add_0", "node_Add_1", "node_Mul_0", "k"]
OP_TYPES = ["Add", "Mul", "Id"]
MAX_VALUES, MAX_NODES, MAX_GRAPHS = 20, 12, 4
RAISES = (ValueError, TypeError, IndexError, KeyError, RuntimeError, AssertionError, AttributeError)


def _ir():
    import onnx_ir as ir

    return ir


_LOCKED_CLS = None


def locked_tensor(name=None):
    """A TensorProtocol implementation whose `name` cannot be assigned (read-only property): renaming a
    value backed by it raises inside `Value.name = ...` at the point where the tensor is renamed."""
    global _LOCKED_CLS
    import numpy as np

    ir = _ir()
    if _LOCKED_CLS is None:

        class LockedTensor(ir.Tensor):
            __slots__ = ()

            @property
            def name(self):
                return self._name

            @name.setter
            def name(self, value):
                raise AttributeError("this tensor's name is read-only")

        _LOCKED_CLS = LockedTensor
    return _LOCKED_CLS(np.array([1.0], dtype=np.float32), name=name)


_RAUW_MANY_ATOMIC = None


def _probe_guard(fn):
    """a probe of the real code: any exception of the real code means `the variant is not live`, never a crash"""
    import functools

    @functools.wraps(fn)
    def wrapped():
        try:
            return fn()
        except Exception:  # noqa: BLE001
            return False

    return wrapped


@_probe_guard
def rauw_many_is_atomic() -> bool:
    """Probe of the real `convenience.replace_all_uses_with`: does a rejected later pair leave the earlier pairs
    unapplied (proposed fix D82-exact)?  Decides which of the two model functions (`rauwMany` = the sequential loop,
    `rauwManyExact` = checked against the simulated ownership first) the multi-pair call is compared with."""
    global _RAUW_MANY_ATOMIC
    if _RAUW_MANY_ATOMIC is None:
        import onnx_ir.convenience as conv

        ir = _ir()
        a, b, c = ir.Value(name="a"), ir.Value(name="b"), ir.Value(name="c")
        user = ir.Node("", "Id", [a])
        o = user.outputs[0]
        g = ir.Graph([a], [o], nodes=[user])
        try:
            conv.replace_all_uses_with([a, o], [b, c], replace_graph_outputs=False)
        except Exception:  # noqa: BLE001 - a probe of real code never crashes the harness
            pass
        _RAUW_MANY_ATOMIC = user.inputs[0] is a and len(list(g)) == 1
    return _RAUW_MANY_ATOMIC


_RNV_HOISTED = None


@_probe_guard
def rnv_is_hoisted() -> bool:
    """Probe of the real `convenience.replace_nodes_and_values`: are the rejections that do not depend on the copying
    steps checked before the first write (proposed_fixes/D83-partial.diff)?  Decides which model function the call is
    compared with (`replaceNodesAndValuesExact` = the plain sequence, `replaceNodesAndValuesHoisted`)."""
    global _RNV_HOISTED
    if _RNV_HOISTED is None:
        import onnx_ir.convenience as conv

        ir = _ir()
        a = ir.Value(name="a")
        old = ir.Node("", "Id", [a], name="old")
        old.outputs[0].name = "o"
        g = ir.Graph([a], [], nodes=[old])
        stray = ir.Node("", "Id", [a], name="stray")  # the insertion point is not in g: rejected by insert_after
        new = ir.Value(name="new")
        try:
            conv.replace_nodes_and_values(g, stray, [old], [], [old.outputs[0]], [new])
        except Exception:  # noqa: BLE001 - a probe of real code never crashes the harness
            pass
        _RNV_HOISTED = new.name == "new" and len(list(g)) == 1
    return _RNV_HOISTED


def tape_spelling(op: dict):
    """How a `newNode` call is spelled through `Tape.op` / `Tape.op_multi_out` (None: plain `ir.Node(...)`)."""
    if op.get("via") != "tape" or op.get("badAttr") or op.get("attrGraphs") or op.get("attrGraphsList") or op.get("attrPlain"):
        return None
    num, outs = op["numOutputs"], op["outputs"]
    if outs is None and num in (None, 1):
        return "op"
    if outs is not None and len(outs) == 1 and num is None:
        return "op-output"
    if outs is None and num is not None:
        return "multi-num"
    if outs is not None and num is None:
        return "multi-outputs"
    return None


# --------------------------------------------------------------------------- real world


class Real:
    """The real objects, in creation order."""

    def __init__(self, model_sort: bool = False) -> None:
        # model_sort: `sort` is sent to the model as `{"op": "sort", "g": g}` (the model computes the sort itself, C12's
        # sort model on the tree it reads off its own state).  Default (other users of this class, e.g. C20's kernel
        # stream): the round-1 form `sortOk orders` with the orders read from the real objects after the call.
        self.model_sort = model_sort
        self.vals: list = []
        self.nodes: list = []
        self.graphs: list = []
        self.tensors: list = []
        self.vid: dict[int, int] = {}
        self.nid: dict[int, int] = {}
        self.gid: dict[int, int] = {}
        self.tid: dict[int, int] = {}
        self.attr_graphs: set[int] = set()  # graph ids already used as a node attribute
        self.funcs: dict[int, Any] = {}  # graph id -> ir.Function wrapping it (created on demand)
        self.locked: set[int] = set()  # ids of const tensors that refuse renaming
        self.views: list = []  # GraphView objects by creation index (None: dropped)

    # ---- registries
    def reg_val(self, v) -> int:
        if id(v) not in self.vid:
            self.vid[id(v)] = len(self.vals)
            self.vals.append(v)
        return self.vid[id(v)]

    def reg_node(self, n) -> int:
        if id(n) not in self.nid:
            self.nid[id(n)] = len(self.nodes)
            self.nodes.append(n)
        return self.nid[id(n)]

    def reg_graph(self, g) -> int:
        if id(g) not in self.gid:
            self.gid[id(g)] = len(self.graphs)
            self.graphs.append(g)
        return self.gid[id(g)]

    def V(self, i):
        return None if i is None else self.vals[i]

    def is_locked(self, i: int) -> bool:
        cv = self.vals[i].const_value
        return cv is not None and id(cv) in self.locked

    def GF(self, op: dict):
        """The graph an operation addresses, or (when the call is spelled through a function) the
        `ir.Function` wrapping it: Function.append/extend/insert_*/remove/sort/inputs/outputs delegate."""
        g = op["g"]
        if op.get("via") != "function":
            return self.graphs[g]
        if g not in self.funcs:
            self.funcs[g] = _ir().Function("dom", f"f{g}", graph=self.graphs[g], attributes=[])
        return self.funcs[g]

    def attr_gs(self, a) -> list:
        """graph ids an attribute holds (GRAPH: one, GRAPHS: several, anything else: none)"""
        t = a.type.name
        if t == "GRAPH":
            return [self.gid.get(id(a.value), -1)]
        if t == "GRAPHS":
            return [self.gid.get(id(x), -1) for x in a.value]
        return []

    def graph_like(self, g, func=False):
        """what a Tape / Builder is bound to: nothing, a graph, or the `ir.Function` wrapping it"""
        if g is None:
            return None
        return self.GF({"g": g, "via": "function"}) if func else self.graphs[g]

    def Vs(self, ids):
        return [self.vals[i] for i in ids]

    def Ns(self, ids):
        return [self.nodes[i] for i in ids]

    # ---- execution
    def apply(self, op: dict) -> tuple[str, str, dict]:
        """Returns (outcome, exception kind, the operation as the model takes it)."""
        self.where = ""
        self._mop = None  # the operation as the model takes it, when it differs from `op` (set before the call)
        try:
            mop = self._apply(op)
            return "ok", "", mop or self._mop or op
        except RAISES as e:
            # innermost library function on the traceback (names the sub-step of a composite call that raised)
            tb, names = e.__traceback__, []
            while tb is not None:
                if "onnx_ir" in tb.tb_frame.f_code.co_filename:
                    names.append(tb.tb_frame.f_code.co_name)
                tb = tb.tb_next
            for nm in names[1:] if len(names) > 1 else names:
                if nm in ("replace_all_uses_with", "insert_after", "remove", "name", "rename_values"):
                    self.where = nm
                    break
            else:
                self.where = names[-1] if names else ""
            # a non-Attr attribute is a type-incorrect argument: the (typed) model only knows that the call is rejected
            if (op["op"] == "newNode" and op.get("badAttr")) or (op["op"] == "sort" and not self.model_sort):
                mop = {"op": "sortCycle"}
            else:
                mop = self._mop or op
            return "raised", type(e).__name__, mop

    def _io(self, op):
        g = self.GF(op)
        return g.inputs if op["kind"] == "inp" else g.outputs

    def _apply(self, op: dict):
        ir = _ir()
        k = op["op"]
        if k == "newValue":
            self.reg_val(ir.Value(name=op["name"]))
        elif k == "setConst":
            import numpy as np

            t = locked_tensor() if op.get("locked") else ir.Tensor(np.array([1.0], dtype=np.float32))
            if op.get("locked"):
                self.locked.add(id(t))
            self.tid[id(t)] = len(self.tensors)
            self.tensors.append(t)
            self.vals[op["v"]].const_value = t
        elif k == "newNode":
            ins = [self.V(i) for i in op["inputs"]]
            outs = None if op["outputs"] is None else self.Vs(op["outputs"])
            attrs = [ir.AttrGraph(f"body{j}", self.graphs[gi]) for j, gi in enumerate(op.get("attrGraphs", []))]
            if op.get("attrGraphsList"):
                attrs.append(ir.AttrGraphs("branches", [self.graphs[gi] for gi in op["attrGraphsList"]]))
            if op.get("attrPlain"):
                attrs.append(ir.AttrInt64("alpha", 7))
            mattrs = [[a.name, self.attr_gs(a)] for a in attrs]
            if op.get("badAttr"):
                attrs = attrs + [object()]  # not an Attr: must be rejected before the outputs are claimed
            graph = None if op.get("graph") is None else self.graphs[op["graph"]]
            spell = tape_spelling(op)
            if spell is not None:
                from onnx_ir import _tape

                tape = _tape.Tape(self.graph_like(op.get("graph"), op.get("tapeFunc")))
                if spell == "op":
                    tape.op(op["opType"], ins, name=op["name"])
                elif spell == "op-output":
                    tape.op(op["opType"], ins, name=op["name"], output=outs[0])
                elif spell == "multi-num":
                    tape.op_multi_out(op["opType"], ins, num_outputs=op["numOutputs"], name=op["name"])
                else:
                    tape.op_multi_out(op["opType"], ins, outputs=outs, name=op["name"])
                n = tape.nodes[-1]
            else:
                n = ir.Node(
                    "", op["opType"], ins, attrs, num_outputs=op["numOutputs"], outputs=outs, name=op["name"], graph=graph
                )
            self.attr_graphs.update(op.get("attrGraphs", []))
            self.attr_graphs.update(op.get("attrGraphsList", []))
            self.reg_node(n)
            for o in n.outputs:
                self.reg_val(o)
            return {**op, "attrs": mattrs} if mattrs else None
        elif k == "attrEdit":
            n, key, spell = self.nodes[op["n"]], op["key"], op.get("spell")
            d = n.attributes
            a = None
            if op.get("graphs") is not None:
                a = ir.AttrGraphs(key, [self.graphs[gi] for gi in op["graphs"]])
                self.attr_graphs.update(op["graphs"])
            elif op.get("graph") is not None:
                a = ir.AttrGraph(key, self.graphs[op["graph"]])
                self.attr_graphs.add(op["graph"])
            elif op.get("plain"):
                a = ir.AttrInt64(key, 7)
            if a is not None:
                self._mop = {"op": "attrSet", "n": op["n"], "key": key, "gs": self.attr_gs(a)}
                if spell == "add":
                    d.add(a)
                elif spell == "update":
                    d.update({key: a})
                elif spell == "ior":
                    d |= {key: a}
                elif spell == "setdefault" and key not in d:
                    d.setdefault(key, a)
                else:
                    d[key] = a
            elif op.get("clear"):
                self._mop = {"op": "attrClear", "n": op["n"]}
                d.clear()
            elif spell == "popitem":
                # MutableMapping.popitem (UserDict): removes the FIRST key (`next(iter(self))`), unlike dict.popitem
                keys = list(d.keys())
                self._mop = {"op": "attrDel", "n": op["n"], "key": keys[0] if keys else "", "strict": True}
                d.popitem()
            elif spell in ("del", "pop"):
                self._mop = {"op": "attrDel", "n": op["n"], "key": key, "strict": True}
                if spell == "del":
                    del d[key]
                else:
                    d.pop(key)
            else:
                self._mop = {"op": "attrDel", "n": op["n"], "key": key, "strict": False}
                d.pop(key, None)
        elif k == "setNodeName":
            self.nodes[op["n"]].name = op["s"]
        elif k == "setOpType":
            self.nodes[op["n"]].op_type = op["s"]
        elif k == "clearConst":
            self.vals[op["v"]].const_value = None
        elif k == "tapeInitializer":
            import numpy as np

            from onnx_ir import _tape

            t = (locked_tensor(op.get("tname")) if op.get("locked")
                 else ir.Tensor(np.array([1.0], dtype=np.float32), name=op.get("tname")))
            tape = _tape.Tape(self.graph_like(op.get("g"), op.get("func")))
            self._mop = {**op, "g": None if op.get("func") else op.get("g")}

            def created():
                # the value exists as soon as the tape made it (also when the graph then refuses to register it)
                if tape.initializers:
                    if op.get("locked"):
                        self.locked.add(id(t))
                    self.tid[id(t)] = len(self.tensors)
                    self.tensors.append(t)
                    self.reg_val(tape.initializers[-1])

            try:
                tape.initializer(t, op.get("name"))
            except RAISES:
                created()
                raise
            created()
        elif k == "builderNode":
            from onnx_ir import _tape

            b = _tape.Builder(self.graph_like(op.get("g"), op.get("func")))
            outs = list(op["names"]) if op.get("names") is not None else op["k"]
            getattr(b, op["opType"])(*[self.V(i) for i in op["inputs"]], _outputs=outs)
            n = b.nodes[-1]
            self.reg_node(n)
            for o in n.outputs:
                self.reg_val(o)
        elif k == "newValueProd":
            self.reg_val(ir.Value(self.nodes[op["n"]], index=op["i"], name=op["name"]))
        elif k == "newGraph":
            g = ir.Graph(
                self.Vs(op["inputs"]), self.Vs(op["outputs"]), nodes=self.Ns(op["nodes"]), initializers=self.Vs(op["inits"])
            )
            self.reg_graph(g)
        elif k == "replaceInput":
            self.nodes[op["n"]].replace_input_with(op["idx"], self.V(op["v"]))
        elif k == "resizeInputs":
            self.nodes[op["n"]].resize_inputs(op["k"])
        elif k == "resizeOutputs":
            n = self.nodes[op["n"]]
            n.resize_outputs(op["k"])
            for o in n.outputs:
                self.reg_val(o)
        elif k == "rauw":
            self.vals[op["v"]].replace_all_uses_with(self.vals[op["r"]], replace_graph_outputs=op["rgo"])
        elif k == "io":
            lst = self._io(op)
            m = op["m"]
            if m == "append":
                lst.append(self.vals[op["v"]])
            elif m == "extend":
                lst.extend(iter(self.Vs(op["vs"])))
            elif m == "insert":
                lst.insert(op["i"], self.vals[op["v"]])
            elif m == "pop":
                lst.pop(op["i"])
            elif m == "remove":
                lst.remove(self.vals[op["v"]])
            elif m == "clear":
                lst.clear()
            elif m == "setItem":
                lst[op["i"]] = self.vals[op["v"]]
            elif m == "setSlice":
                lst[slice(op["start"], op["stop"], op["step"])] = iter(self.Vs(op["vs"]))
            elif m == "delItem":
                del lst[op["i"]]
            elif m == "delSlice":
                del lst[slice(op["start"], op["stop"], op["step"])]
            elif m == "reverse":
                lst.reverse()
            elif m == "iadd":
                lst += self.Vs(op["vs"])
            elif m == "imul":
                lst *= op["k"]
            elif m == "sort":
                keys = op["keys"]
                lst.sort(key=lambda v: keys[self.vid[id(v)]] if self.vid[id(v)] < len(keys) else 0, reverse=op["rev"])
            else:
                raise NotImplementedError(m)
        elif k == "init":
            d = self.graphs[op["g"]].initializers
            m = op["m"]
            if m == "setItem":
                d[op["key"]] = self.vals[op["v"]]
            elif m == "delItem":
                del d[op["key"]]
            elif m == "add":
                d.add(self.vals[op["v"]])
            elif m == "pop":
                d.pop(op["key"])
            elif m == "popitem":
                d.popitem()
            elif m == "clear":
                d.clear()
            elif m == "update":
                if op.get("ior"):
                    d |= {k_: self.vals[v] for k_, v in op["kvs"]}
                else:
                    d.update([(k_, self.vals[v]) for k_, v in op["kvs"]])
            elif m == "setdefault":
                d.setdefault(op["key"], self.vals[op["v"]])
            elif m == "register":
                self.graphs[op["g"]].register_initializer(self.vals[op["v"]])
            else:
                raise NotImplementedError(m)
        elif k == "setName":
            self.vals[op["v"]].name = op["s"]
        elif k == "append":
            self.GF(op).append(self.nodes[op["n"]])
        elif k == "extend":
            self.GF(op).extend(iter(self.Ns(op["ns"])))
        elif k in ("insertAfter", "insertBefore"):
            g, a, ns = self.GF(op), self.nodes[op["a"]], self.Ns(op["ns"])
            arg = ns[0] if op.get("single") and len(ns) == 1 else iter(ns)
            if op.get("via") == "node" and a.graph is self.graphs[op["g"]]:
                (a.append if k == "insertAfter" else a.prepend)(arg)
            elif k == "insertAfter":
                g.insert_after(a, arg)
            else:
                g.insert_before(a, arg)
        elif k == "remove":
            ns = self.Ns(op["ns"])
            arg = ns[0] if op.get("single") and len(ns) == 1 else iter(ns) if op.get("iter") else ns
            self.GF(op).remove(arg, safe=op["safe"])
        elif k == "rauwMany":
            import onnx_ir.convenience as conv

            vs, rs = self.Vs(op["vs"]), self.Vs(op["rs"])
            if rauw_many_is_atomic():
                self._mop = {**op, "exact": True}
            if op.get("single") and len(vs) == 1 and len(rs) == 1:
                conv.replace_all_uses_with(vs[0], rs[0], replace_graph_outputs=op["rgo"])
            else:
                conv.replace_all_uses_with(vs, rs, replace_graph_outputs=op["rgo"])
        elif k == "renameValues":
            import onnx_ir.convenience as conv

            vs = self.Vs(op["vs"])
            if op.get("single") and len(vs) == 1 and len(op["names"]) == 1:
                conv.rename_values(vs[0], op["names"][0])
            else:
                conv.rename_values(vs, list(op["names"]))
        elif k == "replaceNodesAndValues":
            import onnx_ir.convenience as conv

            if rauw_many_is_atomic():
                self._mop = {**op, "exact": True}
                if rnv_is_hoisted():
                    self._mop["hoisted"] = True
            conv.replace_nodes_and_values(
                self.GF(op),
                self.nodes[op["ip"]],
                self.Ns(op["oldNodes"]),
                self.Ns(op["newNodes"]),
                self.Vs(op["oldVals"]),
                self.Vs(op["newVals"]),
            )
        elif k == "newView":
            # one-shot iterators: the constructor must materialise its arguments (tuple(...) / one pass over initializers)
            view = ir.GraphView(
                iter(self.Vs(op["inputs"])), iter(self.Vs(op["outputs"])), nodes=iter(self.Ns(op["nodes"])),
                initializers=iter(self.Vs(op["inits"])), name=op.get("name"),
            )
            self.views.append(view)
        elif k == "viewSet":
            setattr(self.views[op["view"]], op["slot"], tuple(self.Vs(op["vs"])))
        elif k == "viewInits":
            self.views[op["view"]].initializers = {k_: self.vals[v] for k_, v in op["kvs"]}
        elif k == "viewInitPut":
            self.views[op["view"]].initializers[op["key"]] = self.vals[op["v"]]
        elif k == "viewInitDel":
            del self.views[op["view"]].initializers[op["key"]]
        elif k == "viewDrop":
            import gc

            self.views[op["view"]] = None
            gc.collect()
        elif k == "sort":
            import onnx_ir.traversal as tr

            if self.model_sort:
                # the model computes the sort itself (C12's sort model on the tree it reads off its own state)
                self._mop = {"op": "sort", "g": op["g"]}
                self.GF(op).sort()
            else:
                g = self.graphs[op["g"]]
                involved = list(dict.fromkeys(id(n.graph) for n in tr.RecursiveGraphIterator(g) if n.graph is not None))
                self.GF(op).sort()
                orders = [[self.gid[gi], [self.nid[id(n)] for n in self.graphs[self.gid[gi]]]] for gi in involved]
                return {"op": "sortOk", "orders": orders, "g": op["g"]}
        else:
            raise NotImplementedError(k)
        return None

    # ---- canonical dump for the correspondence (same shape as Drive/Kernel.lean `worldJ`)
    def _v(self, v):
        return None if v is None else self.vid.get(id(v), -1)

    def _n(self, n):
        return None if n is None else self.nid.get(id(n), -1)

    def _g(self, g):
        return None if g is None else self.gid.get(id(g), -1)

    def snapshot(self) -> dict:
        vals = []
        for v in self.vals:
            vals.append(
                {
                    "name": v.name,
                    "producer": self._n(v.producer()),
                    "index": v.index(),
                    "uses": [[self._n(u.node), u.idx] for u in v.uses()],
                    "graph": self._g(v._graph),
                    "in": v.is_graph_input(),
                    "out": v.is_graph_output(),
                    "init": v.is_initializer(),
                    "const": None if v.const_value is None else self.tid.get(id(v.const_value), -1),
                }
            )
        nodes = []
        for n in self.nodes:
            nodes.append(
                {
                    "inputs": [self._v(x) for x in n.inputs],
                    "outputs": [self._v(x) for x in n.outputs],
                    "graph": self._g(n.graph),
                    "name": n.name,
                    "opType": n.op_type,
                    "attrs": [[k_, self.attr_gs(a)] for k_, a in n.attributes.items()],
                }
            )
        graphs = []
        for g in self.graphs:
            na = g._name_authority
            graphs.append(
                {
                    "inputs": [self._v(x) for x in g.inputs],
                    "outputs": [self._v(x) for x in g.outputs],
                    "incnt": sorted([self._v(x), c] for x, c in g.inputs._ref_counter.items() if c != 0),
                    "outcnt": sorted([self._v(x), c] for x, c in g.outputs._ref_counter.items() if c != 0),
                    "inits": [[k, self._v(x)] for k, x in g.initializers.items()],
                    "nodes": [self._n(x) for x in g],
                    "vctr": na._value_counter,
                    "nctr": na._node_counter,
                    "vnames": sorted(na._value_names),
                    "nnames": sorted(na._node_names),
                }
            )
        return {"values": vals, "nodes": nodes, "graphs": graphs, "tensors": [t.name for t in self.tensors]}

    def views_snapshot(self) -> list:
        """What every live GraphView shows (same shape as Drive/Kernel.lean `viewJ`); read through the view's public
        members: the slots and the Sequence protocol."""
        out = []
        for view in self.views:
            if view is None:
                out.append(None)
                continue
            seq = list(view)
            assert len(view) == len(seq) and [id(n) for n in reversed(view)] == [id(n) for n in reversed(seq)]
            assert all(view[i] is n for i, n in enumerate(seq))
            out.append({
                "inputs": [self._v(x) for x in view.inputs],
                "outputs": [self._v(x) for x in view.outputs],
                "inits": [[k_, self._v(x)] for k_, x in view.initializers.items()],
                "nodes": [self._n(x) for x in seq],
            })
        return out


VIEW_OPS = ("newView", "viewSet", "viewInits", "viewInitPut", "viewInitDel", "viewDrop")


def delta(prev: dict, cur: dict) -> dict:
    """Records that are new or differ from the previous snapshot (stores never shrink)."""
    out = {}
    for key in ("values", "nodes", "graphs", "tensors"):
        p, c = prev.get(key, []), cur[key]
        out[key] = [[i, r] for i, r in enumerate(c) if i >= len(p) or p[i] != r]
    return out


# --------------------------------------------------------------------------- C01 oracle (public accessors only)


def wf_oracle(real: Real) -> list[str]:
    """The C01 invariant on the real objects. Returns the list of violated clauses (empty = holds).
    An accessor of the real code that raises while the invariant is being evaluated (e.g. `node.outputs` of a node a
    rejected constructor left half built) is a violated clause, never a harness crash."""
    bad: list[str] = []
    try:
        _wf_oracle(real, bad)
    except Exception as e:  # noqa: BLE001 - real code called on a possibly broken state
        bad.append(f"oracle:accessor raised {type(e).__name__} while the invariant was evaluated ({str(e)[:120]})")
    return bad


def _wf_oracle(real: Real, bad: list[str]) -> None:
    vals, nodes, graphs = real.vals, real.nodes, real.graphs
    known_v = {id(v) for v in vals}
    known_n = {id(n) for n in nodes}
    known_g = {id(g) for g in graphs}
    # I_use
    for vi, v in enumerate(vals):
        uses = list(v.uses())
        seen = set()
        for u in uses:
            key = (id(u.node), u.idx)
            if key in seen:
                bad.append(f"use:duplicate v{vi}")
            seen.add(key)
            if id(u.node) not in known_n:
                bad.append(f"use:unknown-node v{vi}")
                continue
            ins = u.node.inputs
            if not (0 <= u.idx < len(ins)) or ins[u.idx] is not v:
                bad.append(f"use:stale v{vi} lists (n{real.nid[id(u.node)]},{u.idx})")
        if [id(n) for n in v.consumers()] != list(dict.fromkeys(id(u.node) for u in uses)):
            bad.append(f"use:consumers v{vi}")
    for ni, n in enumerate(nodes):
        for i, x in enumerate(n.inputs):
            if x is None:
                continue
            if id(x) not in known_v:
                bad.append(f"use:unknown-value n{ni}[{i}]")
                continue
            if not any(u.node is n and u.idx == i for u in x.uses()):
                bad.append(f"use:missing n{ni}[{i}] not in uses of v{real.vid[id(x)]}")
    # I_prod
    for ni, n in enumerate(nodes):
        for i, x in enumerate(n.outputs):
            if id(x) not in known_v:
                bad.append(f"prod:unknown-value n{ni} out[{i}]")
            if x.producer() is not n or x.index() != i:
                bad.append(f"prod:output n{ni}[{i}] does not name its producer/index")
    for vi, v in enumerate(vals):
        p = v.producer()
        if p is not None:
            idx = v.index()
            try:
                outs = p.outputs
            except Exception as e:  # noqa: BLE001 - a node whose constructor was rejected half way has no outputs tuple
                bad.append(f"prod:value v{vi} names a producer whose outputs cannot be read ({type(e).__name__})")
                continue
            if id(p) not in known_n or idx is None or not (0 <= idx < len(outs)) or outs[idx] is not v:
                bad.append(f"prod:value v{vi} names a producer that does not list it")
    # I_root
    for vi, v in enumerate(vals):
        if (v.is_graph_input() or v.is_initializer()) and v.producer() is not None:
            bad.append(f"root:v{vi} is input/initializer but has a producer")
    # I_node
    for gi, g in enumerate(graphs):
        seq = list(g)
        if len({id(n) for n in seq}) != len(seq):
            bad.append(f"node:g{gi} lists a node twice")
        if len(g) != len(seq) or [id(n) for n in reversed(g)] != [id(n) for n in reversed(seq)]:
            bad.append(f"node:g{gi} len/reversed disagree with iteration")
        for n in seq:
            if n.graph is not g:
                bad.append(f"node:g{gi} contains n{real.nid.get(id(n), '?')} whose graph is another")
    for ni, n in enumerate(nodes):
        g = n.graph
        if g is not None:
            if id(g) not in known_g:
                bad.append(f"node:n{ni} names an unknown graph")
            elif not any(m is n for m in g):
                bad.append(f"node:n{ni} names g{real.gid[id(g)]} which does not contain it")
    # I_own / I_key
    for gi, g in enumerate(graphs):
        for what, coll, flag in (
            ("input", list(g.inputs), "is_graph_input"),
            ("output", list(g.outputs), "is_graph_output"),
            ("initializer", list(g.initializers.values()), "is_initializer"),
        ):
            for v in coll:
                if id(v) not in known_v:
                    bad.append(f"own:g{gi} {what} unknown value")
                    continue
                if not getattr(v, flag)():
                    bad.append(f"own:g{gi} lists v{real.vid[id(v)]} as {what} but {flag}() is False")
                if v.graph is not g:
                    bad.append(f"own:g{gi} lists v{real.vid[id(v)]} as {what} but its graph is another")
        keys = list(g.initializers.keys())
        for k, v in g.initializers.items():
            if v.name != k:
                bad.append(f"key:g{gi} stores v{real.vid.get(id(v), '?')} named {v.name!r} under {k!r}")
            if not k:
                bad.append(f"key:g{gi} has an empty key")
        vs = [id(v) for v in g.initializers.values()]
        if len(set(vs)) != len(vs):
            bad.append(f"key:g{gi} stores a value twice")
    for vi, v in enumerate(vals):
        flags = (v.is_graph_input(), v.is_graph_output(), v.is_initializer())
        owner = v.graph
        if any(flags):
            if owner is None or id(owner) not in known_g:
                bad.append(f"own:v{vi} is flagged {flags} but its graph is unknown/None")
                continue
            if flags[0] and not any(x is v for x in owner.inputs):
                bad.append(f"own:v{vi} is_graph_input but not in its graph's inputs")
            if flags[1] and not any(x is v for x in owner.outputs):
                bad.append(f"own:v{vi} is_graph_output but not in its graph's outputs")
            if flags[2] and not any(x is v for x in owner.initializers.values()):
                bad.append(f"own:v{vi} is_initializer but not in its graph's initializers")
        else:
            p = v.producer()
            if owner is not (p.graph if p is not None else None):
                bad.append(f"own:v{vi} is not flagged but names a graph")


# --------------------------------------------------------------------------- C06 oracle


def deep_snapshot(real: Real, limit: tuple | None = None) -> Any:
    """`_deep_snapshot`, total: an accessor of the real code that raises makes the snapshot `("UNREADABLE", what)`
    (unequal to every readable snapshot), never a harness crash."""
    try:
        return _deep_snapshot(real, limit)
    except Exception as e:  # noqa: BLE001 - real code called on a possibly broken state
        return ("UNREADABLE", f"{type(e).__name__}: {str(e)[:120]}")


def _deep_snapshot(real: Real, limit: tuple | None = None) -> Any:
    """Every public accessor of every registered object (+ the name authority, whose state decides later
    generated names, and the tracked lists' reference counters, which decide when a later removal clears an
    ownership flag). Separate implementation from `Real.snapshot`."""
    ix_v, ix_n, ix_g = real.vid, real.nid, real.gid

    def V(x):
        return None if x is None else ("v", ix_v.get(id(x), id(x)))

    def N(x):
        return None if x is None else ("n", ix_n.get(id(x), id(x)))

    def G(x):
        return None if x is None else ("g", ix_g.get(id(x), id(x)))

    nv, nn, ng = limit or (len(real.vals), len(real.nodes), len(real.graphs))
    out = []
    for v in real.vals[:nv]:
        cv = v.const_value
        out.append(
            (
                "V",
                v.name,
                N(v.producer()),
                v.index(),
                tuple((N(u.node), u.idx) for u in v.uses()),
                tuple(N(n) for n in v.consumers()),
                G(v.graph),
                v.is_graph_input(),
                v.is_graph_output(),
                v.is_initializer(),
                None if cv is None else (id(cv), cv.name),
                repr(v.type),
                repr(v.shape),
                v.doc_string,
                tuple(sorted(v.metadata_props.items())),
                repr(sorted(dict(v.meta).items(), key=repr)),
            )
        )
    for n in real.nodes[:nn]:
        out.append(
            (
                "N",
                n.name,
                n.domain,
                n.op_type,
                n.overload,
                n.version,
                tuple(V(x) for x in n.inputs),
                tuple(V(x) for x in n.outputs),
                G(n.graph),
                tuple(
                    sorted(
                        (k, G(a.value) if a.type.name == "GRAPH" else tuple(G(x) for x in a.value) if a.type.name == "GRAPHS" else repr(a.value))
                        for k, a in n.attributes.items()
                    )
                ),
                repr(n.device_configurations),
                repr(sorted(dict(n.meta).items(), key=repr)),
                n.doc_string,
                tuple(sorted(n.metadata_props.items())),
                tuple(N(x) for x in n.predecessors()),
                tuple(N(x) for x in n.successors()),
            )
        )
    for g in real.graphs[:ng]:
        na = g._name_authority
        out.append(
            (
                "G",
                g.name,
                tuple(V(x) for x in g.inputs),
                tuple(V(x) for x in g.outputs),
                tuple((k, V(x)) for k, x in g.initializers.items()),
                tuple(N(x) for x in g),
                tuple(N(x) for x in reversed(g)),
                len(g),
                g.doc_string,
                tuple(sorted(g.opset_imports.items())),
                tuple(sorted(g.metadata_props.items())),
                repr(sorted(dict(g.meta).items(), key=repr)),
                (na._value_counter, na._node_counter, tuple(sorted(na._value_names)), tuple(sorted(na._node_names))),
                # per-list reference counters: latent state that decides when a later removal clears the
                # is_graph_input / is_graph_output flag (read like the name authority, for the same reason)
                tuple(sorted((ix_v.get(id(x), -1), c) for x, c in g.inputs._ref_counter.items() if c != 0)),
                tuple(sorted((ix_v.get(id(x), -1), c) for x, c in g.outputs._ref_counter.items() if c != 0)),
            )
        )
    return tuple(out)


def first_diff(a: Any, b: Any) -> str:
    for x in (a, b):
        if x and x[0] == "UNREADABLE":
            return f"an object can no longer be read through its public accessors ({x[1]})"
    if len(a) != len(b):
        return f"object count {len(a)} -> {len(b)}"
    kinds = {"V": 0, "N": 0, "G": 0}
    for x, y in zip(a, b):
        i = kinds[x[0]]
        kinds[x[0]] += 1
        if x != y:
            for j, (p, q) in enumerate(zip(x, y)):
                if p != q:
                    return f"{x[0].lower()}{i} field {j}: {p!r} -> {q!r}"
    return ""


# --------------------------------------------------------------------------- generator


class Gen:
    """Random operations over the current real state. Ids always denote existing objects of the right
    class (the model is typed); everything else may be invalid on purpose."""

    def __init__(self, rng: random.Random, real: Real, p_invalid: float = 0.3, extended: bool = False,
                 views: bool = False):
        # extended: also generate the calls added in round 3 (Node.name=, op_type=, const_value=None, list.sort, every
        # attribute-dict mutator, Tape / Builder, one-shot iterators for remove, a node listed twice)
        self.rng, self.real, self.p_invalid, self.extended = rng, real, p_invalid, extended
        # views: also create / edit / drop GraphView objects (round 4; C01 / C06 only - other users of this generator
        # keep their alphabet)
        self.views = views
        self.focus: dict | None = None  # after a rejected call: keep working on the same container and value

    def after(self, op: dict, outcome: str) -> None:
        """Told the outcome of every call: a rejected call on a collection makes the next 3-6 calls reuse the
        same collection and the same value / node (delayed effects of a half-applied rejection show up there)."""
        if outcome != "raised" or self.rng.random() > 0.85:
            return
        k = op["op"]
        n = self.rng.randint(3, 6)
        if k == "io":
            vs = ([op["v"]] if "v" in op else []) + list(op.get("vs", []))
            v = self.rng.choice(vs) if vs else self.any_val()
            self.focus = {"kind": "io", "g": op["g"], "io": op["kind"], "v": v, "left": n}
        elif k == "init":
            vs = ([op["v"]] if "v" in op else []) + [p[1] for p in op.get("kvs", [])]
            v = self.rng.choice(vs) if vs else self.any_val()
            self.focus = {"kind": "init", "g": op["g"], "v": v, "left": n}
        elif k in ("append", "extend", "insertAfter", "insertBefore", "remove"):
            ns = ([op["n"]] if "n" in op else []) + list(op.get("ns", []))
            self.focus = {"kind": "node", "g": op["g"], "n": self.rng.choice(ns), "left": n}

    def focused(self) -> dict:
        f, rng, real = self.focus, self.rng, self.real
        f["left"] -= 1
        if f["left"] <= 0:
            self.focus = None
        g = f["g"]
        if f["kind"] == "io":
            v, kind = f["v"], f["io"]
            lst = real.graphs[g].inputs if kind == "inp" else real.graphs[g].outputs
            m = rng.choice(["append", "append", "extend", "insert", "pop", "remove", "delItem", "setItem"])
            op = {"op": "io", "g": g, "kind": kind, "m": m}
            if m in ("append", "remove"):
                op["v"] = v
            elif m == "extend":
                op["vs"] = [v, v]
            elif m in ("insert", "setItem"):
                op.update(i=self.small_int(len(lst)), v=v)
            else:
                op["i"] = rng.choice([-1, 0, -1, self.small_int(len(lst))])
            return op
        if f["kind"] == "init":
            v = f["v"]
            nm = real.vals[v].name
            m = rng.choice(["setItem", "add", "register", "pop", "delItem", "setdefault", "popitem"])
            op = {"op": "init", "g": g, "m": m}
            if m in ("setItem", "setdefault"):
                op.update(key=nm if nm else self.key(g), v=v)
            elif m in ("add", "register"):
                op["v"] = v
            elif m in ("pop", "delItem"):
                op["key"] = nm if nm else self.key(g)
            return op
        n = f["n"]
        m = rng.choice(["append", "extend", "remove", "remove", "insertAfter", "insertBefore"])
        if m == "append":
            return {"op": "append", "g": g, "n": n}
        if m == "extend":
            return {"op": "extend", "g": g, "ns": [n, n]}
        if m == "remove":
            return {"op": "remove", "g": g, "ns": [n], "safe": rng.random() < 0.4}
        inside = [real.nid[id(x)] for x in real.graphs[g]]
        a = rng.choice(inside) if inside else n
        return {"op": m, "g": g, "a": a, "ns": [n]}

    # -- pickers
    def val(self, pred=None):
        vs = [i for i, v in enumerate(self.real.vals) if pred is None or pred(v)]
        return self.rng.choice(vs) if vs else None

    def any_val(self):
        return self.rng.randrange(len(self.real.vals))

    def free_val(self, g=None):
        """a value that graph `g` would accept as an input (no producer, not owned elsewhere)"""
        G = None if g is None else self.real.graphs[g]
        return self.val(lambda v: v.producer() is None and (v._graph is None or v._graph is G))

    def out_val(self, g=None):
        G = None if g is None else self.real.graphs[g]
        return self.val(lambda v: v._graph is None or v._graph is G)

    def invalid(self) -> bool:
        return self.rng.random() < self.p_invalid

    def some_vals(self, picker, kmax=3):
        out = []
        for _ in range(self.rng.choice([0, 1, 1, 2, 2, kmax])):
            x = self.any_val() if self.invalid() else picker()
            if x is None:
                x = self.any_val()
            out.append(x)
        return out

    def node(self, pred=None):
        ns = [i for i, n in enumerate(self.real.nodes) if pred is None or pred(n)]
        return self.rng.choice(ns) if ns else None

    def addable_node(self, g):
        G = self.real.graphs[g]
        return self.node(lambda n: n.graph is None or n.graph is G)

    def some_nodes(self, g, kmax=3):
        out = []
        for _ in range(self.rng.choice([1, 1, 1, 2, 2, kmax])):
            x = self.rng.randrange(len(self.real.nodes)) if self.invalid() else self.addable_node(g)
            if x is None:
                x = self.rng.randrange(len(self.real.nodes))
            out.append(x)
        return out

    def small_int(self, n):
        r = self.rng.random()
        if n and r < 0.7:
            return self.rng.randrange(n)
        if n and r < 0.85:
            return -self.rng.randrange(1, n + 1)
        return self.rng.choice([n, n + 1, -n - 1, -n - 2, 0, -1])

    def slice_part(self, n):
        return self.rng.choice([None, None, 0, 1, 2, -1, -2, n, n + 2, -n - 1])

    def key(self, g):
        d = list(self.real.graphs[g].initializers.keys())
        pool = d + d + NAME_POOL
        return self.rng.choice(pool)

    # -- operations
    def op(self) -> dict:
        real, rng = self.real, self.rng
        nv, nn, ng = len(real.vals), len(real.nodes), len(real.graphs)
        if nv == 0:
            return self.new_value()
        if self.focus is not None and rng.random() < 0.85:
            return self.focused()
        w = [
            (self.new_value, 3 if nv < MAX_VALUES else 0),
            (self.set_const, 1),
            (self.new_node, 4 if nn < MAX_NODES and nv < MAX_VALUES else 0),
            (self.new_graph, (3 if ng < 2 else 1) if ng < MAX_GRAPHS else 0),
            (self.replace_input, 3 if nn else 0),
            (self.resize_inputs, 1 if nn else 0),
            (self.resize_outputs, 1 if nn and nv < MAX_VALUES else 0),
            (self.rauw, 3),
            (self.set_name, 3),
            (self.io, 8 if ng else 0),
            (self.init, 6 if ng else 0),
            (self.membership, 6 if ng and nn else 0),
            (self.remove, 2 if ng and nn else 0),
            (self.sort, (2 if self.extended else 1) if ng and nn else 0),
            (self.attr_edit, (2 if self.extended else 1) if ng and nn else 0),
            (self.set_node_name, 1.5 if nn and self.extended else 0),
            (self.set_op_type, 0.7 if nn and self.extended else 0),
            (self.clear_const, 0.5 if self.extended else 0),
            (self.tape_initializer, 1.2 if nv < MAX_VALUES and self.extended else 0),
            (self.builder_node, 1.2 if nn < MAX_NODES and nv < MAX_VALUES - 2 and self.extended else 0),
            (self.new_value_prod, 0.15 if nn and nv < MAX_VALUES else 0),
            (self.rauw_many, 2),
            (self.rename_values, 3),
            (self.replace_nodes_and_values, 2 if ng and nn else 0),
            (self.view_op, 3.5 if self.views else 0),
        ]
        fns, weights = zip(*[(f, x) for f, x in w if x > 0])
        op = rng.choices(fns, weights)[0]()
        if op["op"] in VIA_FUNCTION and "via" not in op and rng.random() < 0.2:
            op["via"] = "function"
        return op

    def new_value(self):
        return {"op": "newValue", "name": self.rng.choice(NAME_POOL + [None, None, None])}

    def view_op(self):
        """GraphView: construction from arbitrary values / nodes (owned by any graph or none, repeated, unnamed
        initializers -> ValueError), slot assignment, edits of the view's plain initializer dict, dropping the view"""
        rng, real = self.rng, self.real
        live = [i for i, v in enumerate(real.views) if v is not None]

        def vals(kmax=3):
            return [self.any_val() for _ in range(rng.choice([0, 1, 2, 2, kmax]))]

        r = rng.random()
        if not live or r < 0.22:
            if real.graphs and rng.random() < 0.5:
                # the documented use: a view on (part of) an existing graph
                G = rng.choice(real.graphs)
                ns = [real.nid[id(n)] for n in G]
                return {"op": "newView", "inputs": [real.vid[id(v)] for v in G.inputs],
                        "outputs": [real.vid[id(v)] for v in G.outputs], "nodes": ns[: rng.randint(0, len(ns))],
                        "inits": [real.vid[id(v)] for v in G.initializers.values()]}
            named = [i for i, v in enumerate(real.vals) if v.name]
            inits = [rng.choice(named) if named and not self.invalid() else self.any_val()
                     for _ in range(rng.choice([0, 0, 1, 2]))]
            nodes = [self.node() for _ in range(rng.choice([0, 1, 2]))] if real.nodes else []
            return {"op": "newView", "inputs": vals(), "outputs": vals(), "nodes": nodes, "inits": inits}
        i = rng.choice(live)
        if r < 0.42:
            return {"op": "viewSet", "view": i, "slot": "inputs", "vs": vals()}
        if r < 0.62:
            return {"op": "viewSet", "view": i, "slot": "outputs", "vs": vals()}
        keys = list(real.views[i].initializers.keys())
        if r < 0.76:
            return {"op": "viewInits", "view": i, "kvs": [[rng.choice(NAME_POOL + keys), self.any_val()]
                                                          for _ in range(rng.choice([0, 1, 2]))]}
        if r < 0.88:
            return {"op": "viewInitPut", "view": i, "key": rng.choice(NAME_POOL + keys), "v": self.any_val()}
        if r < 0.95:
            return {"op": "viewInitDel", "view": i, "key": rng.choice(keys + keys + NAME_POOL)}
        return {"op": "viewDrop", "view": i}

    def attr_edit(self):
        rng, real = self.rng, self.real
        n = self.node()
        gs = list(range(len(real.graphs)))
        r = rng.random()
        if not self.extended:
            op = {"op": "attrEdit", "n": n, "key": rng.choice(["body0", "branches", "extra"])}
            if r < 0.4:
                op["graph"] = rng.choice(gs)
            elif r < 0.75:
                op["graphs"] = [rng.choice(gs) for _ in range(rng.choice([1, 2]))]
            return op
        present = list(real.nodes[n].attributes.keys())
        op = {"op": "attrEdit", "n": n, "key": rng.choice(["body0", "branches", "extra", "alpha"] + present)}
        if r < 0.3:
            op["graph"] = rng.choice(gs)  # may be a graph already held by another attribute (shared)
        elif r < 0.55:
            op["graphs"] = [rng.choice(gs) for _ in range(rng.choice([1, 2]))]
        elif r < 0.65:
            op["plain"] = True
        elif r < 0.7:
            op["clear"] = True
            return op
        if r < 0.65:
            op["spell"] = rng.choice(["setitem", "setitem", "add", "update", "ior", "setdefault"])
        else:
            op["spell"] = rng.choice(["pop-default", "pop-default", "del", "pop", "popitem"])
        return op

    def set_node_name(self):
        n = self.node()
        g = self.real.nodes[n].graph
        taken = sorted(g._name_authority._node_names) if g is not None else []
        return {"op": "setNodeName", "n": n, "s": self.rng.choice(NODE_NAME_POOL + taken[:3] + [None, None, "node_Id_0"])}

    def set_op_type(self):
        return {"op": "setOpType", "n": self.node(), "s": self.rng.choice(OP_TYPES)}

    def clear_const(self):
        with_const = [i for i, v in enumerate(self.real.vals) if v.const_value is not None]
        v = self.rng.choice(with_const) if with_const and self.rng.random() < 0.8 else self.any_val()
        return {"op": "clearConst", "v": v}

    def tape_initializer(self):
        rng, real = self.rng, self.real
        keys = [k for g in real.graphs for k in g.initializers.keys()]
        op = {
            "op": "tapeInitializer",
            "g": rng.randrange(len(real.graphs)) if real.graphs and rng.random() < 0.8 else None,
            "name": rng.choice(NAME_POOL + keys + [None, None]),
            "tname": rng.choice([None, None, "t", "w", ""] + keys),
        }
        if rng.random() < 0.25:
            op["locked"] = True
        if op["g"] is not None and rng.random() < 0.2:
            op["func"] = True  # a tape bound to a Function does not register initializers
        return op

    def builder_node(self):
        rng, real = self.rng, self.real
        ins = [None if rng.random() < 0.15 else self.any_val() for _ in range(rng.choice([0, 1, 2, 2]))]
        k = rng.choice([1, 1, 2, 0, 3])
        op = {
            "op": "builderNode",
            "g": rng.randrange(len(real.graphs)) if real.graphs and rng.random() < 0.85 else None,
            "opType": rng.choice(OP_TYPES), "inputs": ins, "k": k, "names": None,
        }
        if rng.random() < 0.6:
            op["names"] = [rng.choice(NAME_POOL[:-1] + ["val_3", "o"]) for _ in range(k)]
        if op["g"] is not None and rng.random() < 0.2:
            op["func"] = True
        return op

    def new_value_prod(self):
        n = self.node()
        return {"op": "newValueProd", "n": n, "i": self.rng.choice([0, 1, 5]), "name": None}

    def set_const(self):
        v = self.any_val()
        op = {"op": "setConst", "v": v}
        # a tensor that refuses renaming (read-only name); on an unnamed value it meets the implicit naming paths
        if self.rng.random() < 0.35:
            op["locked"] = True
        return op

    def new_node(self):
        rng, real = self.rng, self.real
        nv = len(real.vals)
        ins = [None if rng.random() < 0.15 else self.any_val() for _ in range(rng.choice([0, 1, 1, 2, 2, 3]))]
        outputs, num = None, None
        if rng.random() < 0.55:
            num = rng.choice([None, None, 1, 2, 2, 3, 0, -1])
        else:
            cand = [i for i, v in enumerate(real.vals) if v.producer() is None and v._graph is None]
            r = rng.random()
            if cand and r < 0.6:
                outputs = rng.sample(cand, min(len(cand), rng.choice([1, 1, 2])))
            elif r < 0.85:
                outputs = [rng.randrange(nv) for _ in range(rng.choice([1, 2, 3]))]  # produced / owned / repeated
            elif cand:
                c = rng.choice(cand)
                outputs = [c, c]
            else:
                outputs = []
            num = rng.choice([None, None, len(outputs), len(outputs) + 1])
        op = {
            "op": "newNode",
            "opType": rng.choice(OP_TYPES),
            "name": rng.choice(NODE_NAME_POOL + [None, None, None]),
            "inputs": ins,
            "numOutputs": num,
            "outputs": outputs,
            "graph": rng.randrange(len(real.graphs)) if real.graphs and rng.random() < 0.4 else None,
        }
        free_g = [i for i in range(len(real.graphs)) if i not in real.attr_graphs and i != op["graph"]]
        any_g = [i for i in range(len(real.graphs)) if i != op["graph"]]
        r = rng.random()
        if free_g and r < 0.2:
            op["attrGraphs"] = [rng.choice(free_g)]
        elif any_g and r < 0.28:
            op["attrGraphsList"] = [rng.choice(any_g) for _ in range(rng.choice([1, 2]))]  # GRAPHS; may share a graph
        elif r < 0.33:
            op["badAttr"] = True
        elif not self.extended:
            pass
        elif r < 0.4:
            op["attrPlain"] = True
        elif r < 0.62:
            op["via"] = "tape"  # Tape(graph).op / op_multi_out when the arguments can be spelled that way
            if op["graph"] is not None and rng.random() < 0.25:
                op["tapeFunc"] = True
        return op

    def new_graph(self):
        rng = self.rng
        save, self.p_invalid = self.p_invalid, self.p_invalid / 3
        try:
            return self._new_graph()
        finally:
            self.p_invalid = save

    def _new_graph(self):
        rng = self.rng
        g = len(self.real.graphs)  # a fresh graph accepts only unowned values / free nodes
        nodes = []
        for _ in range(rng.choice([0, 0, 1, 2])):
            x = self.node() if self.invalid() else self.node(lambda n: n.graph is None)
            if x is not None:
                nodes.append(x)
        inits = []
        for _ in range(rng.choice([0, 0, 1, 2])):
            x = self.any_val() if self.invalid() else self.val(
                lambda v: v.name and v.producer() is None and v._graph is None
            )
            if x is not None:
                inits.append(x)
        return {
            "op": "newGraph",
            "inputs": self.some_vals(lambda: self.val(lambda v: v.producer() is None and v._graph is None), 3),
            "outputs": self.some_vals(lambda: self.val(lambda v: v._graph is None), 3),
            "nodes": nodes,
            "inits": inits,
        }

    def replace_input(self):
        n = self.node()
        ln = len(self.real.nodes[n].inputs)
        idx = self.rng.randrange(ln) if ln and self.rng.random() < 0.8 else self.rng.choice([-1, -2, ln, ln + 1, 0])
        return {"op": "replaceInput", "n": n, "idx": idx, "v": None if self.rng.random() < 0.15 else self.any_val()}

    def resize_inputs(self):
        return {"op": "resizeInputs", "n": self.node(), "k": self.rng.choice([0, 1, 2, 3, 4, -1, -2])}

    def resize_outputs(self):
        return {"op": "resizeOutputs", "n": self.node(), "k": self.rng.choice([0, 1, 1, 2, 3, -1, -2])}

    def rauw(self):
        v = self.any_val()
        if self.rng.random() < 0.4:
            v = self.val(lambda x: x.is_graph_output() or x.uses()) or v
        g = self.real.vals[v]._graph
        gi = None if g is None else self.real.gid[id(g)]
        r = self.any_val() if self.invalid() else (self.out_val(gi) or self.any_val())
        return {"op": "rauw", "v": v, "r": r, "rgo": self.rng.random() < 0.7}

    def set_name(self):
        v = self.any_val()
        r = self.rng.random()
        if r < 0.5:
            v = self.val(lambda x: x.is_initializer()) or v
        elif r < 0.65:
            locked = [i for i in range(len(self.real.vals)) if self.real.is_locked(i)]
            v = self.rng.choice(locked) if locked else v
        keys = [k for g in self.real.graphs for k in g.initializers.keys()]
        return {"op": "setName", "v": v, "s": self.rng.choice(NAME_POOL + keys + [None])}

    def io(self):
        rng, real = self.rng, self.real
        g = rng.randrange(len(real.graphs))
        kind = rng.choice(["inp", "out"])
        lst = real.graphs[g].inputs if kind == "inp" else real.graphs[g].outputs
        n = len(lst)
        pick = (lambda: self.free_val(g)) if kind == "inp" else (lambda: self.out_val(g))

        def one():
            x = self.any_val() if self.invalid() else pick()
            return self.any_val() if x is None else x

        m = rng.choice(
            ["append"] * 4 + ["extend"] * 3 + ["insert"] * 3 + ["pop"] * 2 + ["remove"] * 2 + ["clear"]
            + ["setItem"] * 3 + ["setSlice"] * 3 + ["delItem"] * 2 + ["delSlice"] * 2 + ["reverse", "iadd", "imul"]
            + (["sort"] * 2 if self.extended else [])
        )
        op = {"op": "io", "g": g, "kind": kind, "m": m}
        if m in ("append",):
            op["v"] = one()
        elif m in ("extend", "iadd"):
            op["vs"] = self.some_vals(pick, 3)
        elif m == "insert":
            op.update(i=self.small_int(n), v=one())
        elif m in ("pop", "delItem"):
            op["i"] = self.small_int(n)
        elif m == "remove":
            inside = [real.vid[id(x)] for x in lst]
            G = real.graphs[g]
            other_role = [i for i, x in enumerate(real.vals) if x._graph is G and not any(y is x for y in lst)]
            r = rng.random()
            if inside and r < 0.65:
                op["v"] = rng.choice(inside)
            elif other_role and r < 0.9:
                op["v"] = rng.choice(other_role)  # owned by this graph in another role, not in this list
            else:
                op["v"] = self.any_val()
        elif m == "setItem":
            op.update(i=self.small_int(n), v=one())
        elif m in ("setSlice", "delSlice"):
            step = rng.choice([None, None, None, 1, 2, -1, -2, 0])
            op.update(start=self.slice_part(n), stop=self.slice_part(n), step=step)
            if m == "setSlice":
                if step in (None, 1) or self.invalid():
                    op["vs"] = self.some_vals(pick, 3)
                else:
                    k = len(range(*slice(op["start"], op["stop"], step).indices(n))) if step else 1
                    op["vs"] = [one() for _ in range(k)]
        elif m == "imul":
            op["k"] = rng.choice([0, 1, 2])
        elif m == "sort":
            # list.sort(key=f, reverse=...): the key function, tabulated by value (few distinct keys: ties -> stability)
            op.update(keys=[rng.randrange(3) for _ in range(len(real.vals))], rev=rng.random() < 0.4)
        return op

    def init(self):
        rng, real = self.rng, self.real
        g = rng.randrange(len(real.graphs))
        G = real.graphs[g]
        m = rng.choice(
            ["setItem"] * 4 + ["delItem"] * 2 + ["add"] * 3 + ["pop"] * 2 + ["popitem", "clear"] + ["update"] * 2
            + ["setdefault"] * 2 + ["register"] * 3
        )
        op = {"op": "init", "g": g, "m": m}

        def cand():
            x = self.any_val() if self.invalid() else self.val(
                lambda v: v.producer() is None and (v._graph is None or v._graph is G)
            )
            return self.any_val() if x is None else x

        def key_for(v):
            nm = real.vals[v].name
            return nm if nm and not self.invalid() else self.key(g)

        if m in ("setItem", "setdefault"):
            v = cand()
            op.update(key=key_for(v), v=v)
        elif m in ("delItem", "pop"):
            op["key"] = self.key(g)
        elif m in ("add", "register"):
            op["v"] = cand()
        elif m == "update":
            kvs = []
            for _ in range(rng.choice([1, 1, 2, 3])):
                v = cand()
                kvs.append([key_for(v), v])
            if len({k for k, _ in kvs}) == len(kvs) and rng.random() < 0.3:
                op["ior"] = True  # `|=` takes a dict: keys must be distinct to denote the same entries
            op["kvs"] = kvs
        return op

    def membership(self):
        rng, real = self.rng, self.real
        g = rng.randrange(len(real.graphs))
        G = real.graphs[g]
        m = rng.choice(["append"] * 3 + ["extend"] * 3 + ["insertAfter"] * 3 + ["insertBefore"] * 3)
        if m == "append":
            x = self.node() if self.invalid() else self.addable_node(g)
            return {"op": "append", "g": g, "n": self.node() if x is None else x}
        ns = self.some_nodes(g)
        if ns and self.extended and rng.random() < 0.15:
            ns = ns + [rng.choice(ns)]  # the same node listed twice
        if m == "extend":
            return {"op": "extend", "g": g, "ns": ns}
        a = self.node() if self.rng.random() < 0.12 else self.node(lambda n: n.graph is G)
        if a is None:
            a = self.node()
        op = {"op": m, "g": g, "a": a, "ns": ns}
        if len(ns) == 1 and rng.random() < 0.5:
            op["single"] = True
        if rng.random() < 0.3:
            op["via"] = "node"
        return op

    def remove(self):
        rng, real = self.rng, self.real
        g = rng.randrange(len(real.graphs))
        G = real.graphs[g]
        ns = []
        for _ in range(rng.choice([1, 1, 2, 3])):
            x = self.node() if self.invalid() else self.node(lambda n: n.graph is G)
            ns.append(self.node() if x is None else x)
        if self.extended and rng.random() < 0.2:
            ns = ns + [rng.choice(ns)]  # the same node listed twice
        op = {"op": "remove", "g": g, "ns": ns, "safe": rng.random() < 0.6}
        if len(ns) == 1 and rng.random() < 0.5:
            op["single"] = True
        elif self.extended and rng.random() < 0.5:
            op["iter"] = True  # a one-shot iterator argument
        return op

    def rauw_many(self):
        k = self.rng.choice([1, 2, 2, 3])
        vs = [self.any_val() for _ in range(k)]
        rs = [self.any_val() for _ in range(k if not self.invalid() else self.rng.choice([k, k + 1, max(k - 1, 0)]))]
        op = {"op": "rauwMany", "vs": vs, "rs": rs, "rgo": self.rng.random() < 0.6}
        if len(vs) == 1 and len(rs) == 1 and self.rng.random() < 0.5:
            op["single"] = True
        return op

    def rename_values(self):
        rng, real = self.rng, self.real
        k = rng.choice([1, 2, 2, 3, 4])
        inits = [real.vid[id(v)] for g in real.graphs for v in g.initializers.values()]
        vs = []
        for _ in range(k):
            vs.append(rng.choice(inits) if inits and rng.random() < 0.6 else self.any_val())
        keys = [k_ for g in real.graphs for k_ in g.initializers.keys()]
        pool = NAME_POOL + keys + keys
        names = [rng.choice(pool) for _ in range(k if rng.random() < 0.9 else k + 1)]
        if len(vs) == len(names) and len(vs) >= 2 and rng.random() < 0.3:
            # a permutation of current names (swaps / cycles)
            cur = [real.vals[v].name for v in vs]
            if all(isinstance(c, str) for c in cur):
                names = cur[1:] + cur[:1]
        by_graph = [[real.vid[id(v)] for v in g.initializers.values()] for g in real.graphs if len(g.initializers)]
        if len(by_graph) >= 2 and rng.random() < 0.35:
            # initializers of several graphs in one call; the rejected rename (if any) belongs to a later graph
            vs = [rng.choice(ids) for ids in by_graph]
            names = [rng.choice(["p", "q", "r"]) + str(i) for i in range(len(vs))]
            if rng.random() < 0.7:
                others = [k_ for k_ in real.graphs[real.gid[id(real.vals[vs[-1]]._graph)]].initializers.keys()
                          if k_ != real.vals[vs[-1]].name]
                names[-1] = rng.choice(others + [""])
        op = {"op": "renameValues", "vs": vs, "names": names}
        if len(vs) == 1 and len(names) == 1 and rng.random() < 0.5:
            op["single"] = True
        return op

    def replace_nodes_and_values(self):
        rng, real = self.rng, self.real
        g = rng.randrange(len(real.graphs))
        G = real.graphs[g]
        inside = [real.nid[id(n)] for n in G]
        ip = rng.choice(inside) if inside and not self.invalid() else self.node()
        old_nodes = [rng.choice(inside) if inside and not self.invalid() else self.node() for _ in range(rng.choice([0, 1, 1, 2]))]
        new_nodes = []
        for _ in range(rng.choice([0, 1, 1, 2])):
            x = self.node() if self.invalid() else self.addable_node(g)
            new_nodes.append(self.node() if x is None else x)
        old_vals = [real.vid[id(o)] for n in old_nodes for o in real.nodes[n].outputs][:2] or [self.any_val()]
        new_vals = [real.vid[id(o)] for n in new_nodes for o in real.nodes[n].outputs][: len(old_vals)]
        while len(new_vals) < len(old_vals) and rng.random() < 0.8:
            new_vals.append(self.any_val())
        return {
            "op": "replaceNodesAndValues", "g": g, "ip": ip, "oldNodes": old_nodes, "newNodes": new_nodes,
            "oldVals": old_vals, "newVals": new_vals,
        }

    def sort(self):
        g = self.rng.randrange(len(self.real.graphs))
        if not nesting_acyclic(self.real, self.real.graphs[g]):
            return self.new_value()
        return {"op": "sort", "g": g}


def nesting_acyclic(real: Real, g) -> bool:
    """True when following graph-valued attributes from `g` never returns to a graph on the path
    (otherwise the library's recursive traversal does not terminate)."""
    path: set[int] = set()

    def go(graph) -> bool:
        if id(graph) in path:
            return False
        path.add(id(graph))
        for n in graph:
            for a in n.attributes.values():
                subs = [a.value] if a.type.name == "GRAPH" else list(a.value) if a.type.name == "GRAPHS" else []
                if any(not go(sg) for sg in subs):
                    return False
        path.discard(id(graph))
        return True

    return go(g)


MAX_NEST = 80


def nest_size(real: Real, g, cap: int = MAX_NEST + 1) -> int:
    """Number of nodes `RecursiveGraphIterator(g)` yields (a shared graph counts once per path), capped."""
    n = 0

    def go(graph) -> None:
        nonlocal n
        for node in graph:
            n += 1
            if n >= cap:
                return
            for a in node.attributes.values():
                subs = [a.value] if a.type.name == "GRAPH" else list(a.value) if a.type.name == "GRAPHS" else []
                for sg in subs:
                    go(sg)
                    if n >= cap:
                        return

    go(g)
    return n


def gen_op(rng: random.Random, real: Real) -> dict:
    return Gen(rng, real, extended=True).op()


def _unnamed_locked(real: Real, v) -> bool:
    cv = v.const_value
    return v.name is None and cv is not None and id(cv) in real.locked


def touches_locked_unnamed(op: dict, real: Real) -> bool:
    """The call is about to give a generated / key name to a value whose const tensor refuses renaming."""
    k = op["op"]
    V, Nn = real.vals, real.nodes

    def node_outs(ids):
        return any(_unnamed_locked(real, o) for i in ids for o in Nn[i].outputs)

    if k == "append":
        return node_outs([op["n"]])
    if k in ("extend", "insertAfter", "insertBefore"):
        return node_outs(op["ns"])
    if k == "replaceNodesAndValues":
        return node_outs(op["newNodes"]) or any(real.is_locked(v) for v in op["oldVals"] + op["newVals"])
    if k == "newGraph":
        return node_outs(op["nodes"]) or any(_unnamed_locked(real, V[i]) for i in op["inputs"])
    if k == "newNode":
        return op.get("graph") is not None and any(_unnamed_locked(real, V[i]) for i in (op["outputs"] or []))
    if k == "init":
        vs = ([op["v"]] if "v" in op else []) + [p[1] for p in op.get("kvs", [])]
        return any((not V[i].name) and real.is_locked(i) for i in vs)
    if k == "sort":
        import onnx_ir.traversal as tr

        try:
            return any(_unnamed_locked(real, o) for n in tr.RecursiveGraphIterator(real.graphs[op["g"]]) for o in n.outputs)
        except RecursionError:
            return False
    return False


def shape_of(op: dict, real: Real) -> str:
    """Argument shape of a call, evaluated on the state *before* the call (used in failure signatures)."""
    base = _shape_of(op, real)
    if touches_locked_unnamed(op, real):
        base += "+locked-unnamed"
    return base


def _shape_of(op: dict, real: Real) -> str:
    k = op["op"]
    tags = []
    V = real.vals
    if k == "newNode":
        if op.get("badAttr"):
            tags.append("bad-attribute")
        if op["outputs"] is not None:
            outs = [V[i] for i in op["outputs"]]
            if len(set(op["outputs"])) != len(op["outputs"]):
                tags.append("repeated-output")
            if any(v.is_initializer() for v in outs):
                tags.append("initializer-as-output")
            if any(v.is_graph_input() for v in outs):
                tags.append("graph-input-as-output")
            if any(v.is_graph_output() for v in outs):
                tags.append("graph-output-as-output")
            if any(v.producer() is not None for v in outs):
                tags.append("produced-output")
    elif k == "newValueProd":
        return "producer-arg"
    elif k == "newGraph":
        if any(V[i].producer() is not None or V[i]._graph is not None for i in op["inputs"]):
            tags.append("bad-input")
        if any(V[i]._graph is not None for i in op["outputs"]):
            tags.append("bad-output")
        if any(not V[i].name or V[i].producer() is not None or V[i]._graph is not None for i in op["inits"]):
            tags.append("bad-initializer")
        if any(real.nodes[i].graph is not None for i in op["nodes"]):
            tags.append("bad-node")
    elif k == "io":
        return f"{op['kind']}.{op['m']}"
    elif k == "init":
        return op["m"] + (":multi" if op["m"] == "update" and len(op["kvs"]) > 1 else "")
    elif k in ("insertAfter", "insertBefore", "remove"):
        return "via-" + op["via"] if op.get("via") else "plain"
    elif k == "rauwMany":
        return "multi" if len(op["vs"]) > 1 else "single"
    elif k == "renameValues":
        lk = any(real.is_locked(v) for v in op["vs"])
        return ("multi" if len(op["vs"]) > 1 else "single") + ("+locked-tensor" if lk else "")
    elif k == "setName":
        return "locked-tensor" if real.is_locked(op["v"]) else "plain"
    return "+".join(tags) or "plain"


def allowed_kinds(op: dict, real: Real, shape: str) -> set[str]:
    """The exception types a rejection of this call may legitimately have (anything else is an internal
    crash passing as a rejection)."""
    k = op["op"]
    ok = {"ValueError"}
    if k == "io":
        m = op["m"]
        if m in ("pop", "delItem"):
            ok = {"IndexError"}
        elif m == "setItem":
            ok = {"IndexError", "ValueError"}
        elif m in ("iadd", "imul"):
            ok = {"RuntimeError"}
    elif k == "init":
        m = op["m"]
        if m in ("delItem", "pop", "popitem"):
            ok = {"KeyError"}
        elif m == "add":
            ok = {"TypeError", "ValueError"}
    elif k == "attrEdit" or k == "viewInitDel":
        ok = {"KeyError"}
    elif k == "newNode" and op.get("badAttr"):
        ok = {"TypeError", "ValueError"}
    elif k == "newGraph":
        ok = {"ValueError", "TypeError"}  # TypeError: an initializer without a name (key None)
    if "locked" in shape or (k in ("setName", "renameValues", "replaceNodesAndValues") and "locked" in shape):
        ok = ok | {"AttributeError"}
    return ok


def fail_pos(op: dict, real: Real) -> str:
    """For a multi-element call: position of the first element the call must reject (evaluated on the
    state before the call; evidence only)."""
    k = op["op"]
    V, Nn, Gs = real.vals, real.nodes, real.graphs

    def first(xs, bad):
        for i, x in enumerate(xs):
            if bad(x):
                return str(i)
        return "-"

    if k == "io" and op["m"] in ("extend", "setSlice"):
        G = Gs[op["g"]]
        inp = op["kind"] == "inp"
        pos = first(op["vs"], lambda i: V[i]._graph not in (None, G) or (inp and V[i].producer() is not None))
        return pos if pos != "-" else "size/step"
    if k in ("extend", "insertAfter", "insertBefore"):
        G = Gs[op["g"]]
        if k != "extend" and Nn[op["a"]].graph is not G:
            return "anchor"
        return first(op["ns"], lambda i: Nn[i].graph not in (None, G))
    if k == "remove":
        G = Gs[op["g"]]
        pos = first(op["ns"], lambda i: Nn[i].graph is not G)
        return pos if pos != "-" else "unsafe"
    if k == "newGraph":
        for grp, bad in (
            ("inputs", lambda i: V[i]._graph is not None or V[i].producer() is not None),
            ("outputs", lambda i: V[i]._graph is not None),
            ("inits", lambda i: not V[i].name or V[i]._graph is not None or V[i].producer() is not None),
            ("nodes", lambda i: Nn[i].graph is not None),
        ):
            pos = first(op[grp], bad)
            if pos != "-":
                return f"{grp}[{pos}]"
        return "-"
    if k == "init" and op["m"] == "update":
        G = Gs[op["g"]]
        pending: dict[int, str] = {}
        for i, (key, v) in enumerate(op["kvs"]):
            nm = V[v].name or pending.get(v)
            if key == "" or (nm and nm != key) or V[v].producer() is not None or V[v]._graph not in (None, G):
                return str(i)
            if not V[v].name:
                pending.setdefault(v, key)
        return "-"
    if k == "newNode" and op.get("outputs"):
        outs = op["outputs"]
        for i, v in enumerate(outs):
            if V[v].producer() is not None or V[v].is_graph_input() or v in outs[:i]:
                return str(i)
        return "-"
    if k == "rauwMany":
        if len(op["vs"]) != len(op["rs"]):
            return "length"
        return first(list(zip(op["vs"], op["rs"])), lambda p: V[p[0]].is_graph_output() and not op["rgo"])
    if k == "renameValues":
        return "length" if len(op["vs"]) != len(op["names"]) else "-"
    return ""


# --------------------------------------------------------------------------- history runner


class Nonterm(BaseException):
    """raised by the interval timer inside real code that does not return (BaseException: no `except Exception` of
    the harness or of the library swallows it)"""


STEP_LIMIT_S = 20  # per call of a history incl. its oracles (normal: milliseconds)
NONTERM_MAX = 3  # after that many timeouts in this run (all processes) no further history is started


def _nonterm_flag() -> str:
    """a file shared by the check and its forked workers: one line per timeout (the environment is inherited)"""
    import os

    return os.environ.setdefault("IRVERIF_NONTERM_FLAG", f"/tmp/irverif-nonterm-{os.getpid()}")


def reset_nonterm() -> None:
    import atexit
    import os

    path = _nonterm_flag()

    def rm():
        try:
            os.remove(path)
        except OSError:
            pass

    rm()
    atexit.register(rm)


def _nonterm_count() -> int:
    try:
        with open(_nonterm_flag()) as f:
            return sum(1 for _ in f)
    except OSError:
        return 0


def _on_alarm(signum, frame):
    raise Nonterm()


def _arm(seconds: float) -> None:
    """(re)start / stop (0) the per-step timer of this process (main thread of the check or of a pmap worker)"""
    import signal
    import threading

    if threading.current_thread() is not threading.main_thread():
        return
    if seconds:
        signal.signal(signal.SIGALRM, _on_alarm)
    signal.setitimer(signal.ITIMER_REAL, seconds)


def guarded(fn, seconds: float = 120):
    """run a probe of the real code under the timer: (result, None) or (None, what went wrong)"""
    try:
        _arm(seconds)
        return fn(), None
    except Nonterm:
        return None, f"did not return within {seconds}s"
    except Exception as e:  # noqa: BLE001
        return None, f"{type(e).__name__}: {str(e)[:160]}"
    finally:
        _arm(0)


EMPTY = {"values": [], "nodes": [], "graphs": [], "tensors": []}
# composite calls for which the model (like the code) keeps the effects of the sub-calls before a rejected one
NOT_ATOMIC = ("rauwMany", "replaceNodesAndValues", "tapeInitializer", "builderNode")
# calls that `ir.Function` forwards to its graph
VIA_FUNCTION = ("io", "append", "extend", "insertAfter", "insertBefore", "remove", "sort", "replaceNodesAndValues")


def spelling_tags(op: dict) -> list[str]:
    """argument spellings the brief names: one-shot iterators, a node listed twice"""
    k, tags = op["op"], []
    if k in ("extend", "insertAfter", "insertBefore", "remove"):
        ns = op.get("ns", [])
        if len(set(ns)) != len(ns):
            tags.append(f"{k}:node-listed-twice")
        if k == "remove" and op.get("iter") and not (op.get("single") and len(ns) == 1):
            tags.append("remove:one-shot-iterator")
        if k != "remove" and not (op.get("single") and len(ns) == 1):
            tags.append(f"{k}:one-shot-iterator")
    if k == "io" and op["m"] in ("extend", "setSlice"):
        tags.append(f"io.{op['m']}:one-shot-iterator")
    return tags


def api_of(op: dict, real: "Real") -> list[str]:
    """The public entry points of /repo a generated call goes through (keys of API_TABLE, `Class.member`)."""
    k = op["op"]
    via = op.get("via")
    F = via == "function"
    if k == "newValue" or k == "newValueProd":
        return ["Value.__init__"]
    if k == "setConst" or k == "clearConst":
        return ["Value.const_value"]
    if k == "newNode":
        sp = tape_spelling(op)
        if sp in ("op", "op-output"):
            return ["Tape.op", "Tape.__init__"]
        if sp is not None:
            return ["Tape.op_multi_out", "Tape.__init__"]
        return ["Node.__init__", "Attributes.__init__"]
    if k == "newGraph":
        return ["Graph.__init__", "GraphInputs.__init__", "GraphOutputs.__init__", "GraphInitializers.__init__"]
    if k == "replaceInput":
        return ["Node.replace_input_with"]
    if k == "resizeInputs":
        return ["Node.resize_inputs"]
    if k == "resizeOutputs":
        return ["Node.resize_outputs"]
    if k == "rauw":
        return ["Value.replace_all_uses_with"]
    if k == "setName":
        return ["Value.name"]
    if k == "setNodeName":
        return ["Node.name"]
    if k == "setOpType":
        return ["Node.op_type"]
    if k == "io":
        cls = "GraphInputs" if op["kind"] == "inp" else "GraphOutputs"
        member = {"setItem": "__setitem__", "setSlice": "__setitem__", "delItem": "__delitem__",
                  "delSlice": "__delitem__", "iadd": "__iadd__", "imul": "__imul__"}.get(op["m"], op["m"])
        return [f"{cls}.{member}", ("Function." if F else "Graph.") + ("inputs" if op["kind"] == "inp" else "outputs")]
    if k == "init":
        m = op["m"]
        if m == "register":
            return ["Graph.register_initializer", "GraphInitializers.add"]
        member = {"setItem": "__setitem__", "delItem": "__delitem__"}.get(m, m)
        if m == "update" and op.get("ior"):
            member = "__ior__"
        return [f"GraphInitializers.{member}", "Graph.initializers"]
    if k == "append":
        return ["Function.append" if F else "Graph.append"]
    if k == "extend":
        return ["Function.extend" if F else "Graph.extend"]
    if k in ("insertAfter", "insertBefore"):
        if via == "node" and real.nodes[op["a"]].graph is real.graphs[op["g"]]:
            return ["Node.append" if k == "insertAfter" else "Node.prepend"]
        name = "insert_after" if k == "insertAfter" else "insert_before"
        return [("Function." if F else "Graph.") + name]
    if k == "remove":
        return ["Function.remove" if F else "Graph.remove"]
    if k == "sort":
        return ["Function.sort" if F else "Graph.sort"]
    if k == "attrEdit":
        sp = op.get("spell")
        if op.get("graphs") is not None or op.get("graph") is not None or op.get("plain"):
            key_present = op["key"] in real.nodes[op["n"]].attributes
            member = {"add": "add", "update": "update", "ior": "__ior__"}.get(sp)
            if sp == "setdefault" and not key_present:
                member = "setdefault"
            return ["Attributes." + (member or "__setitem__"), "Node.attributes"]
        if op.get("clear"):
            return ["Attributes.clear", "Node.attributes"]
        member = {"popitem": "popitem", "del": "__delitem__"}.get(sp, "pop")
        return ["Attributes." + member, "Node.attributes"]
    if k == "rauwMany":
        return ["convenience.replace_all_uses_with"]
    if k == "renameValues":
        return ["convenience.rename_values"]
    if k == "replaceNodesAndValues":
        return ["convenience.replace_nodes_and_values"]
    if k == "newView":
        return ["GraphView.__init__"]
    if k == "viewSet":
        return ["GraphView." + op["slot"]]
    if k in ("viewInits", "viewInitPut", "viewInitDel"):
        return ["GraphView.initializers"]
    if k == "tapeInitializer":
        return ["Tape.initializer", "Tape.__init__"]
    if k == "builderNode":
        return ["Builder.__getattr__", "Builder.__init__"]
    return []


def run_one(
    rng: random.Random,
    length: int,
    part: Part,
    fixed_ops: list | None = None,
    p_invalid: float = 0.3,
    keep: list | None = None,
    prelude: int = 0,
) -> dict:
    """Generate and execute one history on the real objects; evaluate both oracles after every call.
    Returns {"ops", "outcomes", "deltas"} truncated at the first oracle failure (the state is then outside
    the invariant and nothing after it is meaningful)."""
    real = Real(model_sort=True)
    if keep is not None:
        keep.append(real)  # keep earlier instances alive so that fresh objects get fresh addresses
    gen = Gen(rng, real, p_invalid, extended=True, views=True)
    ops, mops, outcomes, deltas, views = [], [], [], [], []
    prev = EMPTY
    n = len(fixed_ops) if fixed_ops is not None else length
    cur_op = None
    if _nonterm_count() >= NONTERM_MAX:
        part.count("skipped=history-after-nontermination")  # the run already has its failing inputs; do not wait again
        n = 0
    try:
        for step in range(n):
            _arm(STEP_LIMIT_S)
            cur_op = None
            op = fixed_ops[step] if fixed_ops is not None else gen.op()
            if op["op"] == "sort" and not nesting_acyclic(real, real.graphs[op["g"]]):
                # a graph nested in itself: the library's recursive traversal does not terminate (outside the alphabet)
                part.count("skipped=sort-on-cyclic-nest")
                op = {"op": "newValue", "name": None}
            elif op["op"] == "sort" and nest_size(real, real.graphs[op["g"]]) > MAX_NEST:
                # graphs shared along many paths: the traversal lists a node once per path (exponential in the depth)
                part.count("skipped=sort-on-huge-shared-nest")
                op = {"op": "newValue", "name": None}
            if op["op"] in VIEW_OPS and op["op"] != "newView" and not (
                    op["view"] < len(real.views) and real.views[op["view"]] is not None):
                part.count("skipped=view-op-without-view")  # fixed histories: there is no object to call it on
                op = {"op": "newValue", "name": None}
            cur_op = op
            shape = shape_of(op, real)
            label = op["op"] + ("." + op["kind"] + "." + op["m"] if op["op"] == "io" else "." + op["m"] if op["op"] == "init" else "")
            before = deep_snapshot(real)
            counts0 = (len(real.vals), len(real.nodes), len(real.graphs))
            pos = fail_pos(op, real)
            apis = api_of(op, real)
            o, kind, mop = real.apply(op)
            for a in apis:
                part.count(f"api={a}")
            for tag in spelling_tags(op):
                part.count(f"spelling={tag}")
            if fixed_ops is None:
                gen.after(op, o)
            if step < prelude:
                part.count(f"prelude={label}:{o}")
            else:
                part.count(f"op={label}:{o}")
                if op.get("via"):
                    part.count(f"via={op['via']}:{op['op']}")
                if op.get("single"):
                    part.count(f"single-object-spelling:{op['op']}")
                if o == "raised" and pos:
                    part.count(f"raisedAt={label}:k={pos}")
            # signature of a failure of this call: operation, argument shape, and for composite calls where it stopped
            sig = f"{op['op']}:{shape}"
            if op["op"] == "rauwMany":
                sig += f":k={pos}"
            elif op["op"] == "replaceNodesAndValues" and o == "raised":
                sig += f":at-{real.where or 'start'}"
            failed = False
            if op["op"] in VIEW_OPS:
                # the frame (C01_view_frame) on the real objects: creating (also a rejected creation), editing or dropping a
                # GraphView changes no public accessor of any value / node / graph, no counter, no name-authority state
                after_view = deep_snapshot(real)
                if after_view != before:
                    for prop_ in ("C01", "C06"):
                        part.fail(
                            f"{prop_}|view-frame:{op['op']}",
                            f"{label} ({o}) changed the state of the viewed objects: {first_diff(before, after_view)}",
                            {"ops": ops + [op]},
                        )
                    failed = True
            viol = wf_oracle(real)
            if viol:
                part.fail(
                    f"C01|{sig}",
                    f"invariant broken after {label} ({o}{' ' + kind if kind else ''}): {viol[0]}",
                    {"ops": ops + [op], "violations": viol[:5]},
                )
                failed = True
            if o == "raised":
                # objects a rejected composite call created on the way (Tape.initializer) are not "changed" objects
                after = deep_snapshot(real, counts0)
                if after != before:
                    part.fail(
                        f"C06|{sig}",
                        f"{label} raised {kind} but changed state: {first_diff(before, after)}",
                        {"ops": ops + [op]},
                    )
                    # the model keeps the partial effects of these composite calls exactly like the code: go on comparing
                    failed = failed or op["op"] not in NOT_ATOMIC
                if kind not in allowed_kinds(op, real, shape):
                    for prop in ("C01", "C06"):
                        part.fail(
                            f"{prop}|kind:{op['op']}:{kind}",
                            f"{label} was rejected with {kind}, which is not a documented rejection of this call "
                            f"(allowed: {sorted(allowed_kinds(op, real, shape))}) - an internal error passing as a rejection",
                            {"ops": ops + [op]},
                        )
            if failed:
                break
            try:
                cur = real.snapshot()
            except Exception as e:  # noqa: BLE001 - an accessor of the real code raised on the state this call left
                part.fail(
                    f"C01|{sig}",
                    f"after {label} ({o}) the state can no longer be read through the public accessors: "
                    f"{type(e).__name__}: {str(e)[:120]}",
                    {"ops": ops + [op]},
                )
                break
            ops.append(op)
            mops.append(mop)
            outcomes.append(o)
            deltas.append(delta(prev, cur))
            try:
                views.append(real.views_snapshot())
            except Exception as e:  # noqa: BLE001 - real code (GraphView's Sequence protocol) on a possibly broken state
                views.append([f"unreadable: {type(e).__name__}: {str(e)[:80]}"])
            prev = cur
    except Nonterm:
        # real code (the call itself, or an accessor the oracles read) did not come back within STEP_LIMIT_S seconds
        what = (cur_op or {}).get("op", "generator")
        with open(_nonterm_flag(), "a") as f:
            f.write(what + "\n")
        for prop_ in ("C01", "C06"):
            part.fail(
                f"{prop_}|nontermination:{what}",
                f"the real code did not return within {STEP_LIMIT_S}s during / after {what} (a loop that does not terminate)",
                {"ops": ops + ([cur_op] if cur_op else [])},
            )
    finally:
        _arm(0)
    return {"ops": ops, "mops": mops, "outcomes": outcomes, "deltas": deltas, "views": views}


def _worker(args):
    seed, count, maxlen, p_invalid = args
    rng = random.Random(seed)
    part = Part()
    hist = []
    for _ in range(count):
        length = rng.choice([3, 6, 10, 20, 30, maxlen])
        hist.append(run_one(rng, min(length, maxlen), part, p_invalid=p_invalid))
    compare_with_model(part, hist)
    return part


def _lean_batch_retry(reqs: list[dict]) -> list[dict]:
    """`lean_batch`, tolerating the short window in which a concurrent `lake build` relinks the driver."""
    import time

    from harness.common import Infra

    for attempt in range(30):
        try:
            return lean_batch(reqs)
        except (Infra, FileNotFoundError, OSError):
            if attempt == 29:
                raise
            time.sleep(2)
    raise AssertionError


def compare_with_model(ctx, hists: list[dict]) -> None:
    """Send the histories to the Lean model and diff outcome + state delta after every step."""
    reqs = [{"m": "kernel.run", "ops": h["mops"]} for h in hists]
    outs = _lean_batch_retry(reqs)
    for h, out in zip(hists, outs):
        ops = h["ops"]
        nontrivial = any(o["op"] not in ("newValue", "setConst") for o in ops)
        ctx.case(
            ops,
            nontrivial=nontrivial,
            sample={"ops": ops[:8], "outcomes": h["outcomes"][:8]},
            length=min(len(ops) // 10 * 10, 60),
        )
        if "err" in out:
            ctx.disagree("model driver rejected the history: " + out["err"], {"ops": ops})
            continue
        steps = out["steps"]
        for i, (op, o, d, st) in enumerate(zip(ops, h["outcomes"], h["deltas"], steps)):
            if st.get("k") == "late-check":
                ctx.disagree(
                    f"model: a check failed after the validation of step {i} ({op['op']}) had passed "
                    "(C01_mutation_faithful says this cannot happen on a well-formed world)",
                    {"ops": ops[: i + 1]},
                )
                break
            if "sortWF" in st:
                # hypothesis of C01_sort_step (C12's well-formedness of the tree the model read off its world)
                ctx.count(f"hyp:C01_sort_step.SortWF={str(st['sortWF']).lower()}:{st['o']}")
                if "sortExact" in st:
                    # conclusion of C01_sort_exact evaluated by the driver on every ACCEPTED sort (hypotheses: SortWF and
                    # acceptance): each graph of the nest is left with exactly the entry the sort model returned.  The
                    # real graphs are compared with the same model state in the delta below.
                    ctx.count(f"concl:C01_sort_exact={str(st['sortExact']).lower()}:SortWF={str(st['sortWF']).lower()}")
                    if st["sortWF"] and not st["sortExact"]:
                        ctx.disagree(
                            f"model: accepted sort at step {i} left a graph with a node sequence that is not the entry "
                            "the sort model returned (C01_sort_exact says this cannot happen)", {"ops": ops[: i + 1]})
                        break
            if st["o"] != o:
                ctx.disagree(f"outcome differs at step {i} ({op['op']})", {"ops": ops[: i + 1]}, st["o"], o)
                break
            if st["o"] == "raised" and not st["eq"] and op["op"] not in NOT_ATOMIC:
                ctx.disagree(f"model world changed by a raising step {i}", {"ops": ops[: i + 1]})
                break
            hv = h["views"][i] if "views" in h else []
            if st.get("v", []) != hv:
                ctx.disagree(f"content of the GraphViews differs after step {i} ({op['op']})", {"ops": ops[: i + 1]},
                             st.get("v", []), hv)
                break
            if st["d"] != d:
                what = next(k for k in d if st["d"].get(k) != d[k])
                ctx.disagree(
                    f"state differs after step {i} ({op['op']}) in {what}",
                    {"ops": ops[: i + 1]},
                    st["d"].get(what),
                    d[what],
                )
                break


def split_failures(part: Part, prop: str) -> None:
    """Keep only the failures of this property (signatures are prefixed with the property id)."""
    part["failures"] = [
        {**f, "signature": f["signature"].split("|", 1)[1]}
        for f in part["failures"]
        if f["signature"].startswith(prop + "|")
    ]


def run_random(ctx, prop: str, n_hist: int, maxlen: int, p_invalid: float = 0.3, procs: int = 16) -> None:
    per = max(1, n_hist // (procs * 4))
    jobs = [(ctx.rng.getrandbits(48), per, maxlen, p_invalid) for _ in range((n_hist + per - 1) // per)]
    for part in pmap(_worker, jobs, procs):
        split_failures(part, prop)
        ctx.merge(part)


# --------------------------------------------------------------------------- exhaustive small scope

PRELUDE = [
    {"op": "newValue", "name": "a"},  # v0
    {"op": "newValue", "name": "b"},  # v1
    {"op": "newValue", "name": None},  # v2
    {"op": "setConst", "v": 1},
    {"op": "newNode", "opType": "Add", "name": None, "inputs": [0, 1], "numOutputs": None, "outputs": None, "graph": None},  # n0 -> v3
    {"op": "newNode", "opType": "Mul", "name": "m", "inputs": [3, 0], "numOutputs": None, "outputs": None, "graph": None},  # n1 -> v4
    {"op": "newNode", "opType": "Id", "name": None, "inputs": [4], "numOutputs": None, "outputs": None, "graph": None},  # n2 -> v5
    {"op": "newGraph", "inputs": [0], "outputs": [4], "nodes": [0, 1], "inits": [1]},  # g0
    {"op": "newGraph", "inputs": [], "outputs": [], "nodes": [2], "inits": []},  # g1
]


def small_alphabet(reduced: bool = False) -> list[dict]:
    """Calls over the universe built by PRELUDE (6 values, 3 nodes, 2 graphs): every public mutator with
    a valid and an invalid argument choice."""
    A: list[dict] = []

    def io(g, kind, m, **kw):
        A.append({"op": "io", "g": g, "kind": kind, "m": m, **kw})

    def init(g, m, **kw):
        A.append({"op": "init", "g": g, "m": m, **kw})

    for n, idx, v in [(0, 0, None), (0, 0, 2), (1, 1, 3), (1, 2, 2), (2, -1, 2)][: 3 if reduced else 5]:
        A.append({"op": "replaceInput", "n": n, "idx": idx, "v": v})
    A += [{"op": "resizeInputs", "n": 1, "k": k} for k in ((1,) if reduced else (-1, 1, 3))]
    A += [{"op": "resizeOutputs", "n": 0, "k": k} for k in (0, 2)]
    for v, r in [(3, 2), (4, 2), (4, 5)][: 2 if reduced else 3]:
        for rgo in (False, True):
            A.append({"op": "rauw", "v": v, "r": r, "rgo": rgo})
    for kind in ("inp", "out"):
        io(0, kind, "append", v=2)
        io(0, kind, "extend", vs=[2, 4])
        io(0, kind, "pop", i=-1)
        io(0, kind, "setItem", i=0, v=2)
        io(0, kind, "setSlice", start=None, stop=None, step=None, vs=[2, 2])
        io(0, kind, "delItem", i=0)
        if not reduced:
            io(0, kind, "append", v=5)
            io(0, kind, "insert", i=0, v=2)
            io(0, kind, "clear")
            io(0, kind, "pop", i=5)
            io(0, kind, "remove", v=0)
            io(0, kind, "remove", v=4)
            io(0, kind, "setItem", i=0, v=5)
            io(0, kind, "setItem", i=3, v=2)
            io(0, kind, "setSlice", start=0, stop=1, step=None, vs=[2, 3])
            io(0, kind, "setSlice", start=None, stop=None, step=2, vs=[2, 2])
            io(0, kind, "delSlice", start=None, stop=None, step=None)
            io(0, kind, "delSlice", start=None, stop=None, step=0)
            io(0, kind, "reverse")
            io(0, kind, "iadd", vs=[2])
            io(0, kind, "imul", k=2)
    io(1, "out", "append", v=4)
    io(1, "inp", "append", v=0)
    io(1, "inp", "append", v=2)
    init(0, "setItem", key="c", v=2)
    init(0, "setItem", key="b", v=2)
    init(0, "delItem", key="b")
    init(0, "add", v=2)
    init(0, "add", v=0)
    init(0, "popitem")
    init(0, "update", kvs=[["c", 2], ["d", 2]])
    init(1, "setItem", key="b", v=1)
    init(1, "setItem", key="c", v=2)
    if not reduced:
        init(0, "setItem", key="b", v=1)
        init(0, "pop", key="zz")
        init(0, "clear")
        init(0, "update", kvs=[["c", 2]], ior=True)
        init(0, "setdefault", key="b", v=2)
        init(0, "setdefault", key="c", v=2)
        init(0, "register", v=1)
        init(0, "register", v=0)
    for v, s_ in [(1, "q"), (2, "b"), (1, ""), (1, "a"), (1, None), (0, "b")][: 3 if reduced else 6]:
        A.append({"op": "setName", "v": v, "s": s_})
    A += [
        {"op": "append", "g": 1, "n": 0},
        {"op": "append", "g": 0, "n": 0},
        {"op": "extend", "g": 0, "ns": [1, 0]},
        {"op": "extend", "g": 0, "ns": [0, 2]},
        {"op": "insertAfter", "g": 0, "a": 0, "ns": [1]},
        {"op": "insertBefore", "g": 0, "a": 0, "ns": [1], "via": "node"},
        {"op": "insertAfter", "g": 0, "a": 2, "ns": [1]},
        {"op": "insertBefore", "g": 1, "a": 2, "ns": [0]},
        {"op": "remove", "g": 0, "ns": [1], "safe": True},
        {"op": "remove", "g": 0, "ns": [1], "safe": False, "single": True},
        {"op": "remove", "g": 0, "ns": [0, 1], "safe": True},
        {"op": "remove", "g": 1, "ns": [0], "safe": False},
        {"op": "sort", "g": 0},
        {"op": "setConst", "v": 1, "locked": True},
        {"op": "setConst", "v": 5, "locked": True},  # v5 = unnamed output of n2 (g1) ... named by the prelude; see next
        {"op": "setConst", "v": 2, "locked": True},  # v2: unnamed free value with a tensor that refuses renaming
        {"op": "newNode", "opType": "Id", "name": None, "inputs": [], "numOutputs": None, "outputs": [2], "graph": 1},
        {"op": "newNode", "opType": "Id", "name": None, "inputs": [], "numOutputs": None, "outputs": [2], "graph": None, "badAttr": True},
        {"op": "newGraph", "inputs": [2], "outputs": [], "nodes": [], "inits": []},
        {"op": "attrEdit", "n": 0, "key": "body0", "graph": 1},
        {"op": "attrEdit", "n": 1, "key": "branches", "graphs": [1, 1]},
        {"op": "newValueProd", "n": 0, "i": 0, "name": None},
        {"op": "append", "g": 1, "n": 1, "via": "function"},
        {"op": "io", "g": 1, "kind": "out", "m": "append", "v": 5, "via": "function"},
        {"op": "newNode", "opType": "Id", "name": None, "inputs": [3], "numOutputs": None, "outputs": [2], "graph": None},
        {"op": "newNode", "opType": "Id", "name": None, "inputs": [2], "numOutputs": 2, "outputs": None, "graph": 1},
        {"op": "newNode", "opType": "Id", "name": None, "inputs": [], "numOutputs": None, "outputs": [0], "graph": None},
        {"op": "newGraph", "inputs": [2], "outputs": [2], "nodes": [], "inits": []},
        {"op": "newGraph", "inputs": [2], "outputs": [0], "nodes": [], "inits": []},
        {"op": "rauwMany", "vs": [3, 4], "rs": [2, 2], "rgo": True},
        {"op": "renameValues", "vs": [1, 2], "names": ["c", "b"]},
        {"op": "renameValues", "vs": [1, 0], "names": ["a", "b"]},
        {"op": "renameValues", "vs": [1, 2], "names": ["", "b"]},
        {"op": "renameValues", "vs": [1, 2], "names": ["q", ""]},
        {"op": "replaceNodesAndValues", "g": 0, "ip": 0, "oldNodes": [1], "newNodes": [2], "oldVals": [4], "newVals": [5]},
    ]
    # round 3: the calls added to the alphabet (Node.name=, op_type=, const_value=None, list.sort, every attribute-dict
    # mutator, Tape / Builder, model-computed sort, one-shot iterators / a node listed twice, the Function / Node
    # spellings of the membership calls): a representative core always, all of them in the full alphabet
    A += [
        {"op": "attrEdit", "n": 0, "key": "body0", "spell": "del"},
        {"op": "setNodeName", "n": 0, "s": "m"},
        {"op": "io", "g": 0, "kind": "out", "m": "sort", "keys": [1, 0, 1, 0, 0, 1, 0, 0, 0, 0, 0, 0], "rev": True},
        {"op": "newNode", "opType": "Id", "name": None, "inputs": [3], "numOutputs": None, "outputs": None, "graph": 1, "via": "tape"},
        {"op": "tapeInitializer", "g": 0, "name": "b", "tname": None},
        {"op": "builderNode", "g": 1, "opType": "Add", "inputs": [0, 3], "k": 1, "names": ["o"]},
        {"op": "remove", "g": 0, "ns": [1, 1], "safe": False, "iter": True},
        {"op": "sort", "g": 1},
        {"op": "insertBefore", "g": 0, "a": 1, "ns": [2], "via": "function"},
    ]
    # round 4: GraphView (a view on g0 incl. a value / node of g1 and a free value; an unnamed initializer: ValueError;
    # slot assignment and the view's plain dict; ops on view 0 are skipped in histories that have not created it)
    A += [
        {"op": "newView", "inputs": [0, 2], "outputs": [4, 5], "nodes": [0, 1, 2], "inits": [1, 0]},
        {"op": "viewSet", "view": 0, "slot": "inputs", "vs": [4, 4]},
    ]
    if not reduced:
        A += [
            {"op": "newView", "inputs": [], "outputs": [], "nodes": [], "inits": [2]},
            {"op": "viewInitPut", "view": 0, "key": "b", "v": 2},
            {"op": "viewSet", "view": 0, "slot": "outputs", "vs": []},
            {"op": "viewInits", "view": 0, "kvs": [["k", 3], ["k", 2]]},
            {"op": "viewInitDel", "view": 0, "key": "a"},
            {"op": "viewDrop", "view": 0},
        ]
    if not reduced:
        A += [
            {"op": "attrEdit", "n": 0, "key": "then", "graph": 1, "spell": "add"},
            {"op": "attrEdit", "n": 0, "key": "alpha", "plain": True, "spell": "update"},
            {"op": "attrEdit", "n": 0, "key": "body0", "graphs": [1], "spell": "setdefault"},
            {"op": "attrEdit", "n": 0, "key": "body0", "graphs": [1, 1], "spell": "ior"},
            {"op": "attrEdit", "n": 0, "key": "body0", "spell": "pop"},
            {"op": "attrEdit", "n": 0, "key": "body0", "spell": "pop-default"},
            {"op": "attrEdit", "n": 0, "key": "", "spell": "popitem"},
            {"op": "attrEdit", "n": 0, "key": "", "clear": True},
            {"op": "setNodeName", "n": 0, "s": None},
            {"op": "setNodeName", "n": 2, "s": "node_Id_0"},
            {"op": "setOpType", "n": 2, "s": "Mul"},
            {"op": "clearConst", "v": 1},
            {"op": "io", "g": 0, "kind": "inp", "m": "sort", "keys": [1, 0, 0, 0, 0, 0, 0, 0, 0, 0, 0, 0], "rev": False},
            {"op": "newNode", "opType": "Id", "name": None, "inputs": [0], "numOutputs": None, "outputs": [2], "graph": 0, "via": "tape", "tapeFunc": True},
            {"op": "newNode", "opType": "Id", "name": "k", "inputs": [], "numOutputs": 2, "outputs": None, "graph": 1, "via": "tape"},
            {"op": "newNode", "opType": "Id", "name": None, "inputs": [], "numOutputs": None, "outputs": [2, 0], "graph": None, "via": "tape"},
            {"op": "tapeInitializer", "g": 0, "name": "c", "tname": None},
            {"op": "tapeInitializer", "g": 1, "name": None, "tname": "b", "locked": True},
            {"op": "tapeInitializer", "g": 0, "name": None, "tname": None},
            {"op": "tapeInitializer", "g": 1, "name": "", "tname": "", "func": True},
            {"op": "builderNode", "g": 0, "opType": "Mul", "inputs": [4], "k": 2, "names": None, "func": True},
            {"op": "builderNode", "g": None, "opType": "Id", "inputs": [None], "k": 2, "names": ["a", "val_0"]},
            {"op": "extend", "g": 0, "ns": [0, 0]},
            {"op": "insertAfter", "g": 0, "a": 1, "ns": [0, 0]},
            {"op": "sort", "g": 0, "via": "function"},
            {"op": "insertAfter", "g": 0, "a": 0, "ns": [2, 1], "via": "function"},
            {"op": "remove", "g": 0, "ns": [1], "safe": False, "via": "function"},
            {"op": "extend", "g": 0, "ns": [2, 0], "via": "function"},
            {"op": "insertAfter", "g": 0, "a": 0, "ns": [1], "via": "node"},
            {"op": "io", "g": 0, "kind": "inp", "m": "append", "v": 2, "via": "function"},
        ]
    return A


def _exh_worker(args):
    tails = args
    part = Part()
    hist = []
    for tail in tails:
        hist.append(run_one(random.Random(0), 0, part, fixed_ops=PRELUDE + tail, prelude=len(PRELUDE)))
    compare_with_model(part, hist)
    return part


def run_exhaustive(ctx, prop: str, depth: int, reduced: bool, procs: int = 16) -> str:
    """All histories PRELUDE + (<= depth calls of the small alphabet). Returns the scope description."""
    import itertools

    A = small_alphabet(reduced)
    tails: list[list[dict]] = [[]]
    for d in range(1, depth + 1):
        tails += [list(t) for t in itertools.product(A, repeat=d)]
    chunk = max(1, len(tails) // (procs * 8))
    jobs = [tails[i : i + chunk] for i in range(0, len(tails), chunk)]
    for part in pmap(_exh_worker, jobs, procs):
        split_failures(part, prop)
        ctx.merge(part)
    return (
        f"all {len(tails)} histories made of the fixed 9-call prelude (6 values, 3 nodes, 2 graphs) followed by "
        f"<= {depth} calls from a fixed alphabet of {len(A)} calls (every mutator, valid and invalid arguments)"
    )


def after_reject_tails(depth: int) -> list[list[dict]]:
    """A rejected call on a tracked list followed by every sequence of <= depth calls on the SAME list with
    the SAME value (delayed effects of a rejection that was not clean: a leaked reference count, a flag set
    too early, ... only show when the value is listed again, twice, and one listing is removed)."""
    import itertools

    tails = []
    # PRELUDE + v2 made an input of g1, so that v2 is foreign to g0
    pre = [{"op": "io", "g": 1, "kind": "inp", "m": "append", "v": 2}]
    for kind, x in (("out", 0), ("inp", 1)):  # x: owned by g0 in another role, not in that list

        def io(m, **kw):
            return {"op": "io", "g": 0, "kind": kind, "m": m, **kw}

        rejected = [
            io("remove", v=x),
            io("pop", i=7),
            io("setItem", i=7, v=x),
            io("extend", vs=[x, 2]),
            io("setSlice", start=None, stop=None, step=2, vs=[x, x]),
            io("insert", i=0, v=2),
        ]
        focus = [
            io("append", v=x),
            io("extend", vs=[x, x]),
            io("pop", i=-1),
            io("remove", v=x),
            io("delItem", i=0),
            io("setItem", i=0, v=x),
        ]
        for r in rejected:
            for d in range(1, depth + 1):
                for t in itertools.product(focus, repeat=d):
                    tails.append(pre + [r] + list(t))
    return tails


def run_after_reject(ctx, prop: str, depth: int = 3, procs: int = 16) -> str:
    tails = after_reject_tails(depth)
    chunk = max(1, len(tails) // (procs * 4))
    jobs = [tails[i : i + chunk] for i in range(0, len(tails), chunk)]
    for part in pmap(_exh_worker, jobs, procs):
        split_failures(part, prop)
        ctx.merge(part)
    return (
        f"all {len(tails)} histories: prelude, one of 6 rejected calls on g.inputs / g.outputs, then <= {depth} calls "
        "from 6 mutators of the same list applied to the same value"
    )


def position_scenarios() -> list[list[dict]]:
    """Every multi-element call with the element it must reject at each position k = 0, 1, 2 of a 3-element
    argument (the elements before it are acceptable: a call that is not validate-first applies them)."""
    nd = lambda: {"op": "newNode", "opType": "Id", "name": None, "inputs": [], "numOutputs": None, "outputs": None, "graph": None}
    setup = [
        {"op": "newValue", "name": "p"},  # v6
        {"op": "newValue", "name": "q"},  # v7
        {"op": "newValue", "name": "r"},  # v8
        {"op": "io", "g": 1, "kind": "inp", "m": "append", "v": 2},  # v2 now belongs to g1: foreign to g0
        nd(),  # n3 -> v9
        nd(),  # n4 -> v10
        nd(),  # n5 -> v11
    ]

    def at(goods, bad, k):
        xs = list(goods)
        xs[k] = bad
        return xs

    out = []
    for k in range(3):
        calls = []
        for kind in ("inp", "out"):
            calls.append({"op": "io", "g": 0, "kind": kind, "m": "extend", "vs": at([6, 7, 8], 2, k)})
            calls.append({"op": "io", "g": 0, "kind": kind, "m": "setSlice", "start": None, "stop": None, "step": None, "vs": at([6, 7, 8], 2, k)})
            calls.append({"op": "io", "g": 0, "kind": kind, "m": "setSlice", "start": 0, "stop": 0, "step": None, "vs": at([6, 7, 8], 2, k)})
        ns = at([3, 4, 5], 2, k)
        calls.append({"op": "extend", "g": 0, "ns": ns})
        calls.append({"op": "insertAfter", "g": 0, "a": 0, "ns": ns})
        calls.append({"op": "insertBefore", "g": 0, "a": 1, "ns": ns})
        calls.append({"op": "insertAfter", "g": 0, "a": 0, "ns": ns, "via": "node"})
        calls.append({"op": "extend", "g": 0, "ns": ns, "via": "function"})
        calls.append({"op": "remove", "g": 0, "ns": at([0, 1, 0], 2, k), "safe": False})
        calls.append({"op": "init", "g": 0, "m": "update", "kvs": at([["p", 6], ["q", 7], ["r", 8]], ["zz", 2], k)})
        calls.append({"op": "init", "g": 0, "m": "update", "ior": True, "kvs": at([["p", 6], ["q", 7], ["r", 8]], ["x", 6 if k else 7], k)})
        calls.append({"op": "newGraph", "inputs": at([6, 7, 8], 0, k), "outputs": [], "nodes": [], "inits": []})
        calls.append({"op": "newGraph", "inputs": [6], "outputs": at([6, 7, 8], 0, k), "nodes": [], "inits": []})
        calls.append({"op": "newGraph", "inputs": [6], "outputs": [7], "nodes": [], "inits": at([6, 7, 8], 1, k)})
        calls.append({"op": "newGraph", "inputs": [6], "outputs": [7], "nodes": at([3, 4, 5], 0, k), "inits": [8]})
        # Node(outputs=[...]): a produced value / a graph input / a repeated entry at position k (the entries before it
        # are acceptable: a constructor that claims while it validates leaves them with a half-built producer)
        for badv in (3, 0, [6, 7, 8][(k + 1) % 3]):
            calls.append({"op": "newNode", "opType": "Id", "name": None, "inputs": [], "numOutputs": None,
                          "outputs": at([6, 7, 8], badv, k), "graph": None})
        calls.append({"op": "newNode", "opType": "Id", "name": None, "inputs": [1], "numOutputs": None,
                      "outputs": at([6, 7, 8], 3, k), "graph": 1, "via": "tape"})
        calls.append({"op": "rauwMany", "vs": at([0, 3, 5], 4, k), "rs": [6, 7, 8], "rgo": False})
        calls.append({"op": "rauwMany", "vs": at([0, 3, 5], 4, k), "rs": at([6, 7, 8], 2, k), "rgo": True})
        for c in calls:
            out.append(setup + [c])
        adds = [{"op": "init", "g": 0, "m": "add", "v": v} for v in (6, 7, 8)]
        out.append(setup + adds + [{"op": "renameValues", "vs": [6, 7, 8], "names": at(["a1", "a2", "a3"], "", k)}])
        out.append(setup + adds + [{"op": "renameValues", "vs": [6, 7, 8], "names": at(["a1", "a2", "a3"], "b", k)}])
    # rename_values onto the CURRENT name of a backing tensor that refuses renaming (the tensor's name differs from the
    # value's): the refusal must be found before the renamed initializers are popped (seeded C06-p2), at every position
    for k in range(3):
        locked = {"op": "tapeInitializer", "g": 0, "name": "lk", "tname": "tn", "locked": True}  # v12: value "lk", tensor "tn"
        vs = at([6, 7, 8], 12, k)
        adds = [{"op": "init", "g": 0, "m": "add", "v": v} for v in (6, 7, 8) if v in vs]
        out.append(setup + [locked] + adds + [{"op": "renameValues", "vs": vs, "names": at(["a1", "a2", "a3"], "tn", k)}])
        out.append(setup + [locked] + adds + [{"op": "renameValues", "vs": vs, "names": at(["a1", "a2", "a3"], "zz", k)}])
    return out


def run_position_scenarios(ctx, prop: str, procs: int = 16) -> str:
    tails = position_scenarios()
    jobs = [tails[i : i + 6] for i in range(0, len(tails), 6)]
    for part in pmap(_exh_worker, jobs, procs):
        split_failures(part, prop)
        ctx.merge(part)
    return (
        f"{len(tails)} histories: every multi-element call (extend / slice assignment / insert_* / remove / update / |= / "
        "Graph(...) inputs, outputs, initializers, nodes / Node(outputs=) / rauw / rename_values) with its rejected element at position 0, 1, 2"
    )


def sort_scenarios() -> list[list[dict]]:
    """Nested graphs (graph-valued attributes) with a dependency cycle in one graph of the nest and acyclic but
    out-of-order siblings / children / parents, then `sort()` on the root (which must reject without moving a
    node of ANY graph) and on the subgraphs.  Each scenario is built in several allocation orders and with
    padding objects in between, because the library visits the graphs of a nest in the hash order of the
    graph objects."""

    def val(name=None):
        return {"op": "newValue", "name": name}

    def node(ins, name, attr=None, graph=None):
        op = {"op": "newNode", "opType": "Id", "name": name, "inputs": ins, "numOutputs": None, "outputs": None, "graph": graph}
        if attr is not None:
            op["attrGraphs"] = attr
        return op

    def graph(nodes):
        return {"op": "newGraph", "inputs": [], "outputs": [], "nodes": nodes, "inits": []}

    out = []
    for pad in range(6):
        for root_first in (False, True):
            for shape in ("cycle-in-root", "cycle-in-child", "siblings"):
                ops = [val("x")]  # v0
                padding = [val(f"pad{i}") for i in range(pad)]
                # chain a -> b stored as [b, a] (acyclic, out of order): nodes 0,1 ; values v1 (a.out) v2 (b.out)
                ops += [node([0], "a"), node([1], "b")]
                # cycle c <-> d: nodes 2,3 ; values v3 v4
                ops += [node([None], "c"), node([3], "d"), {"op": "replaceInput", "n": 2, "idx": 0, "v": 4}]
                nv = 5  # next value id
                if shape == "cycle-in-root":
                    # child S = [b, a]; root R = [owner(S), c, d]
                    if root_first:
                        ops += [graph([])] + padding + [graph([1, 0])]  # g0 = R (empty), g1 = S
                        ops += [node([], "owner", attr=[1])]  # n4
                        ops += [{"op": "extend", "g": 0, "ns": [4, 2, 3]}]
                        root, subs = 0, [1]
                    else:
                        ops += [graph([1, 0])] + padding + [node([], "owner", attr=[0]), graph([4, 2, 3])]
                        root, subs = 1, [0]
                elif shape == "cycle-in-child":
                    # child S = [c, d] (cyclic); root R = [b, a, owner(S)] out of order
                    if root_first:
                        ops += [graph([])] + padding + [graph([2, 3]), node([], "owner", attr=[1])]
                        ops += [{"op": "extend", "g": 0, "ns": [1, 0, 4]}]
                        root, subs = 0, [1]
                    else:
                        ops += [graph([2, 3])] + padding + [node([], "owner", attr=[0]), graph([1, 0, 4])]
                        root, subs = 1, [0]
                else:
                    # two children: S1 = [b, a] out of order, S2 = [c, d] cyclic; root R = [owner1, owner2]
                    if root_first:
                        ops += [graph([])] + padding + [graph([1, 0]), graph([2, 3])]
                        ops += [node([], "o1", attr=[1]), node([], "o2", attr=[2])]
                        ops += [{"op": "extend", "g": 0, "ns": [4, 5]}]
                        root, subs = 0, [1, 2]
                    else:
                        ops += [graph([2, 3])] + padding + [graph([1, 0])]
                        ops += [node([], "o1", attr=[1]), node([], "o2", attr=[0]), graph([5, 4])]
                        root, subs = 2, [0, 1]
                del nv
                tail = [{"op": "sort", "g": root}] + [{"op": "sort", "g": g} for g in subs] + [{"op": "sort", "g": root, "via": "function"}]
                out.append(ops + tail)
        # a node that is already in the root gets a new unnamed output backed by a tensor that refuses renaming:
        # sort() re-extends the graphs of the nest one after the other and the naming probe of the root fails
        # (AttributeError) - it must not have re-linked the out-of-order child by then
        out.append(
            [val("x"), node([0], "a"), node([1], "b"), graph([1, 0])]
            + [val(f"pad{i}") for i in range(pad)]
            + [node([], "owner", attr=[0]), node([], "c"), graph([2, 3]),
               {"op": "resizeOutputs", "n": 3, "k": 2}]
            + [{"op": "setConst", "v": 5 + pad, "locked": True}, {"op": "sort", "g": 1}]
        )
    # one Graph object reachable through two attributes (outside the hypothesis of C01_sort_step: C12's tree is not
    # well formed): a shared non-empty graph makes sort() raise, a shared EMPTY graph does not; then the sharing is
    # removed by an attribute edit and the same sort succeeds and re-orders the child
    for shared_nodes in ([1, 0], []):
        out.append(
            [val("x"), node([0], "a"), node([1], "b"), graph(shared_nodes)]
            + [node([], "o1", attr=[0]), node([], "o2", attr=[0]), graph([3, 2])]
            + [{"op": "sort", "g": 1}, {"op": "attrEdit", "n": 3, "key": "body0", "spell": "del"}, {"op": "sort", "g": 1},
               {"op": "attrEdit", "n": 2, "key": "body0", "graphs": [0, 0]}, {"op": "sort", "g": 1},
               {"op": "attrEdit", "n": 2, "key": "body0", "clear": True}, {"op": "sort", "g": 1}, {"op": "sort", "g": 0}]
        )
    # the order of a node's attribute dict decides the traversal order: two children, edited positions
    out.append(
        [val("x"), node([0], "a"), node([1], "b"), graph([1, 0]), node([None], "c"), node([3], "d"), graph([3, 2])]
        + [node([], "o", attr=[0])]
        + [{"op": "attrEdit", "n": 4, "key": "else", "graph": 1, "spell": "add"}, graph([4]),
           {"op": "setNodeName", "n": 1, "s": None}, {"op": "sort", "g": 2},
           {"op": "attrEdit", "n": 4, "key": "body0", "spell": "pop"}, {"op": "sort", "g": 2}]
    )
    return out


def view_scenarios() -> list[list[dict]]:
    """For every call of the full small alphabet: views created BEFORE it (one on g0's own collections, one that lists
    values / nodes of both graphs, free values and repeated entries) and edited AFTER it - the call must behave exactly
    as without views (same outcome, same delta: the model's kernel world never reads a view) and the views must show
    the same ids afterwards; then the view is edited and dropped and the same call is made again."""
    pre = [
        {"op": "newView", "inputs": [0], "outputs": [4], "nodes": [0, 1], "inits": [1]},
        {"op": "newView", "inputs": [2, 2, 5], "outputs": [0, 3], "nodes": [2, 0, 2], "inits": [0, 1]},
    ]
    post = [
        {"op": "viewSet", "view": 0, "slot": "inputs", "vs": [5, 0]},
        {"op": "viewInitPut", "view": 1, "key": "q", "v": 4},
        {"op": "viewInitDel", "view": 1, "key": "zz"},
        {"op": "viewDrop", "view": 0},
    ]
    out = []
    for call in small_alphabet(False):
        if call["op"] in VIEW_OPS:
            continue
        out.append(pre + [call] + post + [call])
    return out


def multiplicity_scenarios() -> list[list[dict]]:
    """A value listed once / twice in g0.inputs or g0.outputs, a slice assignment whose old and new side both contain
    it with another multiplicity, then two removals: a reference counter that drifted at the assignment (latent state)
    shows as a wrong is_graph_input / is_graph_output / graph at the removal (seeded C01-p1, C01-q1)."""
    import itertools

    setup = [{"op": "newValue", "name": "p"}, {"op": "newValue", "name": "q"}]  # v6, v7: free values
    x, y = 6, 7
    out = []
    for kind in ("inp", "out"):

        def io(m, **kw):
            return {"op": "io", "g": 0, "kind": kind, "m": m, **kw}

        def assign(vs, start=None, stop=None):
            return io("setSlice", start=start, stop=stop, step=None, vs=vs)

        removals = [io("pop", i=-1), io("pop", i=0), io("remove", v=x), io("delItem", i=0), io("clear"), assign([]),
                    io("setItem", i=0, v=y)]
        for base in ([x], [x, x], [x, y], [y, x, x]):
            for new in ([x], [x, x], [y, x], [x, y, x]):
                if base == new:
                    continue
                for r1, r2 in itertools.product(removals, repeat=2):
                    out.append(setup + [assign(base), assign(new), r1, r2])
    return out


def run_multiplicity_scenarios(ctx, prop: str, procs: int = 16) -> str:
    hs = [PRELUDE + t for t in multiplicity_scenarios()]
    chunk = max(1, len(hs) // (procs * 2))
    jobs = [hs[i : i + chunk] for i in range(0, len(hs), chunk)]
    for part in pmap(_sort_worker, jobs, procs):
        split_failures(part, prop)
        ctx.merge(part)
    return (f"{len(hs)} multiplicity histories: g0.inputs / g0.outputs set to a list with a value once / twice, re-assigned by "
            "a slice assignment that changes the value's multiplicity, then two removals (7 kinds)")


def run_view_scenarios(ctx, prop: str, procs: int = 16) -> str:
    hs = [PRELUDE + t for t in view_scenarios()]
    chunk = max(1, len(hs) // (procs * 2))
    jobs = [hs[i : i + chunk] for i in range(0, len(hs), chunk)]
    for part in pmap(_sort_worker, jobs, procs):
        split_failures(part, prop)
        ctx.merge(part)
    return (f"{len(hs)} GraphView histories: prelude, two views (one on g0's own collections, one mixing graphs, free and "
            "repeated entries), one call of the small alphabet, view edits / a KeyError / a drop, the same call again")


def run_sort_scenarios(ctx, prop: str, procs: int = 16) -> str:
    hs = sort_scenarios()
    jobs = [hs[i : i + 4] for i in range(0, len(hs), 4)]
    for part in pmap(_sort_worker, jobs, procs):
        split_failures(part, prop)
        ctx.merge(part)
    return (f"{len(hs)} nested-graph sort histories (3 shapes x 2 allocation orders x 6 paddings + 6 with a naming failure "
            "in the root + 2 with a Graph object shared by two attributes + 1 with edited attribute order); the model "
            "computes every sort itself (C12's sortModel on the tree read off the model state)")


_KEEP_ALIVE: list = []


def _sort_worker(hists):
    part = Part()
    done = []
    for ops in hists:
        h = run_one(random.Random(0), 0, part, fixed_ops=ops, keep=_KEEP_ALIVE)
        done.append(h)
    compare_with_model(part, done)
    return part


def replay_ops(ctx, prop: str, ops: list) -> None:
    part = Part()
    h = run_one(random.Random(0), 0, part, fixed_ops=ops)
    split_failures(part, prop)
    ctx.merge(part)
    compare_with_model(ctx, [h])


# --------------------------------------------------------------------------- alphabet completeness (checked)
#
# Every public member of the classes / modules below is classified here:
#   M(op)      a mutator mapped to the model operation(s) `op`; exercised >= ALPHABET_MIN times per run (counted
#              under `api=<Class.member>`), otherwise the run reports a broken correspondence
#   O(reason)  public and able to change IR state, but OUTSIDE the modelled alphabet, with the reason
#   Q(reason)  not a mutator of IR state (query / accessor / constructor of an unrelated object); the zero-argument
#              ones are called on a populated state on every run and must leave the deep snapshot unchanged
#   F(id, ..)  outside the alphabet because of a recorded finding (see proposed_fixes/<id>.md)
# `settable` records whether the member can be assigned (property with a setter / slot): a member that becomes
# settable, a new public member, or a member that disappears is reported (`ctx.disagree`), never ignored.


def M(op, settable=False):
    return ("model", op, settable)


def O(reason, settable=False):
    return ("outside", reason, settable)


def Q(reason="query", settable=False):
    return ("query", reason, settable)


def F(fid, reason, settable=False):
    return ("finding", f"{fid}: {reason}", settable)


_NOT_KERNEL = "writes a field that is not part of the kernel state (no use-def / ownership link reads it)"
_SEQ_Q = "Sequence protocol on the node container (read-only)"
_IO_UNSUPPORTED = "always raises RuntimeError (`_unimplemented`); nothing is touched"

API_TABLE: dict[str, tuple] = {}


def _tbl(cls: str, **members):
    for k, v in members.items():
        API_TABLE[f"{cls}.{k}"] = v


_tbl(
    "Graph",
    __init__=M("newGraph"), append=M("append"), extend=M("extend"), insert_after=M("insertAfter"),
    insert_before=M("insertBefore"), remove=M("remove"), sort=M("sort"), register_initializer=M("init.register"),
    inputs=M("io inp (the tracked list; see GraphInputs)"), outputs=M("io out (the tracked list; see GraphOutputs)"),
    initializers=M("init (the tracked mapping; see GraphInitializers)"),
    name=O(_NOT_KERNEL, True), doc_string=O(_NOT_KERNEL, True),
    opset_imports=O("returns the plain dict of opset imports: " + _NOT_KERNEL),
    meta=O("metadata store: " + _NOT_KERNEL), metadata_props=O("plain dict: " + _NOT_KERNEL),
    all_nodes=Q(), clone=Q("builds new objects (C13); the original is only read"), count=Q(_SEQ_Q), index=Q(_SEQ_Q),
    display=Q("prints"), node=Q(), num_nodes=Q(), subgraphs=Q(),
    __contains__=Q(_SEQ_Q), __getitem__=Q(_SEQ_Q), __iter__=Q(_SEQ_Q), __len__=Q(_SEQ_Q), __reversed__=Q(_SEQ_Q),
)
_tbl(
    "Function",
    __init__=Q("wraps an existing graph; writes no value / node / graph record"),
    append=M("append"), extend=M("extend"), insert_after=M("insertAfter"), insert_before=M("insertBefore"),
    remove=M("remove"), sort=M("sort"),
    inputs=M("io inp (graph.inputs of the wrapped graph)"), outputs=M("io out (graph.outputs of the wrapped graph)"),
    attributes=O("attribute *definitions* of the function (an Attributes dict owned by the function): " + _NOT_KERNEL),
    name=O(_NOT_KERNEL, True), domain=O(_NOT_KERNEL, True), overload=O(_NOT_KERNEL, True),
    doc_string=O("forwards to graph.doc_string: " + _NOT_KERNEL, True),
    opset_imports=O(_NOT_KERNEL), meta=O(_NOT_KERNEL), metadata_props=O(_NOT_KERNEL),
    graph=Q("the wrapped graph"), identifier=Q(), all_nodes=Q(), clone=Q("builds new objects (C13)"), count=Q(_SEQ_Q),
    index=Q(_SEQ_Q), display=Q("prints"), subgraphs=Q(),
    __contains__=Q(_SEQ_Q), __getitem__=Q(_SEQ_Q), __iter__=Q(_SEQ_Q), __len__=Q(_SEQ_Q), __reversed__=Q(_SEQ_Q),
)
_GV = ("plain slot of the view object; assigning it stores the object on the view and calls nothing (GraphView has no "
       "setter, no back pointer from any value / node / graph): CANNOT mutate IR state - exercised by the per-member "
       "probe `graphview-members` on every run")
_GVQ = "reads the view's own tuple of nodes (Sequence protocol): cannot mutate IR state (probe `graphview-members`)"
_tbl(
    "GraphView",
    __init__=M("newView (stores tuple(inputs) / tuple(outputs) / tuple(nodes) and a plain dict name -> initializer; "
               "ValueError for an initializer without a name; C01_view_frame: the kernel world is returned unchanged)"),
    inputs=M("viewSet inputs (plain slot)", True), outputs=M("viewSet outputs (plain slot)", True),
    initializers=M("viewInits / viewInitPut / viewInitDel (plain slot holding a plain dict: no check, no ownership)", True),
    nodes=O("declared slot that the class itself never reads or writes (the node tuple is kept in `_nodes` in the instance "
            "dict): `view.nodes` raises AttributeError until it is assigned, and what is assigned is ignored by iteration; "
            + _GV, True),
    name=O("not kernel state; " + _GV, True), doc_string=O("not kernel state; " + _GV, True),
    opset_imports=O("not kernel state (a plain dict of the view); " + _GV, True),
    meta=O("lazily creates a MetadataStore ON THE VIEW; " + _NOT_KERNEL + "; cannot mutate IR state (probe)"),
    metadata_props=O("lazily creates a dict ON THE VIEW; " + _NOT_KERNEL + "; cannot mutate IR state (probe)"),
    clone=Q("builds new objects (C13); the viewed objects are only read (probe `graphview-members`)"),
    count=Q(_GVQ), index=Q(_GVQ), display=Q("prints"),
    __contains__=Q(_GVQ), __getitem__=Q(_GVQ), __iter__=Q(_GVQ), __len__=Q(_GVQ), __reversed__=Q(_GVQ),
)
_tbl(
    "Node",
    __init__=M("newNode"), append=M("insertAfter (via=node)"), prepend=M("insertBefore (via=node)"),
    replace_input_with=M("replaceInput"), resize_inputs=M("resizeInputs"), resize_outputs=M("resizeOutputs"),
    name=M("setNodeName", True), op_type=M("setOpType", True),
    attributes=M("attrSet / attrDel / attrClear (the attribute dict; see Attributes)"),
    graph=O("the raw `Node.graph = x` setter is the mechanism Graph.append / remove use, not an editing call: assigning "
            "it directly desynchronises node and container by construction (DESIGN 4.1)", True),
    inputs=Q("the setter always raises AttributeError", True), outputs=Q("the setter always raises AttributeError", True),
    domain=O(_NOT_KERNEL, True), overload=O(_NOT_KERNEL, True), version=O(_NOT_KERNEL, True),
    doc_string=O(_NOT_KERNEL, True), device_configurations=O("device annotations: C19's state, " + _NOT_KERNEL, True),
    shard=O("device annotations (C19)"), set_pipeline_stage=O("device annotations (C19)"),
    meta=O(_NOT_KERNEL), metadata_props=O(_NOT_KERNEL),
    display=Q("prints"), op_identifier=Q(), predecessors=Q(), successors=Q(), sharding_of=Q(),
)
_ARITH = "arithmetic magic method: forwards to the user-installed handler (none installed: TypeError / NotImplemented)"
_tbl(
    "Value",
    __init__=M("newValue (Value(producer=, index=): known finding D87)"), name=M("setName", True),
    const_value=M("setConst / clearConst", True), replace_all_uses_with=M("rauw"),
    type=O(_NOT_KERNEL, True), dtype=O(_NOT_KERNEL, True), shape=O(_NOT_KERNEL, True), doc_string=O(_NOT_KERNEL, True),
    merge_shapes=O(_NOT_KERNEL), meta=O(_NOT_KERNEL), metadata_props=O(_NOT_KERNEL),
    graph=Q(), consumers=Q(), display=Q("prints"), index=Q(), is_graph_input=Q(), is_graph_output=Q(),
    is_initializer=Q(), producer=Q(), uses=Q(),
    __add__=Q(_ARITH), __mul__=Q(_ARITH), __neg__=Q(_ARITH), __radd__=Q(_ARITH), __rmul__=Q(_ARITH),
    __rsub__=Q(_ARITH), __rtruediv__=Q(_ARITH), __sub__=Q(_ARITH), __truediv__=Q(_ARITH),
)
for _cls in ("GraphInputs", "GraphOutputs"):
    _tbl(
        _cls,
        __init__=M("newGraph (only Graph(...) constructs it)"),
        append=M("io append"), extend=M("io extend"), insert=M("io insert"), pop=M("io pop"), remove=M("io remove"),
        clear=M("io clear"), reverse=M("io reverse"), sort=M("io sort"), __setitem__=M("io setItem / setSlice"),
        __delitem__=M("io delItem / delSlice"), __iadd__=M("io iadd (always RuntimeError)"),
        __imul__=M("io imul (always RuntimeError)"),
        copy=Q("returns a plain list of the same values"), count=Q(), index=Q(),
        __add__=Q(_IO_UNSUPPORTED), __radd__=Q(_IO_UNSUPPORTED), __mul__=Q(_IO_UNSUPPORTED), __rmul__=Q(_IO_UNSUPPORTED),
        __contains__=Q(), __getitem__=Q("returns the element / a plain list"), __iter__=Q(), __len__=Q(), __reversed__=Q(),
        __copy__=Q("returns a plain list (fix D421, repo 665c24f: it used to be a second tracked list sharing the reference "
                   "counter); the alias probe re-runs the failing input on every run"),
    )
_tbl(
    "GraphInitializers",
    __init__=M("newGraph (only Graph(...) constructs it)"),
    __setitem__=M("init setItem"), __delitem__=M("init delItem"), add=M("init add"), pop=M("init pop"),
    popitem=M("init popitem"), clear=M("init clear"), update=M("init update"), setdefault=M("init setdefault"),
    __ior__=M("init update (ior)"),
    copy=Q("returns a plain dict (fix D420, repo 5df9782: it used to be a second TRACKED mapping bound to the same graph); "
           "the alias probe re-runs the failing input on every run"),
    __copy__=Q("returns a plain dict (fix D420)"),
    __or__=Q("returns a plain merged dict (fix D422, repo 26a2f22: it used to build a GraphInitializers whose graph is a dict)"),
    __ror__=Q("same as __or__"),
    fromkeys=Q("classmethod; always TypeError (the constructor needs a graph)"),
    get=Q(), get_tensor=Q(), items=Q(), keys=Q(), values=Q(), tensors=Q(), tensor_items=Q(),
    __contains__=Q(), __getitem__=Q(), __iter__=Q(), __len__=Q(), __reversed__=Q(),
)
_tbl(
    "Attributes",
    __init__=M("newNode attrs (the dict a node is created with)"),
    __setitem__=M("attrSet"), add=M("attrSet"), update=M("attrSet"), setdefault=M("attrSet (absent key)"),
    __ior__=M("attrSet"), __delitem__=M("attrDel strict"), pop=M("attrDel"),
    popitem=M("attrDel strict (FIRST key: MutableMapping.popitem)"),
    clear=M("attrClear"),
    copy=Q("an Attributes dict tracks nothing: the copy is an independent dict with the same owner"),
    __copy__=Q("same as copy"), __or__=Q("always TypeError (constructor needs an owner)"), __ror__=Q("same as __or__"),
    fromkeys=Q("classmethod; always TypeError"),
    get=Q(), get_float=Q(), get_floats=Q(), get_graph=Q(), get_graphs=Q(), get_int=Q(), get_ints=Q(), get_string=Q(),
    get_strings=Q(), get_tensor=Q(), get_tensors=Q(), items=Q(), keys=Q(), values=Q(),
    __contains__=Q(), __getitem__=Q(), __iter__=Q(), __len__=Q(), __reversed__=Q(),
)
_tbl(
    "Tape",
    __init__=M("(binds the graph the nodes go to)"), op=M("newNode (graph=tape.graph_like)"),
    op_multi_out=M("newNode (graph=tape.graph_like)"), initializer=M("tapeInitializer"),
    initializers=Q(), nodes=Q(), used_opsets=Q(),
)
_tbl(
    "Builder",
    __init__=M("(binds the graph the nodes go to)"), __getattr__=M("builderNode"),
    op=M("newNode: inherited from Tape, counted there"), op_multi_out=M("newNode: inherited from Tape, counted there"),
    initializer=M("tapeInitializer: inherited from Tape, counted there"),
    initializers=Q(), nodes=Q(), used_opsets=Q(),
)
_tbl(
    "convenience",
    replace_all_uses_with=M("rauwMany"), rename_values=M("renameValues"),
    replace_nodes_and_values=M("replaceNodesAndValues"),
    convert_attribute=Q("builds an Attr"), convert_attributes=Q("builds Attrs"), create_value_mapping=Q(),
    get_const_tensor=O("may set value.shape / value.dtype from the constant it finds: " + _NOT_KERNEL),
    extract=Q("builds a new graph from clones (C18); the source is only read"),
)
_tbl("tape", Tape=M("see Tape"))

# members inherited by Builder / counted through another key
_COUNT_ALIAS = {"Builder.op": "Tape.op", "Builder.op_multi_out": "Tape.op_multi_out", "Builder.initializer": "Tape.initializer",
                "tape.Tape": "Tape.__init__"}
ALPHABET_MIN = 100

_DUNDER_IGNORE = {
    "__dict__", "__weakref__", "__module__", "__doc__", "__slots__", "__annotations__", "__abstractmethods__",
    "__orig_bases__", "__parameters__", "__class_getitem__", "__protocol_attrs__", "__non_callable_proto_members__",
    "__callable_proto_members_only__", "__firstlineno__", "__static_attributes__", "__subclasshook__",
    "__init_subclass__", "__hash__", "__annotate_func__", "__annotations_cache__",
}


def introspect_public() -> dict[str, bool]:
    """`Class.member` -> settable, for every public member of the real classes / modules (dunders that `object`
    does not define included)."""
    import inspect

    import onnx_ir as ir
    import onnx_ir.convenience as conv
    import onnx_ir.tape as tape_mod
    from onnx_ir import _graph_containers as gc
    from onnx_ir import _tape

    found: dict[str, bool] = {}
    base = set(dir(object)) - {"__init__"}
    classes = {
        "Graph": ir.Graph, "Function": ir.Function, "GraphView": ir.GraphView, "Node": ir.Node, "Value": ir.Value,
        "GraphInputs": gc.GraphInputs, "GraphOutputs": gc.GraphOutputs, "GraphInitializers": gc.GraphInitializers,
        "Attributes": gc.Attributes, "Tape": _tape.Tape, "Builder": _tape.Builder,
    }
    for cname, cls in classes.items():
        for name in dir(cls):
            if name.startswith("__") and name.endswith("__"):
                if name in base or name in _DUNDER_IGNORE:
                    continue
            elif name.startswith("_"):
                continue
            a = inspect.getattr_static(cls, name)
            settable = (isinstance(a, property) and a.fset is not None) or type(a).__name__ == "member_descriptor"
            found[f"{cname}.{name}"] = settable
    for name in conv.__all__:
        found[f"convenience.{name}"] = False
    for name in tape_mod.__all__:
        found[f"tape.{name}"] = False
    return found


def _query_probe() -> list[str]:
    """Call the zero-argument members classified `Q` (and read the `Q` properties) on a populated state and make
    sure nothing changed; also the GraphView frame (constructing a view / assigning its slots writes nothing)."""
    import inspect

    import onnx_ir as ir

    real = Real()
    run = [dict(o) for o in PRELUDE] + [
        {"op": "attrEdit", "n": 0, "key": "body0", "graph": 1},
        {"op": "io", "g": 1, "kind": "out", "m": "append", "v": 5},
    ]
    for op in run:
        real.apply(op)
    bad: list[str] = []
    targets = {
        "Graph": real.graphs[0], "Function": real.GF({"g": 0, "via": "function"}), "Node": real.nodes[0],
        "Value": real.vals[3], "GraphInputs": real.graphs[0].inputs, "GraphOutputs": real.graphs[0].outputs,
        "GraphInitializers": real.graphs[0].initializers, "Attributes": real.nodes[0].attributes,
    }
    before = deep_snapshot(real)  # after the Function wrapper exists
    called = 0
    for key, (kind, _why, _s) in API_TABLE.items():
        cname, member = key.split(".", 1)
        if kind != "query" or cname not in targets or member in ("display", "clone", "__init__"):
            continue
        obj = targets[cname]
        try:
            a = inspect.getattr_static(type(obj), member)
            if isinstance(a, property):
                getattr(obj, member)
            else:
                fn = getattr(obj, member)
                sig = inspect.signature(fn)
                if any(p.default is p.empty and p.kind in (p.POSITIONAL_ONLY, p.POSITIONAL_OR_KEYWORD)
                       for p in sig.parameters.values()):
                    continue
                r = fn()
                if inspect.isgenerator(r) or hasattr(r, "__next__"):
                    list(r)
            called += 1
        except Exception:  # noqa: BLE001 - a query may reject being called like this; it must still change nothing
            called += 1
        if deep_snapshot(real) != before:
            bad.append(f"{key} is classified as a query but changed the state")
            before = deep_snapshot(real)
    # GraphView: every public member exercised on a view over the populated state; none may change the IR state
    bad += graphview_member_probe()[0]
    return bad + ([] if called >= 30 else [f"query probe reached only {called} members"])


def graphview_member_probe(real: "Real | None" = None) -> tuple[list[str], dict[str, str]]:
    """Decide, for EVERY public member of GraphView (taken from introspection, not from a list), whether using it can
    mutate IR state: each member is exercised on views over a populated state (read, called with arguments that make
    sense for it, assigned when it is assignable) and the deep snapshot of all values / nodes / graphs (+ name authority,
    reference counters) must be what it was.  Returns (problems, member -> how it was exercised)."""
    import contextlib
    import inspect
    import io

    import onnx_ir as ir

    if real is None:
        real = Real()
        for op in [dict(o) for o in PRELUDE]:
            real.apply(op)
    g0, g1 = real.graphs[0], real.graphs[1]
    bad: list[str] = []
    how: dict[str, str] = {}
    before = deep_snapshot(real)

    def unchanged(member, what):
        nonlocal before
        how[member] = what
        now = deep_snapshot(real)
        if now != before:
            bad.append(f"GraphView.{member} ({what}) changed the state of the viewed objects: {first_diff(before, now)} "
                       "(graphview-members)")
            before = now

    def make():
        return ir.GraphView(list(g0.inputs) + [real.vals[2]], list(g0.outputs) + list(g0.outputs), nodes=list(g0) + list(g1),
                            initializers=list(g0.initializers.values()), name="view", doc_string="d", opset_imports={"": 1},
                            metadata_props={"k": "v"})

    try:
        view = make()
    except Exception as e:  # noqa: BLE001
        return [f"GraphView(...) over values / nodes owned by a graph was rejected: {type(e).__name__}: {str(e)[:160]} "
                "(graphview-members)"], how
    unchanged("__init__", "constructed over g0's inputs + a free value, repeated outputs, the nodes of two graphs, g0's initializers")
    try:
        ir.GraphView([], [], nodes=[], initializers=[real.vals[2]])  # unnamed: ValueError
        bad.append("GraphView(initializers=[unnamed value]) was accepted")
    except ValueError:
        pass
    unchanged("__init__", how["__init__"] + "; a rejected construction (unnamed initializer: ValueError)")
    node = real.nodes[0]
    exercised = {
        "inputs": lambda: (view.inputs, setattr(view, "inputs", (real.vals[5], real.vals[0], real.vals[0]))),
        "outputs": lambda: (view.outputs, setattr(view, "outputs", ())),
        "initializers": lambda: (view.initializers.update({"zz": real.vals[3]}), view.initializers.pop("zz"),
                                 setattr(view, "initializers", {"q": real.vals[0]})),
        "nodes": lambda: (setattr(view, "nodes", tuple(real.nodes)), view.nodes),
        "name": lambda: (view.name, setattr(view, "name", "other")),
        "doc_string": lambda: (view.doc_string, setattr(view, "doc_string", None)),
        "opset_imports": lambda: (view.opset_imports.update({"x": 2}), setattr(view, "opset_imports", {})),
        "meta": lambda: view.meta.__setitem__("k", 1),
        "metadata_props": lambda: view.metadata_props.__setitem__("k", "w"),
        "__getitem__": lambda: (view[0], view[-1], view[0:2]),
        "__len__": lambda: len(view),
        "__iter__": lambda: list(iter(view)),
        "__reversed__": lambda: list(reversed(view)),
        "__contains__": lambda: (node in view, real.nodes[-1] in view),
        "count": lambda: view.count(node),
        "index": lambda: view.index(node),
        "clone": lambda: ir.GraphView(list(g0.inputs), list(g0.outputs), nodes=list(g0),
                                      initializers=list(g0.initializers.values())).clone(),
        "display": lambda: view.display(),
    }
    members = sorted(k.split(".", 1)[1] for k in introspect_public() if k.startswith("GraphView."))
    for m in members:
        if m == "__init__":
            continue
        fn = exercised.get(m)
        if fn is None:
            bad.append(f"GraphView.{m}: public member without an entry in the per-member probe (graphview-members)")
            continue
        try:
            with contextlib.redirect_stdout(io.StringIO()), contextlib.redirect_stderr(io.StringIO()):
                fn()
            unchanged(m, "read / called / assigned: " + inspect.getsource(fn).split("lambda:", 1)[1].strip().rstrip(","))
        except Exception as e:  # noqa: BLE001 - the member may reject this use; it must still change nothing
            unchanged(m, f"raised {type(e).__name__}")
    del view
    import gc

    gc.collect()
    unchanged("(drop)", "the last reference to the view dropped, gc.collect()")
    return bad, how


PENDING_FINDINGS = {
    # id -> (signature, what, scenario): failing inputs of findings of this round; reported through ctx.fail as soon
    # as known_findings.json mentions the id (known: KNOWN-FINDING, fixed: a regression), listed as pending before
    "D420": ("alias:GraphInitializers.copy",
             "g.initializers.copy().pop(k) clears is_initializer / the owning graph of a value g.initializers still stores"),
    "D421": ("alias:GraphIO.__copy__",
             "copy.copy(g.inputs).pop() clears is_graph_input of a value g.inputs still lists (shared reference counter)"),
    "D422": ("alias:GraphInitializers.__or__",
             "(g.initializers | {})[k] = v flags v as initializer of a dict object and raises AttributeError"),
}


def _alias_probe() -> dict[str, bool]:
    """Does the failing input of each pending finding still fail on the real code?"""
    import copy as _copy

    import numpy as np

    import onnx_ir as ir

    res = {}

    def fresh():
        w = ir.Value(name="w", const_value=ir.Tensor(np.array([1.0], dtype=np.float32)))
        a = ir.Value(name="a")
        return ir.Graph([a], [], nodes=[], initializers=[w]), a, w

    g, a, w = fresh()
    try:
        c = g.initializers.copy()
        if hasattr(c, "pop"):
            c.pop("w")
    except Exception:  # noqa: BLE001
        pass
    res["D420"] = not (w.is_initializer() and w.graph is g and g.initializers.get("w") is w)
    g, a, w = fresh()
    try:
        c = _copy.copy(g.inputs)
        c.pop()
    except Exception:  # noqa: BLE001
        pass
    res["D421"] = not (a.is_graph_input() and a.graph is g and a in list(g.inputs))
    g, a, w = fresh()
    v = ir.Value(name="k")
    try:
        m = g.initializers | {}
        m["k"] = v
    except Exception:  # noqa: BLE001
        pass
    res["D422"] = v.is_initializer() or v._graph is not None
    return res


def check_alphabet(ctx, prop: str) -> None:
    """The alphabet tie: introspected public surface == API_TABLE, mapped entries exercised, queries are queries."""
    from harness.common import load_known

    found = introspect_public()
    for key in sorted(set(found) - set(API_TABLE)):
        ctx.disagree(
            f"alphabet: public member {key} of /repo is neither mapped to a model operation nor listed as outside "
            "the alphabet (harness/kernel_ops.py API_TABLE)", {"member": key, "settable": found[key]})
    for key in sorted(set(API_TABLE) - set(found)):
        ctx.disagree(f"alphabet: API_TABLE lists {key}, which /repo no longer has", {"member": key})
    for key in sorted(set(found) & set(API_TABLE)):
        if found[key] != API_TABLE[key][2]:
            ctx.disagree(
                f"alphabet: {key} is {'now' if found[key] else 'no longer'} assignable (setter / slot); API_TABLE says otherwise",
                {"member": key})
    table = {}
    for key, (kind, detail, _s) in sorted(API_TABLE.items()):
        row = {"class": kind, "detail": detail}
        if kind == "model":
            n = ctx.dist.get("api=" + _COUNT_ALIAS.get(key, key), 0)
            row["exercised"] = n
            if n < ALPHABET_MIN:
                ctx.disagree(
                    f"alphabet: {key} is mapped to the model ({detail}) but was exercised only {n} times in this run "
                    f"(minimum {ALPHABET_MIN})", {"member": key})
        table[key] = row
    ctx.extra["alphabet"] = {
        "members": len(table),
        "mapped": sum(1 for r in table.values() if r["class"] == "model"),
        "outside": sum(1 for r in table.values() if r["class"] == "outside"),
        "query": sum(1 for r in table.values() if r["class"] == "query"),
        "finding": sum(1 for r in table.values() if r["class"] == "finding"),
        "min_exercised": ALPHABET_MIN,
        "table": table,
    }
    # real code called by a probe: a problem is a broken correspondence / a failure, never a harness crash or a hang
    msgs, err = guarded(_query_probe)
    if err and "did not return" in err:
        ctx.fail("nontermination:query-probe", "a member classified as a query " + err, {})
    for msg in (msgs if err is None else [f"the query / GraphView probe could not run on the real code: {err}"]):
        ctx.disagree("alphabet: " + msg, {})
    gv, err = guarded(graphview_member_probe)
    ctx.extra["graphview_members"] = (
        {"decision": "no public member of GraphView can mutate IR state (each exercised on every run, deep snapshot "
                     "unchanged)", "members": gv[1]} if err is None else {"decision": f"probe failed: {err}"})
    # findings of this round
    known = load_known()
    mentioned = {e.get("id") for e in known.get("known", []) + known.get("fixed", []) if e.get("property") == prop}
    still, err = guarded(_alias_probe)
    if err is not None:
        ctx.disagree(f"alphabet: the alias probe could not run on the real code: {err}", {})
        still = {fid: False for fid in PENDING_FINDINGS}
    pending = []
    for fid, (sig, what) in PENDING_FINDINGS.items():
        if not still[fid]:
            continue  # repaired: the member is a plain copy now
        if fid in mentioned:
            if prop == "C01":
                ctx.fail(sig, what, {"finding": fid})
        else:
            pending.append(f"{fid} [{sig}] {what}")
    if pending:
        ctx.extra["pending_findings"] = pending
        ctx.notes.append("PENDING-FINDING (not yet in known_findings.json; proposed_fixes/D420-D422.md): " + "; ".join(pending))

"""Decoration layer of the C03 / C17 model (`lean/IrVerif/Model/ScopeMeta.lean`): abstraction of the real
protos / IR objects into the JSON of `scope.ddeser` / `scope.dser`.

Carriers and fields: model (ir_version, producer_name / producer_version / domain / model_version / doc_string,
opset_import, metadata_props, configuration), functions (doc_string, opset_import, metadata_props,
attribute_proto, attribute), graphs (name, doc_string, metadata_props), nodes (op identity, doc_string,
metadata_props, device_configurations).  Content is tokens; the tree has the shape of the core abstraction
(`serde_common.graph_proto_to_model`: the graphs of GRAPH / GRAPHS attributes after the dict of attribute names).

Everything is decoded from the protobuf objects / read through public accessors of the IR objects,
independently of onnx_ir.serde.
"""
from __future__ import annotations

import json

import onnx
import onnx_ir as ir

from harness import serde_common as sc
from harness.serde_common import OutsideModel


def _j(x) -> str:
    return json.dumps(x, separators=(",", ":"), sort_keys=False)


def _opt(v):
    """token of a `_get_field` field: None = absent, "" = falsy (not written), else the value"""
    if v is None:
        return None
    if not v:
        return ""
    return v if isinstance(v, str) else str(v)


def _get(p, field):
    return getattr(p, field) if p.HasField(field) else None


def _ss_proto(entries) -> list:
    return [[e.key, e.value] for e in entries]


def _ss_ir(d) -> list:
    return [[k, v] for k, v in (d or {}).items()]


def _norm_domain(d: str) -> str:
    return "" if d == "ai.onnx" else d


# --------------------------------------------------------------------------- device configurations


def _simple_tok_proto(s) -> list:
    if s.HasField("dim_value"):
        return ["v", int(s.dim_value), int(s.num_shards)]
    if s.HasField("dim_param"):
        return ["p", s.dim_param, int(s.num_shards)]
    return ["n", None, int(s.num_shards)]


def _spec_tok_proto(sp) -> str:
    return _j([
        [int(d) for d in sp.device],
        [[int(e.key), [int(x) for x in e.value]] for e in sp.index_to_device_group_map],
        [[int(d.axis), [_simple_tok_proto(s) for s in d.simple_sharding]] for d in sp.sharded_dim],
    ])


def _dev_proto(dc) -> dict:
    return {
        "cfg": dc.configuration_id,
        "stage": str(int(dc.pipeline_stage)) if dc.HasField("pipeline_stage") else None,
        "specs": [[sp.tensor_name, _spec_tok_proto(sp)] for sp in dc.sharding_spec],
    }


def _simple_tok_ir(s) -> list:
    if isinstance(s.dim, int):
        return ["v", int(s.dim), int(s.num_shards)]
    if s.dim is not None and getattr(s.dim, "value", None) is not None:
        return ["p", s.dim.value, int(s.num_shards)]
    return ["n", None, int(s.num_shards)]


def _spec_tok_ir(sp) -> str:
    return _j([
        [int(d) for d in sp.device],
        [[int(e.key), [int(x) for x in e.value]] for e in sp.index_to_device_group_map],
        [[int(d.axis), [_simple_tok_ir(s) for s in d.simple_shardings]] for d in sp.sharded_dims],
    ])


def _dev_ir(dc) -> dict:
    return {
        "cfg": None if dc.configuration is None else dc.configuration.name,
        "stage": None if dc.pipeline_stage is None else str(int(dc.pipeline_stage)),
        "specs": [[None if sp.value is None else sp.value.name, _spec_tok_ir(sp)] for sp in dc.sharding_specs],
    }


# --------------------------------------------------------------------------- proto side


def _node_proto(n: onnx.NodeProto) -> dict:
    return {
        "tok": _j([n.op_type, _norm_domain(n.domain), n.name, n.overload]),
        "doc": _get(n, "doc_string"),
        "meta": _ss_proto(n.metadata_props),
        "devs": [_dev_proto(dc) for dc in n.device_configurations],
        "g": [_graph_proto(s) for s in sc._subgraphs_of_node_proto(n)],
    }


def _graph_proto(g: onnx.GraphProto) -> dict:
    return {
        "name": _get(g, "name"),
        "doc": _get(g, "doc_string"),
        "meta": _ss_proto(g.metadata_props),
        "nodes": [_node_proto(n) for n in g.node],
    }


_ATTR_TYPES = {
    onnx.AttributeProto.UNDEFINED, onnx.AttributeProto.INT, onnx.AttributeProto.FLOAT, onnx.AttributeProto.STRING,
    onnx.AttributeProto.INTS,
}


def _attr_proto(a: onnx.AttributeProto) -> list:
    """(name, has a value, token) of a function attribute with a default; the token of a valueless attribute is
    "" (nothing of it but the name is written)"""
    if a.HasField("ref_attr_name") and a.ref_attr_name:
        raise OutsideModel("function attribute: reference")
    if a.type not in _ATTR_TYPES:
        raise OutsideModel("function attribute: kind")
    if a.type == onnx.AttributeProto.UNDEFINED:
        return [a.name, False, ""]
    doc = _get(a, "doc_string")
    if a.type == onnx.AttributeProto.INT:
        val = int(a.i)
    elif a.type == onnx.AttributeProto.FLOAT:
        val = repr(float(a.f))
    elif a.type == onnx.AttributeProto.STRING:
        try:
            val = a.s.decode("utf-8")
        except UnicodeDecodeError as e:
            raise OutsideModel("function attribute: bytes") from e
    else:
        val = [int(x) for x in a.ints]
    return [a.name, True, _j([int(a.type), val, doc or None])]


def _func_proto(f: onnx.FunctionProto) -> dict:
    return {
        "id": [f.domain, f.name, f.overload],
        "doc": _get(f, "doc_string"),
        "opsets": [[o.domain, str(int(o.version))] for o in f.opset_import],
        "meta": _ss_proto(f.metadata_props),
        "attrs": [_attr_proto(a) for a in f.attribute_proto],
        "attr_names": list(f.attribute),
        "nodes": [_node_proto(n) for n in f.node],
    }


def _cfg_tok(name, num_devices, devices) -> str:
    return _j([name, int(num_devices), [str(d) for d in devices]])


def model_proto_to_deco(m: onnx.ModelProto) -> dict:
    """ModelDP JSON of a ModelProto (request of `scope.ddeser`)"""
    return {
        "ver": int(m.ir_version),
        "opt": [_opt(_get(m, "producer_name")), _opt(_get(m, "producer_version")), _opt(_get(m, "domain")),
                _opt(_get(m, "model_version")), _opt(_get(m, "doc_string"))],
        "opsets": [[o.domain, str(int(o.version))] for o in m.opset_import],
        "meta": _ss_proto(m.metadata_props),
        "cfgs": [_cfg_tok(c.name, c.num_devices, c.device) for c in m.configuration],
        "graph": _graph_proto(m.graph),
        "funcs": [_func_proto(f) for f in m.functions],
    }


# --------------------------------------------------------------------------- IR side


def _node_ir(n: ir.Node, seen: set) -> dict:
    return {
        "tok": _j([n.op_type, n.domain or "", n.name or "", n.overload or ""]),
        "doc": n.doc_string,
        "meta": _ss_ir(n.metadata_props),
        "devs": [_dev_ir(dc) for dc in (n.device_configurations or ())],
        "g": [_graph_ir(s, seen) for s in sc._subgraphs_of_node(n)],
    }


def _graph_ir(g, seen: set) -> dict:
    if id(g) in seen:
        raise OutsideModel("graph object shared or cyclic")
    seen.add(id(g))
    return {
        "name": g.name,
        "doc": g.doc_string,
        "meta": _ss_ir(g.metadata_props),
        "nodes": [_node_ir(n, seen) for n in g],
    }


def _attr_ir(a) -> list:
    if a.is_ref():
        raise OutsideModel("function attribute: reference")
    if a.value is None:
        return [a.name, False, ""]
    t = a.type
    if t == ir.AttributeType.INT:
        val = int(a.value)
    elif t == ir.AttributeType.FLOAT:
        val = repr(float(a.value))
    elif t == ir.AttributeType.STRING:
        if not isinstance(a.value, str):
            raise OutsideModel("function attribute: bytes")
        val = a.value
    elif t == ir.AttributeType.INTS:
        val = [int(x) for x in a.value]
    else:
        raise OutsideModel("function attribute: kind")
    return [a.name, True, _j([int(t.value), val, a.doc_string or None])]


def _func_ir(f: ir.Function, seen: set) -> dict:
    return {
        "doc": f.doc_string,
        "opsets": [[k, str(int(v))] for k, v in f.opset_imports.items()],
        "meta": _ss_ir(f.metadata_props),
        "attrs": [_attr_ir(a) for a in f.attributes.values()],
        "nodes": [_node_ir(n, seen) for n in f],
    }


def ir_model_to_deco(model: ir.Model) -> dict:
    """ModelDS JSON of an IR model (request of `scope.dser`; the world `scope.ddeser` answers with)"""
    seen: set = set()
    return {
        "ver": int(model.ir_version),
        "opt": [_opt(model.producer_name), _opt(model.producer_version), _opt(model.domain),
                _opt(model.model_version), _opt(model.doc_string)],
        "opsets": [[k, str(int(v))] for k, v in model.opset_imports.items()],
        "meta": _ss_ir(model.metadata_props),
        "cfgs": [_cfg_tok(c.name, c.num_devices, c.device_names) for c in (model.device_configurations or ())],
        "graph": _graph_ir(model.graph, seen),
        "funcs": [[list(k), _func_ir(f, seen)] for k, f in model.functions.items()],
    }


def first_difference(a, b, path="") -> str:
    """path of the first difference of two JSON values"""
    if type(a) is not type(b):
        return path or "."
    if isinstance(a, dict):
        for k in a:
            if k not in b:
                return f"{path}.{k}"
            d = first_difference(a[k], b[k], f"{path}.{k}")
            if d:
                return d
        return "" if len(a) == len(b) else path + "#keys"
    if isinstance(a, list):
        if len(a) != len(b):
            return path + "#len"
        for x, y in zip(a, b):
            d = first_difference(x, y, path + "[]")
            if d:
                return d
        return ""
    return "" if a == b else (path or ".")


DEVICE_ERRORS = ("Cannot serialize a ShardingSpec", "Cannot serialize a NodeDeviceConfiguration")


# --------------------------------------------------------------------------- extended model (Model/ScopeExt.lean)

QUANT_FIELD = "quant_parameter_tensor_names"


def _vinfo_e(vi: onnx.ValueInfoProto, flags: dict) -> list:
    ty, sh = sc._canon_proto_type(vi.type) if vi.HasField("type") else (None, None)
    doc = vi.doc_string if vi.HasField("doc_string") else None
    tok, so = sc._mk_token(ty, sh, doc, None)
    if so:
        flags["shape_only"] = flags.get("shape_only", 0) + 1
    return [vi.name, tok, _ss_proto(vi.metadata_props)]


def graph_proto_to_ext(g: onnx.GraphProto, flags: dict | None = None) -> dict:
    """GraphE JSON of a GraphProto: the core abstraction with the doc_string alone as documentation token, plus
    value-info metadata, quantization annotations and node device configurations"""
    if flags is None:
        flags = {}
    if len(g.sparse_initializer):
        raise OutsideModel("sparse_initializer")
    return {
        "inputs": [_vinfo_e(v, flags) for v in g.input],
        "inits": [[t.name, *sc.tensor_tokens_of_proto(t)] for t in g.initializer],
        "vinfo": [_vinfo_e(v, flags) for v in g.value_info],
        "nodes": [
            {"i": list(n.input), "o": list(n.output), "devs": [_dev_proto(dc) for dc in n.device_configurations],
             "g": [graph_proto_to_ext(s, flags) for s in sc._subgraphs_of_node_proto(n)]}
            for n in g.node
        ],
        "outputs": [_vinfo_e(v, flags) for v in g.output],
        "quant": [[a.tensor_name, _ss_proto(a.quant_parameter_tensor_names)] for a in g.quantization_annotation],
    }


def func_proto_to_ext(f: onnx.FunctionProto, flags: dict | None = None) -> dict:
    """FuncE JSON of a FunctionProto (IR version >= 10 format)"""
    if flags is None:
        flags = {}
    return {
        "id": [f.domain, f.name, f.overload], "inputs": list(f.input), "outputs": list(f.output),
        "vinfo": [_vinfo_e(v, flags) for v in f.value_info],
        "nodes": [
            {"i": list(n.input), "o": list(n.output), "devs": [_dev_proto(dc) for dc in n.device_configurations],
             "g": [graph_proto_to_ext(s, flags) for s in sc._subgraphs_of_node_proto(n)]}
            for n in f.node
        ],
    }


def model_proto_to_ext(m: onnx.ModelProto, flags: dict | None = None) -> dict:
    """request body of `scope.medeser`: main graph and functions"""
    if flags is None:
        flags = {}
    return {"p": graph_proto_to_ext(m.graph, flags), "funcs": [func_proto_to_ext(f, flags) for f in m.functions]}


def ir_model_to_world_ext(model: ir.Model, flags: dict | None = None) -> dict:
    """world + ext of an IR model: main graph, then the functions in dict order"""
    return ir_graph_to_world_ext(model.graph, flags, funcs=[(k, f.graph) for k, f in model.functions.items()])


def ir_graph_to_world_ext(graph: ir.Graph, flags: dict | None = None, funcs: list | None = None) -> dict:
    """{"world": World JSON (documentation token = doc_string alone), "ext": Ext JSON} of a real IR graph; numbering
    as `serde_common.ir_graph_to_world` (first encounter: inputs, initializers, per node inputs / outputs /
    subgraphs, outputs)"""
    if flags is None:
        flags = {}
    num = sc._Numbering()
    seen: set = set()

    def walk(g) -> dict:
        if id(g) in seen:
            raise OutsideModel("graph object shared or cyclic")
        seen.add(id(g))
        gid = num.g(g)
        ins = [num.v(v) for v in g.inputs]
        inits = [[k, num.v(v)] for k, v in g.initializers.items()]
        nodes = []
        for n in g:
            nid = num.n(n)
            i = [None if v is None else num.v(v) for v in n.inputs]
            o = [num.v(v) for v in n.outputs]
            subs = [walk(s) for s in sc._subgraphs_of_node(n)]
            nodes.append({"id": nid, "graph": None, "i": i, "o": o, "g": subs, "_obj": n})
        outs = [num.v(v) for v in g.outputs]
        return {"id": gid, "inputs": ins, "inits": inits, "nodes": nodes, "outputs": outs}

    root = walk(graph)
    fworlds = [[list(fid), walk(fg)] for fid, fg in funcs or []]

    def fix(gt):
        for n in gt["nodes"]:
            obj = n.pop("_obj")
            n["graph"] = num.graphs.get(id(obj.graph)) if obj.graph is not None else None
            for s in n["g"]:
                fix(s)

    fix(root)
    for _, fw in fworlds:
        fix(fw)
    vals, vmeta, quant = [], [], []
    for v in num.vobjs:
        tok, so = sc._mk_token(sc._canon_ir_type(v.type), sc._canon_ir_shape(v.shape), v.doc_string, None)
        if so:
            flags["shape_only"] = flags.get("shape_only", 0) + 1
        prod = v.producer()
        uses = [[num.nodes[id(u.node)], u.idx] for u in v.uses() if id(u.node) in num.nodes]
        og = sc.owner_graph_of(v)
        vals.append({
            "name": v.name, "info": tok,
            "const": None if v.const_value is None else num.t(v.const_value),
            "producer": None if prod is None else num.nodes.get(id(prod)),
            "index": v.index() if (v.index() is None or v.index() >= 0) else None,
            "uses": uses, "graph": None if og is None else num.graphs.get(id(og)),
            "isIn": v.is_graph_input(), "isOut": v.is_graph_output(), "isInit": v.is_initializer(),
        })
        vmeta.append(_ss_ir(v.metadata_props))
        q = v.meta.get(QUANT_FIELD)
        quant.append(None if not q else _ss_ir(q))
    devs = []
    for n in num.nobjs:
        ds = []
        for dc in (n.device_configurations or ()):
            specs = []
            for sp in dc.sharding_specs:
                if sp.value is None:
                    sh = None
                elif id(sp.value) in num.values:
                    sh = {"v": num.values[id(sp.value)]}
                else:
                    sh = {"f": sp.value.name}
                specs.append([sh, _spec_tok_ir(sp)])
            ds.append({"cfg": None if dc.configuration is None else dc.configuration.name,
                       "stage": None if dc.pipeline_stage is None else str(int(dc.pipeline_stage)), "specs": specs})
        devs.append(ds)
    tens = [[t.name, *sc.tensor_tokens_of_ir(t)] for t in num.tobjs]
    world = {"vals": vals, "tens": tens, "nn": len(num.nobjs), "ng": len(num.gobjs), "root": root}
    if funcs is not None:
        world["funcs"] = fworlds
    return {"world": world, "ext": {"vmeta": vmeta, "quant": quant, "devs": devs}}


def canon_world_ext(we: dict) -> dict:
    """renumber world + ext by first encounter (as `serde_common.canon_world`); unreachable cells are dropped"""
    w, x = we["world"], we["ext"]
    vmap: dict = {}
    nmap: dict = {}

    def v(i):
        if i not in vmap:
            vmap[i] = len(vmap)

    def walk(g):
        for i in g["inputs"]:
            v(i)
        for _, i in g["inits"]:
            v(i)
        for n in g["nodes"]:
            nmap.setdefault(n["id"], len(nmap))
            for i in n["i"]:
                if i is not None:
                    v(i)
            for i in n["o"]:
                v(i)
            for s in n["g"]:
                walk(s)
        for i in g["outputs"]:
            v(i)

    walk(w["root"])
    for _, fg in w.get("funcs") or []:
        walk(fg)
    cw = sc.canon_world(w)
    vmeta = [None] * len(vmap)
    quant = [None] * len(vmap)
    for old, new in vmap.items():
        vmeta[new] = x["vmeta"][old]
        quant[new] = x["quant"][old] or None
    devs = [None] * len(nmap)
    for old, new in nmap.items():
        ds = []
        for d in x["devs"][old]:
            specs = []
            for sh, tok in d["specs"]:
                if isinstance(sh, dict) and "v" in sh:
                    sh = {"v": vmap.get(sh["v"], -1)}
                specs.append([sh, tok])
            ds.append({"cfg": d["cfg"], "stage": d["stage"], "specs": specs})
        devs[new] = ds
    return {"world": cw, "ext": {"vmeta": vmeta, "quant": quant, "devs": devs}}


# --------------------------------------------------------------------------- write sites of to_proto (C03_pure_sites)

_MUTATORS = {
    "append", "extend", "insert", "pop", "remove", "clear", "update", "setdefault", "add", "discard", "popitem",
    "sort", "reverse", "__setitem__", "__delitem__", "__setattr__", "__delattr__", "appendleft", "popleft",
    "replace_input_with", "replace_all_uses_with", "resize_inputs", "resize_outputs", "register_initializer",
}
_LOCAL_MAKERS = {"set", "dict", "list", "frozenset", "sorted", "tuple", "bytearray"}

#: how an assignment target of serde.py's serialize_* functions maps to a write site of `Model/ScopeEff.lean`
#: (object kind, attribute); a target that is not listed here is reported as ("unknown", <source text>)
WRITE_SITE_OF_TARGET = {
    "value.const_value.name": ("tensor", "name"),
}


def _root_name(e):
    import ast

    while True:
        if isinstance(e, ast.Name):
            return e.id
        if isinstance(e, (ast.Attribute, ast.Subscript, ast.Starred)):
            e = e.value
        elif isinstance(e, ast.Call):
            if isinstance(e.func, ast.Name) and e.func.id == "getattr" and e.args:
                e = e.args[0]  # getattr(proto, field) is reached from the proto
            else:
                e = e.func
        else:
            return None


def serde_write_sites(source: str | None = None) -> list:
    """Every place where a function reachable from serde.py's `serialize*` / `to_proto` entry points (call-graph
    closure over the module's own functions) assigns to, deletes from, or calls a mutating container method on an
    object that is neither a protobuf message (a parameter annotated with an `onnx.` type, `onnx.X()` or anything
    reached from one) nor a container created inside the function.  Returns [(function, source text of the target,
    (kind, attribute))], sorted.  The scan reads the source of the IMPORTED `onnx_ir.serde`."""
    import ast
    import inspect

    if source is None:
        from onnx_ir import serde

        source = inspect.getsource(serde)
    tree = ast.parse(source)
    funcs = {f.name: f for f in tree.body if isinstance(f, (ast.FunctionDef, ast.AsyncFunctionDef))}
    todo = [n for n in funcs if n.startswith("serialize") or n == "to_proto"]
    reach: set = set()
    while todo:
        n = todo.pop()
        if n in reach:
            continue
        reach.add(n)
        for c in ast.walk(funcs[n]):
            if isinstance(c, ast.Call) and isinstance(c.func, ast.Name) and c.func.id in funcs:
                todo.append(c.func.id)
            elif isinstance(c, ast.Name) and c.id in funcs and c.id not in reach:
                todo.append(c.id)  # a function passed as a value (dispatch tables)
    out = []
    for name in sorted(reach):
        fn = funcs[name]
        proto: set = set()
        local: set = set()
        args = fn.args
        for a in args.posonlyargs + args.args + args.kwonlyargs:
            if a.annotation is not None and "onnx." in ast.unparse(a.annotation):
                proto.add(a.arg)
        changed = True
        while changed:
            changed = False
            for st in ast.walk(fn):
                pairs = []
                if isinstance(st, ast.Assign) and len(st.targets) == 1 and isinstance(st.targets[0], ast.Name):
                    pairs.append((st.targets[0].id, st.value))
                elif isinstance(st, ast.AnnAssign) and isinstance(st.target, ast.Name) and st.value is not None:
                    pairs.append((st.target.id, st.value))
                elif isinstance(st, (ast.For, ast.comprehension)) and isinstance(st.target, ast.Name):
                    pairs.append((st.target.id, st.iter))
                elif isinstance(st, ast.NamedExpr) and isinstance(st.target, ast.Name):
                    pairs.append((st.target.id, st.value))
                for var, val in pairs:
                    r = _root_name(val)
                    if (r in proto or r == "onnx") and var not in proto:
                        proto.add(var)
                        changed = True
                    is_local = isinstance(val, (ast.List, ast.Dict, ast.Set, ast.ListComp, ast.DictComp, ast.SetComp,
                                                ast.Constant, ast.JoinedStr, ast.Tuple)) or (
                        isinstance(val, ast.Call) and isinstance(val.func, ast.Name) and val.func.id in _LOCAL_MAKERS)
                    if is_local and var not in local:
                        local.add(var)
                        changed = True
        safe = proto | local
        # simple aliases `x = a.b.c` (assigned exactly once, from a name / attribute chain): a write through the alias
        # is the same write site as through the chain (`tensor = value.const_value; tensor.name = ...`)
        assigned: dict = {}
        for st in ast.walk(fn):
            if isinstance(st, ast.Assign) and len(st.targets) == 1 and isinstance(st.targets[0], ast.Name):
                assigned.setdefault(st.targets[0].id, []).append(st.value)
            elif isinstance(st, (ast.AugAssign, ast.AnnAssign, ast.NamedExpr, ast.For, ast.comprehension)) and isinstance(
                getattr(st, "target", None), ast.Name
            ):
                assigned.setdefault(st.target.id, []).append(None)
        alias = {v: ast.unparse(vals[0]) for v, vals in assigned.items()
                 if len(vals) == 1 and isinstance(vals[0], (ast.Attribute, ast.Name))}

        def _expand(t):
            text = ast.unparse(t)
            r = _root_name(t)
            seen = set()
            while r in alias and r not in seen and (text == r or text.startswith(r + ".") or text.startswith(r + "[")):
                seen.add(r)
                text = alias[r] + text[len(r):]
                r = text.split(".", 1)[0].split("[", 1)[0]
            return text

        for st in ast.walk(fn):
            targets = []
            if isinstance(st, ast.Assign):
                targets = list(st.targets)
            elif isinstance(st, (ast.AugAssign, ast.AnnAssign)):
                targets = [st.target]
            elif isinstance(st, ast.Delete):
                targets = list(st.targets)
            elif isinstance(st, ast.Call) and isinstance(st.func, ast.Attribute) and st.func.attr in _MUTATORS:
                r = _root_name(st.func.value)
                if r is not None and r not in safe:
                    out.append((name, ast.unparse(st.func) + "()"))
                continue
            elif isinstance(st, ast.Call) and isinstance(st.func, ast.Name) and st.func.id in ("setattr", "delattr") and st.args:
                r = _root_name(st.args[0])
                if r is not None and r not in safe:
                    out.append((name, ast.unparse(st)))
                continue
            flat = []
            for t in targets:
                flat.extend(t.elts if isinstance(t, (ast.Tuple, ast.List)) else [t])
            for t in flat:
                if isinstance(t, (ast.Attribute, ast.Subscript)):
                    r = _root_name(t)
                    if r is not None and r not in safe:
                        out.append((name, _expand(t)))
    return sorted((f, t, WRITE_SITE_OF_TARGET.get(t, ("unknown", t))) for f, t in set(out))

#!/venv/bin/python
"""Regenerate lean/statements.lock.json: the pinned (hashed) statements of every property theorem.
Run after deliberately changing or adding a theorem; review the diff of the Props file together with the lock."""
import importlib, json, os, sys
root = os.path.dirname(os.path.dirname(os.path.abspath(__file__)))
sys.path.insert(0, root)
from harness import common
props = sys.argv[1:] or [json.loads(l)["id"] for l in open(f"{root}/properties.jsonl")]
lock = common.load_statement_lock()
ok, log = common.lake_build()
if not ok:
    sys.exit("lake build failed:\n" + log[-2000:])
for p in props:
    try:
        mod = importlib.import_module(f"harness.{p.lower()}")
    except Exception as e:
        print("skip", p, e); continue
    got = common.statement_hashes(p, list(mod.THEOREMS))
    missing = [t for t in mod.THEOREMS if t not in got]
    if missing:
        print(p, "could not print statements of", missing); continue
    lock[p] = {t: got[t] for t in mod.THEOREMS}
    print(p, len(lock[p]), "theorems pinned")
json.dump(lock, open(common.STATEMENTS_LOCK, "w"), indent=1, sort_keys=True)

#!/venv/bin/python
"""Regenerate lean/statements.lock.json: the pinned (hashed) statements of every property theorem.
Run after deliberately changing or adding a theorem; review the diff of the Props file together with the lock."""
import importlib, json, os, sys
root = os.path.dirname(os.path.dirname(os.path.abspath(__file__)))
sys.path.insert(0, root)
from harness import common
props = sys.argv[1:] or [json.loads(l)["id"] for l in open(f"{root}/properties.jsonl")]
lock = common.load_statement_lock()
pinned = {}
ok, log = common.lake_build()
if not ok:
    sys.exit("lake build failed:\n" + log[-2000:])
for p in props:
    try:
        mod = importlib.import_module(f"harness.{p.lower()}")
    except Exception as e:
        print("skip", p, e); continue
    got = common.statement_hashes(p, list(mod.THEOREMS))
    missing = [t for t in mod.THEOREMS if t not in got]
    if missing:
        print(p, "could not print statements of", missing); continue
    lock[p] = {t: got[t] for t in mod.THEOREMS}
    pinned[p] = lock[p]
    print(p, len(lock[p]), "theorems pinned")
# several builders pin concurrently (and a pin takes minutes): re-read the file under a lock and update only our keys
import fcntl
with open(common.STATEMENTS_LOCK + ".flock", "w") as lk:
    fcntl.flock(lk, fcntl.LOCK_EX)
    cur = common.load_statement_lock()
    cur.update(pinned)
    tmp = common.STATEMENTS_LOCK + ".tmp"
    json.dump(cur, open(tmp, "w"), indent=1, sort_keys=True)
    os.replace(tmp, common.STATEMENTS_LOCK)

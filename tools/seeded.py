#!/usr/bin/env python3
"""Seeded-change bookkeeping (never touches /repo's working tree: uses scratch worktrees + PYTHONPATH).

  seeded.py verify <candidate_dir>            patch applies to /repo HEAD, suite still passes, demo 0 -> 1
  seeded.py adopt  <candidate_dir> <id>       verify, then copy to /verif/seeded/<id>/ (meta.json extended)
  seeded.py run    [<id> ...] [--tier quick]  run the owning property's check against each seeded change and
                                              write /verif/seeded/RESULTS.json (the catch matrix)
"""
import json
import os
import re
import shutil
import subprocess
import sys
import tempfile
import time

VERIF = os.path.dirname(os.path.dirname(os.path.abspath(__file__)))
SEEDED = os.path.join(VERIF, "seeded")
PY = "/venv/bin/python"


def sh(cmd, **kw):
    return subprocess.run(cmd, shell=isinstance(cmd, str), capture_output=True, text=True, **kw)


class Worktree:
    def __init__(self, patch):
        self.patch = patch

    def __enter__(self):
        self.dir = tempfile.mkdtemp(prefix="seedwt-", dir="/tmp")
        os.rmdir(self.dir)
        r = sh(["git", "-C", "/repo", "worktree", "add", "--detach", self.dir, "HEAD"])
        if r.returncode:
            raise RuntimeError(r.stderr)
        r = sh(["git", "-C", self.dir, "apply", os.path.abspath(self.patch)])
        if r.returncode:
            self.__exit__()
            raise RuntimeError("patch does not apply: " + r.stderr[-500:])
        return self.dir

    def __exit__(self, *a):
        sh(["git", "-C", "/repo", "worktree", "remove", "--force", self.dir])
        shutil.rmtree(self.dir, ignore_errors=True)
        sh(["git", "-C", "/repo", "worktree", "prune"])


def verify(cand, run_suite=True):
    patch, demo = os.path.join(cand, "patch.diff"), os.path.join(cand, "demo.py")
    res = {}
    env0 = {k: v for k, v in os.environ.items() if k != "PYTHONPATH"}
    r = sh([PY, demo], env=env0, timeout=900)
    res["demo_unmodified_exit"] = r.returncode
    with Worktree(patch) as wt:
        env = dict(env0, PYTHONPATH=os.path.join(wt, "src"))
        r = sh([PY, demo], env=env, timeout=900)
        res["demo_modified_exit"] = r.returncode
        res["demo_modified_tail"] = (r.stdout + r.stderr)[-400:]
        if run_suite:
            r = sh(
                f"cd {wt} && {PY} -m pytest -q -p no:cacheprovider --color=no --timeout=900 "
                "--continue-on-collection-errors 2>&1 | tail -3",
                env=env,
                timeout=3000,
            )
            m = re.search(r"(\d+) failed, (\d+) passed.*?(\d+) errors", r.stdout)
            res["suite"] = r.stdout.strip().splitlines()[-1] if r.stdout.strip() else "?"
            res["suite_ok"] = bool(m and m.group(1) == "1" and m.group(2) == "3664" and m.group(3) == "2")
    res["ok"] = res["demo_unmodified_exit"] == 0 and res["demo_modified_exit"] == 1 and res.get("suite_ok", True)
    return res


def adopt(cand, sid):
    res = verify(cand)
    print(json.dumps(res, indent=1))
    if not res["ok"]:
        print("NOT adopted")
        return 1
    dst = os.path.join(SEEDED, sid)
    os.makedirs(dst, exist_ok=True)
    for f in ("patch.diff", "demo.py"):
        shutil.copy(os.path.join(cand, f), os.path.join(dst, f))
    meta = json.load(open(os.path.join(cand, "meta.json")))
    meta["verified"] = {
        "repo_head": sh(["git", "-C", "/repo", "rev-parse", "--short", "HEAD"]).stdout.strip(),
        "what_i_ran": "tools/seeded.py adopt: git apply in a scratch worktree of /repo HEAD; full baseline suite with the "
        "change (3664 passed, the 3 pre-existing non-passing items unchanged); demo.py exit 0 on /repo, exit 1 with the change",
        **res,
    }
    json.dump(meta, open(os.path.join(dst, "meta.json"), "w"), indent=1)
    print("adopted as", sid)
    return 0


def run(ids, tier):
    results_path = os.path.join(SEEDED, "RESULTS.json")
    results = json.load(open(results_path)) if os.path.exists(results_path) else {}
    ids = ids or sorted(d for d in os.listdir(SEEDED) if os.path.isdir(os.path.join(SEEDED, d)))
    for sid in ids:
        d = os.path.join(SEEDED, sid)
        meta = json.load(open(os.path.join(d, "meta.json")))
        props = meta.get("checks") or [meta["property"]]
        entry = {"property": meta["property"], "runs": {}}
        if sh(["git", "-C", "/repo", "apply", "--check", os.path.join(d, "patch.diff")]).returncode != 0:
            print(sid, "SKIPPED: patch does not apply to /repo HEAD (run `seeded.py rebase`)")
            continue
        out_dir = os.environ.get("IRVERIF_SEEDED_OUT") or os.path.join(VERIF, ".work", "seeded-out")
        with Worktree(os.path.join(d, "patch.diff")) as wt:
            env = dict(os.environ, PYTHONPATH=os.path.join(wt, "src"), IRVERIF_OUT_DIR=out_dir)
            for p in props:
                t0 = time.time()
                try:
                    r = sh([os.path.join(VERIF, "check"), p, "--tier", tier], env=env, cwd=VERIF, timeout=1800)
                except subprocess.TimeoutExpired:
                    sh("ps -eo pid,args | grep 'verif/chec[k] %s' | awk '{print $1}' | xargs -r kill -9" % p)
                    entry["runs"][p] = {"exit": "timeout", "violation_lines": [], "caught": False,
                                        "with_failing_input": False, "wall_s": 1800, "tier": tier}
                    print(sid, p, entry["runs"][p])
                    continue
                viol = [l for l in r.stdout.splitlines() if l.startswith("VIOLATION")]
                entry["runs"][p] = {
                    "exit": r.returncode,
                    "violation_lines": viol[:3],
                    "caught": r.returncode == 1 and bool(viol),
                    "with_failing_input": any("no-failing-input-found" not in v for v in viol),
                    "wall_s": round(time.time() - t0, 1),
                    "tier": tier,
                }
                print(sid, p, entry["runs"][p])
        entry["caught"] = any(x["caught"] for x in entry["runs"].values())
        # several `seeded.py run` processes may be going: merge under a lock instead of overwriting
        import fcntl
        with open(results_path + ".lock", "w") as lk:
            fcntl.flock(lk, fcntl.LOCK_EX)
            results = json.load(open(results_path)) if os.path.exists(results_path) else {}
            results[sid] = entry
            tmp = results_path + ".tmp"
            json.dump(results, open(tmp, "w"), indent=1, sort_keys=True)
            os.replace(tmp, results_path)
    return 0


def rebase(ids):
    """Re-create patches that no longer apply to /repo HEAD (3-way merge, then GNU patch with fuzz)."""
    ids = ids or sorted(d for d in os.listdir(SEEDED) if os.path.isdir(os.path.join(SEEDED, d)))
    for sid in ids:
        patch = os.path.join(SEEDED, sid, "patch.diff")
        if sh(["git", "-C", "/repo", "apply", "--check", patch]).returncode == 0:
            continue
        wt = tempfile.mkdtemp(prefix="seedrb-", dir="/tmp")
        os.rmdir(wt)
        sh(["git", "-C", "/repo", "worktree", "add", "--detach", wt, "HEAD"])
        try:
            r = sh(["git", "-C", wt, "apply", "--3way", patch])
            conflict = sh(f"grep -rl '^<<<<<<< ' {wt}/src || true").stdout.strip()
            if r.returncode != 0 or conflict:
                sh(["git", "-C", wt, "checkout", "--", "."])
                sh(["git", "-C", wt, "reset", "-q", "--hard"])
                r = sh(f"cd {wt} && patch -p1 --fuzz=3 --no-backup-if-mismatch < {patch}")
                if r.returncode != 0:
                    print(sid, "NEEDS MANUAL REBASE:", (r.stdout + r.stderr)[-300:].replace("\n", " | "))
                    continue
            sh(["git", "-C", wt, "reset", "-q"])
            d = sh(["git", "-C", wt, "diff"]).stdout
            if not d.strip():
                print(sid, "rebase produced an empty diff (change already in HEAD?)")
                continue
            shutil.copy(patch, patch + ".orig")
            open(patch, "w").write(d)
            res = verify(os.path.join(SEEDED, sid))
            if res["ok"]:
                os.remove(patch + ".orig")
                meta = json.load(open(os.path.join(SEEDED, sid, "meta.json")))
                meta.setdefault("verified", {})["rebased_onto"] = sh(["git", "-C", "/repo", "rev-parse", "--short", "HEAD"]).stdout.strip()
                json.dump(meta, open(os.path.join(SEEDED, sid, "meta.json"), "w"), indent=1)
                print(sid, "rebased and verified")
            else:
                shutil.move(patch + ".orig", patch)
                print(sid, "rebased patch FAILED verification:", {k: res.get(k) for k in ("demo_unmodified_exit", "demo_modified_exit", "suite")})
        finally:
            sh(["git", "-C", "/repo", "worktree", "remove", "--force", wt])
            shutil.rmtree(wt, ignore_errors=True)
            sh(["git", "-C", "/repo", "worktree", "prune"])
    return 0


if __name__ == "__main__":
    cmd = sys.argv[1]
    if cmd == "rebase":
        sys.exit(rebase(sys.argv[2:]))
    if cmd == "verify":
        r = verify(sys.argv[2])
        print(json.dumps(r, indent=1))
        sys.exit(0 if r["ok"] else 1)
    if cmd == "adopt":
        sys.exit(adopt(sys.argv[2], sys.argv[3]))
    if cmd == "run":
        args = sys.argv[2:]
        tier = "quick"
        if "--tier" in args:
            i = args.index("--tier")
            tier = args[i + 1]
            del args[i : i + 2]
        sys.exit(run(args, tier))

#!/bin/bash
# Run /repo's pinned baseline suite (guard OFF) and summarise; expected: 3664 passed, 2 collection errors + 1 failed (always_fail in BASELINE.json).
cd /repo && env -u ONNX_IR_PY_VERIF /venv/bin/python -m pytest -ra -q -p no:cacheprovider --color=no --timeout=900 --continue-on-collection-errors -n 12 2>/dev/null | tail -15 || true

#!/usr/bin/env python3
"""Regenerate DESIGN-tables.md (findings ledger, seeded-change catch matrix, per-property theorem counts)
from known_findings.json, seeded/*/meta.json, seeded/RESULTS.json and evidence/*.json."""
import json, os, glob
root = os.path.dirname(os.path.dirname(os.path.abspath(__file__)))
out = ["# Generated tables (tools/gen_tables.py) — do not edit by hand\n"]
kf = json.load(open(f"{root}/known_findings.json"))
out.append("## 1. Findings ledger\n")
out.append("### Known (recorded, not repaired) — the check prints KNOWN-FINDING for exactly these signatures\n")
out.append("| id | property | signature (regex) | what fails |\n|---|---|---|---|")
for k in kf["known"]:
    out.append(f"| {k.get('id','')} | {k['property']} | `{k['signature']}` | {k['what'][:400].replace('|','/')} |")
out.append("\n### Fixed in /repo (one `fix:` commit each; suppresses nothing)\n")
out.append("| id | property | commit | what failed |\n|---|---|---|---|")
seen = {}
for k in kf["fixed"]:
    key = (k.get("id"), k["commit"])
    seen.setdefault(key, {"props": [], "what": k["what"]})["props"].append(k["property"])
for (did, commit), v in seen.items():
    out.append(f"| {did} | {','.join(v['props'])} | {commit} | {v['what'].replace('|','/')} |")
out.append("\n## 2. Seeded changes and which check catches them\n")
res = json.load(open(f"{root}/seeded/RESULTS.json")) if os.path.exists(f"{root}/seeded/RESULTS.json") else {}
st = json.load(open(f"{root}/seeded/STATUS.json")) if os.path.exists(f"{root}/seeded/STATUS.json") else {"seeds": {}, "repo_head": "?"}
out.append(f"Series m, n = rounds 1-2, p = round 3, q = round 4 (each produced by a fresh sub-agent given only the property text). "
           f"Column 'breaks at HEAD' (tools/seeded_status.py, /repo {st['repo_head']}): does the change's own demonstration still fail with the "
           "change and pass without it? A later `fix:` commit can neutralise a seeded change (e.g. the repaired C10 check blocks the escapes "
           "C10-m1/p2/q2 opened); such a change is then a harmless rewrite that the check still reports as a broken correspondence.\n")
out.append("| seeded id | property | what the change does / what it needs | breaks at HEAD | caught by | how |\n|---|---|---|---|---|---|")
for d in sorted(glob.glob(f"{root}/seeded/*/meta.json")):
    sid = os.path.basename(os.path.dirname(d))
    m = json.load(open(d))
    r = res.get(sid)
    if r:
        by = ", ".join(f"{p} ({x['tier']}, {x['wall_s']}s)" for p, x in r["runs"].items() if x["caught"]) or "**MISSED**"
        how = "; ".join(("failing input replay" if x["with_failing_input"] else "correspondence/proof broken, no-failing-input-found") for p, x in r["runs"].items() if x["caught"])
    else:
        by, how = "(not run yet)", ""
    desc = (str(m.get("summary", ""))[:260] + " — needs: " + str(m.get("needs", ""))[:200]).replace("|", "/").replace("\n", " ")
    bh = st["seeds"].get(sid, {})
    bhs = "yes" if bh.get("breaks_at_head") else ("no (neutralised)" if bh.get("applies") else "patch needs rebase")
    out.append(f"| {sid} | {m['property']} | {desc} | {bhs} | {by} | {how} |")
out.append("\n## 3. Proof obligations per property (from the last evidence files)\n")
out.append("| property | theorems audited | cases (last run) | distinct non-trivial | tier | wall s |\n|---|---|---|---|---|---|")
for f in sorted(glob.glob(f"{root}/evidence/C*.json")):
    e = json.load(open(f)); c = e["coverage"]
    out.append(f"| {e['property_id']} | {c.get('discharged')}/{c.get('obligations')} | {c.get('evaluations')} | {c.get('distinct_nontrivial')} | {e['tier']} | {e['wall_s']} |")
out.append("\n## 4. As-built summary per property (from tools/manifest_src.json and lean/IrVerif/Audit)\n")
import re
ms = json.load(open(f"{root}/tools/manifest_src.json"))["claimed"]
for pid in sorted(ms):
    thms = []
    a = f"{root}/lean/IrVerif/Audit/{pid}.lean"
    if os.path.exists(a):
        thms = [m.group(1).split(".")[-1] for m in re.finditer(r"#print axioms (\S+)", open(a).read())]
    out.append(f"### {pid}\n")
    out.append("**What is proved / checked:** " + ms[pid]["text"] + "\n")
    out.append("**Trusted base, hypotheses, differential-only parts:** " + ms[pid]["note"] + "\n")
    out.append("**Technique:** " + ms[pid]["technique"] + "\n")
    out.append(f"**Theorems audited ({len(thms)}):** " + ", ".join(f"`{t}`" for t in thms) + "\n")
open(f"{root}/DESIGN-tables.md", "w").write("\n".join(out) + "\n")
print("written DESIGN-tables.md")

#!/venv/bin/python
"""Regenerate harness/anchors.lock.json from /repo's current source (run after fix: commits / model updates)."""
import json, os, sys
root = os.path.dirname(os.path.dirname(os.path.abspath(__file__)))
sys.path.insert(0, root)
from harness import anchors
lock = {}
for line in open(f"{root}/properties.jsonl"):
    o = json.loads(line)
    fp = anchors.current_fingerprint(o)
    lock[o["id"]] = fp
    absent = [k for k, v in fp.items() if v == "absent"]
    print(o["id"], len(fp), "anchored functions", ("absent at HEAD: " + ", ".join(absent)) if absent else "")
json.dump(lock, open(anchors.LOCK, "w"), indent=1, sort_keys=True)

#!/opt/veriftools/pyvenv/bin/python
"""Validate MANIFEST.json and every evidence file against the schemas in /root/.vp."""
import json, sys, glob, os
import jsonschema
root = os.path.dirname(os.path.dirname(os.path.abspath(__file__)))
bad = 0
m = json.load(open(f"{root}/MANIFEST.json"))
jsonschema.validate(m, json.load(open("/root/.vp/MANIFEST.schema.json")))
es = json.load(open("/root/.vp/EVIDENCE.schema.json"))
claimed = {c["property_id"] for c in m["checks"]}
na = {c["property_id"] for c in m.get("not_applicable", [])}
props = [json.loads(l)["id"] for l in open(f"{root}/properties.jsonl")]
for p in props:
    if (p in claimed) == (p in na):
        print("property", p, "must be exactly one of claimed / not_applicable"); bad += 1
for c in m["checks"]:
    f = f"{root}/{c['evidence_file']}"
    if not os.path.exists(f):
        print("missing evidence", f); bad += 1; continue
    try:
        ev = json.load(open(f)); jsonschema.validate(ev, es)
        cov = ev["coverage"]
        if ev["level"] == "proof" and cov["obligations"] != cov["discharged"]:
            print("undischarged", f); bad += 1
    except Exception as e:
        print("invalid", f, str(e)[:300]); bad += 1
print("ok" if not bad else f"{bad} problems")
sys.exit(1 if bad else 0)

#!/usr/bin/env python3
"""ms_add.py <Cxx> <json-file-with text/note/technique>  -> updates tools/manifest_src.json and regenerates MANIFEST.json"""
import json, sys, os, subprocess
root = os.path.dirname(os.path.dirname(os.path.abspath(__file__)))
p = f"{root}/tools/manifest_src.json"
d = json.load(open(p))
e = json.load(open(sys.argv[2]))
d["claimed"][sys.argv[1]] = {"text": e["text"], "note": e["note"], "technique": e["technique"]}
json.dump(d, open(p, "w"), indent=1)
subprocess.run([sys.executable, f"{root}/tools/gen_manifest.py"])

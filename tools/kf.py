#!/usr/bin/env python3
"""Maintain known_findings.json:  kf.py fixed <prop[,prop]> <id> <commit> <what...>   |  kf.py drop <id>  |  kf.py list"""
import json, sys, os, fcntl
p = os.path.join(os.path.dirname(os.path.dirname(os.path.abspath(__file__))), "known_findings.json")
with open(p, "r+") as f:
    fcntl.flock(f, fcntl.LOCK_EX)
    d = json.load(f)
    cmd = sys.argv[1]
    if cmd == "fixed":
        props, did, commit, what = sys.argv[2], sys.argv[3], sys.argv[4], " ".join(sys.argv[5:])
        d["known"] = [k for k in d["known"] if k.get("id") != did]
        d["fixed"] = [k for k in d["fixed"] if k.get("id") != did]
        for pr in props.split(","):
            d["fixed"].append({"property": pr, "id": did, "commit": commit, "what": what,
                               "line": f"fixed: property={pr} {commit} {what}"})
    elif cmd == "drop":
        d["known"] = [k for k in d["known"] if k.get("id") != sys.argv[2]]
    elif cmd == "list":
        for k in d["known"]: print("known", k.get("id"), k["property"], k["signature"])
        for k in d["fixed"]: print("fixed", k.get("id"), k["property"], k["commit"])
        sys.exit(0)
    f.seek(0); f.truncate(); json.dump(d, f, indent=1); f.write("\n")

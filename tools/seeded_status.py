#!/usr/bin/env python3
"""For every seeded change: does its patch still apply to /repo HEAD, and does its demonstration still fail with it
(exit 1) and pass without it (exit 0)?  A later `fix:` commit can neutralise a seeded change (e.g. the repaired C10
cross-check blocks the escape C10-p2 opened).  Writes seeded/STATUS.json; demo-only (the suite is not re-run)."""
import json, os, subprocess, tempfile, shutil, sys
from concurrent.futures import ThreadPoolExecutor
VERIF = os.path.dirname(os.path.dirname(os.path.abspath(__file__))); SEEDED = os.path.join(VERIF, "seeded"); PY = "/venv/bin/python"
def sh(cmd, **kw): return subprocess.run(cmd, capture_output=True, text=True, **kw)
head = sh(["git", "-C", "/repo", "rev-parse", "--short", "HEAD"]).stdout.strip()
ids = sorted(d for d in os.listdir(SEEDED) if os.path.isdir(os.path.join(SEEDED, d)))
env0 = {k: v for k, v in os.environ.items() if k != "PYTHONPATH"}
def one(sid):
    d = os.path.join(SEEDED, sid); patch = os.path.join(d, "patch.diff"); demo = os.path.join(d, "demo.py")
    if sh(["git", "-C", "/repo", "apply", "--check", patch]).returncode: return sid, {"applies": False}
    wt = tempfile.mkdtemp(prefix="stwt-", dir="/tmp"); os.rmdir(wt)
    sh(["git", "-C", "/repo", "worktree", "add", "--detach", wt, "HEAD"])
    try:
        sh(["git", "-C", wt, "apply", patch])
        try: r0 = sh([PY, demo], env=env0, timeout=600).returncode
        except subprocess.TimeoutExpired: r0 = "timeout"
        try: r1 = sh([PY, demo], env=dict(env0, PYTHONPATH=os.path.join(wt, "src")), timeout=600).returncode
        except subprocess.TimeoutExpired: r1 = "timeout"
        return sid, {"applies": True, "demo_clean": r0, "demo_with_change": r1, "breaks_at_head": r0 == 0 and r1 not in (0,)}
    finally:
        sh(["git", "-C", "/repo", "worktree", "remove", "--force", wt]); shutil.rmtree(wt, ignore_errors=True)
with ThreadPoolExecutor(4) as ex: res = dict(ex.map(one, ids))
json.dump({"repo_head": head, "seeds": res}, open(os.path.join(SEEDED, "STATUS.json"), "w"), indent=1, sort_keys=True)
bad = {k: v for k, v in res.items() if not v.get("breaks_at_head")}
print(len(res), "seeds;", len(bad), "do not (or no longer) break at", head); print(json.dumps(bad, indent=0))

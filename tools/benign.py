#!/usr/bin/env python3
"""Run the owning property's check (and related ones) against each BEHAVIOUR-PRESERVING refactor under /verif/benign.
Expected: exit 0.  A non-zero exit is a broken correspondence on code where the property still holds - allowed by the
protocol (reported as no-failing-input-found) but worth knowing; results go to benign/RESULTS.json."""
import json, os, subprocess, sys, tempfile, shutil, time
VERIF = os.path.dirname(os.path.dirname(os.path.abspath(__file__)))
EXTRA = {"C01": ["C06", "C11"], "C11": ["C01"], "C12": ["C01"], "C07": ["C09"], "C05": ["C14"], "C02": ["C03", "C17"],
         "C03": ["C17", "C02"], "C04": ["C07"], "C08": ["C09", "C07"], "C09": ["C08", "C07"], "C10": ["C04"], "C13": ["C18", "C19"],
         "C14": ["C05"], "C15": ["C01"], "C16": [], "C17": ["C03", "C02"], "C18": ["C13"], "C19": ["C13", "C03"], "C20": ["C01"]}
def sh(cmd, **kw): return subprocess.run(cmd, capture_output=True, text=True, **kw)
res_path = os.path.join(VERIF, "benign", "RESULTS.json")
res = json.load(open(res_path)) if os.path.exists(res_path) else {}
ids = sys.argv[1:] or sorted(d for d in os.listdir(os.path.join(VERIF, "benign")) if os.path.isdir(os.path.join(VERIF, "benign", d)))
for bid in ids:
    d = os.path.join(VERIF, "benign", bid); prop = bid.split("-")[0]
    wt = tempfile.mkdtemp(prefix="benwt-", dir="/tmp"); os.rmdir(wt)
    sh(["git", "-C", "/repo", "worktree", "add", "--detach", wt, "HEAD"])
    try:
        r = sh(["git", "-C", wt, "apply", os.path.join(d, "patch.diff")])
        if r.returncode: res[bid] = {"error": "patch does not apply"}; print(bid, res[bid]); continue
        entry = {}
        for p in [prop] + EXTRA.get(prop, []):
            env = dict(os.environ, PYTHONPATH=os.path.join(wt, "src"), IRVERIF_OUT_DIR=os.path.join(VERIF, ".work", "benign-out"))
            t0 = time.time(); r = sh([os.path.join(VERIF, "check"), p, "--tier", "quick"], env=env, cwd=VERIF, timeout=2400)
            lines = [l for l in r.stdout.splitlines() if l.startswith("VIOLATION")][:2]
            entry[p] = {"exit": r.returncode, "violation_lines": lines, "wall_s": round(time.time() - t0, 1)}
            print(bid, p, entry[p], flush=True)
        res[bid] = entry
        json.dump(res, open(res_path, "w"), indent=1, sort_keys=True)
    finally:
        sh(["git", "-C", "/repo", "worktree", "remove", "--force", wt]); shutil.rmtree(wt, ignore_errors=True)

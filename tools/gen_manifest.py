#!/usr/bin/env python3
"""Regenerate MANIFEST.json from tools/manifest_src.json (one entry per claimed property)."""
import json, os
root = os.path.dirname(os.path.dirname(os.path.abspath(__file__)))
src = json.load(open(f"{root}/tools/manifest_src.json"))
props = [json.loads(l)["id"] for l in open(f"{root}/properties.jsonl")]
checks, na = [], []
for p in props:
    e = src["claimed"].get(p)
    if e is None:
        na.append({"property_id": p, "reason": src["not_claimed"].get(p, "check not built yet")})
        continue
    checks.append({
        "property_id": p,
        "quick_cmd": f"./check {p} --tier quick",
        "thorough_cmd": f"./check {p} --tier thorough",
        "evidence_file": f"evidence/{p}.json",
        "replay_cmd_template": f"./check {p} --replay {{path}}",
        "engine": "lean-model",
        "level_claimed": {"category": "proof", "text": e["text"], "design_ref": f"DESIGN.md section 5, {p}"},
        "level_note": e["note"],
        "technique": e["technique"],
    })
m = {
    "version": 1,
    "setup_cmd": "cd lean && lake build",
    "hooks": src["hooks"],
    "engines": [
        {"name": "lean-model", "path": "lean", "serves_properties": [c["property_id"] for c in checks],
         "kind_free_text": "Lean 4 executable models + kernel-checked theorems (lake build, #print axioms audit, leanchecker in the thorough tier)"},
        {"name": "correspondence-harness", "path": "harness", "serves_properties": [c["property_id"] for c in checks],
         "kind_free_text": "Python differential harness: the real onnx_ir in-process vs the compiled Lean model driver (JSON line protocol), plus property oracles used for the failing-input search"},
    ],
    "checks": checks,
    "not_applicable": na,
    "notes": src["notes"],
}
json.dump(m, open(f"{root}/MANIFEST.json", "w"), indent=1)
print(len(checks), "claimed;", len(na), "not claimed")

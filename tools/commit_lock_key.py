#!/usr/bin/env python3
"""Stage lean/statements.lock.json with ONLY the given properties' keys taken from the working tree
(other keys stay as in HEAD): builders of several properties update the lock concurrently."""
import json, subprocess, sys, os
root = os.path.dirname(os.path.dirname(os.path.abspath(__file__)))
rel = "lean/statements.lock.json"
head = json.loads(subprocess.run(["git", "-C", root, "show", f"HEAD:{rel}"], capture_output=True, text=True).stdout)
work = json.load(open(f"{root}/{rel}"))
for p in sys.argv[1:]:
    head[p] = work[p]
blob = json.dumps(head, indent=1, sort_keys=True)
h = subprocess.run(["git", "-C", root, "hash-object", "-w", "--stdin"], input=blob, capture_output=True, text=True).stdout.strip()
subprocess.run(["git", "-C", root, "update-index", "--cacheinfo", f"100644,{h},{rel}"], check=True)
print("staged", rel, "with keys", sys.argv[1:])

/-
C20 — journaling observes without interfering and always restores the classes.
Property theorems about `IrVerif.Journal` (Model/Journal.lean); helper development in
Lemmas/Journal.lean.  Core Lean only.

All theorems quantify over: every behaviour of the instrumented operations (`cfg.impl`: arbitrary
interaction trees that read/write the IR state, call other instrumented operations through the
class table, see their results and may catch their exceptions), every nesting bound `fuel`, every
block of user code (`Block`: any nesting of `with journal:` blocks to any depth, `try` blocks,
operations that raise), and every start world (any class table that consists of wrapper chains, i.e.
already inside any stack of journals).
-/
import IrVerif.Lemmas.Journal
namespace IrVerif.Journal

variable {σ : Type}

/-! ## restore -/

/-- **C20_restore**: for every block of user code — any nesting of `with journal:` blocks (also
    with the same journal object used again, nested or in sequence), any instrumented operations
    inside, exits taken normally or by an exception (`runBlock` runs `__exit__` on both paths),
    exceptions swallowed by `try` or not — started from *any* class table, any current journal and
    any set of already active journals: after the block the class table and the current journal
    are exactly what they were before it.  No hypothesis. -/
theorem C20_restore (cfg : Cfg σ) (fuel : Nat) (b : Block σ) (w : World σ) :
    (runBlock cfg fuel b w).1.table = w.table ∧ (runBlock cfg fuel b w).1.current = w.current :=
  block_restore cfg fuel b w

/-- every journal's `active` flag is restored as well -/
theorem C20_restore_active (cfg : Cfg σ) (fuel : Nat) (b : Block σ) (w : World σ) (i : Nat) :
    ((runBlock cfg fuel b w).1.journals i).active = (w.journals i).active :=
  block_active_restore cfg fuel b w i

/-- entering a journal object that is already active is refused: RuntimeError, the body does not
    run, nothing changes -/
theorem C20_reentry_refused (cfg : Cfg σ) (fuel j : Nat) (body : Block σ) (w : World σ)
    (h : (w.journals j).active = true) :
    runBlock cfg fuel (.withJ j body) w = (w, some enterExn) :=
  runBlock_withJ_refused cfg fuel j body w h

/-- The guard in `__enter__` is what makes `C20_restore` unconditional: without it (`enterRaw` is
    `__enter__` after the guard; this was defect D71 of /repo) entering the same journal object
    twice leaves its wrappers installed and leaves it as the current journal after both exits. -/
theorem C20_guard_needed :
    let w := exit 0 (exit 0 (enterRaw 0 (enterRaw 0 (initialWorld ()))))
    w.table 0 = .wrap 0 0 (.orig 0) ∧ w.current = some 0 := by
  simp [enterRaw, exit, upd, initialWorld, pristine]

/-- non-vacuity of `NoReentry`: three nested distinct journals, the same journal used twice in
    sequence, an exception inside -/
example : NoReentry (σ := Unit)
    (.seq (.withJ 0 (.withJ 1 (.withJ 2 (.op (.done (.raise 7))))))
          (.attempt (.withJ 0 (.op (.call 1 0 .none fun _ => .done (.ret .none)))))) := by
  simp [NoReentry, journalsOf]

/-! ## transparent -/

/-- **C20_transparent**: run any block of user code with its journals, from any world whose class
    table consists of wrapper chains (so: inside any stack of already active journals), and run the
    same code with every `with journal:` removed on the un-wrapped table.  The IR state, the outcome
    (return value or exception) of every operation, the exception leaving the block and the
    sequence of original functions executed (with their receivers and outcomes) are equal.
    Hypotheses, each shown to be needed by a counterexample below:
    * `ProcNone`: constructors and property setters return None (their wrappers discard the result);
    * `DetailsOk`: the wrappers' `details` expressions do not raise (it was false of /repo for
      `Node(..., graph=g)`: defect D70);
    * `DetailsPure`: evaluating a `details` expression does not change the state — in particular it
      does not consume a one-shot iterable argument;
    * no `__enter__` of the block is refused: no journal object is entered again while active
      (`NoReentry`) and the block's journals are not active when it starts. -/
theorem C20_transparent (cfg : Cfg σ) (hproc : ProcNone cfg) (hdet : DetailsOk cfg)
    (hpure : DetailsPure cfg) (fuel : Nat)
    (b : Block σ) (w : World σ) (hchain : Chain w.table) (hcap : CapturedOk w) (hn : NoReentry b)
    (hfresh : ∀ j ∈ journalsOf b, (w.journals j).active = false) :
    let r := runBlock cfg fuel b w
    let r0 := runBlock cfg fuel (strip b) { w with table := pristine }
    r.1.ir = r0.1.ir ∧ r.1.log = r0.1.log ∧ r.2 = r0.2 ∧
      r.1.trace.filter isCall = r0.1.trace.filter isCall := by
  have hrel : Rel w { w with table := pristine } := ⟨rfl, rfl, rfl, hchain, rfl⟩
  have h := block_rel cfg hproc (details_eq hdet hpure) fuel b w _ hrel hcap hn hfresh
  exact ⟨h.1.ir, h.1.log, h.2.2, h.1.calls⟩

/-- the start of a program: nothing wrapped, no journal ever entered -/
theorem C20_transparent_from_start (cfg : Cfg σ) (hproc : ProcNone cfg) (hdet : DetailsOk cfg)
    (hpure : DetailsPure cfg) (fuel : Nat) (b : Block σ) (s : σ) (hn : NoReentry b) :
    let r := runBlock cfg fuel b (initialWorld s)
    let r0 := runBlock cfg fuel (strip b) (initialWorld s)
    r.1.ir = r0.1.ir ∧ r.1.log = r0.1.log ∧ r.2 = r0.2 ∧
      r.1.trace.filter isCall = r0.1.trace.filter isCall := by
  have hcap : CapturedOk (initialWorld s) := by intro j t ht; simp [initialWorld] at ht
  exact C20_transparent cfg hproc hdet hpure fuel b (initialWorld s) chain_pristine hcap hn
    (fun _ _ => rfl)

/-- `DetailsOk` is needed: if the `details` expression of one wrapper raises (as `repr(node)` did
    in the wrapper of `Graph.append` when `Node.__init__` appended the half-built node), the
    operation raises inside a journal and succeeds outside. -/
theorem C20_transparent_needs_DetailsOk :
    let cfg : Cfg Unit := { impl := fun _ _ _ => .done (.ret .none), owner := id,
                            details := fun k _ _ s => if k = 21 then none else some s }
    let b : Block Unit := .withJ 0 (.op (.call 21 5 .none fun o => .done o))
    (runBlock cfg 3 b (initialWorld ())).1.log = [.raise detailsExn] ∧
    (runBlock cfg 3 (strip b) (initialWorld ())).1.log = [.ret .none] := by
  simp [runBlock, strip, runProg, dispatch, runImpl, runOrig, enter, enterRaw, exit, upd, initialWorld,
    pristine, emit, kindOf, slots]

/-- `DetailsPure` is needed: a `details` expression that changes the state (here: counts up, as
    consuming one element of a generator argument would) makes the operation see, and leave, a
    different state inside a journal. -/
theorem C20_transparent_needs_DetailsPure :
    let cfg : Cfg Nat := { impl := fun _ _ _ => .get fun s => .done (.ret (.int s)), owner := id,
                           details := fun _ _ _ s => some (s + 1) }
    let b : Block Nat := .withJ 0 (.op (.call 22 5 .none fun o => .done o))
    (runBlock cfg 3 b (initialWorld 0)).1.log = [.ret (.int 1)] ∧
    (runBlock cfg 3 (strip b) (initialWorld 0)).1.log = [.ret (.int 0)] ∧
    (runBlock cfg 3 b (initialWorld 0)).1.ir = 1 ∧
    (runBlock cfg 3 (strip b) (initialWorld 0)).1.ir = 0 := by
  simp [runBlock, strip, runProg, dispatch, runImpl, runOrig, enter, enterRaw, exit, upd, initialWorld,
    pristine, emit, kindOf, slots, record]

/-- `NoReentry` is needed: the nested `__enter__` of an active journal raises. -/
theorem C20_transparent_needs_NoReentry :
    let cfg : Cfg Unit := { impl := fun _ _ _ => .done (.ret .none), owner := id,
                            details := fun _ _ _ s => some s }
    let b : Block Unit := .withJ 0 (.withJ 0 (.op (.done (.ret .none))))
    (runBlock cfg 3 b (initialWorld ())).2 = some enterExn ∧
    (runBlock cfg 3 (strip b) (initialWorld ())).2 = none := by
  simp [runBlock, strip, runProg, enter, enterRaw, exit, upd, initialWorld]

/-- `ProcNone` is needed: `_init_wrapper` (and `_setter_wrapper`) discard what the original returned. -/
theorem C20_transparent_needs_ProcNone :
    let cfg : Cfg Unit := { impl := fun _ _ _ => .done (.ret (.int 5)), owner := id,
                            details := fun _ _ _ s => some s }
    let b : Block Unit := .withJ 0 (.op (.call 1 5 .none fun o => .done o))
    (runBlock cfg 3 b (initialWorld ())).1.log = [.ret .none] ∧
    (runBlock cfg 3 (strip b) (initialWorld ())).1.log = [.ret (.int 5)] := by
  simp [runBlock, strip, runProg, dispatch, runImpl, runOrig, enter, enterRaw, exit, upd, initialWorld,
    pristine, emit, kindOf, slots, record]

/-- non-vacuity of `ProcNone`, `DetailsOk`, `DetailsPure`: constructors and setters that call a
    method and return None, methods that return a value or raise depending on the state -/
example : ProcNone (σ := Nat)
    { impl := fun k self _ =>
        if kindOf k = .init ∨ kindOf k = .setter then .call 11 self .none (fun _ => .done (.ret .none))
        else .get (fun s => if s = 0 then .done (.raise 9) else .done (.ret (.int 1))),
      owner := id, details := fun _ _ _ s => some s } := by
  intro k hk disp self arg w v hv
  simp [hk, runProg] at hv
  exact hv.symm

example : DetailsOk (σ := Nat)
    { impl := fun _ _ _ => .done (.ret .none), owner := id, details := fun _ _ _ s => some s } :=
  fun _ _ _ s => ⟨s, rfl⟩

example : DetailsPure (σ := Nat)
    { impl := fun _ _ _ => .done (.ret .none), owner := id, details := fun _ _ _ s => some s } := by
  intro k self arg s s' h
  simp at h
  exact h.symm

/-- non-vacuity of `Chain` / `CapturedOk`: they hold at program start and inside two journals -/
example : Chain (enterRaw 1 (enterRaw 0 (initialWorld ()))).table ∧
    CapturedOk (enterRaw 1 (enterRaw 0 (initialWorld ()))) := by
  refine ⟨fun k => ⟨rfl, rfl, rfl⟩, ?_⟩
  intro j t ht
  by_cases h1 : j = 1
  · subst h1
    simp [enterRaw, upd] at ht
    subst ht
    exact fun k => ⟨rfl, rfl⟩
  · by_cases h0 : j = 0
    · subst h0
      simp [enterRaw, upd, initialWorld] at ht
      subst ht
      exact chain_pristine
    · simp [enterRaw, upd, initialWorld, h1, h0] at ht

/-! ## entries -/

/-- **C20_entries**: for every journal `j` that is not active at the start and every block (no
    further hypothesis on the block: a refused re-entry just raises): the entries that `j` gains are
    exactly `expectedFor` of the events of the run — one entry per instrumented operation that
    *completed* (returned) while `j` was entered, in order of completion; an operation that raises
    contributes nothing (operations that completed inside it keep their entries); the entry
    designates `self`, or the owning graph / node for container methods; operations outside the
    `with` block contribute nothing.  This holds simultaneously for every journal of a nest (the
    theorem is for arbitrary `j`).  Hypothesis `DetailsOk` (a raising details expression aborts the
    call); `DetailsPure` is not needed. -/
theorem C20_entries (cfg : Cfg σ) (hdet : DetailsOk cfg) (fuel : Nat) (j : Nat) (b : Block σ)
    (w : World σ) (hchain : Chain w.table) (hj : ∀ k, (w.table k).cnt j = 0)
    (hact : (w.journals j).active = false) :
    ∃ evs, (runBlock cfg fuel b w).1.trace = w.trace ++ evs ∧
      ((runBlock cfg fuel b w).1.journals j).entries =
        (w.journals j).entries ++ expectedFor cfg.owner j false evs := by
  obtain ⟨evs, htr, he, _⟩ := block_entries cfg hdet fuel j b w false hchain hj hact
  exact ⟨evs, htr, he⟩

/-- a journal that is already entered around the block records the block's operations in the same way -/
theorem C20_entries_active (cfg : Cfg σ) (hdet : DetailsOk cfg) (fuel : Nat) (j : Nat) (b : Block σ)
    (w : World σ) (hchain : Chain w.table) (hj : ∀ k, (w.table k).cnt j = 1)
    (hact : (w.journals j).active = true) :
    ∃ evs, (runBlock cfg fuel b w).1.trace = w.trace ++ evs ∧
      ((runBlock cfg fuel b w).1.journals j).entries =
        (w.journals j).entries ++ expectedFor cfg.owner j true evs := by
  obtain ⟨evs, htr, he, _⟩ := block_entries cfg hdet fuel j b w true hchain hj hact
  exact ⟨evs, htr, he⟩

/-- a method that raises is not recorded -/
example : expectedFor id 0 true [.start 21 5, .finish 21 5 (.raise 3)] = [] := by
  simp [expectedFor]

/-- a constructor that raises is not recorded; the constructor it had completed inside is; order
    is order of completion (the inner constructor before the method that called it) -/
example : expectedFor id 0 true
    [.start 1 5, .start 12 6, .finish 12 6 (.ret .none), .finish 1 5 (.raise 3),
     .start 21 7, .start 11 8, .finish 11 8 (.ret .none), .finish 21 7 (.ret .none)] =
    [mkEntry 12 6, mkEntry 11 8, mkEntry 21 7] := by
  simp [expectedFor, kindOf, slots, targetOf]

/-- a container method is recorded on its owner; operations before `enter` are not recorded -/
example : expectedFor (fun o => o + 100) 0 false
    [.start 21 5, .finish 21 5 (.ret .none), .enter 0, .start 33 7, .finish 33 7 (.ret .none), .exit 0,
     .start 26 5, .finish 26 5 (.ret .none)] = [mkEntry 33 107] := by
  simp [expectedFor, kindOf, slots, targetOf]

end IrVerif.Journal

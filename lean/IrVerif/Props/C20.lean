/-
C20 — journaling observes without interfering and always restores the classes.
Property theorems about `IrVerif.Journal` (Model/Journal.lean); helper development in
Lemmas/Journal.lean.  Core Lean only.

All theorems quantify over: every behaviour of the instrumented operations (`cfg.impl`: arbitrary
interaction trees that read/write the IR state, call other instrumented operations through the
class table, see their results and may catch their exceptions), every nesting bound `fuel`, every
block of user code (`Block`: any nesting of `with journal:` blocks to any depth, `try` blocks,
operations that raise), and every start world (any class table that consists of wrapper chains, i.e.
already inside any stack of journals).

Round 5: /repo's wrappers look at `journal._active` (commit 1a1144b).  `runBlockG` / `runFlatG` / `dispatchG` are that
code; `C20_table_wrappers_active` proves the invariant "every wrapper installed in the class table belongs to an active
journal" along every properly nested history and that the checked code is state-for-state the unchecked one, and the
`*_guarded` theorems restate restore / transparent / entries / kernel for the checked code.  What the checked code does
outside "properly nested": `C20_inactive_journal_silent`, `C20_stale_wrapper_forwards`,
`C20_exit_restores_own_snapshot_guarded`, `C20_improper_nesting_general_guarded`.
-/
import IrVerif.Lemmas.Journal
import IrVerif.Lemmas.JournalKernel
import IrVerif.Lemmas.JournalFlat
import IrVerif.Lemmas.JournalGuardFrame
namespace IrVerif.Journal

variable {σ : Type}

/-! ## restore -/

/-- **C20_restore**: for every block of user code — any nesting of `with journal:` blocks (also
    with the same journal object used again, nested or in sequence), any instrumented operations
    inside, exits taken normally or by an exception (`runBlock` runs `__exit__` on both paths),
    exceptions swallowed by `try` or not — started from *any* class table, any current journal and
    any set of already active journals: after the block the class table and the current journal
    are exactly what they were before it.  No hypothesis. -/
theorem C20_restore (cfg : Cfg σ) (fuel : Nat) (b : Block σ) (w : World σ) :
    (runBlock cfg fuel b w).1.table = w.table ∧ (runBlock cfg fuel b w).1.current = w.current :=
  block_restore cfg fuel b w

/-- every journal's `active` flag is restored as well -/
theorem C20_restore_active (cfg : Cfg σ) (fuel : Nat) (b : Block σ) (w : World σ) (i : Nat) :
    ((runBlock cfg fuel b w).1.journals i).active = (w.journals i).active :=
  block_active_restore cfg fuel b w i

/-- entering a journal object that is already active is refused: RuntimeError, the body does not
    run, nothing changes -/
theorem C20_reentry_refused (cfg : Cfg σ) (fuel j : Nat) (body : Block σ) (w : World σ)
    (h : (w.journals j).active = true) :
    runBlock cfg fuel (.withJ j body) w = (w, some enterExn) :=
  runBlock_withJ_refused cfg fuel j body w h

/-- The guard in `__enter__` is what makes `C20_restore` unconditional: without it (`enterRaw` is
    `__enter__` after the guard; this was defect D71 of /repo) entering the same journal object
    twice leaves its wrappers installed and leaves it as the current journal after both exits. -/
theorem C20_guard_needed :
    let w := exit 0 (exit 0 (enterRaw 0 (enterRaw 0 (initialWorld ()))))
    w.table 0 = .wrap 0 0 (.orig 0) ∧ w.current = some 0 := by
  simp [enterRaw, exit, upd, initialWorld, pristine]

/-- non-vacuity of `NoReentry`: three nested distinct journals, the same journal used twice in
    sequence, an exception inside -/
example : NoReentry (σ := Unit)
    (.seq (.withJ 0 (.withJ 1 (.withJ 2 (.op (.done (.raise 7))))))
          (.attempt (.withJ 0 (.op (.call 1 0 .none fun _ => .done (.ret .none)))))) := by
  simp [NoReentry, journalsOf]

/-! ## transparent -/

/-- **C20_transparent**: run any block of user code with its journals, from any world whose class
    table consists of wrapper chains (so: inside any stack of already active journals), and run the
    same code with every `with journal:` removed on the un-wrapped table.  The IR state, the outcome
    (return value or exception) of every operation, the exception leaving the block and the
    sequence of original functions executed (with their receivers and outcomes) are equal.
    Hypotheses, each shown to be needed by a counterexample below:
    * `ProcNone`: constructors and property setters return None (their wrappers discard the result);
    * `DetailsOk`: the wrappers' `details` expressions do not raise (it was false of /repo for
      `Node(..., graph=g)`: defect D70);
    * `DetailsPure`: evaluating a `details` expression does not change the state — in particular it
      does not consume a one-shot iterable argument;
    * no `__enter__` of the block is refused: no journal object is entered again while active
      (`NoReentry`) and the block's journals are not active when it starts. -/
theorem C20_transparent (cfg : Cfg σ) (hproc : ProcNone cfg) (hdet : DetailsOk cfg)
    (hpure : DetailsPure cfg) (fuel : Nat)
    (b : Block σ) (w : World σ) (hchain : Chain w.table) (hcap : CapturedOk w) (hn : NoReentry b)
    (hfresh : ∀ j ∈ journalsOf b, (w.journals j).active = false) :
    let r := runBlock cfg fuel b w
    let r0 := runBlock cfg fuel (strip b) { w with table := pristine }
    r.1.ir = r0.1.ir ∧ r.1.log = r0.1.log ∧ r.2 = r0.2 ∧
      r.1.trace.filter isCall = r0.1.trace.filter isCall := by
  have hrel : Rel w { w with table := pristine } := ⟨rfl, rfl, rfl, hchain, rfl⟩
  have h := block_rel cfg hproc (details_eq hdet hpure) fuel b w _ hrel hcap hn hfresh
  exact ⟨h.1.ir, h.1.log, h.2.2, h.1.calls⟩

/-- the start of a program: nothing wrapped, no journal ever entered -/
theorem C20_transparent_from_start (cfg : Cfg σ) (hproc : ProcNone cfg) (hdet : DetailsOk cfg)
    (hpure : DetailsPure cfg) (fuel : Nat) (b : Block σ) (s : σ) (hn : NoReentry b) :
    let r := runBlock cfg fuel b (initialWorld s)
    let r0 := runBlock cfg fuel (strip b) (initialWorld s)
    r.1.ir = r0.1.ir ∧ r.1.log = r0.1.log ∧ r.2 = r0.2 ∧
      r.1.trace.filter isCall = r0.1.trace.filter isCall := by
  have hcap : CapturedOk (initialWorld s) := by intro j t ht; simp [initialWorld] at ht
  exact C20_transparent cfg hproc hdet hpure fuel b (initialWorld s) chain_pristine hcap hn
    (fun _ _ => rfl)

/-- `DetailsOk` is needed: if the `details` expression of one wrapper raises (as `repr(node)` did
    in the wrapper of `Graph.append` when `Node.__init__` appended the half-built node), the
    operation raises inside a journal and succeeds outside. -/
theorem C20_transparent_needs_DetailsOk :
    let cfg : Cfg Unit := { impl := fun _ _ _ => .done (.ret .none), owner := id,
                            details := fun k _ _ s => if k = 21 then none else some s }
    let b : Block Unit := .withJ 0 (.op (.call 21 5 .none fun o => .done o))
    (runBlock cfg 3 b (initialWorld ())).1.log = [.raise detailsExn] ∧
    (runBlock cfg 3 (strip b) (initialWorld ())).1.log = [.ret .none] := by
  simp [runBlock, strip, runProg, dispatch, runImpl, runOrig, enter, enterRaw, exit, upd, initialWorld,
    pristine, emit, kindOf, slots]

/-- `DetailsPure` is needed: a `details` expression that changes the state (here: counts up, as
    consuming one element of a generator argument would) makes the operation see, and leave, a
    different state inside a journal. -/
theorem C20_transparent_needs_DetailsPure :
    let cfg : Cfg Nat := { impl := fun _ _ _ => .get fun s => .done (.ret (.int s)), owner := id,
                           details := fun _ _ _ s => some (s + 1) }
    let b : Block Nat := .withJ 0 (.op (.call 22 5 .none fun o => .done o))
    (runBlock cfg 3 b (initialWorld 0)).1.log = [.ret (.int 1)] ∧
    (runBlock cfg 3 (strip b) (initialWorld 0)).1.log = [.ret (.int 0)] ∧
    (runBlock cfg 3 b (initialWorld 0)).1.ir = 1 ∧
    (runBlock cfg 3 (strip b) (initialWorld 0)).1.ir = 0 := by
  simp [runBlock, strip, runProg, dispatch, runImpl, runOrig, enter, enterRaw, exit, upd, initialWorld,
    pristine, emit, kindOf, slots, record]

/-- `NoReentry` is needed: the nested `__enter__` of an active journal raises. -/
theorem C20_transparent_needs_NoReentry :
    let cfg : Cfg Unit := { impl := fun _ _ _ => .done (.ret .none), owner := id,
                            details := fun _ _ _ s => some s }
    let b : Block Unit := .withJ 0 (.withJ 0 (.op (.done (.ret .none))))
    (runBlock cfg 3 b (initialWorld ())).2 = some enterExn ∧
    (runBlock cfg 3 (strip b) (initialWorld ())).2 = none := by
  simp [runBlock, strip, runProg, enter, enterRaw, exit, upd, initialWorld]

/-- `ProcNone` is needed: `_init_wrapper` (and `_setter_wrapper`) discard what the original returned. -/
theorem C20_transparent_needs_ProcNone :
    let cfg : Cfg Unit := { impl := fun _ _ _ => .done (.ret (.int 5)), owner := id,
                            details := fun _ _ _ s => some s }
    let b : Block Unit := .withJ 0 (.op (.call 1 5 .none fun o => .done o))
    (runBlock cfg 3 b (initialWorld ())).1.log = [.ret .none] ∧
    (runBlock cfg 3 (strip b) (initialWorld ())).1.log = [.ret (.int 5)] := by
  simp [runBlock, strip, runProg, dispatch, runImpl, runOrig, enter, enterRaw, exit, upd, initialWorld,
    pristine, emit, kindOf, slots, record]

/-- non-vacuity of `ProcNone`, `DetailsOk`, `DetailsPure`: constructors and setters that call a
    method and return None, methods that return a value or raise depending on the state -/
example : ProcNone (σ := Nat)
    { impl := fun k self _ =>
        if kindOf k = .init ∨ kindOf k = .setter then .call 11 self .none (fun _ => .done (.ret .none))
        else .get (fun s => if s = 0 then .done (.raise 9) else .done (.ret (.int 1))),
      owner := id, details := fun _ _ _ s => some s } := by
  intro k hk disp self arg w v hv
  simp [hk, runProg] at hv
  exact hv.symm

example : DetailsOk (σ := Nat)
    { impl := fun _ _ _ => .done (.ret .none), owner := id, details := fun _ _ _ s => some s } :=
  fun _ _ _ s => ⟨s, rfl⟩

example : DetailsPure (σ := Nat)
    { impl := fun _ _ _ => .done (.ret .none), owner := id, details := fun _ _ _ s => some s } := by
  intro k self arg s s' h
  simp at h
  exact h.symm

/-- non-vacuity of `Chain` / `CapturedOk`: they hold at program start and inside two journals -/
example : Chain (enterRaw 1 (enterRaw 0 (initialWorld ()))).table ∧
    CapturedOk (enterRaw 1 (enterRaw 0 (initialWorld ()))) := by
  refine ⟨fun k => ⟨rfl, rfl, rfl⟩, ?_⟩
  intro j t ht
  by_cases h1 : j = 1
  · subst h1
    simp [enterRaw, upd] at ht
    subst ht
    exact fun k => ⟨rfl, rfl⟩
  · by_cases h0 : j = 0
    · subst h0
      simp [enterRaw, upd, initialWorld] at ht
      subst ht
      exact chain_pristine
    · simp [enterRaw, upd, initialWorld, h1, h0] at ht

/-! ## entries -/

/-- **C20_entries**: for every journal `j` that is not active at the start and every block (no
    further hypothesis on the block: a refused re-entry just raises): the entries that `j` gains are
    exactly `expectedFor` of the events of the run — one entry per instrumented operation that
    *completed* (returned) while `j` was entered, in order of completion; an operation that raises
    contributes nothing (operations that completed inside it keep their entries); the entry
    designates `self`, or the owning graph / node for container methods; operations outside the
    `with` block contribute nothing.  This holds simultaneously for every journal of a nest (the
    theorem is for arbitrary `j`).  Hypothesis `DetailsOk` (a raising details expression aborts the
    call); `DetailsPure` is not needed. -/
theorem C20_entries (cfg : Cfg σ) (hdet : DetailsOk cfg) (fuel : Nat) (j : Nat) (b : Block σ)
    (w : World σ) (hchain : Chain w.table) (hj : ∀ k, (w.table k).cnt j = 0)
    (hact : (w.journals j).active = false) :
    ∃ evs, (runBlock cfg fuel b w).1.trace = w.trace ++ evs ∧
      ((runBlock cfg fuel b w).1.journals j).entries =
        (w.journals j).entries ++ expectedFor cfg.owner j false evs := by
  obtain ⟨evs, htr, he, _⟩ := block_entries cfg hdet fuel j b w false hchain hj hact
  exact ⟨evs, htr, he⟩

/-- a journal that is already entered around the block records the block's operations in the same way -/
theorem C20_entries_active (cfg : Cfg σ) (hdet : DetailsOk cfg) (fuel : Nat) (j : Nat) (b : Block σ)
    (w : World σ) (hchain : Chain w.table) (hj : ∀ k, (w.table k).cnt j = 1)
    (hact : (w.journals j).active = true) :
    ∃ evs, (runBlock cfg fuel b w).1.trace = w.trace ++ evs ∧
      ((runBlock cfg fuel b w).1.journals j).entries =
        (w.journals j).entries ++ expectedFor cfg.owner j true evs := by
  obtain ⟨evs, htr, he, _⟩ := block_entries cfg hdet fuel j b w true hchain hj hact
  exact ⟨evs, htr, he⟩

/-- a method that raises is not recorded -/
example : expectedFor id 0 true [.start 21 5, .finish 21 5 (.raise 3)] = [] := by
  simp [expectedFor]

/-- a constructor that raises is not recorded; the constructor it had completed inside is; order
    is order of completion (the inner constructor before the method that called it) -/
example : expectedFor id 0 true
    [.start 1 5, .start 12 6, .finish 12 6 (.ret .none), .finish 1 5 (.raise 3),
     .start 21 7, .start 11 8, .finish 11 8 (.ret .none), .finish 21 7 (.ret .none)] =
    [mkEntry 12 6, mkEntry 11 8, mkEntry 21 7] := by
  simp [expectedFor, kindOf, slots, targetOf]

/-- a container method is recorded on its owner; operations before `enter` are not recorded -/
example : expectedFor (fun o => o + 100) 0 false
    [.start 21 5, .finish 21 5 (.ret .none), .enter 0, .start 33 7, .finish 33 7 (.ret .none), .exit 0,
     .start 26 5, .finish 26 5 (.ret .none)] = [mkEntry 33 107] := by
  simp [expectedFor, kindOf, slots, targetOf]

/-! ## round 3 -/

/-! ### the installed table and the order of effects in a wrapper -/

/-- the two tables describe the same 43 slots: a constructor slot is installed by assigning
    `__init__`, a setter wrapper (and the `Node.graph` setter, which uses the method wrapper) through a
    new `property`, everything else by plain assignment; only `TensorBase.__init__` and `Graph.sort`
    have a `details` expression that is `None`.  (That the keys, classes, attributes and `details`
    texts are those of _wrappers.py is checked on every run: `journal.meta` / `journal.details`.) -/
theorem C20_slot_table :
    slotMeta.length = nSlots ∧ nSlots = 43 ∧
    (∀ k : Fin 43, ((metaOf k).install = .ctor ↔ kindOf k = .init) ∧
      (kindOf k = .setter → (metaOf k).install = .propSetter) ∧
      (kindOf k = .container → (metaOf k).install = .method) ∧
      ((metaOf k).details = .none ↔ (k.val = 0 ∨ k.val = 26))) := by
  refine ⟨by decide, by decide, ?_⟩
  decide

/-- **order of effects, for every slot** (computed by running `runImpl`, the function all other
    theorems are about, on a probe configuration): the `details` expression is evaluated before the
    original for every wrapper except the constructor wrapper; the entry is written after the
    original returned, so an original that raises leaves no entry; method and container wrappers hand
    the result back, constructor and setter wrappers return None; the entry is about `self` except for
    container wrappers (owner). -/
theorem C20_wrapper_order (k : Nat) :
    detailsBefore k = (kindOf k != .init) ∧ recordAfter k = true ∧
    returnsResult k = (kindOf k == .method || kindOf k == .container) ∧
    recordsSelf k = (kindOf k != .container) := by
  cases h : kindOf k <;>
    simp [detailsBefore, recordAfter, returnsResult, recordsSelf, probeRun, probeCfg, dispatch, runImpl,
      runOrig, runProg, enterRaw, initialWorld, pristine, emit, record, upd, mkEntry, targetOf, h]

/-! ### no strong reference -/

/-- **C20_no_strong_ref**: the entry that `Journal.record` builds — all eight fields of the dataclass,
    for every slot, target, class, clock value, stack and environment of `repr`s the `details`
    expression is evaluated on — holds no strong reference to any instance: the object is designated by
    the weak reference and by its integer id only, `details` is a string (or None), `class_` a class,
    the stack frames strings and line numbers. -/
theorem C20_no_strong_ref (k : Nat) (t : Obj) (className : String) (clock : Nat) (stack : List Frame)
    (e : DEnv) :
    (recordSlot k t className clock stack e).fields.flatMap (fun p => p.2.strong) = [] := by
  simp [recordSlot, recordFull, EntryFull.fields, FVal.strong]

/-- the same for any call of `record`, including `record(None, ...)` -/
theorem C20_no_strong_ref_record (operation : String) (obj : Option Obj) (className : String)
    (clock : Nat) (stack : List Frame) (details : Option String) :
    (recordFull operation obj className clock stack details).fields.flatMap (fun p => p.2.strong) = [] := by
  simp [recordFull, EntryFull.fields, FVal.strong]

/-- the full entry projects onto the `Entry` of the run theorems (`mkEntry`), whose handle is weak -/
theorem C20_entry_core (k : Nat) (t : Obj) (className : String) (clock : Nat) (stack : List Frame)
    (e : DEnv) :
    (recordSlot k t className clock stack e).core k = some (mkEntry k t) ∧ (mkEntry k t).strong = [] := by
  simp [recordSlot, recordFull, EntryFull.core, mkEntry, Entry.strong]

/-- and no run adds anything else: after any block of user code, from a world whose entries are all
    weak, every entry of every journal is weak -/
theorem C20_no_strong_ref_run (cfg : Cfg σ) (fuel : Nat) (b : Block σ) (w : World σ)
    (h : ∀ i, heldBy (w.journals i) = []) :
    ∀ i, heldBy ((runBlock cfg fuel b w).1.journals i) = [] :=
  block_allWeak cfg fuel b w h

/-- a field that did hold an instance would be seen by `strong` (non-vacuity of the statements above) -/
example : (FVal.inst 7).strong = [7] ∧ (FVal.weak (some 7)).strong = [] := by simp [FVal.strong]

/-- the `details` strings are what the lambdas of _wrappers.py print -/
example : detailsOf 17 { argRepr := fun i => if i = 0 then some "Value(x)" else none } =
    some "replacement=Value(x), replace_graph_outputs=False" := by
  simp [detailsOf, metaOf, slotMeta, DSpec.eval, Piece.eval, String.join]

/-! ### `__exit__` interrupted by a failing restore step (observation D470; outside the property) -/

/-- `C20_restore` assumes that the 43 assignments of `restore_ir_classes` do not raise.  If step `n`
    does, exactly the slots before `n` are restored; the others, the current journal and the active
    flag stay. -/
theorem C20_exit_fault (j n : Nat) (w : World σ) (t : Table) (h : (w.journals j).captured = some t) :
    (∀ k, k < n → (exitFail j n w).table k = t k) ∧
    (∀ k, n ≤ k → (exitFail j n w).table k = w.table k) ∧
    (exitFail j n w).current = w.current ∧ (exitFail j n w).journals = w.journals := by
  refine ⟨fun k hk => by simp [exitFail, h, hk], fun k hk => ?_, by simp [exitFail, h], by simp [exitFail, h]⟩
  have : ¬ k < n := by omega
  simp [exitFail, h, this]

/-- the concrete hazard: a journal whose `__exit__` failed at step 20 leaves slots 20.. wrapped and
    stays the current, active journal -/
theorem C20_exit_fault_leaves_wrapped :
    let w := exitFail 0 20 (enterRaw 0 (initialWorld ()))
    w.table 19 = .orig 19 ∧ w.table 20 = .wrap 0 20 (.orig 20) ∧ w.current = some 0 ∧
      (w.journals 0).active = true := by
  simp [exitFail, enterRaw, initialWorld, pristine, upd]

/-- calling `__exit__` again completes the restoration: the state is the one a successful exit
    would have produced -/
theorem C20_exit_retry (j n : Nat) (w : World σ) : exit j (exitFail j n w) = exit j w := by
  unfold exit exitFail
  cases h : (w.journals j).captured with
  | none => simp [h]
  | some t => simp [h]

/-- a journal held open by a generator that is closed (GeneratorExit thrown at the `yield`),
    collected, or thrown into: an exit by exception, restored like every other (instance of
    `C20_restore`) -/
theorem C20_restore_generator_close (cfg : Cfg σ) (fuel j e : Nat) (body : Block σ) (w : World σ) :
    (runBlock cfg fuel (.withJ j (.seq body (.op (.done (.raise e))))) w).1.table = w.table :=
  (C20_restore cfg fuel _ w).1

/-- ... but a generator lets exits happen out of order: journal 0 entered (generator suspended),
    journal 1 entered, generator closed (exit 0), exit 1.  The classes are left wrapped by the
    wrappers of journal 0, which is no longer active.  This is not "properly nested" and outside the
    property; `__exit__` does not check that it leaves the innermost journal. -/
theorem C20_improper_nesting_not_restored :
    let w := runCtl [(0, true), (1, true), (0, false), (1, false)] (initialWorld ())
    w.table 0 = .wrap 0 0 (.orig 0) ∧ (w.journals 0).active = false ∧ (w.journals 1).active = false := by
  simp [runCtl, enter, enterRaw, exit, initialWorld, pristine, upd]

/-! ### the journal model instantiated with the C01 kernel -/

/-- generic form (any list of public calls given by their call trees and kernel transitions): the plain run -/
theorem kernel_plain_g (f : Nat) (kb : GBlk) :
    let r := runBlock kCfg (f + 3) (strip kb.toBlock) (initialWorld { w := Kernel.World.empty })
    r.1.ir.w = gWorld Kernel.World.empty kb.allOps ∧ r.1.log = gLog Kernel.World.empty kb.allOps ∧
      r.1.trace = gEvs Kernel.World.empty kb.allOps ∧ r.2 = none := by
  obtain ⟨reg', last', h⟩ := run_gblk_plain f kb (initialWorld { w := Kernel.World.empty }) rfl
  simp only [h]
  simp [advH, initialWorld]

/-- generic form: the journaled run -/
theorem transparent_kernel_g (f : Nat) (kb : GBlk) (hn : NoReentry kb.toBlock) :
    let r := runBlock kCfg (f + 3) kb.toBlock (initialWorld { w := Kernel.World.empty })
    r.1.ir.w = gWorld Kernel.World.empty kb.allOps ∧ r.1.log = gLog Kernel.World.empty kb.allOps ∧
      r.2 = none ∧ r.1.trace.filter isCall = gEvs Kernel.World.empty kb.allOps ∧
      (∀ j, (r.1.journals j).entries = expectedFor kOwner j false r.1.trace) ∧
      r.1.table = pristine ∧ r.1.current = none := by
  intro r
  have ht := C20_transparent_from_start kCfg procNone_kCfg detailsOk_kCfg detailsPure_kCfg (f + 3)
    kb.toBlock { w := Kernel.World.empty } hn
  have hp := kernel_plain_g f kb
  simp only [] at ht hp
  obtain ⟨hir, hlog, hexc, hcalls⟩ := ht
  obtain ⟨pw, plog, ptr, pexc⟩ := hp
  refine ⟨by rw [← pw]; exact congrArg KState.w hir, by rw [← plog]; exact hlog, by rw [← pexc]; exact hexc,
    ?_, ?_, ?_, ?_⟩
  · rw [hcalls, ptr, isCall_gEvs]
  · intro j
    obtain ⟨evs, htr, he⟩ := C20_entries kCfg detailsOk_kCfg (f + 3) j kb.toBlock
      (initialWorld { w := Kernel.World.empty }) chain_pristine (fun _ => rfl) rfl
    have hevs : evs = r.1.trace := htr.symm
    rw [hevs] at he
    exact he
  · exact (C20_restore kCfg (f + 3) kb.toBlock _).1
  · exact (C20_restore kCfg (f + 3) kb.toBlock _).2

/-- without any journal, the instantiated configuration computes the kernel semantics: the world is
    `Kernel.runAny`, the outcomes are the kernel's, and the original functions executed are the
    call trees `callTree` of the successive calls, in order -/
theorem C20_kernel_plain (f : Nat) (kb : KBlk) :
    let r := runBlock kCfg (f + 3) (strip kb.toBlock) (initialWorld { w := Kernel.World.empty })
    r.1.ir.w = Kernel.runAny kb.allOps ∧ r.1.log = histLog Kernel.World.empty kb.allOps ∧
      r.1.trace = histEvs Kernel.World.empty kb.allOps ∧ r.2 = none := by
  have h := kernel_plain_g f kb.toG
  rw [← KBlk.toBlock_eq, KBlk.allOps_toG, gWorld_gOf] at h
  exact h

/-- **C20_transparent_kernel**: every history of the C01 kernel alphabet (single and composite
    calls, accepted or rejected), with `with journal:` blocks around any parts of it, nested to any
    depth (no journal object entered again while active), run with nesting bound at least 3 — the
    depth of the deepest call tree — from the start of the program:
    * leaves exactly the kernel world of the un-journaled history (`Kernel.runAny`),
    * every call has the kernel's outcome (completed calls return None: the kernel has no return
      values), no exception leaves the history,
    * the original functions executed are the instantiated call trees `callTree`, in program order,
    * every journal's entries are exactly `expectedFor` of what executed: one entry per instrumented
      call that completed while the journal was entered, in order of completion (a callee before its
      caller: the wrappers record after the original returned), nothing for a rejected call,
    * and the class table and the current journal are as at the start.
    (Since round 4 `histLog` carries the value a direct call returns — `graph.inputs.pop()` — and the
    extended alphabet has call trees; the statement is unchanged.) -/
theorem C20_transparent_kernel (f : Nat) (kb : KBlk) (hn : NoReentry kb.toBlock) :
    let r := runBlock kCfg (f + 3) kb.toBlock (initialWorld { w := Kernel.World.empty })
    r.1.ir.w = Kernel.runAny kb.allOps ∧ r.1.log = histLog Kernel.World.empty kb.allOps ∧
      r.2 = none ∧ r.1.trace.filter isCall = histEvs Kernel.World.empty kb.allOps ∧
      (∀ j, (r.1.journals j).entries = expectedFor kOwner j false r.1.trace) ∧
      r.1.table = pristine ∧ r.1.current = none := by
  have h := transparent_kernel_g f kb.toG (by rw [← KBlk.toBlock_eq]; exact hn)
  rw [← KBlk.toBlock_eq, KBlk.allOps_toG, gWorld_gOf] at h
  exact h

/-- **C20_transparent_kernel_spelled** (round 4; supersedes `C20_transparent_kernel`, which is its instance for
    the plain spelling): the same for histories of SPELLED calls — a kernel op together with how it is written on
    the real objects (through an `ir.Function` created on first use, through `Node.append` / `Node.prepend`, with
    `Attr` objects built for it, with `|=`): the kernel world is that of the underlying kernel ops; the outcomes
    are the kernel's with the value a direct call returns (`histLogX`); the originals executed are the spelled call
    trees `callTreeX` (with `Function.__init__` / `Attr.__init__` / `Node.append` in them); every journal has
    exactly one entry per instrumented call that completed while it was entered; classes restored. -/
theorem C20_transparent_kernel_spelled (f : Nat) (kb : KBlkX) (hn : NoReentry kb.toBlock) :
    let r := runBlock kCfg (f + 3) kb.toBlock (initialWorld { w := Kernel.World.empty })
    r.1.ir.w = Kernel.runAny kb.allOps ∧ r.1.log = histLogX Kernel.World.empty kb.allCalls ∧
      r.2 = none ∧ r.1.trace.filter isCall = histEvsX Kernel.World.empty kb.allCalls ∧
      (∀ j, (r.1.journals j).entries = expectedFor kOwner j false r.1.trace) ∧
      r.1.table = pristine ∧ r.1.current = none := by
  have h := transparent_kernel_g f kb.toG hn
  rw [KBlkX.allOps_toG, gWorld_gOfX] at h
  exact h

/-- the plain run of a spelled history computes the kernel semantics of the underlying ops and executes the
    spelled call trees -/
theorem C20_kernel_plain_spelled (f : Nat) (kb : KBlkX) :
    let r := runBlock kCfg (f + 3) (strip kb.toBlock) (initialWorld { w := Kernel.World.empty })
    r.1.ir.w = Kernel.runAny kb.allOps ∧ r.1.log = histLogX Kernel.World.empty kb.allCalls ∧
      r.1.trace = histEvsX Kernel.World.empty kb.allCalls ∧ r.2 = none := by
  have h := kernel_plain_g f kb.toG
  rw [KBlkX.allOps_toG, gWorld_gOfX] at h
  exact h

/-- non-vacuity: a history (a value, a node, a graph that takes the node and names it and its
    output, a rejected call) from its second call on inside two nested journals: the inner journal
    gets the eleven entries, callee before caller -/
example :
    let kb : KBlk := .seq (.ops [.one (.newValue (some "x"))])
      (.withJ 0 (.withJ 1 (.ops [.one (.newNode "Add" none [some 0] none none none),
        .one (.newGraph [0] [1] [0] []), .one (.append 0 0), .one (.resizeInputs 0 (-1))])))
    NoReentry kb.toBlock ∧
    ((runBlock kCfg 3 kb.toBlock (initialWorld { w := Kernel.World.empty })).1.journals 1).entries.map
      (fun e => (e.slot, e.objectId)) =
      [(12, 16), (1, 1), (34, 2), (34, 2), (2, 1), (13, 16), (11, 1), (22, 2), (19, 2), (11, 1), (21, 2)] := by
  intro kb
  refine ⟨by simp [kb, KBlk.toBlock, histBlock, NoReentry, journalsOf], by decide⟩

/-- return values: `graph.inputs.pop()` hands back the popped value inside two journals as outside (the log of a
    direct call carries what came back through the wrappers), and the journals record `pop_io` on the graph -/
example :
    let kb : KBlk := .seq (.ops [.one (.newValue (some "x")), .one (.newGraph [0] [] [] [])])
      (.withJ 0 (.withJ 1 (.ops [.one (.io 0 .inp (.pop (-1)))])))
    (runBlock kCfg 3 kb.toBlock (initialWorld { w := Kernel.World.empty })).1.log.getLast? = some (.ret (.ref 0)) ∧
    ((runBlock kCfg 3 kb.toBlock (initialWorld { w := Kernel.World.empty })).1.journals 1).entries.map
      (fun e => (e.operation, e.objectId)) = [("pop_io", 2)] := by
  decide

/-- spelled calls: `anchor.append([n])` on a node of the graph, through a function created for it, and an
    attribute written with a new `Attr`: the inner journal sees `Function.__init__`, `Node.append` around
    `Graph.insert_after`, `Attr.__init__`, `set_attribute` on the node -/
example :
    let kb : KBlkX := .seq (.ops [⟨.one (.newNode "A" none [] (some 0) none none), {}⟩,
        ⟨.one (.newNode "B" none [] (some 0) none none), {}⟩, ⟨.one (.newGraph [] [] [0] []), {}⟩])
      (.withJ 0 (.ops [⟨.one (.insertAfter 0 0 [1]), { newFunction := some 0, viaNode := true }⟩,
        ⟨.one (.attrSet 1 "k" []), { newAttrs := [0] }⟩]))
    NoReentry kb.toBlock ∧
    ((runBlock kCfg 3 kb.toBlock (initialWorld { w := Kernel.World.empty })).1.journals 0).entries.map
      (fun e => (e.slot, e.objectId)) = [(28, 9), (2, 17), (11, 17), (24, 2), (9, 1), (32, 8), (42, 17)] := by
  intro kb
  refine ⟨by simp [kb, KBlkX.toBlock, KBlkX.toG, GBlk.toBlock, gBlock, NoReentry, journalsOf], by decide⟩

/-! ## round 4 -/

/-! ### flat histories: any properly nested word of enter / exit / operations restores -/

/-- **C20_restore_flat**: for every flat history — raw `__enter__` / `__exit__` calls (exits taken
    normally or with an exception propagating) and user code that calls instrumented operations, in
    any order that is properly nested (`WellBracketed`: every exit leaves the innermost open journal,
    no journal object is entered while open, nothing is left open) — started from ANY class table and
    current journal, the journals of the word not being active: after the word the class table, the
    current journal and every journal's active flag are exactly what they were before it.  This is
    the form in which `contextlib.ExitStack`, generators and hand-written `__enter__`/`__exit__`
    calls use a journal; the block form `C20_restore` is the special case of `with` statements. -/
theorem C20_restore_flat (cfg : Cfg σ) (fuel : Nat) (u : List (FEv σ)) (w : World σ)
    (hwb : WellBracketed u) (hfresh : ∀ j ∈ flatEnters u, (w.journals j).active = false) :
    (runFlat cfg fuel u w).table = w.table ∧ (runFlat cfg fuel u w).current = w.current ∧
      ∀ i, ((runFlat cfg fuel u w).journals i).active = (w.journals i).active :=
  flat_inv cfg fuel u [] w w.table w.current (fun i => (w.journals i).active) hwb List.nodup_nil
    ⟨rfl, rfl⟩ (fun _ _ => rfl) (fun _ h => by cases h) hfresh

/-- non-vacuity: three journals, journal 0 used twice in sequence, an operation that raises, an
    exit taken with an exception propagating -/
example : WellBracketed (σ := Unit)
    [.enter 0, .op (.done (.raise 7)), .enter 1, .enter 2, .exit 2 true, .exit 1 true, .exit 0 false,
     .enter 0, .op (.call 1 0 .none fun _ => .done (.ret .none)), .exit 0 false] := by decide

/-- `hfresh` is needed: a word that enters a journal which is already active does not enter it (the
    `__enter__` is refused) and its exit then closes the OUTER use of that journal -/
theorem C20_restore_flat_needs_fresh :
    let w0 := enterRaw 0 (initialWorld ())
    let cfg : Cfg Unit := { impl := fun _ _ _ => .done (.ret .none), owner := id, details := fun _ _ _ s => some s }
    WellBracketed (σ := Unit) [.enter 0, .exit 0 false] ∧
      (runFlat cfg 1 [.enter 0, .exit 0 false] w0).table 0 ≠ w0.table 0 := by
  refine ⟨by decide, ?_⟩
  simp [runFlat, enter, enterRaw, exit, initialWorld, pristine, upd]

/-- **what `__exit__` does in ANY history** (properly nested or not): journal `j`, entered at world
    `w`, and exited after an arbitrary word `u` that does not exit it — whatever else is entered,
    exited (in any order) or executed in between — puts back exactly the class table and current
    journal of the moment it was entered, and is inactive.  (`__exit__` does not look at what is
    installed now.) -/
theorem C20_exit_restores_own_snapshot (cfg : Cfg σ) (fuel j : Nat) (u : List (FEv σ)) (x : Bool)
    (w : World σ) (hj : (w.journals j).active = false) (hu : j ∉ flatExits u) :
    let w' := runFlat cfg fuel (.enter j :: u ++ [.exit j x]) w
    w'.table = w.table ∧ w'.current = w.current ∧ (w'.journals j).active = false := by
  have hen : enter j w = some (enterRaw j w) := by simp [enter, hj]
  have hact : ((enterRaw j w).journals j).active = true := by simp [enterRaw, upd]
  have hf := flat_frame_active cfg fuel j u (enterRaw j w) hact hu
  have hcap : ((runFlat cfg fuel u (enterRaw j w)).journals j).captured = some w.table := by
    rw [hf.1]; simp [enterRaw, upd]
  have hprev : ((runFlat cfg fuel u (enterRaw j w)).journals j).previous = w.current := by
    rw [hf.2.1]; simp [enterRaw, upd]
  simp only [runFlat, hen, Option.getD_some, runFlat_append]
  simp [exit, hcap, hprev, upd]

/-- **C20_improper_nesting_general** (generalises `C20_improper_nesting_not_restored`): journal `i`
    is entered, any properly nested history `u` runs, journal `j` is entered, any history `v` that does
    not exit `j` runs, and then `i` is exited BEFORE `j` (e.g. `i` is held by a generator that is
    closed, or an `ExitStack` is misused).  After both exits every slot of the class table carries the
    wrapper of the exited journal `i` around what was installed at the start, `get_current_journal()`
    is the exited journal `i`, and both journals are inactive: the classes stay wrapped for ever.
    Outside "properly nested"; `__exit__` does not check that it leaves the innermost journal. -/
theorem C20_improper_nesting_general (cfg : Cfg σ) (fuel i j : Nat) (hij : i ≠ j)
    (u v : List (FEv σ)) (x y : Bool) (w : World σ)
    (hu : WellBracketed u) (hui : i ∉ flatEnters u) (huj : j ∉ flatEnters u)
    (hfresh : ∀ a ∈ flatEnters u, (w.journals a).active = false)
    (hi : (w.journals i).active = false) (hj : (w.journals j).active = false)
    (hvj : j ∉ flatExits v) (hvi : i ∉ flatExits v) :
    let w' := runFlat cfg fuel (.enter i :: u ++ .enter j :: v ++ [.exit i x, .exit j y]) w
    (∀ k, w'.table k = .wrap i k (w.table k)) ∧ w'.current = some i ∧
      (w'.journals i).active = false ∧ (w'.journals j).active = false := by
  have hen : enter i w = some (enterRaw i w) := by simp [enter, hi]
  -- after `enter i` and the properly nested `u`
  have hfresh1 : ∀ a ∈ flatEnters u, ((enterRaw i w).journals a).active = false := by
    intro a ha
    have hai : a ≠ i := fun e => hui (e ▸ ha)
    rw [enterRaw_other i a w hai]; exact hfresh a ha
  obtain ⟨ht1, hc1, ha1⟩ := C20_restore_flat cfg fuel u (enterRaw i w) hu hfresh1
  let w1 := runFlat cfg fuel u (enterRaw i w)
  have hj1 : (w1.journals j).active = false := by
    show ((runFlat cfg fuel u (enterRaw i w)).journals j).active = false
    rw [ha1 j, enterRaw_other i j w (fun e => hij e.symm)]; exact hj
  have hi1 : (w1.journals i).active = true := by
    show ((runFlat cfg fuel u (enterRaw i w)).journals i).active = true
    rw [ha1 i]; simp [enterRaw, upd]
  -- `enter j :: (v ++ [exit i]) ++ [exit j]` restores the snapshot of `w1`
  have hx : j ∉ flatExits (v ++ [FEv.exit (σ := σ) i x]) := by
    have : ∀ (a b : List (FEv σ)), flatExits (a ++ b) = flatExits a ++ flatExits b := by
      intro a b
      induction a with
      | nil => rfl
      | cons e r ih => cases e <;> simp [flatExits, ih]
    rw [this]
    simp only [flatExits, List.mem_append, List.mem_singleton, not_or]
    exact ⟨hvj, fun e => hij e.symm⟩
  have hsnap := C20_exit_restores_own_snapshot cfg fuel j (v ++ [.exit i x]) y w1 hj1 hx
  -- journal `i` after the tail: exited inside it, not entered again ... (its flag after `exit i`)
  have hw : runFlat cfg fuel (.enter i :: u ++ .enter j :: v ++ [.exit i x, .exit j y]) w =
      runFlat cfg fuel (.enter j :: (v ++ [.exit i x]) ++ [.exit j y]) w1 := by
    have e1 : (FEv.enter i :: u ++ FEv.enter j :: v ++ [FEv.exit i x, FEv.exit j y] : List (FEv σ)) =
        FEv.enter i :: (u ++ (FEv.enter j :: (v ++ [FEv.exit i x]) ++ [FEv.exit j y])) := by simp
    rw [e1]
    simp only [runFlat, hen, Option.getD_some]
    rw [runFlat_append]
  simp only [] at hsnap ⊢
  rw [hw]
  refine ⟨fun k => ?_, ?_, ?_, hsnap.2.2⟩
  · rw [hsnap.1]
    show (runFlat cfg fuel u (enterRaw i w)).table k = _
    rw [ht1]; rfl
  · rw [hsnap.2.1]
    show (runFlat cfg fuel u (enterRaw i w)).current = _
    rw [hc1]; rfl
  · -- `i` is active in `w1`, stays so through `enter j :: v` (not exited), is exited, and `exit j` does not touch it
    have hen_j : enter j w1 = some (enterRaw j w1) := by simp [enter, hj1]
    have hi2 : ((enterRaw j w1).journals i).active = true := by
      rw [enterRaw_other j i w1 hij]; exact hi1
    have hf := flat_frame_active cfg fuel i v (enterRaw j w1) hi2 hvi
    have hcap : ∃ t, ((runFlat cfg fuel v (enterRaw j w1)).journals i).captured = some t := by
      rw [hf.1, enterRaw_other j i w1 hij]
      have hfi := flat_frame_active cfg fuel i u (enterRaw i w) (by simp [enterRaw, upd])
        (by
          -- a properly nested word that never enters `i` never exits it
          intro hmem
          have key : ∀ (r : List (FEv σ)) (st : List Nat), wbAux st r = true → i ∈ flatExits r →
              i ∈ st ∨ i ∈ flatEnters r := by
            intro r
            induction r with
            | nil => intro st _ h; simp [flatExits] at h
            | cons e r ih =>
              intro st hwb h
              cases e with
              | enter a =>
                simp only [wbAux, Bool.and_eq_true] at hwb
                rcases ih (a :: st) hwb.2 (by simpa [flatExits] using h) with h1 | h1
                · rcases List.mem_cons.mp h1 with h2 | h2
                  · right; simp [flatEnters, h2]
                  · left; exact h2
                · right; simp [flatEnters, h1]
              | exit a z =>
                cases st with
                | nil => simp [wbAux] at hwb
                | cons t st' =>
                  simp only [wbAux, Bool.and_eq_true, beq_iff_eq] at hwb
                  simp only [flatExits, List.mem_cons] at h
                  rcases h with h | h
                  · left; rw [h, ← hwb.1]; exact List.mem_cons_self ..
                  · rcases ih st' hwb.2 h with h1 | h1
                    · left; exact List.mem_cons_of_mem _ h1
                    · right; simpa [flatEnters] using h1
              | op p =>
                simp only [wbAux] at hwb
                rcases ih st hwb (by simpa [flatExits] using h) with h1 | h1
                · left; exact h1
                · right; simpa [flatEnters] using h1
          rcases key u [] hu hmem with h | h
          · cases h
          · exact hui h)
      exact ⟨w.table, by
        show ((runFlat cfg fuel u (enterRaw i w)).journals i).captured = _
        rw [hfi.1]; simp [enterRaw, upd]⟩
    obtain ⟨t, hcap⟩ := hcap
    simp only [List.cons_append, List.append_assoc, runFlat, hen_j, Option.getD_some, runFlat_append,
      List.nil_append]
    rw [exit_other j i _ hij]
    simp [exit, hcap, upd]

/-- the round-3 instance: `i = 0`, `j = 1`, nothing in between -/
example : (runFlat (σ := Unit) { impl := fun _ _ _ => .done (.ret .none), owner := id, details := fun _ _ _ s => some s }
    1 [.enter 0, .enter 1, .exit 0 false, .exit 1 false] (initialWorld ())).table 0 = .wrap 0 0 (.orig 0) := by
  simp [runFlat, enter, enterRaw, exit, initialWorld, pristine, upd]

/-! ### callables captured across a journal boundary -/

/-- **C20_captured_before_not_recorded**: a callable taken (from an instance or from the class) at a
    moment when no wrapper of journal `j` was installed in its slot, and called while `j` is entered:
    the original runs and its nested instrumented calls go through the class table (they ARE recorded,
    like every call inside the journal), but the call itself leaves no entry in `j` — whereas
    `expectedFor` of what executed has one more entry when the call returned.  The class table is
    untouched.  (The monkey-patching design cannot see such a call; outside the model of the run
    theorems, which look every operation up on the class.) -/
theorem C20_captured_before_not_recorded (cfg : Cfg σ) (hdet : DetailsOk cfg) (f j k : Nat) (self : Obj)
    (arg : Val) (w0 w : World σ) (hc0 : ChainFor k (w0.table k)) (h0 : (w0.table k).cnt j = 0)
    (hch : Chain w.table) (hcnt : ∀ k, (w.table k).cnt j = 1) :
    let r := callCaptured cfg (f + 1) (capture k self w0) arg w
    r.1.table = w.table ∧
    ∃ evs o, r.1.trace = w.trace ++ [.start k self] ++ evs ++ [.finish k self o] ∧ isRet r.2 = isRet o ∧
      (r.1.journals j).entries = (w.journals j).entries ++ expectedFor cfg.owner j true evs ∧
      expectedFor cfg.owner j true (.start k self :: (evs ++ [.finish k self o])) =
        expectedFor cfg.owner j true evs ++
          (if isRet o = true then [mkEntry k (targetOf cfg.owner k self)] else []) := by
  obtain ⟨ht, evs, o, htr, hcalls, hret, he⟩ :=
    callCaptured_spec cfg hdet j true f k (capture k self w0) hc0 arg w hch (by simpa [b2n] using hcnt)
  refine ⟨ht, evs, o, htr, hret, ?_, ?_⟩
  · have : post cfg.owner k (capture k self w0).self ((capture k self w0).impl.cnt j) o = [] := by
      simp [capture, h0, post]
    simpa [ent, this] using he
  · rw [expected_call cfg.owner j true k self o evs hcalls]
    cases o <;> simp [post, b2n, isRet]

/-- **C20_captured_inside_records_after_exit**: a callable taken while journal `j` was entered (one
    wrapper of `j` in its slot) and called when `j` is not entered any more (no wrapper of `j` in the
    class table): the stale wrapper still runs — when the call returns, the EXITED journal gains one
    entry (and nothing for the nested calls, which go through the restored table).  The class table
    is untouched: the classes do behave as before; it is the object the user kept that still records.
    Defect D471 of /repo (the journal receives entries for operations executed after it was left);
    proposed fix: the wrappers forward without recording when `journal._active` is false
    (`C20_captured_inside_guarded`). -/
theorem C20_captured_inside_records_after_exit (cfg : Cfg σ) (hdet : DetailsOk cfg) (f j k : Nat)
    (self : Obj) (arg : Val) (w0 w : World σ) (hc0 : ChainFor k (w0.table k))
    (h1 : (w0.table k).cnt j = 1) (hch : Chain w.table) (hcnt : ∀ k, (w.table k).cnt j = 0) :
    let r := callCaptured cfg (f + 1) (capture k self w0) arg w
    r.1.table = w.table ∧
      (r.1.journals j).entries = (w.journals j).entries ++
        (if isRet r.2 = true then [mkEntry k (targetOf cfg.owner k self)] else []) := by
  obtain ⟨ht, evs, o, _, hcalls, hret, he⟩ :=
    callCaptured_spec cfg hdet j false f k (capture k self w0) hc0 arg w hch (by simpa [b2n] using hcnt)
  refine ⟨ht, ?_⟩
  rw [expectedFor_inactive_calls cfg.owner j evs hcalls] at he
  simp only [ent, List.append_nil] at he
  rw [he, hret]
  simp [capture, h1, post]

/-- the concrete scenario: `with j0: m = g.append` then `m(n)` after the block — journal 0 is
    inactive, the class table is pristine, and journal 0 has an entry for the call -/
theorem C20_captured_inside_witness :
    let cfg : Cfg Unit := { impl := fun _ _ _ => .done (.ret .none), owner := id, details := fun _ _ _ s => some s }
    let w1 := enterRaw 0 (initialWorld ())
    let c := capture 21 5 w1
    let w2 := exit 0 w1
    let r := callCaptured cfg 2 c .none w2
    (w2.journals 0).active = false ∧ w2.table = pristine ∧ r.1.table = pristine ∧
      (r.1.journals 0).entries = [mkEntry 21 5] := by
  refine ⟨by simp [exit, enterRaw, initialWorld, upd], by simp [exit, enterRaw, initialWorld, upd], ?_, ?_⟩
  · simp [callCaptured, capture, runImpl, runOrig, runProg, enterRaw, exit, initialWorld, upd, emit, record, kindOf, slots,
      pristine]
  · simp [callCaptured, capture, runImpl, runOrig, runProg, enterRaw, exit, initialWorld, upd, emit, record, kindOf,
      slots, targetOf, pristine]

/-- with the proposed fix (a wrapper of an inactive journal only forwards) the same call leaves the
    exited journal as it is and has the outcome of the un-wrapped call -/
theorem C20_captured_inside_guarded :
    let cfg : Cfg Unit := { impl := fun _ _ _ => .done (.ret .none), owner := id, details := fun _ _ _ s => some s }
    let w1 := enterRaw 0 (initialWorld ())
    let c := capture 21 5 w1
    let w2 := exit 0 w1
    let r := callCapturedGuarded cfg 2 c .none w2
    (r.1.journals 0).entries = [] ∧ r.2 = .ret .none ∧ r.1.table = pristine := by
  simp [callCapturedGuarded, capture, runImplGuarded, runOrig, runProg, enterRaw, exit, initialWorld, upd, emit,
    pristine, kindOf, slots]

/-- non-vacuity of the hypotheses of the two captured-callable theorems: the table inside one journal
    has exactly one wrapper of that journal per slot, the pristine one none -/
example : (∀ k, ((enterRaw 0 (initialWorld ())).table k).cnt 0 = 1) ∧ (∀ k, (pristine k).cnt 0 = 0) ∧
    ChainFor 21 ((enterRaw 0 (initialWorld ())).table 21) ∧ Chain (enterRaw 0 (initialWorld ())).table :=
  ⟨fun _ => rfl, fun _ => rfl, ⟨rfl, rfl⟩, fun _ => ⟨rfl, rfl⟩⟩

/-- the instrumented operations do not touch the control state: the frame of `runOrig` over `dispatch` -/
theorem runOrig_frame (cfg : Cfg σ) (f k : Nat) (s : Obj) (a : Val) (w : World σ) :
    SameCtl w (runOrig cfg (dispatch cfg f) k s a w).1 :=
  runOrig_stable (sameCtl_stable w) cfg
    (fun s' o a' w' h => dispatch_stable (sameCtl_stable w) cfg f s' o a' w' h) k s a w (SameCtl.refl w)

/-- **C20_guard_noop_when_active** (the code since repo commit 1a1144b, fix of D471): a wrapper that first looks at
    `journal._active` behaves exactly like the wrapper without that check whenever the journals of all its layers are
    active — which is the case for every wrapper reachable through the class table of a properly nested history.  So
    the run theorems above, stated for `runImpl`, describe the guarded wrappers too. -/
theorem C20_guard_noop_when_active (cfg : Cfg σ) (f : Nat) (c : Captured) (arg : Val) (w : World σ)
    (hact : ∀ j ∈ c.impl.layers, (w.journals j).active = true) :
    callCapturedGuarded cfg (f + 1) c arg w = callCaptured cfg (f + 1) c arg w :=
  runImplGuarded_eq_of_active cfg (fun k s a w' => runOrig_frame cfg f k s a w') c.impl c.self arg w hact

/-- **C20_captured_after_exit_guarded** (the code since repo commit 1a1144b): a callable taken inside journals that
    have all been exited is a pure pass-through — the world after the call is exactly the world after calling the
    original function directly (no `details` evaluated, NO ENTRY in any journal: the trace, the IR and every journal
    are those of the direct call), and it completes iff the original does. -/
theorem C20_captured_after_exit_guarded (cfg : Cfg σ) (f : Nat) (c : Captured) (arg : Val) (w : World σ)
    (hinact : ∀ j ∈ c.impl.layers, (w.journals j).active = false) :
    (callCapturedGuarded cfg (f + 1) c arg w).1 = (runOrig cfg (dispatch cfg f) c.impl.base c.self arg w).1 ∧
      isRet (callCapturedGuarded cfg (f + 1) c arg w).2 =
        isRet (runOrig cfg (dispatch cfg f) c.impl.base c.self arg w).2 :=
  runImplGuarded_inactive cfg (fun k s a w' => runOrig_frame cfg f k s a w') c.impl c.self arg w hinact

/-- non-vacuity: after `with j0:` the layer of a callable taken inside is inactive; inside it is active -/
example : (∀ j ∈ (capture 21 5 (enterRaw 0 (initialWorld ()))).impl.layers,
      ((exit 0 (enterRaw 0 (initialWorld ()))).journals j).active = false) ∧
    (∀ j ∈ (capture 21 5 (enterRaw 0 (initialWorld ()))).impl.layers,
      ((enterRaw 0 (initialWorld ())).journals j).active = true) := by
  simp [capture, enterRaw, exit, initialWorld, pristine, upd, Impl.layers]

/-! ## round 5: the code as it is now (every wrapper checks `journal._active`, repo commit 1a1144b) -/

/-! ### the invariant: every wrapper reachable through the class table belongs to an active journal -/

/-- **C20_table_wrappers_active**: run the code AS IT IS NOW (`runFlatG`: every wrapper, also those reached by
    nested calls, first looks at `journal._active`) along any properly nested flat history `u` - raw enters, exits
    (normal or with an exception propagating), user code calling instrumented operations - from a world whose
    installed wrappers all belong to active journals (e.g. the start of the program, or inside any stack of open
    journals), the word's journals not being active.  Then at EVERY moment of the history (after every prefix
    `u1`): every wrapper installed in any slot of the class table - every layer of it - belongs to a journal that
    is active; and the state is exactly the state of the unchecked semantics `runFlat` (the one the run theorems
    were stated for).  This is the link that was "by comparison" until round 4. -/
theorem C20_table_wrappers_active (cfg : Cfg σ) (fuel : Nat) (u : List (FEv σ)) (w : World σ)
    (hwb : WellBracketed u) (hfresh : ∀ j ∈ flatEnters u, (w.journals j).active = false)
    (h0 : TableActive w) (u1 u2 : List (FEv σ)) (hu : u = u1 ++ u2) :
    TableActive (runFlatG cfg fuel u1 w) ∧ runFlatG cfg fuel u1 w = runFlat cfg fuel u1 w := by
  have h := flat_guard_inv cfg fuel u [] w (fun i => (w.journals i).active) hwb List.nodup_nil
    (fun k i hi => Or.inr (h0 k i hi)) (fun _ h => by cases h) (fun _ _ => rfl) hfresh u1 u2 hu
  exact ⟨by rw [h.1]; exact h.2, h.1⟩

/-- the whole word: on properly nested histories the checked code IS the unchecked one -/
theorem C20_flat_guarded (cfg : Cfg σ) (fuel : Nat) (u : List (FEv σ)) (w : World σ)
    (hwb : WellBracketed u) (hfresh : ∀ j ∈ flatEnters u, (w.journals j).active = false)
    (h0 : TableActive w) : runFlatG cfg fuel u w = runFlat cfg fuel u w :=
  (C20_table_wrappers_active cfg fuel u w hwb hfresh h0 u [] (by simp)).2

/-- the block form (`with` statements are properly nested by construction; a refused re-entry changes nothing):
    from a world whose installed wrappers belong to active journals, any block run by the checked code does
    exactly what the unchecked code does, and the invariant holds again afterwards -/
theorem C20_block_guarded (cfg : Cfg σ) (fuel : Nat) (b : Block σ) (w : World σ) (h0 : TableActive w) :
    runBlockG cfg fuel b w = runBlock cfg fuel b w ∧ TableActive (runBlockG cfg fuel b w).1 := by
  have h := runBlockG_eq cfg fuel b w h0
  exact ⟨h, by rw [h]; exact tableActive_block cfg fuel b w h0⟩

/-- one lookup on the class: the call and all its nested calls -/
theorem C20_dispatch_guarded (cfg : Cfg σ) (f slot : Nat) (s : Obj) (a : Val) (w : World σ) (h0 : TableActive w) :
    dispatchG cfg f slot s a w = dispatch cfg f slot s a w := dispatchG_eq cfg f slot s a w h0

/-- non-vacuity of `TableActive`: the start of the program, inside two journals, and (negative) the state that
    exits out of order leave behind -/
example : TableActive (initialWorld ()) ∧ TableActive (enterRaw 1 (enterRaw 0 (initialWorld ()))) ∧
    ¬ TableActive (runFlatG (σ := Unit) { impl := fun _ _ _ => .done (.ret .none), owner := id, details := fun _ _ _ s => some s }
      1 [.enter 0, .enter 1, .exit 0 false, .exit 1 false] (initialWorld ())) := by
  refine ⟨tableActive_pristine _ rfl, tableActive_enterRaw 1 _ (tableActive_enterRaw 0 _ (tableActive_pristine _ rfl)), ?_⟩
  intro h
  have := h 0 0 (by simp [runFlatG, enter, enterRaw, exit, initialWorld, pristine, upd, Impl.layers])
  simp [runFlatG, enter, enterRaw, exit, initialWorld, pristine, upd] at this

/-! ### the run theorems, about the checked code -/

/-- **C20_transparent_guarded**: `C20_transparent` for the code as it is now (both runs - with the journals and
    with every `with journal:` removed - executed by the checked wrappers).  Additional hypothesis: the wrappers
    installed at the start belong to active journals (`TableActive`; true at program start and inside any stack of
    open journals). -/
theorem C20_transparent_guarded (cfg : Cfg σ) (hproc : ProcNone cfg) (hdet : DetailsOk cfg)
    (hpure : DetailsPure cfg) (fuel : Nat)
    (b : Block σ) (w : World σ) (hchain : Chain w.table) (hcap : CapturedOk w) (h0 : TableActive w)
    (hn : NoReentry b) (hfresh : ∀ j ∈ journalsOf b, (w.journals j).active = false) :
    let r := runBlockG cfg fuel b w
    let r0 := runBlockG cfg fuel (strip b) { w with table := pristine }
    r.1.ir = r0.1.ir ∧ r.1.log = r0.1.log ∧ r.2 = r0.2 ∧
      r.1.trace.filter isCall = r0.1.trace.filter isCall := by
  intro r r0
  have e1 : r = runBlock cfg fuel b w := runBlockG_eq cfg fuel b w h0
  have e0 : r0 = runBlock cfg fuel (strip b) { w with table := pristine } :=
    runBlockG_eq cfg fuel (strip b) _ (tableActive_pristine _ rfl)
  rw [e1, e0]
  exact C20_transparent cfg hproc hdet hpure fuel b w hchain hcap hn hfresh

theorem C20_transparent_from_start_guarded (cfg : Cfg σ) (hproc : ProcNone cfg) (hdet : DetailsOk cfg)
    (hpure : DetailsPure cfg) (fuel : Nat) (b : Block σ) (s : σ) (hn : NoReentry b) :
    let r := runBlockG cfg fuel b (initialWorld s)
    let r0 := runBlockG cfg fuel (strip b) (initialWorld s)
    r.1.ir = r0.1.ir ∧ r.1.log = r0.1.log ∧ r.2 = r0.2 ∧
      r.1.trace.filter isCall = r0.1.trace.filter isCall := by
  intro r r0
  have e1 : r = runBlock cfg fuel b (initialWorld s) := runBlockG_eq cfg fuel b _ (tableActive_pristine _ rfl)
  have e0 : r0 = runBlock cfg fuel (strip b) (initialWorld s) :=
    runBlockG_eq cfg fuel (strip b) _ (tableActive_pristine _ rfl)
  rw [e1, e0]
  exact C20_transparent_from_start cfg hproc hdet hpure fuel b s hn

/-- **C20_entries_guarded**: `C20_entries` for the code as it is now -/
theorem C20_entries_guarded (cfg : Cfg σ) (hdet : DetailsOk cfg) (fuel : Nat) (j : Nat) (b : Block σ)
    (w : World σ) (hchain : Chain w.table) (h0 : TableActive w) (hj : ∀ k, (w.table k).cnt j = 0)
    (hact : (w.journals j).active = false) :
    ∃ evs, (runBlockG cfg fuel b w).1.trace = w.trace ++ evs ∧
      ((runBlockG cfg fuel b w).1.journals j).entries =
        (w.journals j).entries ++ expectedFor cfg.owner j false evs := by
  rw [runBlockG_eq cfg fuel b w h0]
  exact C20_entries cfg hdet fuel j b w hchain hj hact

theorem C20_entries_active_guarded (cfg : Cfg σ) (hdet : DetailsOk cfg) (fuel : Nat) (j : Nat) (b : Block σ)
    (w : World σ) (hchain : Chain w.table) (h0 : TableActive w) (hj : ∀ k, (w.table k).cnt j = 1)
    (hact : (w.journals j).active = true) :
    ∃ evs, (runBlockG cfg fuel b w).1.trace = w.trace ++ evs ∧
      ((runBlockG cfg fuel b w).1.journals j).entries =
        (w.journals j).entries ++ expectedFor cfg.owner j true evs := by
  rw [runBlockG_eq cfg fuel b w h0]
  exact C20_entries_active cfg hdet fuel j b w hchain hj hact

/-- **C20_restore_guarded**: the checked code restores the class table, the current journal and every active flag
    after any block, from ANY world (no hypothesis, as `C20_restore`; proved directly for `runBlockG`) -/
theorem C20_restore_guarded (cfg : Cfg σ) (fuel : Nat) (b : Block σ) (w : World σ) :
    (runBlockG cfg fuel b w).1.table = w.table ∧ (runBlockG cfg fuel b w).1.current = w.current ∧
      ∀ i, ((runBlockG cfg fuel b w).1.journals i).active = (w.journals i).active :=
  ⟨(blockG_restore cfg fuel b w).1, (blockG_restore cfg fuel b w).2, blockG_active_restore cfg fuel b w⟩

/-- **C20_restore_flat_guarded**: `C20_restore_flat` for the checked code, from ANY class table -/
theorem C20_restore_flat_guarded (cfg : Cfg σ) (fuel : Nat) (u : List (FEv σ)) (w : World σ)
    (hwb : WellBracketed u) (hfresh : ∀ j ∈ flatEnters u, (w.journals j).active = false) :
    (runFlatG cfg fuel u w).table = w.table ∧ (runFlatG cfg fuel u w).current = w.current ∧
      ∀ i, ((runFlatG cfg fuel u w).journals i).active = (w.journals i).active :=
  flatG_inv cfg fuel u [] w w.table w.current (fun i => (w.journals i).active) hwb List.nodup_nil
    ⟨rfl, rfl⟩ (fun _ _ => rfl) (fun _ h => by cases h) hfresh

/-- no strong reference, for the checked code -/
theorem C20_no_strong_ref_run_guarded (cfg : Cfg σ) (fuel : Nat) (b : Block σ) (w : World σ) (h0 : TableActive w)
    (h : ∀ i, heldBy (w.journals i) = []) :
    ∀ i, heldBy ((runBlockG cfg fuel b w).1.journals i) = [] := by
  rw [runBlockG_eq cfg fuel b w h0]
  exact C20_no_strong_ref_run cfg fuel b w h

/-- **C20_transparent_kernel_guarded**: `C20_transparent_kernel_spelled` (every spelled history of the C01 kernel
    alphabet inside any nest of journals) for the checked code -/
theorem C20_transparent_kernel_guarded (f : Nat) (kb : KBlkX) (hn : NoReentry kb.toBlock) :
    let r := runBlockG kCfg (f + 3) kb.toBlock (initialWorld { w := Kernel.World.empty })
    r.1.ir.w = Kernel.runAny kb.allOps ∧ r.1.log = histLogX Kernel.World.empty kb.allCalls ∧
      r.2 = none ∧ r.1.trace.filter isCall = histEvsX Kernel.World.empty kb.allCalls ∧
      (∀ j, (r.1.journals j).entries = expectedFor kOwner j false r.1.trace) ∧
      r.1.table = pristine ∧ r.1.current = none := by
  intro r
  have e1 : r = runBlock kCfg (f + 3) kb.toBlock (initialWorld { w := Kernel.World.empty }) :=
    runBlockG_eq kCfg (f + 3) kb.toBlock _ (tableActive_pristine _ rfl)
  rw [e1]
  exact C20_transparent_kernel_spelled f kb hn

theorem C20_kernel_plain_guarded (f : Nat) (kb : KBlkX) :
    let r := runBlockG kCfg (f + 3) (strip kb.toBlock) (initialWorld { w := Kernel.World.empty })
    r.1.ir.w = Kernel.runAny kb.allOps ∧ r.1.log = histLogX Kernel.World.empty kb.allCalls ∧
      r.1.trace = histEvsX Kernel.World.empty kb.allCalls ∧ r.2 = none := by
  intro r
  have e1 : r = runBlock kCfg (f + 3) (strip kb.toBlock) (initialWorld { w := Kernel.World.empty }) :=
    runBlockG_eq kCfg (f + 3) _ _ (tableActive_pristine _ rfl)
  rw [e1]
  exact C20_kernel_plain_spelled f kb

/-- a kept callable called where the installed wrappers are all active: the checked code (nested lookups checked
    too) is `callCapturedGuarded`, which `C20_guard_noop_when_active` / `C20_captured_after_exit_guarded` describe -/
theorem C20_captured_guarded_full (cfg : Cfg σ) (f : Nat) (c : Captured) (arg : Val) (w : World σ)
    (h0 : TableActive w) : callCapturedG cfg f c arg w = callCapturedGuarded cfg f c arg w :=
  callCapturedG_eq cfg f c arg w h0

/-! ### the checked code in ANY history (properly nested or not) -/

/-- **C20_inactive_journal_silent**: with the `_active` check a journal that is not entered receives NO entry,
    in any flat history whatsoever that does not enter it - improperly nested, with its stale wrappers still
    installed in the class table (exits out of order), whatever is entered, exited or executed.  (Without the
    check this is false: `C20_captured_inside_records_after_exit`, and the stale wrappers of
    `C20_improper_nesting_general` record for ever.) -/
theorem C20_inactive_journal_silent (cfg : Cfg σ) (fuel j : Nat) (u : List (FEv σ)) (w : World σ)
    (hj : (w.journals j).active = false) (hu : j ∉ flatEnters u) :
    ((runFlatG cfg fuel u w).journals j).entries = (w.journals j).entries ∧
      ((runFlatG cfg fuel u w).journals j).active = false := by
  have h := runFlatG_silent cfg fuel j (w.journals j).entries u w hu ⟨hj, rfl⟩
  exact ⟨h.2, h.1⟩

/-- the unchecked wrappers did record in that situation: journal 0 is exited out of order, its wrappers stay
    installed, and an operation executed afterwards lands in the exited journal; with the check it does not -/
theorem C20_inactive_journal_silent_needs_guard :
    let cfg : Cfg Unit := { impl := fun _ _ _ => .done (.ret .none), owner := id, details := fun _ _ _ s => some s }
    let u : List (FEv Unit) := [.enter 0, .enter 1, .exit 0 false, .exit 1 false,
      .op (.call 21 5 .none fun o => .done o)]
    ((runFlat cfg 2 u (initialWorld ())).journals 0).entries = [mkEntry 21 5] ∧
    ((runFlatG cfg 2 u (initialWorld ())).journals 0).entries = [] ∧
    (runFlatG cfg 2 u (initialWorld ())).log = [.ret .none] := by
  simp [runFlat, runFlatG, runProg, dispatch, dispatchG, runImpl, runImplGuarded, runOrig, enter, enterRaw, exit,
    initialWorld, pristine, upd, emit, record, kindOf, slots, targetOf]

/-- a stale layer only forwards: a wrapper whose journal is not active, in front of any chain - the world after
    the call is the world after calling what is behind it, it completes iff that does, and for methods / container
    methods the two calls are literally equal (the constructor and the setter wrapper return None) -/
theorem C20_stale_wrapper_forwards (cfg : Cfg σ) (f j k : Nat) (inner : Impl) (s : Obj) (a : Val) (w : World σ)
    (hj : (w.journals j).active = false) :
    let body := runOrig cfg (dispatchG cfg f)
    (runImplGuarded cfg body (.wrap j k inner) s a w).1 = (runImplGuarded cfg body inner s a w).1 ∧
    isRet (runImplGuarded cfg body (.wrap j k inner) s a w).2 = isRet (runImplGuarded cfg body inner s a w).2 ∧
    (kindOf k = .method ∨ kindOf k = .container →
      runImplGuarded cfg body (.wrap j k inner) s a w = runImplGuarded cfg body inner s a w) := by
  intro body
  have hfr : SameCtl w (runImplGuarded cfg body inner s a w).1 :=
    runImplGuarded_stable (sameCtl_stable w) cfg
      (runOrig_stable (sameCtl_stable w) cfg (fun s o a w' h => dispatchG_stable (sameCtl_stable w) cfg f s o a w' h))
      inner s a w (SameCtl.refl w)
  have hj' : ((runImplGuarded cfg body inner s a w).1.journals j).active = false := by
    rw [hfr.active j]; exact hj
  cases hk : kindOf k
  · refine ⟨?_, ?_, fun h => by rcases h with h | h <;> cases h⟩
    · simp only [runImplGuarded, hk]
      split
      · simp [hj']
      · rfl
    · simp only [runImplGuarded, hk]
      split
      · next v hv => simp [hj', hv, isRet]
      · next e he => simp [he]
  · refine ⟨?_, ?_, fun h => by rcases h with h | h <;> cases h⟩
    · simp only [runImplGuarded, hk, hj, Bool.not_false, if_true]
    · simp only [runImplGuarded, hk, hj, Bool.not_false, if_true]
      cases (runImplGuarded cfg body inner s a w).2 <;> rfl
  all_goals
    have e : runImplGuarded cfg body (.wrap j k inner) s a w = runImplGuarded cfg body inner s a w := by
      simp only [runImplGuarded, hk, hj, Bool.not_false, if_true]
      cases h2 : (runImplGuarded cfg body inner s a w).2 with
      | ret v =>
        have : runImplGuarded cfg body inner s a w = ((runImplGuarded cfg body inner s a w).1, .ret v) := by
          rw [← h2]
        rw [this]; simp
      | raise e =>
        have : runImplGuarded cfg body inner s a w = ((runImplGuarded cfg body inner s a w).1, .raise e) := by
          rw [← h2]
        rw [this]
    exact ⟨by rw [e], by rw [e], fun _ => e⟩

/-- **the `_active` check, for every slot** (computed by running `runImplGuarded` on the probe configuration with the
    wrapper's journal NOT active): the original runs exactly once, the `details` expression is not evaluated, nothing
    is recorded; method and container wrappers hand the original's result back, constructor and setter wrappers
    return None; an exception of the original propagates.  Compared slot by slot with the real wrapper code objects
    run around a stub journal whose `_active` is False. -/
theorem C20_wrapper_guard (k : Nat) :
    guardForwards k = true ∧ guardReturnsResult k = (kindOf k == .method || kindOf k == .container) ∧
      guardPropagates k = true := by
  cases h : kindOf k <;>
    simp [guardForwards, guardReturnsResult, guardPropagates, probeRunG, probeWorldInactive, probeCfg, runImplGuarded,
      enterRaw, initialWorld, pristine, upd, h]

/-- **what `__exit__` does in any history, checked code** (`C20_exit_restores_own_snapshot` for `runFlatG`) -/
theorem C20_exit_restores_own_snapshot_guarded (cfg : Cfg σ) (fuel j : Nat) (u : List (FEv σ)) (x : Bool)
    (w : World σ) (hj : (w.journals j).active = false) (hu : j ∉ flatExits u) :
    let w' := runFlatG cfg fuel (.enter j :: u ++ [.exit j x]) w
    w'.table = w.table ∧ w'.current = w.current ∧ (w'.journals j).active = false := by
  have hen : enter j w = some (enterRaw j w) := by simp [enter, hj]
  have hact : ((enterRaw j w).journals j).active = true := by simp [enterRaw, upd]
  have hf := flatG_frame_active cfg fuel j u (enterRaw j w) hact hu
  have hcap : ((runFlatG cfg fuel u (enterRaw j w)).journals j).captured = some w.table := by
    rw [hf.1]; simp [enterRaw, upd]
  have hprev : ((runFlatG cfg fuel u (enterRaw j w)).journals j).previous = w.current := by
    rw [hf.2.1]; simp [enterRaw, upd]
  simp only [runFlatG, hen, Option.getD_some, runFlatG_append]
  simp [exit, hcap, hprev, upd]

/-- **C20_improper_nesting_general_guarded**: what exits out of order leave behind, for the checked code: the same
    control state as `C20_improper_nesting_general` (every slot carries the wrapper of the exited journal `i`,
    `get_current_journal()` is `i`, both inactive) - the classes stay wrapped, but by `C20_inactive_journal_silent`
    and `C20_stale_wrapper_forwards` those wrappers only forward and `i` receives nothing any more. -/
theorem C20_improper_nesting_general_guarded (cfg : Cfg σ) (fuel i j : Nat) (hij : i ≠ j)
    (u v : List (FEv σ)) (x y : Bool) (w : World σ)
    (hu : WellBracketed u) (hui : i ∉ flatEnters u) (huj : j ∉ flatEnters u)
    (hfresh : ∀ a ∈ flatEnters u, (w.journals a).active = false)
    (hi : (w.journals i).active = false) (hj : (w.journals j).active = false)
    (hvj : j ∉ flatExits v) (hvi : i ∉ flatExits v) :
    let w' := runFlatG cfg fuel (.enter i :: u ++ .enter j :: v ++ [.exit i x, .exit j y]) w
    (∀ k, w'.table k = .wrap i k (w.table k)) ∧ w'.current = some i ∧
      (w'.journals i).active = false ∧ (w'.journals j).active = false := by
  have hen : enter i w = some (enterRaw i w) := by simp [enter, hi]
  -- after `enter i` and the properly nested `u`
  have hfresh1 : ∀ a ∈ flatEnters u, ((enterRaw i w).journals a).active = false := by
    intro a ha
    have hai : a ≠ i := fun e => hui (e ▸ ha)
    rw [enterRaw_other i a w hai]; exact hfresh a ha
  obtain ⟨ht1, hc1, ha1⟩ := C20_restore_flat_guarded cfg fuel u (enterRaw i w) hu hfresh1
  let w1 := runFlatG cfg fuel u (enterRaw i w)
  have hj1 : (w1.journals j).active = false := by
    show ((runFlatG cfg fuel u (enterRaw i w)).journals j).active = false
    rw [ha1 j, enterRaw_other i j w (fun e => hij e.symm)]; exact hj
  have hi1 : (w1.journals i).active = true := by
    show ((runFlatG cfg fuel u (enterRaw i w)).journals i).active = true
    rw [ha1 i]; simp [enterRaw, upd]
  -- `enter j :: (v ++ [exit i]) ++ [exit j]` restores the snapshot of `w1`
  have hx : j ∉ flatExits (v ++ [FEv.exit (σ := σ) i x]) := by
    have : ∀ (a b : List (FEv σ)), flatExits (a ++ b) = flatExits a ++ flatExits b := by
      intro a b
      induction a with
      | nil => rfl
      | cons e r ih => cases e <;> simp [flatExits, ih]
    rw [this]
    simp only [flatExits, List.mem_append, List.mem_singleton, not_or]
    exact ⟨hvj, fun e => hij e.symm⟩
  have hsnap := C20_exit_restores_own_snapshot_guarded cfg fuel j (v ++ [.exit i x]) y w1 hj1 hx
  -- journal `i` after the tail: exited inside it, not entered again ... (its flag after `exit i`)
  have hw : runFlatG cfg fuel (.enter i :: u ++ .enter j :: v ++ [.exit i x, .exit j y]) w =
      runFlatG cfg fuel (.enter j :: (v ++ [.exit i x]) ++ [.exit j y]) w1 := by
    have e1 : (FEv.enter i :: u ++ FEv.enter j :: v ++ [FEv.exit i x, FEv.exit j y] : List (FEv σ)) =
        FEv.enter i :: (u ++ (FEv.enter j :: (v ++ [FEv.exit i x]) ++ [FEv.exit j y])) := by simp
    rw [e1]
    simp only [runFlatG, hen, Option.getD_some]
    rw [runFlatG_append]
  simp only [] at hsnap ⊢
  rw [hw]
  refine ⟨fun k => ?_, ?_, ?_, hsnap.2.2⟩
  · rw [hsnap.1]
    show (runFlatG cfg fuel u (enterRaw i w)).table k = _
    rw [ht1]; rfl
  · rw [hsnap.2.1]
    show (runFlatG cfg fuel u (enterRaw i w)).current = _
    rw [hc1]; rfl
  · -- `i` is active in `w1`, stays so through `enter j :: v` (not exited), is exited, and `exit j` does not touch it
    have hen_j : enter j w1 = some (enterRaw j w1) := by simp [enter, hj1]
    have hi2 : ((enterRaw j w1).journals i).active = true := by
      rw [enterRaw_other j i w1 hij]; exact hi1
    have hf := flatG_frame_active cfg fuel i v (enterRaw j w1) hi2 hvi
    have hcap : ∃ t, ((runFlatG cfg fuel v (enterRaw j w1)).journals i).captured = some t := by
      rw [hf.1, enterRaw_other j i w1 hij]
      have hfi := flatG_frame_active cfg fuel i u (enterRaw i w) (by simp [enterRaw, upd])
        (by
          -- a properly nested word that never enters `i` never exits it
          intro hmem
          have key : ∀ (r : List (FEv σ)) (st : List Nat), wbAux st r = true → i ∈ flatExits r →
              i ∈ st ∨ i ∈ flatEnters r := by
            intro r
            induction r with
            | nil => intro st _ h; simp [flatExits] at h
            | cons e r ih =>
              intro st hwb h
              cases e with
              | enter a =>
                simp only [wbAux, Bool.and_eq_true] at hwb
                rcases ih (a :: st) hwb.2 (by simpa [flatExits] using h) with h1 | h1
                · rcases List.mem_cons.mp h1 with h2 | h2
                  · right; simp [flatEnters, h2]
                  · left; exact h2
                · right; simp [flatEnters, h1]
              | exit a z =>
                cases st with
                | nil => simp [wbAux] at hwb
                | cons t st' =>
                  simp only [wbAux, Bool.and_eq_true, beq_iff_eq] at hwb
                  simp only [flatExits, List.mem_cons] at h
                  rcases h with h | h
                  · left; rw [h, ← hwb.1]; exact List.mem_cons_self ..
                  · rcases ih st' hwb.2 h with h1 | h1
                    · left; exact List.mem_cons_of_mem _ h1
                    · right; simpa [flatEnters] using h1
              | op p =>
                simp only [wbAux] at hwb
                rcases ih st hwb (by simpa [flatExits] using h) with h1 | h1
                · left; exact h1
                · right; simpa [flatEnters] using h1
          rcases key u [] hu hmem with h | h
          · cases h
          · exact hui h)
      exact ⟨w.table, by
        show ((runFlatG cfg fuel u (enterRaw i w)).journals i).captured = _
        rw [hfi.1]; simp [enterRaw, upd]⟩
    obtain ⟨t, hcap⟩ := hcap
    simp only [List.cons_append, List.append_assoc, runFlatG, hen_j, Option.getD_some, runFlatG_append,
      List.nil_append]
    rw [exit_other j i _ hij]
    simp [exit, hcap, upd]


end IrVerif.Journal

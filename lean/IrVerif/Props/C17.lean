/-
C17 — deserializing any proto terminates with an error or a consistent IR (model `IrVerif.Scope`).
-/
import IrVerif.Lemmas.ScopeTree
import IrVerif.Lemmas.ScopeIdem
import IrVerif.Lemmas.ScopeKernel
import IrVerif.Lemmas.ScopeReplDeser
import IrVerif.Lemmas.ScopeModel
import IrVerif.Lemmas.ScopeModelDup
import IrVerif.Lemmas.ScopeMeta
import IrVerif.Lemmas.ScopeAttrProps
import IrVerif.Model.ScopeFunc9
import IrVerif.Lemmas.ScopeExt
import IrVerif.Lemmas.ScopeExtInv
import IrVerif.Lemmas.ScopeExtLocal
import IrVerif.Lemmas.ScopeFunc9Inert
import IrVerif.Lemmas.ScopeFunc9Idem
import IrVerif.Lemmas.ScopeExtTop
import IrVerif.Lemmas.ScopeExtSerOk
import IrVerif.Lemmas.ScopeExtModelTop
import IrVerif.Lemmas.ScopeExtDevCert
import IrVerif.Props.C17Ext9
namespace IrVerif.Scope

/-- **C17_total**: `deserialize` is a total function on every `GraphP`, with no well-formedness
    hypothesis.  The definition (`deserGraph` / `deserNodes` / `deserNode` / `deserSubs`) is accepted
    by Lean's termination checker as a structural recursion on the proto: no fuel, no `partial`.
    Every proto therefore yields an error or an IR.
    The proof is a case split on `Except` — a tautology for any Lean function; the evidence for
    "deserialization terminates" is that Lean accepted the definition, not this proof.  The input space is
    the abstract `GraphP` (names plus opaque tokens): invalid UTF-8, unknown enum values, inconsistent
    tensor fields, recursion depth and wall-clock behaviour of the real code are covered by the harness
    only (byte-level and field-level mutation streams, CPU-time limit). -/
theorem C17_total (p : GraphP) :
    (∃ w, deserialize p = .ok w) ∨ (∃ e, deserialize p = .error e) := by
  cases h : deserialize p with
  | ok w => exact .inl ⟨w, rfl⟩
  | error e => exact .inr ⟨e, rfl⟩

/-! ### the consistency invariant (the C01 invariant restricted to what deserialization builds) -/

/-- Use-def and ownership links of an IR model are consistent: `recsG w.root` are the nodes of the
    model (of all nested graphs), `grecsG w.root` its graphs. -/
structure Consistent (w : World) : Prop where
  /-- every input slot is registered as a use of the value it holds -/
  use_of_input : ∀ r ∈ recsG w.root, ∀ i v, r.inputs[i]? = some (some v) → (r.id, i) ∈ (w.st.vals v).uses
  /-- every registered use is an input slot of a node of the model that holds the value -/
  input_of_use : ∀ v n i, (n, i) ∈ (w.st.vals v).uses →
    ∃ r ∈ recsG w.root, r.id = n ∧ r.inputs[i]? = some (some v)
  uses_nodup : ∀ v, (w.st.vals v).uses.Nodup
  /-- every output slot points back with producer and index -/
  producer_of_output : ∀ r ∈ recsG w.root, ∀ k v, r.outputs[k]? = some v →
    (w.st.vals v).producer = some r.id ∧ (w.st.vals v).index = some k
  /-- a producer is a node of the model that lists the value at the recorded index -/
  output_of_producer : ∀ v n, (w.st.vals v).producer = some n →
    ∃ r ∈ recsG w.root, r.id = n ∧ ∃ k, (w.st.vals v).index = some k ∧ r.outputs[k]? = some v
  index_iff_producer : ∀ v, (w.st.vals v).producer = none → (w.st.vals v).index = none
  node_ids_distinct : ((recsG w.root).map (·.id)).Nodup
  graph_ids_distinct : ((grecsG w.root).map (·.id)).Nodup
  /-- listed inputs / outputs / initializers carry the flag and the owner -/
  owned : ∀ g ∈ grecsG w.root,
    (∀ v ∈ g.inputs, (w.st.vals v).isIn = true ∧ (w.st.vals v).graph = some g.id) ∧
    (∀ v ∈ g.outputs, (w.st.vals v).isOut = true ∧ (w.st.vals v).graph = some g.id) ∧
    (∀ v ∈ g.inits, (w.st.vals v).isInit = true ∧ (w.st.vals v).graph = some g.id)
  /-- a flag implies membership in the collection of the owner, an owner implies a flag:
      a value is owned by at most one graph -/
  owner_of_flag : ∀ v,
    ((w.st.vals v).isIn = true → ∃ g ∈ grecsG w.root, (w.st.vals v).graph = some g.id ∧ v ∈ g.inputs) ∧
    ((w.st.vals v).isOut = true → ∃ g ∈ grecsG w.root, (w.st.vals v).graph = some g.id ∧ v ∈ g.outputs) ∧
    ((w.st.vals v).isInit = true → ∃ g ∈ grecsG w.root, (w.st.vals v).graph = some g.id ∧ v ∈ g.inits) ∧
    ((w.st.vals v).graph ≠ none →
      (w.st.vals v).isIn = true ∨ (w.st.vals v).isOut = true ∨ (w.st.vals v).isInit = true)
  /-- graph inputs and initializers have no producing node -/
  roots : ∀ g ∈ grecsG w.root,
    (∀ v ∈ g.inputs, (w.st.vals v).producer = none) ∧ (∀ v ∈ g.inits, (w.st.vals v).producer = none)
  /-- in every graph of the tree: each listed node carries `node.graph = ` that graph, every
      initializer is keyed by the name of its value, keys are distinct (`TreeOKG`) -/
  tree : TreeOKG w.st w.root

theorem mem_slotsOf (v nid : Nat) (ins : List (Option Nat)) :
    ∀ (j : Nat) (n i : Nat), (n, i) ∈ slotsOf v nid j ins ↔ n = nid ∧ j ≤ i ∧ ins[i - j]? = some (some v) := by
  induction ins with
  | nil => intro j n i; simp [slotsOf]
  | cons a r ih =>
    intro j n i
    have step : ∀ (P : Prop), ((n, i) ∈ slotsOf v nid (j + 1) r ∨ P) ↔
        ((n = nid ∧ j + 1 ≤ i ∧ r[i - (j + 1)]? = some (some v)) ∨ P) := fun P => by rw [ih]
    cases a with
    | none =>
      simp only [slotsOf]
      rw [ih]
      constructor
      · rintro ⟨h1, h2, h3⟩
        refine ⟨h1, by omega, ?_⟩
        have : i - j = (i - (j + 1)) + 1 := by omega
        rw [this]; simpa using h3
      · rintro ⟨h1, h2, h3⟩
        have hij : i ≠ j := by
          intro e; subst e; simp at h3
        refine ⟨h1, by omega, ?_⟩
        have : i - j = (i - (j + 1)) + 1 := by omega
        rw [this] at h3; simpa using h3
    | some w =>
      simp only [slotsOf]
      by_cases hw : w = v
      · subst hw
        simp only [if_true, List.mem_cons, Prod.mk.injEq]
        rw [ih]
        constructor
        · rintro (⟨h1, h2⟩ | ⟨h1, h2, h3⟩)
          · subst h2; exact ⟨h1, Nat.le_refl _, by simp⟩
          · refine ⟨h1, by omega, ?_⟩
            have : i - j = (i - (j + 1)) + 1 := by omega
            rw [this]; simpa using h3
        · rintro ⟨h1, h2, h3⟩
          by_cases hij : i = j
          · exact .inl ⟨h1, hij⟩
          · right
            refine ⟨h1, by omega, ?_⟩
            have : i - j = (i - (j + 1)) + 1 := by omega
            rw [this] at h3; simpa using h3
      · simp only [hw, if_false]
        rw [ih]
        constructor
        · rintro ⟨h1, h2, h3⟩
          refine ⟨h1, by omega, ?_⟩
          have : i - j = (i - (j + 1)) + 1 := by omega
          rw [this]; simpa using h3
        · rintro ⟨h1, h2, h3⟩
          have hij : i ≠ j := by
            intro e; subst e
            simp only [Nat.sub_self, List.getElem?_cons_zero, Option.some.injEq] at h3
            exact hw h3
          refine ⟨h1, by omega, ?_⟩
          have : i - j = (i - (j + 1)) + 1 := by omega
          rw [this] at h3; simpa using h3

theorem slotsOf_nodup (v nid : Nat) (ins : List (Option Nat)) : ∀ j, (slotsOf v nid j ins).Nodup := by
  induction ins with
  | nil => intro j; simp [slotsOf]
  | cons a r ih =>
    intro j
    cases a with
    | none => simpa [slotsOf] using ih (j + 1)
    | some w =>
      simp only [slotsOf]
      split
      · refine List.nodup_cons.mpr ⟨?_, ih _⟩
        intro hm
        rw [mem_slotsOf] at hm
        omega
      · exact ih _

theorem mem_usesIn (v : Nat) (R : List NRec) (n i : Nat) :
    (n, i) ∈ usesIn v R ↔ ∃ r ∈ R, r.id = n ∧ r.inputs[i]? = some (some v) := by
  simp only [usesIn, List.mem_flatMap]
  constructor
  · rintro ⟨r, hr, hm⟩
    rw [mem_slotsOf] at hm
    exact ⟨r, hr, hm.1.symm, by simpa using hm.2.2⟩
  · rintro ⟨r, hr, rfl, h⟩
    exact ⟨r, hr, by rw [mem_slotsOf]; exact ⟨rfl, Nat.zero_le _, by simpa using h⟩⟩

theorem usesIn_nodup (v : Nat) (R : List NRec) (h : (R.map (·.id)).Nodup) : (usesIn v R).Nodup := by
  induction R with
  | nil => simp [usesIn]
  | cons r R ih =>
    simp only [List.map_cons, List.nodup_cons] at h
    have : usesIn v (r :: R) = slotsOf v r.id 0 r.inputs ++ usesIn v R := by simp [usesIn]
    rw [this, List.nodup_append]
    refine ⟨slotsOf_nodup _ _ _ _, ih h.2, ?_⟩
    intro a ha b hb hab
    subst hab
    obtain ⟨n, i⟩ := a
    rw [mem_slotsOf] at ha
    rw [mem_usesIn] at hb
    obtain ⟨r', hr', hid, _⟩ := hb
    apply h.1
    rw [List.mem_map]
    exact ⟨r', hr', by rw [hid, ha.1]⟩

theorem Inv.consistent {st : Store} {g : GraphT} (h : Inv st (recsG g) (grecsG g)) (ht : TreeOKG st g) :
    Consistent ⟨st, g⟩ where
  tree := ht
  use_of_input := fun r hr i v hi => by
    show (r.id, i) ∈ (st.vals v).uses
    rw [h.u v, mem_usesIn]
    exact ⟨r, hr, rfl, hi⟩
  input_of_use := fun v n i hm => by
    have : (n, i) ∈ (st.vals v).uses := hm
    rw [h.u v, mem_usesIn] at this
    exact this
  uses_nodup := fun v => by
    show (st.vals v).uses.Nodup
    rw [h.u v]
    exact usesIn_nodup v _ h.n.nodup
  producer_of_output := h.p.p1
  output_of_producer := fun v n hp => by
    have hp' : (st.vals v).producer = some n := hp
    have hex : ∃ r ∈ recsG g, v ∈ r.outputs := by
      refine Classical.byContradiction fun hne => ?_
      have := (h.p.p2 v (fun r hr hm => hne ⟨r, hr, hm⟩)).1
      rw [hp'] at this
      cases this
    obtain ⟨r, hr, hm⟩ := hex
    obtain ⟨k, hk⟩ := List.getElem?_of_mem hm
    have := h.p.p1 r hr k v hk
    refine ⟨r, hr, ?_, k, this.2, hk⟩
    rw [hp'] at this
    exact (Option.some.inj this.1).symm
  index_iff_producer := fun v hp => by
    have hp' : (st.vals v).producer = none := hp
    refine (h.p.p2 v (fun r hr hm => ?_)).2
    obtain ⟨k, hk⟩ := List.getElem?_of_mem hm
    have := (h.p.p1 r hr k v hk).1
    rw [hp'] at this
    cases this
  node_ids_distinct := h.n.nodup
  graph_ids_distinct := h.o.nodup
  owned := h.o.own
  owner_of_flag := h.o.back
  roots := h.r

theorem Inv.empty : Inv ({} : Store) [] [] where
  u := fun _ => rfl
  p := ⟨fun _ hr => by simp at hr, fun _ _ => ⟨rfl, rfl⟩⟩
  n := ⟨fun _ hr => by simp at hr, by simp⟩
  o := ⟨fun _ hg => by simp at hg, fun _ => by simp [Store.vals], fun _ hg => by simp at hg, by simp⟩
  r := fun _ hg => by simp at hg

/-- **C17_consistent**: whenever deserialization returns an IR, its use-def and ownership links are
    consistent — for every proto, with no well-formedness hypothesis. -/
theorem C17_consistent (p : GraphP) (w : World) (h : deserialize p = .ok w) : Consistent w := by
  unfold deserialize at h
  split at h
  · simp at h
  · rename_i st g hg
    simp only [Except.ok.injEq] at h
    subst h
    have := deserGraph_links p {} [] st g [] [] (fun _ _ => rfl) (fun _ ht => by simp at ht) Inv.empty hg
    simp only [List.nil_append] at this
    exact this.consistent (deserGraph_tree p {} [] st g (fun _ _ => rfl) (fun _ ht => by simp at ht) hg)

/-- **C17_consistent_is_WF**: the consistency invariant of this model IS the kernel invariant of C01.
    Under the embedding `toKernel` (value `v` ↦ kernel value `v`; node / graph with creation index `i` ↦
    kernel node / graph `i`; the tree is flattened, reference counters are the multiplicities) the 12
    fields of `Consistent` give the six clauses `I_use`, `I_prod`, `I_root`, `I_own`, `I_key`, `I_node` of
    `Kernel.WF` (clause-by-clause correspondence: see `consistent_toKernel_WF`).  `Bounded w` says that
    the store is blank above its allocation counters and that node / graph indices are below theirs; it is
    what makes the list-based kernel world a faithful copy of the function-based stores.
    The converse is not claimed: `Consistent` is stronger (`index_iff_producer`, tree-shaped nesting,
    distinct creation indices) than `WF`. -/
theorem C17_consistent_is_WF (w : World) (hc : Consistent w) (hb : Bounded w) : Kernel.WF (toKernel w) :=
  consistent_toKernel_WF w hc.use_of_input hc.input_of_use hc.uses_nodup hc.producer_of_output
    hc.output_of_producer hc.node_ids_distinct hc.graph_ids_distinct hc.owned hc.owner_of_flag hc.roots hc.tree hb

/-- what deserialization returns is bounded -/
theorem deserialize_bounded (p : GraphP) (w : World) (h : deserialize p = .ok w) : Bounded w := by
  unfold deserialize at h
  split at h
  · simp at h
  · rename_i st g hg
    simp only [Except.ok.injEq] at h
    subst h
    have hinv := deserGraph_links p {} [] st g [] [] (fun _ _ => rfl) (fun _ ht => by simp at ht) Inv.empty hg
    simp only [List.nil_append] at hinv
    obtain ⟨hf, _⟩ := deserGraph_struct p {} [] st g (fun _ _ => rfl) (fun _ ht => by simp at ht) hg
    exact ⟨hf, hinv.n.lt, hinv.o.lt⟩

/-- **C17_deserialize_WF**: every IR that deserialization returns satisfies the kernel invariant of C01
    (so every theorem of C01 about `WF` worlds applies to freshly deserialized models). -/
theorem C17_deserialize_WF (p : GraphP) (w : World) (h : deserialize p = .ok w) : Kernel.WF (toKernel w) :=
  C17_consistent_is_WF w (C17_consistent p w h) (deserialize_bounded p w h)

/-- **C17_idempotent** (the full statement, no hypothesis on the proto): whenever deserialization returns
    an IR `w`, serializing `w` succeeds and gives a proto `q` that is a fix-point:
    `serialize (deserialize q) = q`.
    Covered shapes include everything `deserialize` accepts: dangling input names (placeholder values,
    shared by later references in the same scope and in graphs nested in later nodes), graph outputs
    that nothing produces (fresh values, one per entry), duplicate graph-input names, an initializer
    for a graph input, duplicate initializer tensors, names shadowed in nested scopes, nodes in any
    order, empty-named optional inputs and outputs, trailing empty outputs (dropped by the first
    serialization), value_info entries that nothing refers to (dropped), a shape without a type (dropped).
    Proof: `deserialize_reloadable` (what the deserializer builds satisfies the certificate `replG`:
    its name resolution, re-run on the model's own names, reproduces the model) and
    `reloadable_fixpoint` (a reloadable model round-trips to a model with the same tree up to renaming,
    same names, same emitted type / shape / documentation, same initializer tensors, and that model
    serializes to the same proto). -/
theorem C17_idempotent (p : GraphP) (w : World) (hd : deserialize p = .ok w) :
    ∃ (w1 : World) (q : GraphP) (D : World) (w2 : World),
      serialize w = .ok (w1, q) ∧ deserialize q = .ok D ∧ serialize D = .ok (w2, q) :=
  reloadable_fixpoint w (deserialize_reloadable p w hd)

/-- **C17_total_model**: deserialization of a model with functions terminates with a value or an error -/
theorem C17_total_model (P : ModelP) :
    (∃ m, deserializeM P = .ok m) ∨ (∃ e, deserializeM P = .error e) := by
  cases h : deserializeM P with
  | ok m => exact .inl ⟨m, rfl⟩
  | error e => exact .inr ⟨e, rfl⟩

/-- **C17_idempotent_model_partial**: idempotence for MODELS WITH FUNCTIONS (IR version >= 10 format).
    Excluded shape, spelled out: two `FunctionProto`s of the model carry the same identifier
    (domain, name, overload) — `hid` requires the identifiers of the proto to be distinct.  (With a
    duplicate the real code keeps the last function at the position of the first; the first serialization
    then drops the others, and the store still holds their values.  That case is covered by the
    correspondence check and the oracle only.)  Everything else is as in `C17_idempotent`: dangling,
    duplicate, shadowed names in the main graph and inside functions, function outputs that are inputs or
    placeholders, value_info entries for function inputs. -/
theorem C17_idempotent_model_partial (P : ModelP) (m : MWorld) (hd : deserializeM P = .ok m)
    (hid : (P.funcs.map (·.id)).Nodup) :
    ∃ (m1 : MWorld) (Q : ModelP) (D : MWorld) (m2 : MWorld),
      serializeM m = .ok (m1, Q) ∧ deserializeM Q = .ok D ∧ serializeM D = .ok (m2, Q) :=
  reloadableM_fixpoint m (deserializeM_reloadable P m hd hid)

/-- **C17_idempotent_model** (the full statement for models with functions; supersedes
    `C17_idempotent_model_partial`): NO hypothesis beyond `deserializeM P = .ok m`.  In particular several
    `FunctionProto`s may carry the same identifier (domain, name, overload): `deserialize_model` deserializes
    every one of them (their values stay in the store), `{func.identifier(): func}` keeps for each identifier
    the position of the first and the graph of the last, the first serialization writes the kept functions
    only, and that proto is a fix-point.  Serialization of what `deserializeM` returns never raises in the
    model (every value it creates has a name), so "raises or is a fix-point" holds in its stronger form.
    Proof: `deserializeM_reloadable_all` (the kept functions are a sub-family of the deserialized ones, each
    certified, with pairwise disjoint values; the keys of the dict are distinct) and `reloadableM_fixpoint`. -/
theorem C17_idempotent_model (P : ModelP) (m : MWorld) (hd : deserializeM P = .ok m) :
    ∃ (m1 : MWorld) (Q : ModelP) (D : MWorld) (m2 : MWorld),
      serializeM m = .ok (m1, Q) ∧ deserializeM Q = .ok D ∧ serializeM D = .ok (m2, Q) :=
  reloadableM_fixpoint m (deserializeM_reloadable_all P m hd)

/-! ### the decoration layer (`Model/ScopeMeta.lean`): metadata_props of model / graph / node / function, opset
imports, the `_get_field` fields (doc_string, graph name, producer ...), model and node device configurations,
function attributes -/

/-- **C17_meta_idempotent**: for EVERY decorated proto `X` (duplicate metadata keys, duplicate opset domains,
    duplicate function identifiers, duplicate / valueless function attributes, device configurations with an
    empty configuration_id or an empty tensor_name, any IR version): if serializing the deserialized
    decorations does not raise, the proto `Q` it writes is a fix-point of deserialize-then-serialize.
    (Serialization does raise in the model: a node device configuration without configuration, a sharding
    spec without value, at IR version >= 11 — `serDev` / `serSpecs`; below 11 they are dropped silently.)
    Content of the proof: `{k: v}` keeps first position / last value and has distinct keys; `sorted` is
    idempotent and a dict with distinct keys is read back unchanged; a falsy optional field stays absent;
    the valued / valueless partition of the function attributes is stable; what `serDev` accepts is read
    back as it was. -/
theorem C17_meta_idempotent (X Q : ModelDP) (h : serModelD (deserModelD X) = .ok Q) :
    serModelD (deserModelD Q) = .ok Q :=
  (rtModelD _ Q (wfDeserModelD X) h).2

/-- **C17_idempotent_decorated**: core model (main graph, functions: `C17_idempotent_model`) and decorations
    together: whenever `deserializeX X = .ok W`, serializing `W` raises — and then only in the decorations (the
    device-configuration checks) — or yields a proto that deserializes and serializes to itself.  No
    hypothesis on `X`. -/
theorem C17_idempotent_decorated (X : XModelP) (W : XWorld) (hd : deserializeX X = .ok W) :
    (∃ e, serializeX W = .error (.deco e)) ∨
    ∃ (W1 : XWorld) (Q : XModelP) (D : XWorld) (W2 : XWorld),
      serializeX W = .ok (W1, Q) ∧ deserializeX Q = .ok D ∧ serializeX D = .ok (W2, Q) := by
  simp only [deserializeX] at hd
  split at hd
  · simp at hd
  · rename_i m hm
    simp only [Except.ok.injEq] at hd
    subst hd
    obtain ⟨m1, Qc, Dc, m2, h1, h2, h3⟩ := C17_idempotent_model X.core m hm
    cases hq : serModelD (deserModelD X.deco) with
    | error e => exact .inl ⟨e, by simp only [serializeX, h1, hq]⟩
    | ok Qd =>
      have hfix := C17_meta_idempotent X.deco Qd hq
      exact .inr ⟨⟨m1, deserModelD X.deco⟩, ⟨Qc, Qd⟩, ⟨Dc, deserModelD Qd⟩, ⟨m2, deserModelD Qd⟩,
        by simp only [serializeX, h1, hq], by simp only [deserializeX, h2], by simp only [serializeX, h3, hfix]⟩

/-- **C17_meta_aligned**: the decorations stay on their carrier also where the carrier is chosen by a dict:
    when the decorated functions of the proto carry the identifiers of the core functions (same order), the
    functions dict of the decorations has the keys of the functions dict of the core, in the same order —
    with duplicate identifiers too (both keep the first position; `C17_idempotent_decorated` shows both keep
    a fix-point). -/
theorem C17_meta_aligned (X : XModelP) (W : XWorld) (hd : deserializeX X = .ok W)
    (hid : X.deco.funcs.map (·.id) = X.core.funcs.map (·.id)) :
    W.deco.funcs.map (·.1) = W.core.funcs.map (·.1) := by
  simp only [deserializeX] at hd
  split at hd
  · simp at hd
  · rename_i m hm
    simp only [Except.ok.injEq] at hd
    subst hd
    simp only [deserializeM] at hm
    split at hm
    · simp at hm
    · rename_i st g _
      split at hm
      · simp at hm
      · rename_i st1 fs hfs
        simp only [Except.ok.injEq] at hm
        subst hm
        show (deserFuncsD [] X.deco.funcs).map (·.1) = fs.map (·.1)
        rw [deserFuncsD_keys, deserFuncs_keys _ _ _ _ _ hfs, hid]
        rfl

/-! ### the IR version < 10 format of function value info (`Model/ScopeFunc9.lean`) -/

/-- main graph: `Identity(x) -> "custom::f/c"`, `Identity("custom::f/c") -> y`; function `custom::f`:
    `Identity(a) -> c` with `value_info [c : f32]`.  The name of the main-graph value has the form under which
    the IR < 10 format stores the value info of the function value `c` in the main graph. -/
def exampleIR9 : ModelP :=
  ⟨.mk [⟨"x", { ty := some "f32" }⟩] [] []
      [ .mk ["x"] ["custom::f/c"] [], .mk ["custom::f/c"] ["y"] [] ] [⟨"y", { ty := some "f32" }⟩],
    [⟨⟨"custom", "f", ""⟩, ["a"], ["c"], [⟨"c", { ty := some "f32" }⟩], [ .mk ["a"] ["c"] [] ]⟩]⟩

/-- the lengths of the main graph's value_info after the first and after the second
    deserialize-then-serialize -/
def vinfoLens9 (fixed : Bool) (P : ModelP) : Option (Nat × Nat) :=
  match deserializeM9 P with
  | .error _ => none
  | .ok m =>
    match serializeM9 fixed m with
    | .error _ => none
    | .ok (_, Q) =>
      match deserializeM9 Q with
      | .error _ => none
      | .ok D =>
        match serializeM9 fixed D with
        | .error _ => none
        | .ok (_, Q2) => some (Q.graph.vinfo.length, Q2.graph.vinfo.length)

/-- **C17_ir9_not_idempotent** (finding D320, repaired in /repo f0d2984): for the IR version < 10 format the
    fix-point statement was FALSE — in the model of the code before the repair (`serializeM9 false`) there is a
    proto `P` that deserializes, whose serialization `Q` deserializes, and whose second serialization `Q2` is not
    `Q` (the main graph's value_info has one entry in `Q` and two in `Q2`).  The witness `exampleIR9` reproduced
    on the real code (corpus/C17 `D320`, proposed_fixes/D320.md).  The model of the repaired code is
    `serializeM9 true`; the correspondence check compares its `Q` AND `Q2` with the real ones on every generated
    IR < 10 model with functions; the fix-point THEOREM for `serializeM9 true` is `C17_idempotent_ir9`
    (deepening round 5). -/
theorem C17_ir9_not_idempotent :
    ∃ (P : ModelP) (m m1 : MWorld) (Q : ModelP) (D m2 : MWorld) (Q2 : ModelP),
      deserializeM9 P = .ok m ∧ serializeM9 false m = .ok (m1, Q) ∧ deserializeM9 Q = .ok D ∧
      serializeM9 false D = .ok (m2, Q2) ∧ Q2.graph.vinfo.length ≠ Q.graph.vinfo.length := by
  have h : vinfoLens9 false exampleIR9 = some (1, 2) := by decide +kernel
  unfold vinfoLens9 at h
  split at h
  · simp at h
  · rename_i m hm
    split at h
    · simp at h
    · rename_i m1 Q hq
      split at h
      · simp at h
      · rename_i D hD
        split at h
        · simp at h
        · rename_i m2 Q2 hq2
          simp only [Option.some.injEq, Prod.mk.injEq] at h
          exact ⟨exampleIR9, m, m1, Q, D, m2, Q2, hm, hq, hD, hq2, by omega⟩

/-- with the repair of D320 (`serializeM9 true`: no experimental entry under the name of a main-graph value) the
    witness is a fix-point: no entry is written at all -/
example : vinfoLens9 true exampleIR9 = some (0, 0) := by decide +kernel

/-- and without a name collision the format works as intended (one entry, stable) -/
example : vinfoLens9 false ⟨.mk [⟨"x", {}⟩] [] [] [ .mk ["x"] ["y"] [] ] [⟨"y", {}⟩], exampleIR9.funcs⟩ = some (1, 1) := by
  decide +kernel

/-- **C17_ir9_entries_inert** (deepening round 4; the repaired IR version < 10 format, `serializeM9 true`): the
    experimental `domain::function/value` entries that serialization appends to the MAIN graph's value_info are
    inert for the main graph — with or without them the main graph deserializes to the same store and tree (or
    the same error), in every store and under every scope stack.  This is exactly what was false before the
    repair of D320 (`C17_ir9_not_idempotent`: an entry named like a main-graph value was attached to that value
    on load); it holds for EVERY model `m` whose main-graph initializers are keyed by the name of their value
    (`hkeys`: decidable, a clause of `C17_consistent`'s `tree` for every deserialized model; evaluated by the
    driver on every IR < 10 case, counter ir9_init_keys_named).  Proof: `_deserialize_graph` reads its value_info
    table only at the names of its initializer tensors and of the inputs / outputs of its own nodes
    (`deserGraph_vinfo_congr`); every such non-empty name of the serialized main graph is one of the reserved
    names of the repair (`lookupNames_reserved`); an experimental entry is written only under a name that is not
    reserved and parses back, hence is not empty (`expOfFunc_mem`).
    The full fix-point (the entries are read back into the FUNCTION values they were written for and written again
    unchanged) is `C17_idempotent_ir9` (deepening round 5), which uses this lemma for the main graph. -/
theorem C17_ir9_entries_inert (m w1 : MWorld) (Q : ModelP) (h : serializeM9 true m = .ok (w1, Q))
    (hkeys : ∀ kv ∈ m.root.inits, (m.st.vals kv.2).name = some kv.1) :
    ∃ q, serializeM m = .ok (w1, q) ∧
      (∀ (st : Store) (outer : List Table), deserGraph st outer Q.graph = deserGraph st outer q.graph) ∧
      deserialize Q.graph = deserialize q.graph := by
  obtain ⟨q, hq, he⟩ := ir9_entries_inert m w1 Q h hkeys
  exact ⟨q, hq, he, by simp only [deserialize, he]⟩

/-- **C17_idempotent_ir9** (deepening round 5; closes the fix-point of the repaired IR version < 10 format, both
    halves): for EVERY model proto `P` (duplicate function identifiers, overloads, domains / names containing `::`
    or `/`, main-graph values or value_info entries named like experimental entries, duplicate input names,
    empty-named outputs included): if `deserializeM9 P` returns an IR `m`, serializing it with the repaired code
    (`serializeM9 true`) succeeds and gives a proto `Q` that deserializes and serializes to itself.  No hypothesis
    beyond "deserialization succeeded".  With `C17_ir9_not_idempotent` this is the exact status of the format: the
    fix-point is false before the repair of D320 and a theorem after it.
    Proof (`Lemmas/ScopeFunc9*.lean`): `m` is a `ReloadableM` model `m0` whose function-value infos were replaced by
    the post-pass by an info that is a function of the NAME among a function's inputs and node outputs
    (`ir9_core`); clearing the infos of the truthy-named function values keeps the certificate (`clear_reloadable`:
    `replF` / `replG` read infos only where stated), that model round-trips (`reloadableM_roundtrip`), the
    experimental entries are inert for the main graph (`ir9_entries_inert`), every entry parses back to the name it
    was written under (`parseExp_eq`, `canParseBack`), and the post-pass of the reloaded model applies by name
    exactly the entries that were written by name, so the second serialization writes the same entries. -/
theorem C17_idempotent_ir9 (P : ModelP) (m : MWorld) (hd : deserializeM9 P = .ok m) :
    ∃ (m1 : MWorld) (Q : ModelP) (D m2 : MWorld),
      serializeM9 true m = .ok (m1, Q) ∧ deserializeM9 Q = .ok D ∧ serializeM9 true D = .ok (m2, Q) :=
  idempotent_ir9 P m hd

/-! ### the extended model (`Model/ScopeExt.lean`): merged value metadata, quantization annotations, sharding
values of node device configurations -/

/-- **C17_ext_erasure**: the extended deserializer (which threads the merged `metadata_props` of every value, its
    quantization annotation and the resolved sharding values of every node next to the store) run on ANY
    extended proto, and the core deserializer run on the erased proto (value infos without their metadata, no
    annotations, no device configurations), return the same store and the same tree, or the same error: none
    of the three features influences name resolution, allocation, use-def links or ownership. -/
theorem C17_ext_erasure (p : GraphE) :
    (match deserializeE p with
      | .ok w => deserialize (eraseG p) = .ok w.core
      | .error e => deserialize (eraseG p) = .error e) :=
  deserializeE_erase p

/-- **C17_consistent_ext**: `C17_consistent` and `C17_deserialize_WF` for the extended model: whatever the
    metadata entries, quantization annotations and device configurations of the proto (dangling / repeated /
    empty tensor names included), an IR that the extended deserializer returns has consistent use-def and
    ownership links and satisfies the kernel invariant of C01. -/
theorem C17_consistent_ext (p : GraphE) (w : WorldE) (h : deserializeE p = .ok w) :
    Consistent w.core ∧ Kernel.WF (toKernel w.core) := by
  have he := deserializeE_erase p
  rw [h] at he
  exact ⟨C17_consistent _ _ he, C17_deserialize_WF _ _ he⟩

/-- **C17_ext_sharding_named**: in every IR the extended deserializer returns, every value a sharding spec of a
    node device configuration was RESOLVED to (`ShardV.val v`: the innermost binding of the spec's tensor_name in
    the scopes visible at the node, placeholders of earlier and of this node included) is an allocated value of
    the model and carries a non-empty name — the reference never dangles, and serializing the spec never raises
    for lack of a value or of a name.  (Unresolved names become `ShardV.fresh`: a value entered nowhere.)  No
    hypothesis on the proto.  Proof: induction over the four mutually recursive deserializers with the
    invariants `Named` / `TablesLt` of every visible scope, imported from the core model through the erasure. -/
theorem C17_ext_sharding_named (p : GraphE) (w : WorldE) (h : deserializeE p = .ok w) :
    ∀ n d, d ∈ w.ext.devs n → ∀ s ∈ d.specs, ∀ v, s.1 = ShardV.val v →
      v < w.st.nv ∧ ∃ t, t ≠ "" ∧ (w.st.vals v).name = some t :=
  deserializeE_devsOK p w h

/-- **C17_ext_erasure_model**: `C17_ext_erasure` for models with functions (IR version >= 10 format): main graph
    and function bodies; the functions dict of the extended run is the functions dict of the core run. -/
theorem C17_ext_erasure_model (p : ModelE) :
    (match deserializeME p with
      | .ok w => deserializeM (eraseM p) = .ok w.core
      | .error e => deserializeM (eraseM p) = .error e) :=
  deserializeME_erase p

/-- **C17_ext_sharding_named_model**: `C17_ext_sharding_named` for models with functions: also in function bodies
    (whose scope is the function's own: inputs, node outputs, placeholders) every resolved sharding value is an
    allocated, named value. -/
theorem C17_ext_sharding_named_model (p : ModelE) (w : MWorldE) (h : deserializeME p = .ok w) :
    ∀ n d, d ∈ w.ext.devs n → ∀ s ∈ d.specs, ∀ v, s.1 = ShardV.val v →
      v < w.st.nv ∧ ∃ t, t ≠ "" ∧ (w.st.vals v).name = some t :=
  deserializeME_devsOK p w h

/-- **C17_total_ext**: the extended deserializer is total (structural recursion, no fuel) -/
theorem C17_total_ext (p : GraphE) :
    (∃ w, deserializeE p = .ok w) ∨ (∃ e, deserializeE p = .error e) := by
  cases h : deserializeE p with
  | ok w => exact .inl ⟨w, rfl⟩
  | error e => exact .inr ⟨e, rfl⟩

/-- **C17_ext_payload_fixpoint** (deepening round 4; the PAYLOAD half of the extended model's fix-point).  The
    fix-point `serializeE (deserializeE q) = q` of the extended model has two halves: the FLOW (which entry of
    the re-serialized proto reaches which value of the reloaded model) and the PAYLOAD (what an entry written by
    the serializer becomes when it is read and written again).  This theorem is the payload half, for EVERY
    model the extended deserializer returns, with no hypothesis on the proto:
    (1) merged `metadata_props` have distinct keys, so what `serialize_value_into` writes (sorted by key) is read
    back by the creation entry of the reloaded value as it was written, a graph-output entry carrying the same
    metadata merged over it (`metadata_props.update`) changes nothing, and the result is written again unchanged;
    (2) a quantization annotation is a non-empty dict with distinct keys: it is written, read back as a non-empty
    dict and written again as it was;
    (3) the device configurations that serialization writes for a node are read back — their sharding values
    resolved in ANY scope stack whose tables bind names to values carrying them (the invariant `Named` that holds
    of every scope of the deserializer) — as configurations that are written again as they were.
    The flow half for the extension state — that the entries carrying a value's metadata / annotation are the ones
    that reach its reloaded image — is `C17_idempotent_ext` / `C17_idempotent_ext_model` (deepening round 5),
    which use this theorem's lemmas for the payload. -/
theorem C17_ext_payload_fixpoint (p : GraphE) (w : WorldE) (h : deserializeE p = .ok w) :
    (∀ v, ssUpdate [] (ssSorted (w.ext.vmeta v)) = ssSorted (w.ext.vmeta v) ∧
      ssUpdate (ssUpdate [] (ssSorted (w.ext.vmeta v))) (ssSorted (w.ext.vmeta v)) =
        ssUpdate [] (ssSorted (w.ext.vmeta v)) ∧
      ssSorted (ssUpdate [] (ssSorted (w.ext.vmeta v))) = ssSorted (w.ext.vmeta v)) ∧
    (∀ v ps, w.ext.quant v = some ps →
      (ssSorted ps).isEmpty = false ∧ ssOfEntries (ssSorted ps) ≠ [] ∧
      ssSorted (ssOfEntries (ssSorted ps)) = ssSorted ps) ∧
    (∀ n ps, serDevRs w.st.vals (w.ext.devs n) = .ok ps →
      ∀ (st' : Store) (scopes : List Table), (∀ t ∈ scopes, Named st' t) →
        serDevRs st'.vals (ps.map (deserDevR scopes)) = .ok ps) := by
  have hw := deserializeE_wf p w h
  refine ⟨fun v => meta_payload_fix _ (hw v).1, fun v ps hq => ?_, fun n ps hs st' scopes hn => ?_⟩
  · obtain ⟨h1, h2⟩ := (hw v).2 ps hq
    exact quant_payload_fix ps h1 h2
  · exact devs_payload_fix w.st.vals st'.vals scopes hn _ ps hs

/-- **C17_idempotent_ext** (deepening round 5; the FLOW half, hence the full fix-point of the extended model of
    graphs): for EVERY extended proto `p` (value_info / input / output entries with metadata_props, quantization
    annotations with dangling / repeated / empty tensor names, node device configurations; dangling, duplicate,
    shadowed names, placeholders, unproduced outputs as in `C17_idempotent`) and every IR version `ver`: if
    `deserializeE p` returns `w`, then serializing `w` raises - and then only in a device configuration (a
    configuration without id, a sharding spec without value, at IR version >= 11; never for lack of a name:
    `reloadableE_ser`) -, or it yields a proto `q` that deserializes
    (`deserializeE q = .ok D`) and serializes to itself (`serializeE ver D = .ok (_, q)`): value_info entries
    with their metadata, the quantization_annotation list and the device configurations of every node included.
    No hypothesis beyond "deserialization succeeded".
    Proof: every deserialized model satisfies the certificate `ReloadableE` (`deserializeE_reloadableE`:
    `Reloadable` of the core, the representation invariant `ExtWF`, and `extG`: equally named values of one graph
    carry the same annotation, unbound graph outputs and empty-named node outputs carry none); `rtE_graph`
    (`Lemmas/ScopeExtRT.lean`) redoes the lock-step induction `rt2_graph` for `deserGraphE` on the proto written
    by `serGraphE` with the extension state: every entry that reaches the image of a value was written for that
    value (inputs / outputs positionally, value_info and annotations by the uniqueness of the bindings of a
    name), so the images of the emitted values carry `normM` / `normQ` of the source payload
    (`C17_ext_payload_fixpoint`: merging = overwriting); `img2E_serGraph` (`Lemmas/ScopeExtIdem.lean`) is the
    congruence of `serGraphE` under the resulting isomorphism, the `seen` lists of the annotation loops mapped
    through the injective renaming; the device configurations are read back in name-preserving scopes
    (`deserializeE_devSpec`) and written again as they were (`devs_payload_fix`).
    Models with FUNCTIONS: `C17_idempotent_ext_model`. -/
theorem C17_idempotent_ext (ver : Option Int) (p : GraphE) (w : WorldE) (hd : deserializeE p = .ok w) :
    (∃ e, serializeE ver w = .error (.dev e)) ∨
    ∃ (w1 : WorldE) (q : GraphE) (D : WorldE) (w2 : WorldE),
      serializeE ver w = .ok (w1, q) ∧ deserializeE q = .ok D ∧ serializeE ver D = .ok (w2, q) := by
  rcases reloadableE_ser ver w (deserializeE_reloadableE p w hd) with ⟨q, ws, hs⟩ | ⟨e, hs⟩
  · obtain ⟨D, ws', hD, hq'⟩ := reloadableE_fixpoint ver w (deserializeE_reloadableE p w hd) q ws hs
    exact .inr ⟨⟨w.st.writes ws, w.ext, w.root⟩, q, D, ⟨D.st.writes ws', D.ext, D.root⟩,
      by simp only [serializeE, hs], hD, by simp only [serializeE, hq']⟩
  · exact .inl ⟨e, by simp only [serializeE, hs]⟩

/-- **C17_idempotent_ext_model** (deepening round 5): `C17_idempotent_ext` for MODELS WITH FUNCTIONS (IR version
    >= 10 format, `deserializeME` / `serializeME`): main graph, nested graphs and function bodies with the metadata
    of their value_info entries and the device configurations of their nodes; several inputs of one name, duplicate
    function identifiers, placeholders inside functions included.  Whenever `deserializeME p = .ok w`, serializing `w`
    raises in a device configuration or yields a model proto `Q` that deserializes and serializes to itself.  No
    hypothesis beyond "deserialization succeeded".  Proof: `deserializeME_reloadableME` (certificate `ReloadableME`),
    `rtE_func` / `rtE_funcs` (the lock-step induction for function bodies, on top of `rtE_nodes`),
    `img2E_serFunction`, `deserializeME_devSpec`. -/
theorem C17_idempotent_ext_model (ver : Option Int) (p : ModelE) (w : MWorldE) (hd : deserializeME p = .ok w) :
    (∃ e, serializeME ver w = .error (.dev e)) ∨
    ∃ (w1 : MWorldE) (Q : ModelE) (D w2 : MWorldE),
      serializeME ver w = .ok (w1, Q) ∧ deserializeME Q = .ok D ∧ serializeME ver D = .ok (w2, Q) :=
  idempotent_extM ver p w hd

/-- **C17_ext_sharding_resolved**: in every IR the extended deserializer returns, every sharding value is the value
    its name resolves to in the scopes visible at its node (the certificate `DevCertG`, along the tables of the
    resolution certificate): the hypothesis under which the round trip preserves sharding values by identity
    (`C03_roundtrip_ext_devices`) holds for every deserialized model.  Strengthens `C17_ext_sharding_named`
    (allocated and named) to "is the innermost binding of its name at that node". -/
theorem C17_ext_sharding_resolved (p : GraphE) (w : WorldE) (h : deserializeE p = .ok w) :
    DevCertG w.st.vals w.ext [] w.root :=
  deserializeE_devCert p w h

/-- **C17_ext_sharding_resolved_model**: `C17_ext_sharding_resolved` for models with functions: also inside function
    bodies (whose scope is the function's own) every sharding value is the innermost binding of its name at its node
    (`DevCertM`: the hypothesis of `C03_roundtrip_ext`), duplicate function identifiers included. -/
theorem C17_ext_sharding_resolved_model (p : ModelE) (w : MWorldE) (h : deserializeME p = .ok w) : DevCertM w :=
  deserializeME_devCert p w h

/-- **C17_idempotent_partial**: if deserialization returns an IR `w` that is `Serializable` (the names
    of the proto were SSA per scope chain, every reference resolved to a definition of an enclosing
    scope, graph outputs were produced in their graph, no empty / duplicate names needed for
    references; decidable: `serializableB`), then serializing `w` gives a proto `q` that deserializes
    and serializes to itself.
    NOT covered by this theorem (covered by the correspondence check, which runs the model's
    `serialize ∘ deserialize` twice on every generated proto, and by the oracle on the real code):
    protos whose IR is not `Serializable` — duplicate or dangling names, placeholders, graph outputs
    without producer, an initializer shadowing another.  On all generated protos of that kind the
    model and the real code are fix-points as well. -/
theorem C17_idempotent_partial (p : GraphP) (w : World) (_hd : deserialize p = .ok w) (hs : Serializable w) :
    ∃ (w1 : World) (q : GraphP) (D : World) (w2 : World),
      serialize w = .ok (w1, q) ∧ deserialize q = .ok D ∧ serialize D = .ok (w2, q) :=
  serialize_roundtrip_fixpoint w hs

/-! ### non-vacuity -/

/-- input `x`, initializer `w` (with an empty value_info entry), node `A(x, w, "", ghost) -> y, ""`
    with a subgraph using `y`, the later-declared `t` and the unknown `q`; node `B() -> t`. -/
def exampleProto : GraphP :=
  .mk [⟨"x", { ty := some "f32", sh := some "[2]" }⟩] [⟨"w", "d0", "f32", "[2]"⟩]
    [⟨"y", { ty := some "f32" }⟩, ⟨"w", {}⟩]
    [ .mk ["x", "w", "", "ghost"] ["y", ""]
        [ .mk [] [] [] [ .mk ["y", "t", "q"] ["r"] [] ] [⟨"r", {}⟩] ],
      .mk [] ["t"] [] ]
    [⟨"y", { ty := some "f32" }⟩]

def isOkB {ε α : Type} : Except ε α → Bool
  | .ok _ => true
  | .error _ => false

/-- the hypothesis of `C17_consistent` is satisfiable (placeholders, nested scope, unsorted order) -/
example : isOkB (deserialize exampleProto) = true := by decide +kernel

/-- and deserialization does reject: an output name declared twice in one scope -/
example : isOkB (deserialize (.mk [] [] [] [.mk [] ["a", "a"] []] [])) = false := by decide +kernel

/-- SSA variant of `exampleProto` (no dangling names): nested scope, unsorted order, an omitted input,
    a trailing empty output, an initializer with an empty value_info entry -/
def exampleSSA : GraphP :=
  .mk [⟨"x", { ty := some "f32", sh := some "[2]" }⟩] [⟨"w", "d0", "f32", "[2]"⟩]
    [⟨"y", { ty := some "f32" }⟩, ⟨"w", {}⟩]
    [ .mk ["x", "w", ""] ["y", ""]
        [ .mk [] [] [] [ .mk ["y", "t"] ["r"] [] ] [⟨"r", {}⟩] ],
      .mk [] ["t"] [] ]
    [⟨"y", { ty := some "f32" }⟩]

def deserSerializableB (p : GraphP) : Bool :=
  match deserialize p with
  | .ok w => serializableB w
  | .error _ => false

/-- the hypotheses of `C17_idempotent_partial` are satisfiable -/
example : ∃ w, deserialize exampleSSA = .ok w ∧ Serializable w := by
  have h : deserSerializableB exampleSSA = true := by decide +kernel
  unfold deserSerializableB at h
  split at h
  · next w hw => exact ⟨w, hw, serializableB_sound _ h⟩
  · exact absurd h (by simp)

/-- and they exclude something: the deserialization of `exampleProto` (dangling `ghost`, `q`) is not
    `serializableB` -/
example : deserSerializableB exampleProto = false := by decide +kernel

/-- a model with a function: input `a` with a value_info entry, a dangling name `zz`, a trailing empty
    output, the function output `c` produced by the node -/
def exampleModel : ModelP :=
  ⟨exampleSSA,
    [⟨⟨"dom", "f", ""⟩, ["a", "b"], ["c", "a"], [⟨"c", { ty := some "f32" }⟩, ⟨"a", { ty := some "f32", sh := some "[2]" }⟩],
      [ .mk ["a", "zz"] ["c", ""] [] ]⟩]⟩

/-- the hypotheses of the model-level theorems are satisfiable … -/
example : isOkB (deserializeM exampleModel) = true := by decide +kernel

/-- … and `deserializeM` does reject: a function output that nothing in the function binds -/
example : isOkB (deserializeM ⟨exampleSSA, [⟨⟨"dom", "f", ""⟩, ["a"], ["nowhere"], [], []⟩]⟩) = false := by
  decide +kernel

/-- a model in which two functions carry the same identifier (the case `C17_idempotent_model_partial`
    excludes): it deserializes, so `C17_idempotent_model` applies to it … -/
def exampleDupModel : ModelP :=
  ⟨exampleSSA,
    [⟨⟨"dom", "f", ""⟩, ["a"], ["c"], [], [ .mk ["a", "zz"] ["c"] [] ]⟩,
     ⟨⟨"dom", "g", ""⟩, [], [], [], []⟩,
     ⟨⟨"dom", "f", ""⟩, ["a", "b"], ["a"], [⟨"a", { ty := some "f32" }⟩], [ .mk ["b"] ["d", ""] [] ]⟩]⟩

example : isOkB (deserializeM exampleDupModel) = true := by decide +kernel

/-- … its identifiers are indeed not distinct, and the dict keeps two of the three functions -/
example : decide ((exampleDupModel.funcs.map (·.id)).Nodup) = false := by decide +kernel

example : (match deserializeM exampleDupModel with | .ok m => m.funcs.length | .error _ => 0) = 2 := by
  decide +kernel

/-- decorations: metadata with a duplicate key (`b` twice: the last value wins at the first position, then
    sorted), an opset domain twice, a node device configuration without configuration_id, a function with
    the attribute `alpha` twice (valued, then valueless: it ends in `attribute`) -/
def exampleDeco (ver : Int) : ModelDP :=
  ⟨ver, [some "producer", some "", none], [("", "18"), ("custom", "1"), ("", "19")],
    [("b", "1"), ("a", "2"), ("b", "3")], ["cfg0"],
    .mk (some "main") (some "") [("k", "v")]
      [ .mk "Add" none [("nk", "1"), ("nk", "2")] [⟨"", some "0", [("x", "spec")]⟩] [ .mk none none [] [] ] ],
    [⟨⟨"dom", "f", ""⟩, some "doc", [("", "18")], [], [("alpha", true, "i:1"), ("beta", true, "s:x")], ["alpha"], []⟩]⟩

/-- at IR version 10 the device configurations are dropped and the hypothesis of `C17_meta_idempotent` holds … -/
example : isOkB (serModelD (deserModelD (exampleDeco 10))) = true := by decide +kernel

/-- … at IR version 11 serialization raises (no configuration_id): the first alternative of
    `C17_idempotent_decorated` is taken -/
example : isOkB (serModelD (deserModelD (exampleDeco 11))) = false := by decide +kernel

/-- the hypothesis of `C17_meta_aligned` is satisfiable (and `deserializeX` succeeds) -/
example : isOkB (deserializeX ⟨exampleModel, exampleDeco 10⟩) = true ∧
    (exampleDeco 10).funcs.map (·.id) = exampleModel.funcs.map (·.id) := by decide +kernel

/-- an extended proto: input `x` with metadata, also a graph output with other metadata (merged), two
    annotations for `x` (the last wins), an annotation for the dangling name `ghost`, a node whose device
    configuration names `x` (resolved), `nowhere` (fresh value) and "" (no value) -/
def exampleExt : GraphE :=
  .mk [⟨"x", { ty := some "f32" }, [("k", "1"), ("a", "0")]⟩] [] []
    [ .mk ["x", "ghost"] ["y"] [⟨"cfg0", none, [("x", "s0"), ("nowhere", "s1"), ("", "s2")]⟩] [] ]
    [⟨"x", {}, [("k", "2")]⟩, ⟨"y", {}, []⟩]
    [⟨"x", [("SCALE_TENSOR", "s")]⟩, ⟨"x", [("SCALE_TENSOR", "t")]⟩, ⟨"ghost", [("ZERO_POINT_TENSOR", "z")]⟩]

/-- the hypothesis of `C17_consistent_ext` is satisfiable; the metadata of `x` is merged (`k` keeps its
    position and takes the last value), the last annotation wins, the placeholder `ghost` is annotated, the
    sharding values are resolved / fresh / absent -/
def exampleExtChk : Bool :=
  match deserializeE exampleExt with
  | .ok w => w.ext.vmeta 0 == [("k", "2"), ("a", "0")] && w.ext.quant 0 == some [("SCALE_TENSOR", "t")] &&
      w.ext.quant 2 == some [("ZERO_POINT_TENSOR", "z")] &&
      (w.ext.devs 0).map (·.specs.map (·.1)) == [[ShardV.val 0, ShardV.fresh "nowhere", ShardV.none]]
  | .error _ => false

example : exampleExtChk = true := by decide +kernel

/-- a model with a function whose node carries a device configuration naming the function input `a` (resolved),
    the placeholder `zz` (resolved: created by the node's own input list) and `other` (fresh) -/
def exampleExtModel : ModelE :=
  ⟨exampleExt, [⟨⟨"dom", "f", ""⟩, ["a"], ["c"], [⟨"c", { ty := some "f32" }, [("m", "1")]⟩],
    [ .mk ["a", "zz"] ["c"] [⟨"cfg0", none, [("a", "t0"), ("zz", "t1"), ("other", "t2")]⟩] [] ]⟩]⟩

def exampleExtModelChk : Bool :=
  match deserializeME exampleExtModel with
  | .ok w => (w.ext.devs 1).map (·.specs.map (·.1)) == [[ShardV.val 3, ShardV.val 5, ShardV.fresh "other"]] &&
      w.ext.vmeta 4 == [("m", "1")]
  | .error _ => false

example : exampleExtModelChk = true := by decide +kernel

/-- the hypotheses of `C17_ext_payload_fixpoint` are satisfiable with non-trivial payloads: `exampleExt` has merged
    metadata, an annotation, and (below IR version 11 nothing is written; from 11 on the spec without a value is
    refused, so the third clause is exercised on a variant without it) device configurations -/
def exampleExt2 : GraphE :=
  .mk [⟨"x", { ty := some "f32" }, [("k", "1"), ("a", "0")]⟩] [] []
    [ .mk ["x", "ghost"] ["y"] [⟨"cfg0", none, [("x", "s0"), ("nowhere", "s1")]⟩] [] ]
    [⟨"x", {}, [("k", "2")]⟩, ⟨"y", {}, []⟩]
    [⟨"x", [("SCALE_TENSOR", "s")]⟩]

example : (match deserializeE exampleExt2 with
    | .ok w => w.ext.vmeta 0 == [("k", "2"), ("a", "0")] && w.ext.quant 0 == some [("SCALE_TENSOR", "s")] &&
        (match serDevRs w.st.vals (w.ext.devs 0) with | .ok ps => ps.length == 1 | .error _ => false)
    | .error _ => false) = true := by decide +kernel

/-- the hypotheses of `C17_ir9_entries_inert` are satisfiable: an IR < 10 model with an initializer and a function
    whose value has something to say (one experimental entry is written) -/
def exampleIR9b : ModelP :=
  ⟨.mk [⟨"x", {}⟩] [⟨"w", "d0", "f32", "[2]"⟩] [] [ .mk ["x", "w"] ["y"] [] ] [⟨"y", {}⟩], exampleIR9.funcs⟩

example : (match deserializeM9 exampleIR9b with
    | .ok m => (match serializeM9 true m with
        | .ok (_, Q) => Q.graph.vinfo.length == 2
        | .error _ => false) && m.root.inits.all (fun kv => (m.st.vals kv.2).name == some kv.1)
    | .error _ => false) = true := by decide +kernel

/-- the hypothesis of `C17_idempotent_ext` is satisfiable and both alternatives occur: at IR version 10 the
    serialization of `exampleExt` succeeds (second alternative, with metadata, annotations and a placeholder), at IR
    version 11 it raises (the sharding spec without a value) -/
example : (match deserializeE exampleExt with
    | .ok w => isOkB (serializeE (some 10) w) && !isOkB (serializeE (some 11) w)
    | .error _ => false) = true := by decide +kernel

/-- the hypothesis of `C17_idempotent_ir9` is satisfiable with an experimental entry written (`exampleIR9b`) -/
example : isOkB (deserializeM9 exampleIR9b) = true := by decide +kernel

/-- the hypothesis of `C17_idempotent_ext_model` is satisfiable (a function whose node carries a device configuration,
    metadata on a function value) and the second alternative occurs at IR version 10 -/
example : (match deserializeME exampleExtModel with
    | .ok w => isOkB (serializeME (some 10) w)
    | .error _ => false) = true := by decide +kernel


/-! ### the attribute layer (`Model/ScopeAttr.lean`, theorems `C17_attr_*` in `Lemmas/ScopeAttrProps.lean`) -/

/-- **C17_idempotent_attrs**: `C17_idempotent_decorated` and `C17_attr_idempotent` together — core model,
    decorations and NODE ATTRIBUTES (scalar / list kinds, tensors, type protos, reference attributes, GRAPH /
    GRAPHS, doc strings, duplicate names) of one proto: whenever `deserializeY X = .ok W`, serializing `W` raises —
    in the decorations (device-configuration checks) or with the TypeError of a surviving UNDEFINED attribute — or
    yields a proto that deserializes and serializes to itself.  No hypothesis on `X`. -/
theorem C17_idempotent_attrs (X : YModelP) (W : YWorld) (hd : deserializeY X = .ok W) :
    (∃ e, serializeY W = .error (.x (.deco e))) ∨ serializeY W = .error (.attr .unsupported) ∨
    ∃ (W1 : YWorld) (Q : YModelP) (D : YWorld) (W2 : YWorld),
      serializeY W = .ok (W1, Q) ∧ deserializeY Q = .ok D ∧ serializeY D = .ok (W2, Q) := by
  simp only [deserializeY] at hd
  split at hd
  · simp at hd
  · rename_i w hx
    split at hd
    · simp at hd
    · rename_i a ha
      simp only [Except.ok.injEq] at hd
      subst hd
      rcases C17_idempotent_decorated X.x w hx with ⟨e, he⟩ | ⟨W1, Q, D, W2, h1, h2, h3⟩
      · exact .inl ⟨e, by simp only [serializeY, he]⟩
      · rcases C17_attr_idempotent X.attrs a ha with hq | ⟨Qa, hq, d1, d2⟩
        · exact .inr (.inl (by simp only [serializeY, h1, hq]))
        · exact .inr (.inr ⟨⟨W1, a⟩, ⟨Q, Qa⟩, ⟨D, canonModelA a⟩, ⟨W2, canonModelA a⟩,
            by simp only [serializeY, h1, hq], by simp only [deserializeY, h2, d1],
            by simp only [serializeY, h3, d2]⟩)

end IrVerif.Scope

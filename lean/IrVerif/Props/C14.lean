/-
C14 — passes honour their contract (identity, modified flag, fixpoint, no damage).
Property theorems about the models in `IrVerif/Model/PassInfra.lean`; helper developments are in
`IrVerif/Lemmas/PassInfra.lean`.  Core Lean only.
-/
import IrVerif.Model.PassInfra
import IrVerif.Lemmas.PassInfra
namespace IrVerif.PassInfra

/-! ## identity rule -/

theorem guard_ok {W : Type} {ip : Bool} {rq : W → ModelId → W × Bool} {c : W → ModelId → W × CallRet}
    {en : W → ModelId → W × Bool} {w w' : W} {m : ModelId} {r : PassResult}
    (h : guard ip rq c en w m = (w', .ok r)) :
    (∃ w1 w2, rq w m = (w1, false) ∧ c w1 m = (w2, .result r) ∧ en w2 r.model = (w', false)) ∧
    (ip = true → r.model = m) ∧ (ip = false → r.model ≠ m) := by
  unfold guard at h
  split at h
  · simp at h
  · next w1 h1 =>
    split at h
    · simp at h
    · simp at h
    · next w2 r2 h2 =>
      split at h
      · simp at h
      · next w3 h3 =>
        split at h
        · simp at h
        · split at h
          · simp at h
          · next hA hB =>
            simp only [Prod.mk.injEq, Except.ok.injEq] at h
            obtain ⟨rfl, rfl⟩ := h
            refine ⟨⟨w1, w2, h1, h2, h3⟩, ?_, ?_⟩
            · intro hip; subst hip; simpa using hA
            · intro hip; subst hip; simpa using hB

/-- **C14_identity_rule**: whatever the passes inside do, a successful `p(model)` returns the input
    object when `p` is declared in place and a different object when it is not — for user passes,
    `Sequential`, `PassManager` (any nesting) and functionalized passes. -/
theorem C14_identity_rule {W : Type} (cl : W → ModelId → W × ModelId) (p : Pass W) (w w' : W)
    (m : ModelId) (r : PassResult) (h : p.run cl w m = (w', .ok r)) :
    (p.inPlace = true → r.model = m) ∧ (p.inPlace = false → r.model ≠ m) := by
  cases p <;> simp only [Pass.run, Pass.inPlace] at * <;> simpa using (guard_ok h).2

/-- ... and otherwise raises: a result that breaks the declaration is turned into PassError. -/
theorem C14_identity_violation_raises {W : Type} (ip : Bool) (rq en : W → ModelId → W × Bool)
    (c : W → ModelId → W × CallRet) (w w1 w2 w3 : W) (m : ModelId) (r : PassResult)
    (h1 : rq w m = (w1, false)) (h2 : c w1 m = (w2, .result r)) (h3 : en w2 r.model = (w3, false))
    (hv : ip = (r.model != m)) : guard ip rq c en w m = (w3, .error .passError) := by
  unfold guard
  simp only [h1, h2, h3]
  cases hr : (r.model != m) <;> simp_all

/-- **C14_functionalize_fresh**: `functionalize(p)` of an in-place `p` returns the clone it made —
    an object that did not exist before (`Alloc` = "is a live model object"; `Model.clone` returns
    a new one), hence never the input. -/
theorem C14_functionalize_fresh {W : Type} (cl : W → ModelId → W × ModelId)
    (Alloc : W → ModelId → Prop) (hcl : ∀ w m, ¬ Alloc w (cl w m).2)
    (p : Pass W) (hp : p.inPlace = true) (w w' : W) (m : ModelId) (r : PassResult)
    (h : (Pass.func p).run cl w m = (w', .ok r)) :
    r.model = (cl w m).2 ∧ ¬ Alloc w r.model ∧ r.model ≠ m := by
  have hid := (C14_identity_rule cl (.func p) w w' m r h).2 rfl
  simp only [Pass.run] at h
  obtain ⟨⟨w1, w2, h1, h2, _⟩, _⟩ := guard_ok h
  simp only [noHook, Prod.mk.injEq] at h1
  obtain ⟨rfl, _⟩ := h1
  have h2' : p.run cl (cl w m).1 (cl w m).2 = (w2, .ok r) := by
    revert h2
    cases hrun : p.run cl (cl w m).1 (cl w m).2 with
    | mk a b => cases b <;> simp [toCallRet]
  have := (C14_identity_rule cl p _ _ _ _ h2').1 hp
  exact ⟨this, this ▸ hcl w m, hid⟩

/-! ## the modified flag of Sequential and PassManager -/

/-- ghost: the `modified` flags of the steps of one `Sequential.call`, in order -/
def seqFlags {W : Type} (cl : W → ModelId → W × ModelId) : List (Pass W) → W → ModelId → List Bool
  | [], _, _ => []
  | p :: ps, w, m =>
    match p.run cl w m with
    | (_, .error _) => []
    | (w1, .ok r) => r.modified :: seqFlags cl ps w1 r.model

/-- **C14_sequential_modified**: the flag of `Sequential.call` is the disjunction of its steps'. -/
theorem C14_sequential_modified {W : Type} (cl : W → ModelId → W × ModelId) :
    ∀ (ps : List (Pass W)) (w w' : W) (m : ModelId) (acc : Bool) (r : PassResult),
    runSeq cl ps w m acc = (w', .ok r) → r.modified = (acc || (seqFlags cl ps w m).any id)
  | [], w, w', m, acc, r, h => by
    simp only [runSeq, Prod.mk.injEq, Except.ok.injEq] at h
    simp [seqFlags, ← h.2]
  | p :: ps, w, w', m, acc, r, h => by
    simp only [runSeq] at h
    simp only [seqFlags]
    split at h
    · simp at h
    · next w1 r1 h1 =>
      have := C14_sequential_modified cl ps w1 w' r1.model _ r h
      simp [h1, this, Bool.or_assoc]

/-- **C14_manager_modified**: the flag returned by `PassManager.call` is the disjunction of the
    flags of the rounds it executed (third component of `mgrLoop`), for every round function,
    step count and `early_stop`. -/
theorem C14_manager_modified {W : Type} (round : W → ModelId → Res W) (es : Bool) :
    ∀ (n : Nat) (w w' : W) (m : ModelId) (acc : Bool) (r : PassResult) (fl : List Bool),
    mgrLoop round es n w m acc = (w', .ok r, fl) → r.modified = (acc || fl.any id)
  | 0, w, w', m, acc, r, fl, h => by
    simp only [mgrLoop, Prod.mk.injEq, Except.ok.injEq] at h
    simp [← h.2.1, ← h.2.2]
  | n + 1, w, w', m, acc, r, fl, h => by
    simp only [mgrLoop] at h
    split at h
    · simp at h
    · next w1 r1 h1 =>
      split at h
      · simp only [Prod.mk.injEq, Except.ok.injEq] at h
        simp [← h.2.1, ← h.2.2]
      · simp only [Prod.mk.injEq] at h
        obtain ⟨ha, hb, hc⟩ := h
        have := C14_manager_modified round es n w1 w' r1.model _ r _
          (by rw [← ha, ← hb])
        simp [← hc, this, Bool.or_assoc]

/-- **C14_manager_steps**: at most `steps` rounds run; with `early_stop` every round but the last
    reported a modification; without it exactly `steps` rounds run. -/
theorem C14_manager_steps {W : Type} (round : W → ModelId → Res W) (es : Bool) :
    ∀ (n : Nat) (w w' : W) (m : ModelId) (acc : Bool) (r : PassResult) (fl : List Bool),
    mgrLoop round es n w m acc = (w', .ok r, fl) →
    fl.length ≤ n ∧ (es = true → fl.dropLast.all id = true) ∧ (es = false → fl.length = n)
  | 0, w, w', m, acc, r, fl, h => by
    simp only [mgrLoop, Prod.mk.injEq] at h
    simp [← h.2.2]
  | n + 1, w, w', m, acc, r, fl, h => by
    simp only [mgrLoop] at h
    split at h
    · simp at h
    · next w1 r1 h1 =>
      split at h
      · next hstop =>
        simp only [Prod.mk.injEq] at h
        simp only [Bool.and_eq_true, Bool.not_eq_eq_eq_not, Bool.not_true] at hstop
        simp [← h.2.2, hstop.2]
      · next hgo =>
        simp only [Prod.mk.injEq] at h
        obtain ⟨ha, hb, hc⟩ := h
        have ih := C14_manager_steps round es n w1 w' r1.model _ r _ (by rw [← ha, ← hb])
        subst hc
        refine ⟨Nat.succ_le_succ ih.1, ?_, ?_⟩
        · intro hes
          subst hes
          have hm : r1.modified = true := by simpa using hgo
          cases hfl : (mgrLoop round true n w1 r1.model (acc || r1.modified)).2.2 with
          | nil => simp
          | cons a l =>
            have := ih.2.1 rfl
            rw [hfl] at this
            simp [List.dropLast, hm, this]
        · intro hes; simp [ih.2.2 hes]

/-- **C14_manager_pass_modified**: the same at the level of pass expressions: a successful
    `PassManager(ps, steps, early_stop)(model)` reports the disjunction of the flags of the rounds
    (`Sequential.call` of `ps`) it executed. -/
theorem C14_manager_pass_modified {W : Type} (cl : W → ModelId → W × ModelId) (ps : List (Pass W))
    (steps : Nat) (es : Bool) (w w' : W) (m : ModelId) (r : PassResult)
    (h : (Pass.mgr ps steps es).run cl w m = (w', .ok r)) :
    r.modified = (mgrLoop (fun w m => runSeq cl ps w m false) es steps w m false).2.2.any id := by
  simp only [Pass.run] at h
  obtain ⟨⟨w1, w2, h1, h2, _⟩, _⟩ := guard_ok h
  simp only [noHook, Prod.mk.injEq] at h1
  obtain ⟨rfl, _⟩ := h1
  simp only [mgrCall] at h2
  cases hl : mgrLoop (fun w m => runSeq cl ps w m false) es steps w m false with
  | mk a b =>
    cases b with
    | mk res fl =>
      rw [hl] at h2
      cases res with
      | error e => simp [toCallRet] at h2
      | ok r' =>
        simp only [toCallRet, Prod.mk.injEq, CallRet.result.injEq] at h2
        obtain ⟨rfl, rfl⟩ := h2
        simpa using C14_manager_modified _ es steps w a m false r' fl hl

/-! ## fixpoint: bounded number of rounds -/

/-- **C14_rounds**: let `μ` be a natural-number measure of the model that strictly decreases over
    every round that reports `modified = True`.  Then a PassManager with `early_stop` executes at
    most `μ + 1` rounds, whatever `steps` is. -/
theorem C14_rounds {W : Type} (round : W → ModelId → Res W) (μ : W → ModelId → Nat)
    (hdec : ∀ w m w' r, round w m = (w', .ok r) → r.modified = true → μ w' r.model < μ w m) :
    ∀ (n : Nat) (w : W) (m : ModelId) (acc : Bool),
    (mgrLoop round true n w m acc).2.2.length ≤ μ w m + 1
  | 0, w, m, acc => by simp [mgrLoop]
  | n + 1, w, m, acc => by
    simp only [mgrLoop]
    split
    · simp
    · next w1 r1 h1 =>
      split
      · simp
      · next hgo =>
        have hm : r1.modified = true := by simpa using hgo
        have := C14_rounds round μ hdec n w1 r1.model (acc || r1.modified)
        have := hdec w m w1 r1 h1 hm
        simp only [List.length_cons]
        omega

/-- **C14_fixpoint**: if moreover `steps` exceeds the measure and a round that reports
    `modified = False` really leaves the world and the model object as they were, then a
    successful manager run ends in a fixpoint: the last executed round reported no modification,
    and running the round again on the final state reports no modification and changes nothing. -/
theorem C14_fixpoint {W : Type} (round : W → ModelId → Res W) (μ : W → ModelId → Nat)
    (hdec : ∀ w m w' r, round w m = (w', .ok r) → r.modified = true → μ w' r.model < μ w m)
    (hhonest : ∀ w m w' r, round w m = (w', .ok r) → r.modified = false → w' = w ∧ r.model = m) :
    ∀ (n : Nat) (w w' : W) (m : ModelId) (acc : Bool) (r : PassResult) (fl : List Bool),
    μ w m < n → mgrLoop round true n w m acc = (w', .ok r, fl) →
    fl.getLast? = some false ∧ round w' r.model = (w', .ok ⟨r.model, false⟩)
  | 0, _, _, _, _, _, _, hn, _ => by omega
  | n + 1, w, w', m, acc, r, fl, hn, h => by
    simp only [mgrLoop] at h
    split at h
    · simp at h
    · next w1 r1 h1 =>
      split at h
      · next hstop =>
        have hm : r1.modified = false := by simpa using hstop
        simp only [Prod.mk.injEq, Except.ok.injEq] at h
        obtain ⟨rfl, hr, rfl⟩ := h
        obtain ⟨rfl, hmm⟩ := hhonest w m w1 r1 h1 hm
        subst hr
        refine ⟨by simp [hm], ?_⟩
        simp only [hmm]
        rw [h1]
        cases r1; simp_all
      · next hgo =>
        have hm : r1.modified = true := by simpa using hgo
        simp only [Prod.mk.injEq] at h
        obtain ⟨ha, hb, hc⟩ := h
        have hlt := hdec w m w1 r1 h1 hm
        have ih := C14_fixpoint round μ hdec hhonest n w1 w' r1.model _ r _ (by omega)
          (by rw [← ha, ← hb])
        subst hc
        refine ⟨?_, ih.2⟩
        cases hfl : (mgrLoop round true n w1 r1.model (acc || r1.modified)).2.2 with
        | nil => rw [hfl] at ih; simp at ih
        | cons a l => rw [hfl] at ih; simpa [List.getLast?_cons_cons] using ih.1

/-! ## counting passes: `modified = bool(count)` over a rewrite system with a measure -/

theorem traverse_count {S σ : Type} (rw : σ → S → Option S) :
    ∀ (xs : List σ) (s : S) (c : Nat),
    c ≤ (traverse rw xs s c).2 ∧ ((traverse rw xs s c).2 = c → (traverse rw xs s c).1 = s)
  | [], s, c => by simp [traverse]
  | x :: xs, s, c => by
    simp only [traverse]
    split
    · exact traverse_count rw xs s c
    · next s' h =>
      have ih := traverse_count rw xs s' (c + 1)
      exact ⟨by omega, fun e => by omega⟩

theorem traverse_measure {S σ : Type} (rw : σ → S → Option S) (μ : S → Nat)
    (hdec : ∀ x s s', rw x s = some s' → μ s' < μ s) :
    ∀ (xs : List σ) (s : S) (c : Nat),
    μ (traverse rw xs s c).1 + (traverse rw xs s c).2 ≤ μ s + c
  | [], s, c => by simp [traverse]
  | x :: xs, s, c => by
    simp only [traverse]
    split
    · exact traverse_measure rw μ hdec xs s c
    · next s' h =>
      have ih := traverse_measure rw μ hdec xs s' (c + 1)
      have := hdec x s s' h
      omega

/-- **C14_counting_flag**: a counting pass (`count += 1` per rewrite, `modified = bool(count)`)
    that reports `modified = False` performed no rewrite and returns the state it was given. -/
theorem C14_counting_flag {S σ : Type} (sites : S → List σ) (rw : σ → S → Option S) (s : S)
    (h : (countingPass sites rw s).2 = false) : (countingPass sites rw s).1 = s := by
  simp only [countingPass, bne_eq_false_iff_eq] at h
  exact (traverse_count rw (sites s) s 0).2 h

/-- **C14_counting_measure**: if every rewrite strictly decreases a natural-number measure, a
    counting pass that reports `modified = True` strictly decreased it, and it never performs
    more rewrites than the measure allows (so `traverse` reports at most `μ s` rewrites). -/
theorem C14_counting_measure {S σ : Type} (sites : S → List σ) (rw : σ → S → Option S)
    (μ : S → Nat) (hdec : ∀ x s s', rw x s = some s' → μ s' < μ s) (s : S) :
    ((countingPass sites rw s).2 = true → μ (countingPass sites rw s).1 < μ s) ∧
    (traverse rw (sites s) s 0).2 ≤ μ s := by
  have := traverse_measure rw μ hdec (sites s) s 0
  refine ⟨fun h => ?_, by omega⟩
  simp only [countingPass, bne_iff_ne, ne_eq] at h ⊢
  omega

/-- **C14_counting_rounds**: a PassManager with `early_stop` around one counting pass (world =
    the abstract state, the model object is returned as is) runs at most `μ s + 1` rounds and,
    given enough steps, ends in a state on which the pass reports `False` and changes nothing. -/
theorem C14_counting_rounds {S σ : Type} (sites : S → List σ) (rw : σ → S → Option S)
    (μ : S → Nat) (hdec : ∀ x s s', rw x s = some s' → μ s' < μ s)
    (n : Nat) (s : S) (m : ModelId) :
    let round : S → ModelId → Res S := fun s m =>
      ((countingPass sites rw s).1, .ok ⟨m, (countingPass sites rw s).2⟩)
    (mgrLoop round true n s m false).2.2.length ≤ μ s + 1 ∧
    ∀ s' r fl, μ s < n → mgrLoop round true n s m false = (s', .ok r, fl) →
      countingPass sites rw s' = (s', false) := by
  intro round
  have hdec' : ∀ w m w' r, round w m = (w', .ok r) → r.modified = true →
      (fun s (_ : ModelId) => μ s) w' r.model < (fun s (_ : ModelId) => μ s) w m := by
    intro w m w' r h hm
    simp only [round, Prod.mk.injEq, Except.ok.injEq] at h
    obtain ⟨rfl, rfl⟩ := h
    exact (C14_counting_measure sites rw μ hdec w).1 hm
  have hhon : ∀ w m w' r, round w m = (w', .ok r) → r.modified = false → w' = w ∧ r.model = m := by
    intro w m w' r h hm
    simp only [round, Prod.mk.injEq, Except.ok.injEq] at h
    obtain ⟨rfl, rfl⟩ := h
    exact ⟨C14_counting_flag sites rw w hm, rfl⟩
  refine ⟨C14_rounds round (fun s _ => μ s) hdec' n s m false, fun s' r fl hn h => ?_⟩
  have := (C14_fixpoint round (fun s _ => μ s) hdec' hhon n s s' m false r fl hn h).2
  simp only [round, Prod.mk.injEq, Except.ok.injEq, PassResult.mk.injEq, true_and] at this
  exact Prod.ext this.1 this.2

/-! ## ClearMetadataAndDocStringPass -/
namespace ClearMeta

theorem not_dirty_iff (i : Item) : i.dirty = false ↔ i = clean := by
  cases i with
  | mk n d => cases d <;> simp [Item.dirty, clean]

theorem loop_true : ∀ (ns : List (Nat × Item)) (gs : List Item) (ch : List Nat),
    (loop ns gs ch true).2.2 = true
  | [], _, _ => rfl
  | (g, it) :: rest, gs, ch => by
    simp only [loop]
    split <;> simp [loop_true rest]

theorem loop_false : ∀ (ns : List (Nat × Item)) (gs : List Item) (ch : List Nat),
    (loop ns gs ch false).2.2 = false → (loop ns gs ch false).1 = ns ∧ (loop ns gs ch false).2.1 = gs
  | [], _, _, _ => ⟨rfl, rfl⟩
  | (g, it) :: rest, gs, ch, h => by
    simp only [loop] at h ⊢
    split at h
    · simp [loop_true] at h
    · next hb =>
      rw [if_neg hb]
      cases hd : it.dirty
      · simp only [hd] at h ⊢
        have ih := loop_false rest gs ch (by simpa using h)
        have : it = clean := (not_dirty_iff it).1 hd
        simp_all
      · simp [hd, loop_true] at h

/-- **C14_flag_clear**: `modified = False` only if nothing was cleared (state exactly as before). -/
theorem C14_flag_clear (s : St) (h : (pass s).2 = false) : (pass s).1 = s := by
  have := loop_false s.nodes s.graphs [] h
  cases s; simp_all [pass]

def NotDirty (gs : List Item) (g : Nat) : Prop := (gs.getD g clean).dirty = false

theorem clean_not_dirty : clean.dirty = false := rfl

theorem notDirty_set (gs : List Item) (g g' : Nat) (h : NotDirty gs g) :
    NotDirty (gs.set g' clean) g := by
  unfold NotDirty at *
  simp only [List.getD_eq_getElem?_getD, List.getElem?_set] at *
  split
  · split <;> simp [clean_not_dirty]
  · exact h

theorem notDirty_set_self (gs : List Item) (g : Nat) : NotDirty (gs.set g clean) g := by
  unfold NotDirty
  simp only [List.getD_eq_getElem?_getD, List.getElem?_set]
  simp only [if_true]
  split <;> simp [clean_not_dirty]

/-- graphs that are clean stay clean -/
theorem loop_mono : ∀ (ns : List (Nat × Item)) (gs : List Item) (ch : List Nat) (md : Bool) (g : Nat),
    NotDirty gs g → NotDirty (loop ns gs ch md).2.1 g
  | [], _, _, _, _, h => h
  | (g0, it) :: rest, gs, ch, md, g, h => by
    simp only [loop]
    split
    · exact loop_mono rest _ _ _ g (notDirty_set gs g g0 h)
    · exact loop_mono rest _ _ _ g h

/-- after the loop every node is clean and so is the graph of every node -/
theorem loop_clean : ∀ (ns : List (Nat × Item)) (gs : List Item) (ch : List Nat) (md : Bool),
    (∀ g ∈ ch, NotDirty gs g) →
    ∀ p ∈ (loop ns gs ch md).1, p.2 = clean ∧ NotDirty (loop ns gs ch md).2.1 p.1
  | [], _, _, _, _, p, hp => by simp [loop] at hp
  | (g0, it) :: rest, gs, ch, md, hinv, p, hp => by
    simp only [loop] at hp ⊢
    split at hp
    · next hc =>
      rw [if_pos hc]
      have hinv' : ∀ g ∈ g0 :: ch, NotDirty (gs.set g0 clean) g := by
        intro g hg
        rcases List.mem_cons.1 hg with rfl | hg
        · exact notDirty_set_self gs g
        · exact notDirty_set gs g g0 (hinv g hg)
      rcases List.mem_cons.1 hp with rfl | hp
      · exact ⟨rfl, loop_mono rest _ _ _ g0 (notDirty_set_self gs g0)⟩
      · exact loop_clean rest _ _ _ hinv' p hp
    · next hc =>
      rw [if_neg hc]
      rcases List.mem_cons.1 hp with rfl | hp
      · refine ⟨rfl, loop_mono rest _ _ _ g0 ?_⟩
        simp only [Bool.and_eq_true, Bool.not_eq_eq_eq_not, Bool.not_true, not_and,
          Bool.not_eq_true] at hc
        by_cases hm : ch.contains g0 = true
        · exact hinv g0 (by simpa using hm)
        · exact hc (by simpa using hm)
      · exact loop_clean rest _ _ _ hinv p hp

/-- on a clean state the loop changes nothing and keeps the flag -/
theorem loop_of_clean : ∀ (ns : List (Nat × Item)) (gs : List Item) (ch : List Nat) (md : Bool),
    (∀ p ∈ ns, p.2 = clean ∧ NotDirty gs p.1) → loop ns gs ch md = (ns, gs, md)
  | [], _, _, _, _ => rfl
  | (g0, it) :: rest, gs, ch, md, h => by
    obtain ⟨hit, hg⟩ := h (g0, it) List.mem_cons_self
    simp only at hit hg
    subst hit
    have ih := loop_of_clean rest gs ch md (fun p hp => h p (List.mem_cons_of_mem _ hp))
    unfold NotDirty at hg
    simp only [List.getD_eq_getElem?_getD] at hg
    simp [loop, hg, ih, clean_not_dirty]

/-- **C14_fix_clear**: the pass applied to its own result reports `False` and returns it
    unchanged (one round reaches the fixpoint). -/
theorem C14_fix_clear (s : St) : pass (pass s).1 = ((pass s).1, false) := by
  have hc := loop_clean s.nodes s.graphs [] false (by simp)
  have := loop_of_clean (loop s.nodes s.graphs [] false).1 (loop s.nodes s.graphs [] false).2.1 []
    false hc
  simp [pass, this]

theorem dirty_size {i : Item} (h : i.dirty = true) : 1 ≤ itemSize i := by
  cases i with
  | mk n d =>
    cases d <;> simp_all [Item.dirty, itemSize]
    omega

/-- the loop never increases the measure, and strictly decreases it when it raises the flag -/
theorem loop_size : ∀ (ns : List (Nat × Item)) (gs : List Item) (ch : List Nat) (md : Bool),
    size ⟨(loop ns gs ch md).1, (loop ns gs ch md).2.1⟩ +
      (if (loop ns gs ch md).2.2 && !md then 1 else 0) ≤ size ⟨ns, gs⟩
  | [], gs, _, md => by cases md <;> simp [loop, size]
  | (g0, it) :: rest, gs, ch, md => by
    simp only [loop]
    split
    · next hc =>
      simp only [Bool.and_eq_true, Bool.not_eq_eq_eq_not, Bool.not_true] at hc
      have ih := loop_size rest (gs.set g0 clean) (g0 :: ch) true
      have hlt : g0 < gs.length := by
        by_cases hl : g0 < gs.length
        · exact hl
        · have : gs.getD g0 clean = clean := by
            simp [List.getD_eq_getElem?_getD, List.getElem?_eq_none (Nat.le_of_not_lt hl)]
          rw [this] at hc; simp [clean_not_dirty] at hc
      have hset := sum_map_set itemSize gs g0 clean hlt
      have hd : 1 ≤ itemSize gs[g0] := by
        apply dirty_size
        have : gs.getD g0 clean = gs[g0] := by simp [List.getD_eq_getElem?_getD, hlt]
        rw [← this]; exact hc.2
      simp only [size, List.map_cons, List.sum_cons, Bool.not_true, Bool.and_false] at ih ⊢
      have hcz : itemSize clean = 0 := rfl
      split <;> omega
    · have ih := loop_size rest gs ch (if it.dirty = true then true else md)
      simp only [size, List.map_cons, List.sum_cons] at ih ⊢
      have hcz : itemSize clean = 0 := rfl
      cases hd : it.dirty
      · simp only [hd, Bool.false_eq_true, if_false] at ih ⊢
        omega
      · have := dirty_size hd
        simp only [hd, if_true, Bool.not_true, Bool.and_false, Bool.false_eq_true, if_false] at ih ⊢
        split <;> omega

/-- **C14_measure_clear**: the number of metadata entries and doc strings is a measure for the
    pass: `modified = True` strictly decreases it (hypothesis of `C14_rounds`). -/
theorem C14_measure_clear (s : St) (h : (pass s).2 = true) : size (pass s).1 < size s := by
  have := loop_size s.nodes s.graphs [] false
  simp only [pass] at h ⊢
  simp only [h, Bool.not_false, Bool.and_self, if_true] at this
  cases s; simp only at this ⊢; omega

end ClearMeta

/-! ## RemoveInitializersFromInputsPass -/
namespace InitInputs

theorem length_erase_lt (l : List Nat) (x : Nat) (h : l.contains x = true) :
    (l.erase x).length < l.length := by
  have hm : x ∈ l := by simpa using h
  rw [List.length_erase_of_mem hm]
  have : 0 < l.length := List.length_pos_of_mem hm
  omega

/-- **C14_rm_init_measure**: every rewrite of RemoveInitializersFromInputsPass removes one input
    slot, so (by `C14_counting_measure` / `C14_counting_rounds`) the pass reports `True` only when
    the number of inputs decreased and reaches its fixpoint. -/
theorem C14_rm_init_measure (site : Nat × Nat) (s s' : St) (h : rmRw site s = some s') :
    rmSize s' < rmSize s := by
  unfold rmRw at h
  split at h
  · simp at h
  · next g hg =>
    split at h
    · next hc =>
      simp only [Bool.and_eq_true] at hc
      simp only [Option.some.injEq] at h
      subst h
      obtain ⟨hlt, hget⟩ := List.getElem?_eq_some_iff.1 hg
      have := sum_map_set (fun g : Gr => g.inputs.length) s site.1
        { g with inputs := g.inputs.erase site.2 } hlt
      have hl := length_erase_lt g.inputs site.2 hc.2
      simp only [rmSize]
      rw [hget] at this
      simp only at this
      omega
    · simp at h

/-- **C14_rm_init_contract**: RemoveInitializersFromInputsPass (as transcribed) reports `False` only
    if the inputs are unchanged, strictly shrinks the inputs when it reports `True`, and a
    PassManager with `early_stop` around it stops within `#inputs + 1` rounds in a state on which
    the pass reports `False` and changes nothing. -/
theorem C14_rm_init_contract (s : St) :
    ((removeInitializersFromInputs s).2 = false → (removeInitializersFromInputs s).1 = s) ∧
    ((removeInitializersFromInputs s).2 = true → rmSize (removeInitializersFromInputs s).1 < rmSize s) ∧
    ∀ (n : Nat) (m : ModelId),
      let round : St → ModelId → Res St := fun s m =>
        ((removeInitializersFromInputs s).1, .ok ⟨m, (removeInitializersFromInputs s).2⟩)
      (mgrLoop round true n s m false).2.2.length ≤ rmSize s + 1 ∧
      ∀ s' r fl, rmSize s < n → mgrLoop round true n s m false = (s', .ok r, fl) →
        removeInitializersFromInputs s' = (s', false) :=
  ⟨C14_counting_flag rmSites rmRw s,
   (C14_counting_measure rmSites rmRw rmSize C14_rm_init_measure s).1,
   fun n m => C14_counting_rounds rmSites rmRw rmSize C14_rm_init_measure n s m⟩

/-- **C14_add_init_flag**: AddInitializersToInputsPass (as transcribed) reports `False` only if the
    inputs are unchanged. -/
theorem C14_add_init_flag (s : St) (h : (addInitializersToInputs s).2 = false) :
    (addInitializersToInputs s).1 = s := C14_counting_flag addSites addRw s h

end InitInputs

/-! ## RemoveUnusedNodesPass (graph without subgraphs) -/
namespace Dce

theorem trimmed_length_le (l : List (Option Nat)) : (trimmed l).length ≤ l.length := by
  simp only [trimmed, List.length_reverse]
  exact Nat.le_trans (List.dropWhile_sublist _).length_le (by simp)

/-- **C14_dce_measure**: every rewrite of RemoveUnusedNodesPass (removing a dead node, trimming
    trailing `None` inputs, removing an unused initializer) strictly decreases
    nodes + initializers + input slots. -/
theorem C14_dce_measure (site : Site) (s s' : St) (h : rw site s = some s') : size s' < size s := by
  cases site with
  | node id =>
    simp only [rw] at h
    split at h
    · simp at h
    · next n hn =>
      have hmem : n ∈ s.nodes := List.mem_of_find?_eq_some hn
      have hid : (n.id == id) = true := List.find?_some (p := fun n : Node => n.id == id) hn
      split at h
      · simp only [Option.some.injEq] at h; subst h
        have h1 := length_filter_lt (fun m : Node => m.id != id) s.nodes n hmem (by simpa using hid)
        have h2 := sum_map_filter_le (fun m : Node => m.inputs.length) (fun m : Node => m.id != id) s.nodes
        simp only [size]; omega
      · split at h
        · next hlt =>
          simp only [Option.some.injEq] at h; subst h
          have hle : ∀ x : Node, (fun m : Node => m.inputs.length)
              ((fun m : Node => if m.id == id then { m with inputs := trimmed m.inputs } else m) x) ≤
              (fun m : Node => m.inputs.length) x := by
            intro x; simp only; split
            · exact trimmed_length_le x.inputs
            · exact Nat.le_refl _
          have := sum_map_map_lt (fun m : Node => m.inputs.length) _ hle s.nodes n hmem
            (by simp only [hid, if_true]; exact hlt)
          simp only [size, List.length_map]; omega
        · simp at h
  | init v =>
    simp only [rw] at h
    split at h
    · next hc =>
      simp only [Option.some.injEq] at h; subst h
      simp only [Bool.and_eq_true] at hc
      have hm : v ∈ s.inits := by simpa using hc.1.1.1
      have : 0 < s.inits.length := List.length_pos_of_mem hm
      simp only [size, List.length_erase_of_mem hm]; omega
    · simp at h

/-- **C14_dce_contract**: RemoveUnusedNodesPass (as transcribed, graphs without subgraphs, without
    the schema-driven optional-output removal) reports `False` only if the graph is unchanged,
    strictly shrinks it when it reports `True`, and a PassManager with `early_stop` around it stops
    within `size + 1` rounds in a state on which the pass reports `False` and changes nothing. -/
theorem C14_dce_contract (s : St) :
    ((removeUnusedNodes s).2 = false → (removeUnusedNodes s).1 = s) ∧
    ((removeUnusedNodes s).2 = true → size (removeUnusedNodes s).1 < size s) ∧
    ∀ (n : Nat) (m : ModelId),
      let round : St → ModelId → Res St := fun s m =>
        ((removeUnusedNodes s).1, .ok ⟨m, (removeUnusedNodes s).2⟩)
      (mgrLoop round true n s m false).2.2.length ≤ size s + 1 ∧
      ∀ s' r fl, size s < n → mgrLoop round true n s m false = (s', .ok r, fl) →
        removeUnusedNodes s' = (s', false) :=
  ⟨C14_counting_flag sites rw s,
   (C14_counting_measure sites rw size C14_dce_measure s).1,
   fun n m => C14_counting_rounds sites rw size C14_dce_measure n s m⟩

end Dce

/-! ## TopologicalSortPass flag -/

theorem zip_any_ne : ∀ (a b : List Nat), a.length = b.length →
    (a.zip b).any (fun q => q.1 != q.2) = false → a = b
  | [], [], _, _ => rfl
  | [], _ :: _, h, _ => by simp at h
  | _ :: _, [], h, _ => by simp at h
  | x :: a, y :: b, hl, h => by
    simp only [List.zip_cons_cons, List.any_cons, Bool.or_eq_false_iff, bne_eq_false_iff_eq] at h
    rw [h.1, zip_any_ne a b (by simpa using hl) h.2]

/-- **C14_flag_sort**: sorting permutes every graph, so the node lists before and after have equal
    lengths; then `modified = False` only if every graph (main, functions, all nested subgraphs)
    kept exactly its node order. -/
theorem C14_flag_sort : ∀ (before after : List (List Nat)),
    before.map List.length = after.map List.length →
    sortFlag before after = false → before = after
  | [], [], _, _ => rfl
  | [], _ :: _, h, _ => by simp at h
  | _ :: _, [], h, _ => by simp at h
  | a :: before, b :: after, hl, h => by
    simp only [List.map_cons, List.cons.injEq] at hl
    simp only [sortFlag, List.zip_cons_cons, List.any_cons, Bool.or_eq_false_iff] at h
    rw [zip_any_ne a b hl.1 h.1, C14_flag_sort before after hl.2 h.2]

/-! ## call_onnx_api -/
namespace CApi

/-- **C14_c_api_restore**: for EVERY outcome of the strip loop (any primitive step may raise, before
    or after taking effect), of the serialization and of the wrapped call, the graph after
    `call_onnx_api` equals the graph before: the value store (tensors, shapes, types of every
    value), the initializer mapping (keys and order) and the input list. -/
theorem C14_c_api_restore {P R : Type} (f : Option Fault) (ser : G → Option P)
    (func : P → Option R) (g : G) (hwf : WF g) : (callOnnxApi f ser func g).1 = g := by
  simp only [callOnnxApi]
  exact restore_of_frame hwf
    (Frame.strip f _ ⟨g, 0, false, []⟩ (fun _ hi => hi) (Frame.refl _ g))

/-- **C14_c_api_no_fault_outcome**: when no step of the strip loop raises, the call raises exactly
    when the serialization or the wrapped call raises, and otherwise returns the wrapped call's
    result on the serialization of the stripped graph. -/
theorem C14_c_api_no_fault_outcome {P R : Type} (ser : G → Option P) (func : P → Option R) (g : G) :
    (callOnnxApi none ser func g).2 =
      match ser (strip none (g.inits.map (·.2)) ⟨g, 0, false, []⟩).g with
      | none => .raised
      | some proto => match func proto with
        | none => .raised
        | some r => .ok r := by
  simp only [callOnnxApi, strip_none_raised, Bool.false_eq_true, if_false]
  cases ser (strip none (g.inits.map (·.2)) ⟨g, 0, false, []⟩).g with
  | none => rfl
  | some p => cases func p <;> rfl

/-- **C14_checker_unchanged**: `CheckerPass.call` leaves the graph as it was on every path, and
    when it returns it returns the input model with `modified = False`. -/
theorem C14_checker_unchanged {P : Type} (f : Option Fault) (ser : G → Option P)
    (check : P → Option Unit) (g : G) (m : ModelId) (hwf : WF g) :
    (checkerCall f ser check g m).1 = g ∧
    ((checkerCall f ser check g m).2 = .result ⟨m, false⟩ ∨
     (checkerCall f ser check g m).2 = .raised .other) := by
  have := C14_c_api_restore f ser check g hwf
  unfold checkerCall
  split <;> simp_all

/-- **C14_shape_inference_failure_unchanged**: when anything fails inside `call_onnx_api`,
    `ShapeInferencePass.call` returns `(model, False)` and the graph is as it was. -/
theorem C14_shape_inference_failure_unchanged {P : Type} (f : Option Fault) (ser : G → Option P)
    (infer : P → Option P) (merge : G → P → G × Bool) (g : G) (m : ModelId) (hwf : WF g)
    (hfail : (callOnnxApi f ser infer g).2 = .raised) :
    shapeInferenceCall f ser infer merge g m = (g, .result ⟨m, false⟩) := by
  have := C14_c_api_restore f ser infer g hwf
  unfold shapeInferenceCall
  split
  · simp_all
  · simp_all

end CApi

/-! ## non-vacuity -/
section NonVacuity
open CApi

/-- an honest in-place leaf and a dishonest one over the trivial world -/
def exLeaf (ip same : Bool) : Leaf Unit :=
  ⟨ip, noHook, fun w m => (w, .result ⟨if same then m else m + 1, true⟩), noHook⟩
def exClone : Unit → ModelId → Unit × ModelId := fun w m => (w, m + 100)

-- the hypothesis of C14_identity_rule is satisfiable (in place and functional) ...
example : (Pass.leaf (exLeaf true true)).run exClone () 0 = ((), .ok ⟨0, true⟩) := by rfl
example : (Pass.func (.leaf (exLeaf true true))).run exClone () 0 = ((), .ok ⟨100, true⟩) := by rfl
example : (Pass.mgr [.leaf (exLeaf true true)] 2 true).run exClone () 0 = ((), .ok ⟨0, true⟩) := by rfl
-- ... and the rule bites: a pass breaking its declaration is turned into PassError
example : (Pass.leaf (exLeaf true false)).run exClone () 0 = ((), .error .passError) := by rfl
example : (Pass.leaf (exLeaf false true)).run exClone () 0 = ((), .error .passError) := by rfl

-- C14_rounds / C14_fixpoint: a measure with the two hypotheses exists and the bound is attained:
-- the world is a counter, each round decrements it and reports True while it is positive
def exRound : Nat → ModelId → Res Nat := fun w m => (w - 1, .ok ⟨m, w != 0⟩)
example : ∀ w m w' r, exRound w m = (w', .ok r) → r.modified = true → w' < w := by
  intro w m w' r h hm
  simp only [exRound, Prod.mk.injEq, Except.ok.injEq] at h
  obtain ⟨rfl, rfl⟩ := h
  simp at hm; omega
example : ∀ w m w' r, exRound w m = (w', .ok r) → r.modified = false → w' = w ∧ r.model = m := by
  intro w m w' r h hm
  simp only [exRound, Prod.mk.injEq, Except.ok.injEq] at h
  obtain ⟨rfl, rfl⟩ := h
  simp at hm; simp [hm]
example : (mgrLoop exRound true 10 3 0 false).2.2 = [true, true, true, false] := by decide
example : (mgrLoop exRound true 2 3 0 false).2.2 = [true, true] := by decide  -- steps exhausted first

-- ClearMeta: a dirty state is modified and shrinks, a second application is a no-op
def exCM : ClearMeta.St := ⟨[(0, ⟨2, false⟩), (1, ⟨0, true⟩), (0, ⟨0, false⟩)], [⟨0, true⟩, ⟨0, false⟩, ⟨3, true⟩]⟩
example : (ClearMeta.pass exCM).2 = true ∧ ClearMeta.size exCM = 8 ∧
    ClearMeta.size (ClearMeta.pass exCM).1 = 4 := by decide
example : (ClearMeta.pass (ClearMeta.pass exCM).1).2 = false := by decide

-- sort flag: the length hypothesis holds for permutations; a reordered subgraph is seen
example : sortFlag [[1, 2], [3, 4]] [[1, 2], [4, 3]] = true := by decide
example : sortFlag [[1, 2], [3, 4]] [[1, 2], [3, 4]] = false := by decide

-- RemoveUnusedNodes: an unsorted graph needs two modifying rounds (the measure bound is not trivial)
def exDce : Dce.St := ⟨[⟨0, [some 11], [10]⟩, ⟨1, [some 0, none], [11]⟩, ⟨2, [some 0], [12]⟩], [12], [0], [5]⟩
example : (Dce.removeUnusedNodes exDce).2 = true ∧
    (Dce.removeUnusedNodes (Dce.removeUnusedNodes exDce).1).2 = true ∧
    (Dce.removeUnusedNodes (Dce.removeUnusedNodes (Dce.removeUnusedNodes exDce).1).1).2 = false := by
  decide

-- RemoveInitializersFromInputs: the rewrite fires
example : InitInputs.removeInitializersFromInputs [⟨[1, 2, 3, 2], [2, 5]⟩] = ([⟨[1, 3], [2, 5]⟩], true) := by
  decide

/-- value 0 = input x, 1 = big initializer without shape/type, 2 = small one, 3 = one without tensor -/
def exG : G :=
  ⟨fun i => match i with
    | 0 => ⟨"x", none, some 1, some 1⟩
    | 1 => ⟨"big", some ⟨7, 2400, 2, 1, false⟩, none, none⟩
    | 2 => ⟨"small", some ⟨8, 8, 3, 1, false⟩, none, none⟩
    | 3 => ⟨"nodata", none, some 3, some 1⟩
    | _ => ⟨"", none, none, none⟩,
   [("big", 1), ("small", 2), ("nodata", 3)], [0]⟩

-- WF is satisfiable, and on this graph the strip loop really changes everything the theorem talks about
example : WF exG := ⟨by decide, by decide⟩
example : let s := strip none (exG.inits.map (·.2)) ⟨exG, 0, false, []⟩
    s.g.inits = [("small", 2)] ∧ s.g.inputs = [0, 1, 2, 3] ∧ (s.g.val 1).const = none ∧
    (s.g.val 1).shape = some 2 ∧ (s.g.val 2).type = some 1 := by decide
-- a fault in the middle (step 3 = clearConst of `big`, after its effect) leaves a half-stripped graph ...
example : let s := strip (some ⟨3, true⟩) (exG.inits.map (·.2)) ⟨exG, 0, false, []⟩
    s.raised = true ∧ s.g.inits = exG.inits ∧ (s.g.val 1).const = none ∧ s.g.inputs = [0, 1] := by decide
-- ... and all three failure kinds occur
example : (callOnnxApi (P := ProtoView) (R := Unit) (some ⟨3, true⟩) serView (fun _ => some ()) exG).2
    matches .raised := by decide
example : (callOnnxApi (P := ProtoView) (R := Unit) none (fun _ => none) (fun _ => some ()) exG).2
    matches .raised := by decide
example : (callOnnxApi (P := ProtoView) (R := Unit) none serView (fun _ => none) exG).2
    matches .raised := by decide
example : (callOnnxApi (P := ProtoView) (R := Unit) none serView (fun _ => some ()) exG).2
    matches .ok () := by decide

end NonVacuity

end IrVerif.PassInfra

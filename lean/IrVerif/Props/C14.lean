/-
C14 — passes honour their contract (identity, modified flag, fixpoint, no damage).
Property theorems about the models in `IrVerif/Model/PassInfra.lean`; helper developments are in
`IrVerif/Lemmas/PassInfra.lean`.  Core Lean only.

Deepening round (second half of the file, from `C14_pure_rounds` on): the flag / fix-point / measure clauses of
IdentityElimination, CSE, LiftSubgraphInitializers, OutputFix (flag transcriptions `Model/PassFlags2.lean` next
to C05's pass models), NameFix (C15's `Names.fixModel`), RemoveUnusedOpsets / RemoveUnusedFunctions (own
transcriptions in `Model/PassFlags2.lean`), and "ordered stays ordered" for the passes that delete or substitute
(`sortedModel`).  Helper developments: `Lemmas/PassFlags2.lean` .. `PassFlags9.lean`.
Proved in full: flag honesty (False => the model value is unchanged) for all seven; idempotence for
IdentityElimination (on `validModel`), LiftSubgraphInitializers, OutputFix, NameFix (C15's `PassWF`),
RemoveUnusedOpsets, RemoveUnusedFunctions; a strictly decreasing measure for all but CSE.
PARTIAL (named `_partial`): the measure of CSE - strict decrease is proved unless a one-output Identity node is
replaced by another Identity node (`cseStalled`); CSE is NOT idempotent (example `exCse3`).
Not here (oracle only): Inline, AddDefaultAttributes, the schema-driven optional-output removal; use-def
consistency; names kept; ordered-stays-ordered for CSE / OutputFix / Inline; nothing mentions serialized bytes.

Second deepening round (last part of the file, from `C14_flag_inline` on; helper developments
`Lemmas/PassFlags10.lean` .. `PassFlags12.lean`, `Lemmas/PassKernel.lean`): InlinePass on C05's model of the pass
(`Model/Inline.lean`; flag = `bool(total_inlined)` = `ISt.count != 0`): flag honesty, "a run that is not stuck
leaves no call that the criteria accept", idempotence, measure (#accepted call nodes, 0 after one round);
`C14_inline_valid`: on C05's `validF` models that do not make the pass raise all of this holds of `inlineModel`
(what the driver returns) - `stuck = false` is C05's `C05_inline_total`.  CSE: the weighted node count never grows
and a stalled rewrite is an elimination (`C14_cse_weight_mono`); a stalled round CAN be followed by further modifying
rounds (example `exCse4`), but in a round all of whose rewrites are stalled the total Identity-chain depth of the main
graph grows, so `cseMu` = (weighted node count, then W*W - depth) strictly decreases in EVERY modifying round on a
`validModel` (`C14_measure_cse`; helper developments `Lemmas/PassFlags13.lean`, `PassFlags14.lean`) and a PassManager
around CSE stops within `cseMu + 1` rounds in a fixpoint (`C14_rounds_cse`).  Ordered stays ordered for the node
ADDING passes CSE and OutputFix on `validModel` inputs (`C14_keeps_sorted_add`, corollary of `C05_pass_valid`).
Use-def / ownership / names: RemoveUnusedNodes and IdentityElimination written as programs over C01's kernel
(`Model/PassKernel.lean`) keep C01's invariant `WF` and are the replay of the public mutator calls they issue
(`C14_wf_remove_unused_nodes`, `C14_wf_identity_elimination`, corollaries of `C01_step_any`).

Wave 5 (`Model/PassKernel2.lean`, `Lemmas/PassKernel2.lean`, `Lemmas/PassKernelNames.lean`, `PassKernelNames2.lean`):
CSE, LiftConstants, LiftSubgraphInitializers and Deduplicate(Hashed) as kernel programs (`C14_wf_cse`,
`C14_wf_lift_constants`, `C14_wf_lift_sub_inits`, `C14_wf_dedup`) and 'names of kept objects are kept'
(`C14_names_dedup`, `C14_names_lift_constants`, `C14_names_kept`, `C14_names_initializers`).
-/
import IrVerif.Model.PassInfra
import IrVerif.Lemmas.PassInfra
import IrVerif.Lemmas.PassSort
import IrVerif.Lemmas.PassFlags
import IrVerif.Lemmas.PassFlags2
import IrVerif.Lemmas.PassFlags3
import IrVerif.Lemmas.PassFlags4
import IrVerif.Lemmas.PassFlags5
import IrVerif.Lemmas.PassFlags6
import IrVerif.Lemmas.PassFlags7
import IrVerif.Lemmas.PassFlags8
import IrVerif.Lemmas.PassFlags9
import IrVerif.Props.C15
import IrVerif.Lemmas.PassFlags11
import IrVerif.Lemmas.PassFlags12
import IrVerif.Lemmas.PassFlags14
import IrVerif.Lemmas.PassKernel
import IrVerif.Lemmas.PassKernel2
import IrVerif.Lemmas.PassKernelNames2
import IrVerif.Lemmas.PassKernelFlag
import IrVerif.Lemmas.PassKernelOuts3
import IrVerif.Lemmas.PassKernelLsi
import IrVerif.Lemmas.PassFlags15
import IrVerif.Props.C05
import IrVerif.Props.C01
namespace IrVerif.PassInfra

/-! ## identity rule -/

theorem guard_ok {W : Type} {ip : Bool} {rq : W → ModelId → W × Bool} {c : W → ModelId → W × CallRet}
    {en : W → ModelId → W × Bool} {w w' : W} {m : ModelId} {r : PassResult}
    (h : guard ip rq c en w m = (w', .ok r)) :
    (∃ w1 w2, rq w m = (w1, false) ∧ c w1 m = (w2, .result r) ∧ en w2 r.model = (w', false)) ∧
    (ip = true → r.model = m) ∧ (ip = false → r.model ≠ m) := by
  unfold guard at h
  split at h
  · simp at h
  · next w1 h1 =>
    split at h
    · simp at h
    · simp at h
    · next w2 r2 h2 =>
      split at h
      · simp at h
      · next w3 h3 =>
        split at h
        · simp at h
        · split at h
          · simp at h
          · next hA hB =>
            simp only [Prod.mk.injEq, Except.ok.injEq] at h
            obtain ⟨rfl, rfl⟩ := h
            refine ⟨⟨w1, w2, h1, h2, h3⟩, ?_, ?_⟩
            · intro hip; subst hip; simpa using hA
            · intro hip; subst hip; simpa using hB

/-- **C14_identity_rule**: whatever the passes inside do, a successful `p(model)` returns the input
    object when `p` is declared in place and a different object when it is not — for user passes,
    `Sequential`, `PassManager` (any nesting) and functionalized passes. -/
theorem C14_identity_rule {W : Type} (cl : W → ModelId → W × ModelId) (p : Pass W) (w w' : W)
    (m : ModelId) (r : PassResult) (h : p.run cl w m = (w', .ok r)) :
    (p.inPlace = true → r.model = m) ∧ (p.inPlace = false → r.model ≠ m) := by
  cases p <;> simp only [Pass.run, Pass.inPlace] at * <;> simpa using (guard_ok h).2

/-- ... and otherwise raises: a result that breaks the declaration is turned into PassError. -/
theorem C14_identity_violation_raises {W : Type} (ip : Bool) (rq en : W → ModelId → W × Bool)
    (c : W → ModelId → W × CallRet) (w w1 w2 w3 : W) (m : ModelId) (r : PassResult)
    (h1 : rq w m = (w1, false)) (h2 : c w1 m = (w2, .result r)) (h3 : en w2 r.model = (w3, false))
    (hv : ip = (r.model != m)) : guard ip rq c en w m = (w3, .error .passError) := by
  unfold guard
  simp only [h1, h2, h3]
  cases hr : (r.model != m) <;> simp_all

/-- **C14_functionalize_returns_clone**: `functionalize(p)` of an in-place `p` runs `p` on the clone
    it made (in the world after cloning) and returns exactly that clone, with `p`'s flag; since the
    result is accepted by `__call__`, the clone is not the input object.  (That `Model.clone` returns
    an object that did not exist before is C13's statement; with it the result is fresh.) -/
theorem C14_functionalize_returns_clone {W : Type} (cl : W → ModelId → W × ModelId)
    (p : Pass W) (hp : p.inPlace = true) (w w' : W) (m : ModelId) (r : PassResult)
    (h : (Pass.func p).run cl w m = (w', .ok r)) :
    p.run cl (cl w m).1 (cl w m).2 = (w', .ok r) ∧ r.model = (cl w m).2 ∧ (cl w m).2 ≠ m := by
  have hid := (C14_identity_rule cl (.func p) w w' m r h).2 rfl
  simp only [Pass.run] at h
  obtain ⟨⟨w1, w2, h1, h2, h3⟩, _⟩ := guard_ok h
  simp only [noHook, Prod.mk.injEq] at h1 h3
  obtain ⟨rfl, _⟩ := h1
  obtain ⟨rfl, _⟩ := h3
  have h2' : p.run cl (cl w m).1 (cl w m).2 = (w2, .ok r) := by
    revert h2
    cases hrun : p.run cl (cl w m).1 (cl w m).2 with
    | mk a b => cases b <;> simp [toCallRet]
  have := (C14_identity_rule cl p _ _ _ _ h2').1 hp
  exact ⟨h2', this, this ▸ hid⟩

/-! ## the modified flag of Sequential and PassManager -/

/-- ghost: the `modified` flags of the steps of one `Sequential.call`, in order -/
def seqFlags {W : Type} (cl : W → ModelId → W × ModelId) : List (Pass W) → W → ModelId → List Bool
  | [], _, _ => []
  | p :: ps, w, m =>
    match p.run cl w m with
    | (_, .error _) => []
    | (w1, .ok r) => r.modified :: seqFlags cl ps w1 r.model

/-- **C14_sequential_modified**: the flag of `Sequential.call` is the disjunction of its steps'. -/
theorem C14_sequential_modified {W : Type} (cl : W → ModelId → W × ModelId) :
    ∀ (ps : List (Pass W)) (w w' : W) (m : ModelId) (acc : Bool) (r : PassResult),
    runSeq cl ps w m acc = (w', .ok r) → r.modified = (acc || (seqFlags cl ps w m).any id)
  | [], w, w', m, acc, r, h => by
    simp only [runSeq, Prod.mk.injEq, Except.ok.injEq] at h
    simp [seqFlags, ← h.2]
  | p :: ps, w, w', m, acc, r, h => by
    simp only [runSeq] at h
    simp only [seqFlags]
    split at h
    · simp at h
    · next w1 r1 h1 =>
      have := C14_sequential_modified cl ps w1 w' r1.model _ r h
      simp [h1, this, Bool.or_assoc]

/-- **C14_manager_modified**: the flag returned by `PassManager.call` is the disjunction of the
    flags of the rounds it executed (third component of `mgrLoop`), for every round function,
    step count and `early_stop`. -/
theorem C14_manager_modified {W : Type} (round : W → ModelId → Res W) (es : Bool) :
    ∀ (n : Nat) (w w' : W) (m : ModelId) (acc : Bool) (r : PassResult) (fl : List Bool),
    mgrLoop round es n w m acc = (w', .ok r, fl) → r.modified = (acc || fl.any id)
  | 0, w, w', m, acc, r, fl, h => by
    simp only [mgrLoop, Prod.mk.injEq, Except.ok.injEq] at h
    simp [← h.2.1, ← h.2.2]
  | n + 1, w, w', m, acc, r, fl, h => by
    simp only [mgrLoop] at h
    split at h
    · simp at h
    · next w1 r1 h1 =>
      split at h
      · simp only [Prod.mk.injEq, Except.ok.injEq] at h
        simp [← h.2.1, ← h.2.2]
      · simp only [Prod.mk.injEq] at h
        obtain ⟨ha, hb, hc⟩ := h
        have := C14_manager_modified round es n w1 w' r1.model _ r _
          (by rw [← ha, ← hb])
        simp [← hc, this, Bool.or_assoc]

/-- **C14_manager_steps**: at most `steps` rounds run; with `early_stop` every round but the last
    reported a modification; without it exactly `steps` rounds run. -/
theorem C14_manager_steps {W : Type} (round : W → ModelId → Res W) (es : Bool) :
    ∀ (n : Nat) (w w' : W) (m : ModelId) (acc : Bool) (r : PassResult) (fl : List Bool),
    mgrLoop round es n w m acc = (w', .ok r, fl) →
    fl.length ≤ n ∧ (es = true → fl.dropLast.all id = true) ∧ (es = false → fl.length = n)
  | 0, w, w', m, acc, r, fl, h => by
    simp only [mgrLoop, Prod.mk.injEq] at h
    simp [← h.2.2]
  | n + 1, w, w', m, acc, r, fl, h => by
    simp only [mgrLoop] at h
    split at h
    · simp at h
    · next w1 r1 h1 =>
      split at h
      · next hstop =>
        simp only [Prod.mk.injEq] at h
        simp only [Bool.and_eq_true, Bool.not_eq_eq_eq_not, Bool.not_true] at hstop
        simp [← h.2.2, hstop.2]
      · next hgo =>
        simp only [Prod.mk.injEq] at h
        obtain ⟨ha, hb, hc⟩ := h
        have ih := C14_manager_steps round es n w1 w' r1.model _ r _ (by rw [← ha, ← hb])
        subst hc
        refine ⟨Nat.succ_le_succ ih.1, ?_, ?_⟩
        · intro hes
          subst hes
          have hm : r1.modified = true := by simpa using hgo
          cases hfl : (mgrLoop round true n w1 r1.model (acc || r1.modified)).2.2 with
          | nil => simp
          | cons a l =>
            have := ih.2.1 rfl
            rw [hfl] at this
            simp [List.dropLast, hm, this]
        · intro hes; simp [ih.2.2 hes]

/-- **C14_manager_pass_modified**: the same at the level of pass expressions: a successful
    `PassManager(ps, steps, early_stop)(model)` reports the disjunction of the flags of the rounds
    (`Sequential.call` of `ps`) it executed. -/
theorem C14_manager_pass_modified {W : Type} (cl : W → ModelId → W × ModelId) (ps : List (Pass W))
    (steps : Nat) (es : Bool) (w w' : W) (m : ModelId) (r : PassResult)
    (h : (Pass.mgr ps steps es).run cl w m = (w', .ok r)) :
    r.modified = (mgrLoop (fun w m => runSeq cl ps w m false) es steps w m false).2.2.any id := by
  simp only [Pass.run] at h
  obtain ⟨⟨w1, w2, h1, h2, _⟩, _⟩ := guard_ok h
  simp only [noHook, Prod.mk.injEq] at h1
  obtain ⟨rfl, _⟩ := h1
  simp only [mgrCall] at h2
  cases hl : mgrLoop (fun w m => runSeq cl ps w m false) es steps w m false with
  | mk a b =>
    cases b with
    | mk res fl =>
      rw [hl] at h2
      cases res with
      | error e => simp [toCallRet] at h2
      | ok r' =>
        simp only [toCallRet, Prod.mk.injEq, CallRet.result.injEq] at h2
        obtain ⟨rfl, rfl⟩ := h2
        simpa using C14_manager_modified _ es steps w a m false r' fl hl

/-! ## fixpoint: bounded number of rounds -/

/-- **C14_rounds**: let `μ` be a natural-number measure of the model that strictly decreases over
    every round that reports `modified = True`.  Then a PassManager with `early_stop` executes at
    most `μ + 1` rounds, whatever `steps` is. -/
theorem C14_rounds {W : Type} (round : W → ModelId → Res W) (μ : W → ModelId → Nat)
    (hdec : ∀ w m w' r, round w m = (w', .ok r) → r.modified = true → μ w' r.model < μ w m) :
    ∀ (n : Nat) (w : W) (m : ModelId) (acc : Bool),
    (mgrLoop round true n w m acc).2.2.length ≤ μ w m + 1
  | 0, w, m, acc => by simp [mgrLoop]
  | n + 1, w, m, acc => by
    simp only [mgrLoop]
    split
    · simp
    · next w1 r1 h1 =>
      split
      · simp
      · next hgo =>
        have hm : r1.modified = true := by simpa using hgo
        have := C14_rounds round μ hdec n w1 r1.model (acc || r1.modified)
        have := hdec w m w1 r1 h1 hm
        simp only [List.length_cons]
        omega

/-- **C14_fixpoint**: if moreover `steps` exceeds the measure and a round that reports
    `modified = False` really leaves the world and the model object as they were, then a
    successful manager run ends in a fixpoint: the last executed round reported no modification,
    and running the round again on the final state reports no modification and changes nothing. -/
theorem C14_fixpoint {W : Type} (round : W → ModelId → Res W) (μ : W → ModelId → Nat)
    (hdec : ∀ w m w' r, round w m = (w', .ok r) → r.modified = true → μ w' r.model < μ w m)
    (hhonest : ∀ w m w' r, round w m = (w', .ok r) → r.modified = false → w' = w ∧ r.model = m) :
    ∀ (n : Nat) (w w' : W) (m : ModelId) (acc : Bool) (r : PassResult) (fl : List Bool),
    μ w m < n → mgrLoop round true n w m acc = (w', .ok r, fl) →
    fl.getLast? = some false ∧ round w' r.model = (w', .ok ⟨r.model, false⟩)
  | 0, _, _, _, _, _, _, hn, _ => by omega
  | n + 1, w, w', m, acc, r, fl, hn, h => by
    simp only [mgrLoop] at h
    split at h
    · simp at h
    · next w1 r1 h1 =>
      split at h
      · next hstop =>
        have hm : r1.modified = false := by simpa using hstop
        simp only [Prod.mk.injEq, Except.ok.injEq] at h
        obtain ⟨rfl, hr, rfl⟩ := h
        obtain ⟨rfl, hmm⟩ := hhonest w m w1 r1 h1 hm
        subst hr
        refine ⟨by simp [hm], ?_⟩
        simp only [hmm]
        rw [h1]
        cases r1; simp_all
      · next hgo =>
        have hm : r1.modified = true := by simpa using hgo
        simp only [Prod.mk.injEq] at h
        obtain ⟨ha, hb, hc⟩ := h
        have hlt := hdec w m w1 r1 h1 hm
        have ih := C14_fixpoint round μ hdec hhonest n w1 w' r1.model _ r _ (by omega)
          (by rw [← ha, ← hb])
        subst hc
        refine ⟨?_, ih.2⟩
        cases hfl : (mgrLoop round true n w1 r1.model (acc || r1.modified)).2.2 with
        | nil => rw [hfl] at ih; simp at ih
        | cons a l => rw [hfl] at ih; simpa [List.getLast?_cons_cons] using ih.1

/-! ## honest members make honest compositions -/

/-- a pass expression is *honest* w.r.t. an observation `obs` of a model in a world (think: its
    serialized bytes): a successful run that reports `modified = False` returns a model that is
    observed exactly like the model it was given -/
def Honest {W O : Type} (cl : W → ModelId → W × ModelId) (obs : W → ModelId → O) (p : Pass W) : Prop :=
  ∀ w m w' r, p.run cl w m = (w', .ok r) → r.modified = false → obs w' r.model = obs w m

theorem runSeq_honest {W O : Type} (cl : W → ModelId → W × ModelId) (obs : W → ModelId → O) :
    ∀ (ps : List (Pass W)), (∀ p ∈ ps, Honest cl obs p) → ∀ (w w' : W) (m : ModelId) (acc : Bool)
      (r : PassResult), runSeq cl ps w m acc = (w', .ok r) → r.modified = false →
      obs w' r.model = obs w m
  | [], _, w, w', m, acc, r, h, _ => by
    simp only [runSeq, Prod.mk.injEq, Except.ok.injEq] at h
    obtain ⟨rfl, rfl⟩ := h; rfl
  | p :: ps, hh, w, w', m, acc, r, h, hm => by
    have hmod := C14_sequential_modified cl (p :: ps) w w' m acc r h
    simp only [runSeq] at h
    split at h
    · simp at h
    · next w1 r1 h1 =>
      have hfl : r1.modified = false := by
        have h0 := hmod
        simp only [seqFlags, h1, List.any_cons, id] at h0
        rw [hm] at h0
        cases hr : r1.modified
        · rfl
        · rw [hr] at h0; simp at h0
      have ih := runSeq_honest cl obs ps (fun q hq => hh q (List.mem_cons_of_mem _ hq))
        w1 w' r1.model _ r h hm
      exact ih.trans (hh p List.mem_cons_self w m w1 r1 h1 hfl)

theorem guard_noHook_ok {W : Type} {ip : Bool} {c : W → ModelId → W × CallRet} {w w' : W}
    {m : ModelId} {r : PassResult} (h : guard ip noHook c noHook w m = (w', .ok r)) :
    c w m = (w', .result r) := by
  obtain ⟨⟨w1, w2, h1, h2, h3⟩, _⟩ := guard_ok h
  simp only [noHook, Prod.mk.injEq] at h1 h3
  obtain ⟨rfl, _⟩ := h1
  obtain ⟨rfl, _⟩ := h3
  exact h2

theorem toCallRet_result {W : Type} {x : Res W} {w' : W} {r : PassResult}
    (h : toCallRet x = (w', .result r)) : x = (w', .ok r) := by
  obtain ⟨a, b⟩ := x
  cases b <;> simp_all [toCallRet]

/-- **C14_sequential_honest**: a `Sequential` of honest passes is honest. -/
theorem C14_sequential_honest {W O : Type} (cl : W → ModelId → W × ModelId) (obs : W → ModelId → O)
    (ps : List (Pass W)) (hh : ∀ p ∈ ps, Honest cl obs p) : Honest cl obs (.seq ps) := by
  intro w m w' r h hm
  simp only [Pass.run] at h
  exact runSeq_honest cl obs ps hh w w' m false r (toCallRet_result (guard_noHook_ok h)) hm

theorem mgrLoop_honest {W O : Type} (round : W → ModelId → Res W) (obs : W → ModelId → O)
    (hr : ∀ w m w' r, round w m = (w', .ok r) → r.modified = false → obs w' r.model = obs w m)
    (es : Bool) : ∀ (n : Nat) (w w' : W) (m : ModelId) (acc : Bool) (r : PassResult) (fl : List Bool),
    mgrLoop round es n w m acc = (w', .ok r, fl) → r.modified = false → obs w' r.model = obs w m
  | 0, w, w', m, acc, r, fl, h, _ => by
    simp only [mgrLoop, Prod.mk.injEq, Except.ok.injEq] at h
    obtain ⟨rfl, rfl, _⟩ := h; rfl
  | n + 1, w, w', m, acc, r, fl, h, hm => by
    have hmod := C14_manager_modified round es (n + 1) w w' m acc r fl h
    simp only [mgrLoop] at h
    split at h
    · simp at h
    · next w1 r1 h1 =>
      have hfl : r1.modified = false := by
        by_cases hs : (!r1.modified && es) = true
        · simp only [Bool.and_eq_true, Bool.not_eq_eq_eq_not, Bool.not_true] at hs
          exact hs.1
        · rw [if_neg hs] at h
          simp only [Prod.mk.injEq] at h
          have h0 := hmod
          rw [← h.2.2, hm] at h0
          simp only [List.any_cons, id] at h0
          cases hr1 : r1.modified
          · rfl
          · rw [hr1] at h0; simp at h0
      have h0 := hr w m w1 r1 h1 hfl
      split at h
      · simp only [Prod.mk.injEq, Except.ok.injEq] at h
        obtain ⟨rfl, rfl, _⟩ := h
        exact h0
      · simp only [Prod.mk.injEq] at h
        obtain ⟨ha, hb, _⟩ := h
        have ih := mgrLoop_honest round obs hr es n w1 w' r1.model _ r _ (by rw [← ha, ← hb]) hm
        exact ih.trans h0

/-- **C14_manager_honest**: a `PassManager` (any `steps`, any `early_stop`) of honest passes is
    honest: it reports `modified = False` only if the model it returns is observed (serializes)
    exactly like the model it was given. -/
theorem C14_manager_honest {W O : Type} (cl : W → ModelId → W × ModelId) (obs : W → ModelId → O)
    (ps : List (Pass W)) (steps : Nat) (es : Bool) (hh : ∀ p ∈ ps, Honest cl obs p) :
    Honest cl obs (.mgr ps steps es) := by
  intro w m w' r h hm
  simp only [Pass.run] at h
  have h2 := toCallRet_result (guard_noHook_ok h)
  simp only [mgrCall] at h2
  cases hl : mgrLoop (fun w m => runSeq cl ps w m false) es steps w m false with
  | mk a b =>
    cases b with
    | mk res fl =>
      rw [hl] at h2
      simp only [Prod.mk.injEq] at h2
      obtain ⟨rfl, rfl⟩ := h2
      exact mgrLoop_honest _ obs (fun w m w' r h hm => runSeq_honest cl obs ps hh w w' m false r h hm)
        es steps w a m false r fl hl hm

/-- **C14_functionalize_honest**: if cloning yields a model that is observed like the original,
    functionalizing an honest pass gives an honest pass. -/
theorem C14_functionalize_honest {W O : Type} (cl : W → ModelId → W × ModelId)
    (obs : W → ModelId → O) (hcl : ∀ w m, obs (cl w m).1 (cl w m).2 = obs w m) (p : Pass W)
    (hp : Honest cl obs p) : Honest cl obs (.func p) := by
  intro w m w' r h hm
  simp only [Pass.run] at h
  have h2 := toCallRet_result (guard_noHook_ok h)
  exact (hp _ _ _ _ h2 hm).trans (hcl w m)

/-- **C14_fixpoint_obs**: `C14_fixpoint` for passes that allocate (functional passes) or keep
    private state: instead of "the world is unchanged" it suffices that a `False` round leaves the
    OBSERVATION of the model unchanged, that the measure is a function of the observation, and that
    a round's flag and resulting observation depend only on the observation it starts from.  Then a
    successful manager run with enough steps ends with a `False` round, and one more round from the
    final state reports `False` again and leaves the observation as it is. -/
theorem C14_fixpoint_obs {W O : Type} (round : W → ModelId → Res W) (obs : W → ModelId → O)
    (μ : O → Nat)
    (hdec : ∀ w m w' r, round w m = (w', .ok r) → r.modified = true →
      μ (obs w' r.model) < μ (obs w m))
    (hhonest : ∀ w m w' r, round w m = (w', .ok r) → r.modified = false →
      obs w' r.model = obs w m)
    (hdet : ∀ w m v n, obs w m = obs v n → ∀ w' r, round w m = (w', .ok r) →
      ∃ v' s, round v n = (v', .ok s) ∧ s.modified = r.modified ∧ obs v' s.model = obs w' r.model) :
    ∀ (n : Nat) (w w' : W) (m : ModelId) (acc : Bool) (r : PassResult) (fl : List Bool),
    μ (obs w m) < n → mgrLoop round true n w m acc = (w', .ok r, fl) →
    fl.getLast? = some false ∧
    ∃ w'' r'', round w' r.model = (w'', .ok r'') ∧ r''.modified = false ∧
      obs w'' r''.model = obs w' r.model
  | 0, _, _, _, _, _, _, hn, _ => by omega
  | n + 1, w, w', m, acc, r, fl, hn, h => by
    simp only [mgrLoop] at h
    split at h
    · simp at h
    · next w1 r1 h1 =>
      split at h
      · next hstop =>
        have hm : r1.modified = false := by simpa using hstop
        simp only [Prod.mk.injEq, Except.ok.injEq] at h
        obtain ⟨rfl, hr, rfl⟩ := h
        have ho := hhonest w m w1 r1 h1 hm
        obtain ⟨v', s, hs1, hs2, hs3⟩ := hdet w m w1 r1.model ho.symm w1 r1 h1
        subst hr
        exact ⟨by simp [hm], v', s, hs1, hs2.trans hm, hs3⟩
      · next hgo =>
        have hm : r1.modified = true := by simpa using hgo
        simp only [Prod.mk.injEq] at h
        obtain ⟨ha, hb, hc⟩ := h
        have hlt := hdec w m w1 r1 h1 hm
        have ih := C14_fixpoint_obs round obs μ hdec hhonest hdet n w1 w' r1.model _ r _ (by omega)
          (by rw [← ha, ← hb])
        subst hc
        refine ⟨?_, ih.2⟩
        cases hfl : (mgrLoop round true n w1 r1.model (acc || r1.modified)).2.2 with
        | nil => rw [hfl] at ih; simp at ih
        | cons a l => rw [hfl] at ih; simpa [List.getLast?_cons_cons] using ih.1

/-! ## counting passes: `modified = bool(count)` over a rewrite system with a measure -/

theorem traverse_count {S σ : Type} (rw : σ → S → Option S) :
    ∀ (xs : List σ) (s : S) (c : Nat),
    c ≤ (traverse rw xs s c).2 ∧ ((traverse rw xs s c).2 = c → (traverse rw xs s c).1 = s)
  | [], s, c => by simp [traverse]
  | x :: xs, s, c => by
    simp only [traverse]
    split
    · exact traverse_count rw xs s c
    · next s' h =>
      have ih := traverse_count rw xs s' (c + 1)
      exact ⟨by omega, fun e => by omega⟩

theorem traverse_measure {S σ : Type} (rw : σ → S → Option S) (μ : S → Nat)
    (hdec : ∀ x s s', rw x s = some s' → μ s' < μ s) :
    ∀ (xs : List σ) (s : S) (c : Nat),
    μ (traverse rw xs s c).1 + (traverse rw xs s c).2 ≤ μ s + c
  | [], s, c => by simp [traverse]
  | x :: xs, s, c => by
    simp only [traverse]
    split
    · exact traverse_measure rw μ hdec xs s c
    · next s' h =>
      have ih := traverse_measure rw μ hdec xs s' (c + 1)
      have := hdec x s s' h
      omega

/-- **C14_counting_flag**: a counting pass (`count += 1` per rewrite, `modified = bool(count)`)
    that reports `modified = False` performed no rewrite and returns the state it was given. -/
theorem C14_counting_flag {S σ : Type} (sites : S → List σ) (rw : σ → S → Option S) (s : S)
    (h : (countingPass sites rw s).2 = false) : (countingPass sites rw s).1 = s := by
  simp only [countingPass, bne_eq_false_iff_eq] at h
  exact (traverse_count rw (sites s) s 0).2 h

/-- **C14_counting_measure**: if every rewrite strictly decreases a natural-number measure, a
    counting pass that reports `modified = True` strictly decreased it, and it never performs
    more rewrites than the measure allows (so `traverse` reports at most `μ s` rewrites). -/
theorem C14_counting_measure {S σ : Type} (sites : S → List σ) (rw : σ → S → Option S)
    (μ : S → Nat) (hdec : ∀ x s s', rw x s = some s' → μ s' < μ s) (s : S) :
    ((countingPass sites rw s).2 = true → μ (countingPass sites rw s).1 < μ s) ∧
    (traverse rw (sites s) s 0).2 ≤ μ s := by
  have := traverse_measure rw μ hdec (sites s) s 0
  refine ⟨fun h => ?_, by omega⟩
  simp only [countingPass, bne_iff_ne, ne_eq] at h ⊢
  omega

/-- **C14_counting_rounds**: a PassManager with `early_stop` around one counting pass (world =
    the abstract state, the model object is returned as is) runs at most `μ s + 1` rounds and,
    given enough steps, ends in a state on which the pass reports `False` and changes nothing. -/
theorem C14_counting_rounds {S σ : Type} (sites : S → List σ) (rw : σ → S → Option S)
    (μ : S → Nat) (hdec : ∀ x s s', rw x s = some s' → μ s' < μ s)
    (n : Nat) (s : S) (m : ModelId) :
    let round : S → ModelId → Res S := fun s m =>
      ((countingPass sites rw s).1, .ok ⟨m, (countingPass sites rw s).2⟩)
    (mgrLoop round true n s m false).2.2.length ≤ μ s + 1 ∧
    ∀ s' r fl, μ s < n → mgrLoop round true n s m false = (s', .ok r, fl) →
      countingPass sites rw s' = (s', false) := by
  intro round
  have hdec' : ∀ w m w' r, round w m = (w', .ok r) → r.modified = true →
      (fun s (_ : ModelId) => μ s) w' r.model < (fun s (_ : ModelId) => μ s) w m := by
    intro w m w' r h hm
    simp only [round, Prod.mk.injEq, Except.ok.injEq] at h
    obtain ⟨rfl, rfl⟩ := h
    exact (C14_counting_measure sites rw μ hdec w).1 hm
  have hhon : ∀ w m w' r, round w m = (w', .ok r) → r.modified = false → w' = w ∧ r.model = m := by
    intro w m w' r h hm
    simp only [round, Prod.mk.injEq, Except.ok.injEq] at h
    obtain ⟨rfl, rfl⟩ := h
    exact ⟨C14_counting_flag sites rw w hm, rfl⟩
  refine ⟨C14_rounds round (fun s _ => μ s) hdec' n s m false, fun s' r fl hn h => ?_⟩
  have := (C14_fixpoint round (fun s _ => μ s) hdec' hhon n s s' m false r fl hn h).2
  simp only [round, Prod.mk.injEq, Except.ok.injEq, PassResult.mk.injEq, true_and] at this
  exact Prod.ext this.1 this.2

theorem countingLeaf_run {S σ : Type} (cl : S → ModelId → S × ModelId) (sites : S → List σ)
    (rw : σ → S → Option S) (s : S) (m : ModelId) :
    (Pass.leaf (countingLeaf sites rw)).run cl s m =
      ((countingPass sites rw s).1, .ok ⟨m, (countingPass sites rw s).2⟩) := by
  simp [Pass.run, guard, countingLeaf, noHook]

theorem mgrLoop_total {W : Type} (round : W → ModelId → Res W) (es : Bool)
    (ht : ∀ w m, ∃ w' b, round w m = (w', .ok ⟨m, b⟩)) :
    ∀ (n : Nat) (w : W) (m : ModelId) (acc : Bool),
    ∃ w' b fl, mgrLoop round es n w m acc = (w', .ok ⟨m, b⟩, fl)
  | 0, w, m, acc => ⟨w, acc, [], rfl⟩
  | n + 1, w, m, acc => by
    obtain ⟨w1, b1, h1⟩ := ht w m
    simp only [mgrLoop, h1]
    split
    · exact ⟨_, _, _, rfl⟩
    · obtain ⟨w2, b2, fl, h2⟩ := mgrLoop_total round es ht n w1 m (acc || b1)
      exact ⟨w2, b2, b1 :: fl, by simp [h2]⟩

/-- **C14_counting_manager**: the same through the real entry point.  `PassManager([p], steps,
    early_stop=True)(model)` for a counting pass `p` whose rewrites decrease `μ`, with
    `steps > μ`: the call succeeds, returns the input model object, ends in a state on which `p`
    reports `False` and changes nothing, and it reports `False` only if nothing was changed. -/
theorem C14_counting_manager {S σ : Type} (cl : S → ModelId → S × ModelId) (sites : S → List σ)
    (rw : σ → S → Option S) (μ : S → Nat) (hdec : ∀ x s s', rw x s = some s' → μ s' < μ s)
    (n : Nat) (s : S) (m : ModelId) (hn : μ s < n) :
    ∃ s' b, (Pass.mgr [.leaf (countingLeaf sites rw)] n true).run cl s m = (s', .ok ⟨m, b⟩) ∧
      countingPass sites rw s' = (s', false) ∧ (b = false → s' = s) := by
  have hround : (fun w m => runSeq cl [Pass.leaf (countingLeaf sites rw)] w m false) =
      (fun s m => ((countingPass sites rw s).1, .ok ⟨m, (countingPass sites rw s).2⟩)) := by
    funext w m
    simp [runSeq, countingLeaf_run]
  obtain ⟨s', b, fl, hl⟩ := mgrLoop_total
    (fun s m => ((countingPass sites rw s).1, Except.ok ⟨m, (countingPass sites rw s).2⟩)) true
    (fun w m => ⟨_, _, rfl⟩) n s m false
  have hrun : (Pass.mgr [.leaf (countingLeaf sites rw)] n true).run cl s m = (s', .ok ⟨m, b⟩) := by
    simp only [Pass.run, mgrCall]
    rw [hround]
    simp only [guard, noHook, hl, toCallRet]
    simp [allInPlace, Pass.inPlace, countingLeaf]
  refine ⟨s', b, hrun, (C14_counting_rounds sites rw μ hdec n s m).2 s' ⟨m, b⟩ fl hn hl, fun hb => ?_⟩
  have hh : Honest cl (fun w (_ : ModelId) => w) (.leaf (countingLeaf sites rw)) := by
    intro w m' w' r h hm
    rw [countingLeaf_run] at h
    simp only [Prod.mk.injEq, Except.ok.injEq] at h
    obtain ⟨rfl, rfl⟩ := h
    exact C14_counting_flag sites rw w hm
  exact C14_manager_honest cl _ [.leaf (countingLeaf sites rw)] n true
    (fun p hp => by simp at hp; subst hp; exact hh) s m s' ⟨m, b⟩ hrun hb

/-! ## ClearMetadataAndDocStringPass -/
namespace ClearMeta

theorem not_dirty_iff (i : Item) : i.dirty = false ↔ i = clean := by
  cases i with
  | mk n d => cases d <;> simp [Item.dirty, clean]

theorem loop_true : ∀ (ns : List (Nat × Item)) (gs : List Item) (ch : List Nat),
    (loop ns gs ch true).2.2 = true
  | [], _, _ => rfl
  | (g, it) :: rest, gs, ch => by
    simp only [loop]
    split <;> simp [loop_true rest]

theorem loop_false : ∀ (ns : List (Nat × Item)) (gs : List Item) (ch : List Nat),
    (loop ns gs ch false).2.2 = false → (loop ns gs ch false).1 = ns ∧ (loop ns gs ch false).2.1 = gs
  | [], _, _, _ => ⟨rfl, rfl⟩
  | (g, it) :: rest, gs, ch, h => by
    simp only [loop] at h ⊢
    split at h
    · simp [loop_true] at h
    · next hb =>
      rw [if_neg hb]
      cases hd : it.dirty
      · simp only [hd] at h ⊢
        have ih := loop_false rest gs ch (by simpa using h)
        have : it = clean := (not_dirty_iff it).1 hd
        simp_all
      · simp [hd, loop_true] at h

/-- **C14_flag_clear**: `modified = False` only if nothing was cleared (state exactly as before). -/
theorem C14_flag_clear (s : St) (h : (pass s).2 = false) : (pass s).1 = s := by
  have := loop_false s.nodes s.graphs [] h
  cases s; simp_all [pass]

def NotDirty (gs : List Item) (g : Nat) : Prop := (gs.getD g clean).dirty = false

theorem clean_not_dirty : clean.dirty = false := rfl

theorem notDirty_set (gs : List Item) (g g' : Nat) (h : NotDirty gs g) :
    NotDirty (gs.set g' clean) g := by
  unfold NotDirty at *
  simp only [List.getD_eq_getElem?_getD, List.getElem?_set] at *
  split
  · split <;> simp [clean_not_dirty]
  · exact h

theorem notDirty_set_self (gs : List Item) (g : Nat) : NotDirty (gs.set g clean) g := by
  unfold NotDirty
  simp only [List.getD_eq_getElem?_getD, List.getElem?_set]
  simp only [if_true]
  split <;> simp [clean_not_dirty]

/-- graphs that are clean stay clean -/
theorem loop_mono : ∀ (ns : List (Nat × Item)) (gs : List Item) (ch : List Nat) (md : Bool) (g : Nat),
    NotDirty gs g → NotDirty (loop ns gs ch md).2.1 g
  | [], _, _, _, _, h => h
  | (g0, it) :: rest, gs, ch, md, g, h => by
    simp only [loop]
    split
    · exact loop_mono rest _ _ _ g (notDirty_set gs g g0 h)
    · exact loop_mono rest _ _ _ g h

/-- after the loop every node is clean and so is the graph of every node -/
theorem loop_clean : ∀ (ns : List (Nat × Item)) (gs : List Item) (ch : List Nat) (md : Bool),
    (∀ g ∈ ch, NotDirty gs g) →
    ∀ p ∈ (loop ns gs ch md).1, p.2 = clean ∧ NotDirty (loop ns gs ch md).2.1 p.1
  | [], _, _, _, _, p, hp => by simp [loop] at hp
  | (g0, it) :: rest, gs, ch, md, hinv, p, hp => by
    simp only [loop] at hp ⊢
    split at hp
    · next hc =>
      rw [if_pos hc]
      have hinv' : ∀ g ∈ g0 :: ch, NotDirty (gs.set g0 clean) g := by
        intro g hg
        rcases List.mem_cons.1 hg with rfl | hg
        · exact notDirty_set_self gs g
        · exact notDirty_set gs g g0 (hinv g hg)
      rcases List.mem_cons.1 hp with rfl | hp
      · exact ⟨rfl, loop_mono rest _ _ _ g0 (notDirty_set_self gs g0)⟩
      · exact loop_clean rest _ _ _ hinv' p hp
    · next hc =>
      rw [if_neg hc]
      rcases List.mem_cons.1 hp with rfl | hp
      · refine ⟨rfl, loop_mono rest _ _ _ g0 ?_⟩
        simp only [Bool.and_eq_true, Bool.not_eq_eq_eq_not, Bool.not_true, not_and,
          Bool.not_eq_true] at hc
        by_cases hm : ch.contains g0 = true
        · exact hinv g0 (by simpa using hm)
        · exact hc (by simpa using hm)
      · exact loop_clean rest _ _ _ hinv p hp

/-- on a clean state the loop changes nothing and keeps the flag -/
theorem loop_of_clean : ∀ (ns : List (Nat × Item)) (gs : List Item) (ch : List Nat) (md : Bool),
    (∀ p ∈ ns, p.2 = clean ∧ NotDirty gs p.1) → loop ns gs ch md = (ns, gs, md)
  | [], _, _, _, _ => rfl
  | (g0, it) :: rest, gs, ch, md, h => by
    obtain ⟨hit, hg⟩ := h (g0, it) List.mem_cons_self
    simp only at hit hg
    subst hit
    have ih := loop_of_clean rest gs ch md (fun p hp => h p (List.mem_cons_of_mem _ hp))
    unfold NotDirty at hg
    simp only [List.getD_eq_getElem?_getD] at hg
    simp [loop, hg, ih, clean_not_dirty]

/-- **C14_fix_clear**: the pass applied to its own result reports `False` and returns it
    unchanged (one round reaches the fixpoint). -/
theorem C14_fix_clear (s : St) : pass (pass s).1 = ((pass s).1, false) := by
  have hc := loop_clean s.nodes s.graphs [] false (by simp)
  have := loop_of_clean (loop s.nodes s.graphs [] false).1 (loop s.nodes s.graphs [] false).2.1 []
    false hc
  simp [pass, this]

theorem dirty_size {i : Item} (h : i.dirty = true) : 1 ≤ itemSize i := by
  cases i with
  | mk n d =>
    cases d <;> simp_all [Item.dirty, itemSize]
    omega

/-- the loop never increases the measure, and strictly decreases it when it raises the flag -/
theorem loop_size : ∀ (ns : List (Nat × Item)) (gs : List Item) (ch : List Nat) (md : Bool),
    size ⟨(loop ns gs ch md).1, (loop ns gs ch md).2.1⟩ +
      (if (loop ns gs ch md).2.2 && !md then 1 else 0) ≤ size ⟨ns, gs⟩
  | [], gs, _, md => by cases md <;> simp [loop, size]
  | (g0, it) :: rest, gs, ch, md => by
    simp only [loop]
    split
    · next hc =>
      simp only [Bool.and_eq_true, Bool.not_eq_eq_eq_not, Bool.not_true] at hc
      have ih := loop_size rest (gs.set g0 clean) (g0 :: ch) true
      have hlt : g0 < gs.length := by
        by_cases hl : g0 < gs.length
        · exact hl
        · have : gs.getD g0 clean = clean := by
            simp [List.getD_eq_getElem?_getD, List.getElem?_eq_none (Nat.le_of_not_lt hl)]
          rw [this] at hc; simp [clean_not_dirty] at hc
      have hset := sum_map_set itemSize gs g0 clean hlt
      have hd : 1 ≤ itemSize gs[g0] := by
        apply dirty_size
        have : gs.getD g0 clean = gs[g0] := by simp [List.getD_eq_getElem?_getD, hlt]
        rw [← this]; exact hc.2
      simp only [size, List.map_cons, List.sum_cons, Bool.not_true, Bool.and_false] at ih ⊢
      have hcz : itemSize clean = 0 := rfl
      split <;> omega
    · have ih := loop_size rest gs ch (if it.dirty = true then true else md)
      simp only [size, List.map_cons, List.sum_cons] at ih ⊢
      have hcz : itemSize clean = 0 := rfl
      cases hd : it.dirty
      · simp only [hd, Bool.false_eq_true, if_false] at ih ⊢
        omega
      · have := dirty_size hd
        simp only [hd, if_true, Bool.not_true, Bool.and_false, Bool.false_eq_true, if_false] at ih ⊢
        split <;> omega

/-- **C14_measure_clear**: the number of metadata entries and doc strings is a measure for the
    pass: `modified = True` strictly decreases it (hypothesis of `C14_rounds`). -/
theorem C14_measure_clear (s : St) (h : (pass s).2 = true) : size (pass s).1 < size s := by
  have := loop_size s.nodes s.graphs [] false
  simp only [pass] at h ⊢
  simp only [h, Bool.not_false, Bool.and_self, if_true] at this
  cases s; simp only at this ⊢; omega

end ClearMeta

/-! ## RemoveInitializersFromInputsPass -/
namespace InitInputs

theorem length_erase_lt (l : List Nat) (x : Nat) (h : l.contains x = true) :
    (l.erase x).length < l.length := by
  have hm : x ∈ l := by simpa using h
  rw [List.length_erase_of_mem hm]
  have : 0 < l.length := List.length_pos_of_mem hm
  omega

/-- **C14_rm_init_measure**: every rewrite of RemoveInitializersFromInputsPass removes one input
    slot, so (by `C14_counting_measure` / `C14_counting_rounds`) the pass reports `True` only when
    the number of inputs decreased and reaches its fixpoint. -/
theorem C14_rm_init_measure (site : Nat × Nat) (s s' : St) (h : rmRw site s = some s') :
    rmSize s' < rmSize s := by
  unfold rmRw at h
  split at h
  · simp at h
  · next g hg =>
    split at h
    · next hc =>
      simp only [Bool.and_eq_true] at hc
      simp only [Option.some.injEq] at h
      subst h
      obtain ⟨hlt, hget⟩ := List.getElem?_eq_some_iff.1 hg
      have := sum_map_set (fun g : Gr => g.inputs.length) s site.1
        { g with inputs := g.inputs.erase site.2 } hlt
      have hl := length_erase_lt g.inputs site.2 hc.2
      simp only [rmSize]
      rw [hget] at this
      simp only at this
      omega
    · simp at h

/-- **C14_rm_init_contract**: RemoveInitializersFromInputsPass (as transcribed) reports `False` only
    if the inputs are unchanged, strictly shrinks the inputs when it reports `True`, and a
    PassManager with `early_stop` around it stops within `#inputs + 1` rounds in a state on which
    the pass reports `False` and changes nothing. -/
theorem C14_rm_init_contract (s : St) :
    ((removeInitializersFromInputs s).2 = false → (removeInitializersFromInputs s).1 = s) ∧
    ((removeInitializersFromInputs s).2 = true → rmSize (removeInitializersFromInputs s).1 < rmSize s) ∧
    ∀ (n : Nat) (m : ModelId),
      let round : St → ModelId → Res St := fun s m =>
        ((removeInitializersFromInputs s).1, .ok ⟨m, (removeInitializersFromInputs s).2⟩)
      (mgrLoop round true n s m false).2.2.length ≤ rmSize s + 1 ∧
      ∀ s' r fl, rmSize s < n → mgrLoop round true n s m false = (s', .ok r, fl) →
        removeInitializersFromInputs s' = (s', false) :=
  ⟨C14_counting_flag rmSites rmRw s,
   (C14_counting_measure rmSites rmRw rmSize C14_rm_init_measure s).1,
   fun n m => C14_counting_rounds rmSites rmRw rmSize C14_rm_init_measure n s m⟩

/-- **C14_add_init_flag**: AddInitializersToInputsPass (as transcribed) reports `False` only if the
    inputs are unchanged. -/
theorem C14_add_init_flag (s : St) (h : (addInitializersToInputs s).2 = false) :
    (addInitializersToInputs s).1 = s := C14_counting_flag addSites addRw s h

end InitInputs

/-! ## RemoveUnusedNodesPass (graph without subgraphs) -/
namespace Dce

theorem trimmed_length_le (l : List (Option Nat)) : (trimmed l).length ≤ l.length := by
  simp only [trimmed, List.length_reverse]
  exact Nat.le_trans (List.dropWhile_sublist _).length_le (by simp)

/-- **C14_dce_measure**: every rewrite of RemoveUnusedNodesPass (removing a dead node, trimming
    trailing `None` inputs, removing an unused initializer) strictly decreases
    nodes + initializers + input slots. -/
theorem C14_dce_measure (site : Site) (s s' : St) (h : rw site s = some s') : size s' < size s := by
  cases site with
  | node id =>
    simp only [rw] at h
    split at h
    · simp at h
    · next n hn =>
      have hmem : n ∈ s.nodes := List.mem_of_find?_eq_some hn
      have hid : (n.id == id) = true := List.find?_some (p := fun n : Node => n.id == id) hn
      split at h
      · simp only [Option.some.injEq] at h; subst h
        have h1 := length_filter_lt (fun m : Node => m.id != id) s.nodes n hmem (by simpa using hid)
        have h2 := sum_map_filter_le (fun m : Node => m.inputs.length) (fun m : Node => m.id != id) s.nodes
        simp only [size]; omega
      · split at h
        · next hlt =>
          simp only [Option.some.injEq] at h; subst h
          have hle : ∀ x : Node, (fun m : Node => m.inputs.length)
              ((fun m : Node => if m.id == id then { m with inputs := trimmed m.inputs } else m) x) ≤
              (fun m : Node => m.inputs.length) x := by
            intro x; simp only; split
            · exact trimmed_length_le x.inputs
            · exact Nat.le_refl _
          have := sum_map_map_lt (fun m : Node => m.inputs.length) _ hle s.nodes n hmem
            (by simp only [hid, if_true]; exact hlt)
          simp only [size, List.length_map]; omega
        · simp at h
  | init v =>
    simp only [rw] at h
    split at h
    · next hc =>
      simp only [Option.some.injEq] at h; subst h
      simp only [Bool.and_eq_true] at hc
      have hm : v ∈ s.inits := by simpa using hc.1.1.1
      have : 0 < s.inits.length := List.length_pos_of_mem hm
      simp only [size, List.length_erase_of_mem hm]; omega
    · simp at h

/-- **C14_dce_contract**: RemoveUnusedNodesPass (as transcribed, graphs without subgraphs, without
    the schema-driven optional-output removal) reports `False` only if the graph is unchanged,
    strictly shrinks it when it reports `True`, and a PassManager with `early_stop` around it stops
    within `size + 1` rounds in a state on which the pass reports `False` and changes nothing. -/
theorem C14_dce_contract (s : St) :
    ((removeUnusedNodes s).2 = false → (removeUnusedNodes s).1 = s) ∧
    ((removeUnusedNodes s).2 = true → size (removeUnusedNodes s).1 < size s) ∧
    ∀ (n : Nat) (m : ModelId),
      let round : St → ModelId → Res St := fun s m =>
        ((removeUnusedNodes s).1, .ok ⟨m, (removeUnusedNodes s).2⟩)
      (mgrLoop round true n s m false).2.2.length ≤ size s + 1 ∧
      ∀ s' r fl, size s < n → mgrLoop round true n s m false = (s', .ok r, fl) →
        removeUnusedNodes s' = (s', false) :=
  ⟨C14_counting_flag sites rw s,
   (C14_counting_measure sites rw size C14_dce_measure s).1,
   fun n m => C14_counting_rounds sites rw size C14_dce_measure n s m⟩

end Dce

/-! ## TopologicalSortPass flag -/

theorem zip_any_ne : ∀ (a b : List Nat), a.length = b.length →
    (a.zip b).any (fun q => q.1 != q.2) = false → a = b
  | [], [], _, _ => rfl
  | [], _ :: _, h, _ => by simp at h
  | _ :: _, [], h, _ => by simp at h
  | x :: a, y :: b, hl, h => by
    simp only [List.zip_cons_cons, List.any_cons, Bool.or_eq_false_iff, bne_eq_false_iff_eq] at h
    rw [h.1, zip_any_ne a b (by simpa using hl) h.2]

/-- **C14_flag_sort**: sorting permutes every graph, so the node lists before and after have equal
    lengths; then `modified = False` only if every graph (main, functions, all nested subgraphs)
    kept exactly its node order. -/
theorem C14_flag_sort : ∀ (before after : List (List Nat)),
    before.map List.length = after.map List.length →
    sortFlag before after = false → before = after
  | [], [], _, _ => rfl
  | [], _ :: _, h, _ => by simp at h
  | _ :: _, [], h, _ => by simp at h
  | a :: before, b :: after, hl, h => by
    simp only [List.map_cons, List.cons.injEq] at hl
    simp only [sortFlag, List.zip_cons_cons, List.any_cons, Bool.or_eq_false_iff] at h
    rw [zip_any_ne a b hl.1 h.1, C14_flag_sort before after hl.2 h.2]

/-! ## flag and measure of the passes modelled by C05 (`Model/Passes.lean`) -/
section C05Models
open IrVerif.Sem IrVerif.Passes IrVerif.PassFlags

/-- **C14_flag_lift_const**: LiftConstantsToInitializersPass (C05's model, main graph and all
    subgraphs) reports `modified = False` only if the model it returns is the model it was given. -/
theorem C14_flag_lift_const (la : Bool) (lim : Nat) (m : Model) (h : liftFlag la lim m = false) :
    liftConstModel la lim m = m := by
  simp only [liftFlag, bne_eq_false_iff_eq] at h
  cases m with
  | mk g fs => simp only [liftConstModel, liftG_cnt0 la lim g h]

/-- **C14_measure_lift_const**: ... and when it reports `True` the number of nodes (nested graphs
    included) strictly decreased (hypothesis of `C14_rounds`). -/
theorem C14_measure_lift_const (la : Bool) (lim : Nat) (m : Model) (h : liftFlag la lim m = true) :
    nodesG (liftConstModel la lim m).graph < nodesG m.graph := by
  have := liftG_nodes la lim m.graph
  simp only [liftFlag, bne_iff_ne, ne_eq] at h
  simp only [liftConstModel]; omega

/-- **C14_flag_dedup**: Deduplicate(Hashed)InitializersPass (C05's model) reports `False` only if
    the model is returned as it was. -/
theorem C14_flag_dedup (lim : Nat) (m : Model) (h : dedupFlag lim m = false) : dedupModel lim m = m := by
  simp only [dedupFlag, bne_eq_false_iff_eq] at h
  cases m with
  | mk g fs => simp only [dedupModel, dedupG_cnt0 lim g h]

/-- **C14_measure_dedup**: ... and `True` means the number of initializers (nested graphs included)
    strictly decreased. -/
theorem C14_measure_dedup (lim : Nat) (m : Model) (h : dedupFlag lim m = true) :
    initsG (dedupModel lim m).graph < initsG m.graph := by
  have := dedupG_inits lim [] m.graph
  simp only [dedupFlag, bne_iff_ne, ne_eq] at h
  simp only [dedupModel]; omega

/-- **C14_flag_dce**: RemoveUnusedNodesPass (C05's model: main graph with all nested graphs, unused
    initializers, function bodies; count as in the Python after D38, without the schema-driven
    optional-output removal) reports `False` only if the model is returned as it was. -/
theorem C14_flag_dce (m : Model) (h : dceFlag m = false) : dceModel m = m := by
  simp only [dceFlag, bne_eq_false_iff_eq, dceCount] at h
  have h1 : dceCntG m.graph = 0 := by omega
  have h2 : m.graph.inits.length - (dceModel m).graph.inits.length = 0 := by omega
  have h3 : (m.funcs.map dceCntG).sum = 0 := by omega
  have hg := dceG_cnt0 m.graph h1
  have hf : m.funcs.map (fun f => (dceG f).1) = m.funcs := by
    have := sum_map_zero dceCntG m.funcs h3
    conv => rhs; rw [← List.map_id m.funcs]
    exact List.map_congr_left (fun f hf => dceG_cnt0 f (this f hf))
  cases m with
  | mk g fs =>
    simp only at hg hf h2
    cases g with
    | mk inputs outputs inits nodes =>
      simp only [dceModel, hg, hf, Graph.inits, Graph.inputs, Graph.outputs, Graph.nodes] at h2 ⊢
      have hle := List.length_filter_le (fun p : VId × Tensor =>
        (usesG (Graph.mk inputs outputs inits nodes) ++ (dceG (Graph.mk inputs outputs inits nodes)).2).contains p.1 ||
          outputs.contains p.1 || inputs.contains p.1) inits
      rw [filter_eq_of_length _ inits (by omega)]

/-- **C14_measure_dce**: ... and every counted rewrite lowers nodes + input slots + initializers, so
    `True` means that measure strictly decreased. -/
theorem C14_measure_dce (m : Model) : dceSize (dceModel m) + dceCount m ≤ dceSize m ∧
    (dceFlag m = true → dceSize (dceModel m) < dceSize m) := by
  have key : dceSize (dceModel m) + dceCount m ≤ dceSize m := by
    cases m with
    | mk g fs =>
      cases g with
      | mk inputs outputs inits nodes =>
        have h1 := dceNodes_slots outputs [] nodes
        have h2 := funcs_slots fs
        have hle := List.length_filter_le (fun p : VId × Tensor =>
          (usesG (Graph.mk inputs outputs inits (dceNodes outputs [] nodes).1) ++
              (dceNodes outputs [] nodes).2).contains p.1 || outputs.contains p.1 ||
            inputs.contains p.1) inits
        simp only [dceSize, dceCount, dceModel, dceG, dceCntG, slotsG, Graph.inits, Graph.inputs,
          Graph.outputs, Graph.nodes] at *
        omega
  refine ⟨key, fun h => ?_⟩
  simp only [dceFlag, bne_iff_ne, ne_eq] at h
  omega

end C05Models

/-! ## TopologicalSortPass on C12's model of the pass -/
section SortPass
open IrVerif.Sort

/-- **C14_sort_flag_iff**: on C12's model of `TopologicalSortPass` (`Sort.passEffect`: sort the main
    graph and every function, nested graphs included), when the pass returns, it reports
    `modified = False` EXACTLY when every graph of the model - main graph, functions, every nested
    subgraph - holds its nodes in exactly the order it held them before. -/
theorem C14_sort_flag_iff (gs : List MGraph) (hwf : ∀ g ∈ gs, IrVerif.Sort.WF g)
    (hok : (passEffect gs).1 = false) :
    sortPassFlag gs = false ↔ (passEffect gs).2 = gs.map graphsOf := by
  have harr := (passEffect_arr gs hwf hok).2
  constructor
  · intro h
    exact (arr_outer_eq harr (sortFlag_eq_of_false _ _ (arr_outer_lengths harr) h)).symm
  · intro h
    simp only [sortPassFlag, h]
    exact sortFlag_self _

/-- **C14_sort_keeps_sorted**: a model all of whose graphs are already in topological order
    (C12's `OrderedG` in a well-scoped tree) is left exactly as it is by the pass - ordered stays
    ordered - the pass does not raise and reports `modified = False`; in particular the pass
    applied to its own result is a fixpoint whenever that result is ordered. -/
theorem C14_sort_keeps_sorted (gs : List MGraph)
    (h : ∀ g ∈ gs, IrVerif.Sort.WF g ∧ WellScoped g ∧ ∀ k ∈ allGraphs g, OrderedG k) :
    passEffect gs = (false, gs.map graphsOf) ∧ sortPassFlag gs = false := by
  have he : ∀ g ∈ gs, sortEffect g = (false, graphsOf g) := by
    intro g hg
    obtain ⟨hwf, hws, hord⟩ := h g hg
    have := (C12_order_independent g hwf (graphsOf g) (List.Perm.refl _)).2
    rw [C12_fixpoint g hwf hws hord] at this
    exact this
  have hr := C12_pass_result gs
  have h1 : (passEffect gs).1 = false := by
    rw [hr.1, List.any_eq_false]
    intro g hg
    simp [he g hg]
  have h2 : (passEffect gs).2 = gs.map graphsOf := by
    rw [hr.2 h1]
    exact List.map_congr_left (fun g hg => by rw [he g hg])
  exact ⟨Prod.ext h1 h2, (C14_sort_flag_iff gs (fun g hg => (h g hg).1) h1).2 h2⟩

end SortPass

/-! ## call_onnx_api -/
namespace CApi

/-- `g'` is `g` except that tensors of initializers of `g` may have been given the name of their
    value (the documented side effect of serialization, serde.py `value.const_value.name = value.name`) -/
def SameUpToTensorNames (g g' : G) : Prop :=
  g'.val = g.val ∧ g'.inits = g.inits ∧ g'.inputs = g.inputs ∧
  ∀ j, g'.tname j = g.tname j ∨
    ∃ p ∈ g.inits, ∃ t, (g.val p.2).const = some t ∧ t.id = j ∧ g'.tname j = p.1

theorem Frame.of_val {ids : List Nat} {g g' g'' : G} (h : Frame ids g g') (hv : g''.val = g'.val) :
    Frame ids g g'' := by
  intro j; rw [hv]; exact h j

/-- **C14_c_api_restore**: for EVERY outcome of the strip loop (any primitive step may raise, before
    or after taking effect), of the serialization (however far it got) and of the wrapped call, the
    graph after `call_onnx_api` equals the graph before: the value store (tensor object, shape, type
    of every value), the initializer mapping (keys and order) and the input list.  The only thing
    that may differ is the `name` of tensors that are initializers of the graph, which serialization
    aligns with the value name. -/
theorem C14_c_api_restore {P R : Type} (f : Option Fault) (reach : G → Nat) (ser : G → Option P)
    (func : P → Option R) (g : G) (hwf : WF g) :
    SameUpToTensorNames g (callOnnxApi f reach ser func g).1 := by
  have hF := Frame.strip f (g.inits.map (·.2)) ⟨g, 0, false, []⟩ (fun _ hi => hi) (Frame.refl _ g)
  have hK := Keep.strip f (g.inits.map (·.2)) ⟨g, 0, false, []⟩ (Keep.refl g)
  simp only [callOnnxApi]
  split
  · -- an exception left the strip loop: serialization was never reached
    rw [restore_of_frame hwf hF]
    exact ⟨rfl, rfl, rfl, fun j => Or.inl (by rw [hK.tname])⟩
  · have hR := renamePrefix_spec
      (reach (strip f (g.inits.map (·.2)) ⟨g, 0, false, []⟩).g)
      (strip f (g.inits.map (·.2)) ⟨g, 0, false, []⟩).g.inits
      (strip f (g.inits.map (·.2)) ⟨g, 0, false, []⟩).g
    rw [restore_of_frame hwf (Frame.of_val hF hR.1)]
    refine ⟨rfl, rfl, rfl, fun j => ?_⟩
    rcases hR.2.2.2 j with h | ⟨p, hp, t, h1, h2, h3⟩
    · left; show _ = g.tname j; rw [h, hK.tname]
    · right
      have hp' := hK.inits p hp
      refine ⟨p, hp', t, hK.const _ _ h1, h2, ?_⟩
      show (renamePrefix _ _ _).tname j = p.1
      rw [h3, (hF p.2).1, hwf.named p hp']

/-- **C14_c_api_restore_exact**: when serialization is not reached or touches no tensor (it is
    replaced by something that raises at once, or the strip loop raised) the graph is EXACTLY as
    before. -/
theorem C14_c_api_restore_exact {P R : Type} (f : Option Fault) (ser : G → Option P)
    (func : P → Option R) (g : G) (hwf : WF g) :
    (callOnnxApi f (fun _ => 0) ser func g).1 = g := by
  have hF := Frame.strip f (g.inits.map (·.2)) ⟨g, 0, false, []⟩ (fun _ hi => hi) (Frame.refl _ g)
  have hK := Keep.strip f (g.inits.map (·.2)) ⟨g, 0, false, []⟩ (Keep.refl g)
  simp only [callOnnxApi, renamePrefix, ite_self]
  rw [restore_of_frame hwf hF, hK.tname]

theorem SameUpToTensorNames.wf {g g' : G} (h : SameUpToTensorNames g g') (hwf : WF g) : WF g' :=
  ⟨by rw [h.2.1]; exact hwf.nodup, by rw [h.1, h.2.1]; exact hwf.named⟩

/-- one call of a fault sequence: where the strip loop raises (if it does), how far the
    serialization gets, whether it and the wrapped call succeed -/
structure Call (P R : Type) where
  fault : Option Fault
  reach : G → Nat
  ser : G → Option P
  func : P → Option R

def runCalls {P R : Type} (cs : List (Call P R)) (g : G) : G :=
  cs.foldl (fun g c => (callOnnxApi c.fault c.reach c.ser c.func g).1) g

/-- **C14_c_api_restore_seq**: the same for every SEQUENCE of calls on the same model, each with its
    own fault position and its own outcomes: values, tensors, shapes, types, initializer keys and
    order and inputs are as before the first call. -/
theorem C14_c_api_restore_seq {P R : Type} : ∀ (cs : List (Call P R)) (g : G), WF g →
    (runCalls cs g).val = g.val ∧ (runCalls cs g).inits = g.inits ∧ (runCalls cs g).inputs = g.inputs
  | [], _, _ => ⟨rfl, rfl, rfl⟩
  | c :: cs, g, hwf => by
    have h1 := C14_c_api_restore c.fault c.reach c.ser c.func g hwf
    have ih := C14_c_api_restore_seq cs _ (h1.wf hwf)
    simp only [runCalls, List.foldl_cons] at ih ⊢
    exact ⟨ih.1.trans h1.1, ih.2.1.trans h1.2.1, ih.2.2.trans h1.2.2.1⟩

/-- **C14_c_api_no_fault_outcome**: when no step of the strip loop raises, the call raises exactly
    when the serialization or the wrapped call raises, and otherwise returns the wrapped call's
    result on the serialization of the stripped graph. -/
theorem C14_c_api_no_fault_outcome {P R : Type} (reach : G → Nat) (ser : G → Option P)
    (func : P → Option R) (g : G) :
    (callOnnxApi none reach ser func g).2 =
      match ser (strip none (g.inits.map (·.2)) ⟨g, 0, false, []⟩).g with
      | none => .raised
      | some proto => match func proto with
        | none => .raised
        | some r => .ok r := by
  simp only [callOnnxApi, strip_none_raised, Bool.false_eq_true, if_false]
  cases ser (strip none (g.inits.map (·.2)) ⟨g, 0, false, []⟩).g with
  | none => rfl
  | some p => cases func p <;> rfl

/-- **C14_checker_unchanged**: `CheckerPass.call` leaves the graph as it was on every path (up to
    the tensor names aligned by serialization), and when it returns it returns the input model
    with `modified = False`. -/
theorem C14_checker_unchanged {P : Type} (f : Option Fault) (reach : G → Nat) (ser : G → Option P)
    (check : P → Option Unit) (g : G) (m : ModelId) (hwf : WF g) :
    SameUpToTensorNames g (checkerCall f reach ser check g m).1 ∧
    ((checkerCall f reach ser check g m).2 = .result ⟨m, false⟩ ∨
     (checkerCall f reach ser check g m).2 = .raised .other) := by
  have := C14_c_api_restore f reach ser check g hwf
  unfold checkerCall
  split <;> simp_all

/-- **C14_shape_inference_failure_unchanged**: when anything fails inside `call_onnx_api`,
    `ShapeInferencePass.call` returns `(model, False)` and the graph is as it was. -/
theorem C14_shape_inference_failure_unchanged {P Q : Type} (f : Option Fault) (reach : G → Nat)
    (ser : G → Option P) (infer : P → Option P) (deser : P → Option Q) (merge : G → Q → G × Bool)
    (g : G) (m : ModelId) (hwf : WF g) (hfail : (callOnnxApi f reach ser infer g).2 = .raised) :
    SameUpToTensorNames g (shapeInferenceCall f reach ser infer deser merge g m).1 ∧
    (shapeInferenceCall f reach ser infer deser merge g m).2 = .result ⟨m, false⟩ := by
  have := C14_c_api_restore f reach ser infer g hwf
  unfold shapeInferenceCall
  split
  · simp_all
  · simp_all

/-- **C14_shape_inference_raise_unchanged**: the pass itself raises only when the inferred proto
    cannot be deserialized for the merge; nothing has been written then. -/
theorem C14_shape_inference_raise_unchanged {P Q : Type} (f : Option Fault) (reach : G → Nat)
    (ser : G → Option P) (infer : P → Option P) (deser : P → Option Q) (merge : G → Q → G × Bool)
    (g : G) (m : ModelId) (hwf : WF g) (e : Exc)
    (hr : (shapeInferenceCall f reach ser infer deser merge g m).2 = .raised e) :
    SameUpToTensorNames g (shapeInferenceCall f reach ser infer deser merge g m).1 ∧
    ∃ p, (callOnnxApi f reach ser infer g).2 = .ok p ∧ deser p = none := by
  have := C14_c_api_restore f reach ser infer g hwf
  unfold shapeInferenceCall at hr ⊢
  split at hr
  · simp at hr
  · next g' p hc =>
    split at hr
    · next hd =>
      simp only [hc, hd]
      rw [hc] at this
      exact ⟨this, p, rfl, hd⟩
    · simp at hr

theorem mergeShape_flag (sh : Option Nat) (st : G × Bool) (i : Nat) :
    (mergeShape sh st i).2 = false → st.2 = false ∧ (mergeShape sh st i).1 = st.1 := by
  unfold mergeShape; split <;> simp_all

theorem mergeType_flag (dt : Option Nat) (st : G × Bool) (i : Nat) :
    (mergeType dt st i).2 = false → st.2 = false ∧ (mergeType dt st i).1 = st.1 := by
  unfold mergeType; split <;> simp_all

theorem mergeOne_flag (inf : Inferred) (st : G × Bool) (i : Nat) :
    (mergeOne inf st i).2 = false → st.2 = false ∧ (mergeOne inf st i).1 = st.1 := by
  unfold mergeOne
  split
  · exact fun h => ⟨h, rfl⟩
  · intro h
    have h2 := mergeType_flag _ _ i h
    have h1 := mergeShape_flag _ st i h2.1
    exact ⟨h1.1, h2.2.trans h1.2⟩

theorem mergeVals_flag (inf : Inferred) : ∀ (ids : List Nat) (st : G × Bool),
    ((ids.foldl (mergeOne inf) st).2 = false → st.2 = false ∧ (ids.foldl (mergeOne inf) st).1 = st.1)
  | [], st => fun h => ⟨h, rfl⟩
  | i :: ids, st => by
    intro h
    simp only [List.foldl_cons] at h ⊢
    have ih := mergeVals_flag inf ids (mergeOne inf st i) h
    have h1 := mergeOne_flag inf st i ih.1
    exact ⟨h1.1, ih.2.trans h1.2⟩

/-- **C14_shape_merge_flag**: `_merge_func` reports `False` only if it wrote nothing: the graph it
    returns is the graph it was given. -/
theorem C14_shape_merge_flag (ids : List Nat) (g : G) (inf : Inferred)
    (h : (mergeVals ids g inf).2 = false) : (mergeVals ids g inf).1 = g :=
  (mergeVals_flag inf ids (g, false) h).2

/-- **C14_shape_inference_flag**: whatever happens inside (faults, serialization, inference,
    deserialization), when `ShapeInferencePass.call` with the transcribed merge returns
    `modified = False` the graph is as it was (up to the tensor names aligned by serialization). -/
theorem C14_shape_inference_flag {P : Type} (f : Option Fault) (reach : G → Nat)
    (ser : G → Option P) (infer : P → Option P) (deser : P → Option Inferred) (ids : List Nat)
    (g : G) (m : ModelId) (hwf : WF g) (r : PassResult)
    (hr : (shapeInferenceCall f reach ser infer deser (mergeVals ids) g m).2 = .result r)
    (hm : r.modified = false) :
    SameUpToTensorNames g (shapeInferenceCall f reach ser infer deser (mergeVals ids) g m).1 := by
  have := C14_c_api_restore f reach ser infer g hwf
  unfold shapeInferenceCall at hr ⊢
  split at hr
  · next g' hc => simp only [hc]; rw [hc] at this; exact this
  · next g' p hc =>
    split at hr
    · simp at hr
    · next q hd =>
      simp only [CallRet.result.injEq] at hr
      subst hr
      simp only at hm
      simp only [hc, hd, C14_shape_merge_flag ids g' q hm]
      rw [hc] at this; exact this

end CApi

/-! ## non-vacuity -/
section NonVacuity
open CApi

/-- an honest in-place leaf and a dishonest one over the trivial world -/
def exLeaf (ip same : Bool) : Leaf Unit :=
  ⟨ip, noHook, fun w m => (w, .result ⟨if same then m else m + 1, true⟩), noHook⟩
def exClone : Unit → ModelId → Unit × ModelId := fun w m => (w, m + 100)

-- the hypothesis of C14_identity_rule is satisfiable (in place and functional) ...
example : (Pass.leaf (exLeaf true true)).run exClone () 0 = ((), .ok ⟨0, true⟩) := by rfl
example : (Pass.func (.leaf (exLeaf true true))).run exClone () 0 = ((), .ok ⟨100, true⟩) := by rfl
example : (Pass.mgr [.leaf (exLeaf true true)] 2 true).run exClone () 0 = ((), .ok ⟨0, true⟩) := by rfl
-- ... and the rule bites: a pass breaking its declaration is turned into PassError
example : (Pass.leaf (exLeaf true false)).run exClone () 0 = ((), .error .passError) := by rfl
example : (Pass.leaf (exLeaf false true)).run exClone () 0 = ((), .error .passError) := by rfl

-- C14_rounds / C14_fixpoint: a measure with the two hypotheses exists and the bound is attained:
-- the world is a counter, each round decrements it and reports True while it is positive
def exRound : Nat → ModelId → Res Nat := fun w m => (w - 1, .ok ⟨m, w != 0⟩)
example : ∀ w m w' r, exRound w m = (w', .ok r) → r.modified = true → w' < w := by
  intro w m w' r h hm
  simp only [exRound, Prod.mk.injEq, Except.ok.injEq] at h
  obtain ⟨rfl, rfl⟩ := h
  simp at hm; omega
example : ∀ w m w' r, exRound w m = (w', .ok r) → r.modified = false → w' = w ∧ r.model = m := by
  intro w m w' r h hm
  simp only [exRound, Prod.mk.injEq, Except.ok.injEq] at h
  obtain ⟨rfl, rfl⟩ := h
  simp at hm; simp [hm]
example : (mgrLoop exRound true 10 3 0 false).2.2 = [true, true, true, false] := by decide
example : (mgrLoop exRound true 2 3 0 false).2.2 = [true, true] := by decide  -- steps exhausted first

-- ClearMeta: a dirty state is modified and shrinks, a second application is a no-op
def exCM : ClearMeta.St := ⟨[(0, ⟨2, false⟩), (1, ⟨0, true⟩), (0, ⟨0, false⟩)], [⟨0, true⟩, ⟨0, false⟩, ⟨3, true⟩]⟩
example : (ClearMeta.pass exCM).2 = true ∧ ClearMeta.size exCM = 8 ∧
    ClearMeta.size (ClearMeta.pass exCM).1 = 4 := by decide
example : (ClearMeta.pass (ClearMeta.pass exCM).1).2 = false := by decide

-- sort flag: the length hypothesis holds for permutations; a reordered subgraph is seen
example : sortFlag [[1, 2], [3, 4]] [[1, 2], [4, 3]] = true := by decide
example : sortFlag [[1, 2], [3, 4]] [[1, 2], [3, 4]] = false := by decide

-- RemoveUnusedNodes: an unsorted graph needs two modifying rounds (the measure bound is not trivial)
def exDce : Dce.St := ⟨[⟨0, [some 11], [10]⟩, ⟨1, [some 0, none], [11]⟩, ⟨2, [some 0], [12]⟩], [12], [0], [5]⟩
example : (Dce.removeUnusedNodes exDce).2 = true ∧
    (Dce.removeUnusedNodes (Dce.removeUnusedNodes exDce).1).2 = true ∧
    (Dce.removeUnusedNodes (Dce.removeUnusedNodes (Dce.removeUnusedNodes exDce).1).1).2 = false := by
  decide

-- RemoveInitializersFromInputs: the rewrite fires
example : InitInputs.removeInitializersFromInputs [⟨[1, 2, 3, 2], [2, 5]⟩] = ([⟨[1, 3], [2, 5]⟩], true) := by
  decide

/-- value 0 = input x, 1 = big initializer without shape/type, 2 = small one, 3 = one without tensor -/
def exG : G :=
  ⟨fun i => match i with
    | 0 => ⟨"x", none, some 1, some 1⟩
    | 1 => ⟨"big", some ⟨7, 2400, 2, 1, false⟩, none, none⟩
    | 2 => ⟨"small", some ⟨8, 8, 3, 1, false⟩, none, none⟩
    | 3 => ⟨"nodata", none, some 3, some 1⟩
    | _ => ⟨"", none, none, none⟩,
   [("big", 1), ("small", 2), ("nodata", 3)], [0], fun j => if j = 8 then "original_tensor_name" else "t"⟩

-- WF is satisfiable, and on this graph the strip loop really changes everything the theorem talks about
example : WF exG := ⟨by decide, by decide⟩
example : let s := strip none (exG.inits.map (·.2)) ⟨exG, 0, false, []⟩
    s.g.inits = [("small", 2)] ∧ s.g.inputs = [0, 1, 2, 3] ∧ (s.g.val 1).const = none ∧
    (s.g.val 1).shape = some 2 ∧ (s.g.val 2).type = some 1 := by decide
-- a fault in the middle (step 3 = clearConst of `big`, after its effect) leaves a half-stripped graph ...
example : let s := strip (some ⟨3, true⟩) (exG.inits.map (·.2)) ⟨exG, 0, false, []⟩
    s.raised = true ∧ s.g.inits = exG.inits ∧ (s.g.val 1).const = none ∧ s.g.inputs = [0, 1] := by decide
-- ... and all three failure kinds occur
example : (callOnnxApi (P := ProtoView) (R := Unit) (some ⟨3, true⟩) serReach serView (fun _ => some ()) exG).2
    matches .raised := by decide
example : (callOnnxApi (P := ProtoView) (R := Unit) none serReach (fun _ => none) (fun _ => some ()) exG).2
    matches .raised := by decide
example : (callOnnxApi (P := ProtoView) (R := Unit) none serReach serView (fun _ => none) exG).2
    matches .raised := by decide
example : (callOnnxApi (P := ProtoView) (R := Unit) none serReach serView (fun _ => some ()) exG).2
    matches .ok () := by decide
-- the one permitted difference really occurs: the tensor of `small` (still an initializer when the
-- proto is written) comes back named after its value; the stripped tensor of `big` keeps its name
example : let g' := (callOnnxApi (P := ProtoView) (R := Unit) none serReach serView (fun _ => some ()) exG).1
    g'.tname 8 = "small" ∧ exG.tname 8 = "original_tensor_name" ∧ g'.tname 7 = "t" := by decide
-- ShapeInference: the three exits (swallowed failure, raising deserialization, merge) all occur, and the
-- merge writes (flag True) or does not (flag False)
example : (shapeInferenceCall (P := ProtoView) (Q := Inferred) none serReach serView (fun _ => none)
    (fun _ => some []) (mergeVals [1, 2]) exG 0).2 matches .result ⟨0, false⟩ := by decide
example : (shapeInferenceCall (P := ProtoView) (Q := Inferred) none serReach serView some
    (fun _ => none) (mergeVals [1, 2]) exG 0).2 matches .raised .other := by decide
example : (shapeInferenceCall (P := ProtoView) (Q := Inferred) none serReach serView some
    (fun _ => some [("small", some 3, some 1)]) (mergeVals [1, 2]) exG 0).2 matches .result ⟨0, true⟩ := by
  decide
example : (shapeInferenceCall (P := ProtoView) (Q := Inferred) none serReach serView some
    (fun _ => some [("x", some 1, some 1), ("other", some 9, none)]) (mergeVals [0, 1, 2]) exG 0).2
    matches .result ⟨0, false⟩ := by decide
-- a sequence of three calls with different faults
example : (runCalls (P := ProtoView) (R := Unit)
    [⟨some ⟨3, true⟩, serReach, serView, fun _ => some ()⟩, ⟨none, serReach, fun _ => none, fun _ => some ()⟩,
     ⟨some ⟨0, false⟩, serReach, serView, fun _ => none⟩] exG).inits = exG.inits := by decide

-- manager without early stop runs exactly `steps` rounds; AddInitializersToInputs fires and is then a no-op
example : (mgrLoop exRound false 5 2 0 false).2.2 = [true, true, false, false, false] := by decide
example : InitInputs.addInitializersToInputs [⟨[1, 2], [2, 5]⟩] = ([⟨[1, 2, 5], [2, 5]⟩], true) ∧
    (InitInputs.addInitializersToInputs [⟨[1, 2, 5], [2, 5]⟩]).2 = false := by decide

-- honesty: the hypothesis of the composition theorems holds for a counting leaf (proved inside
-- C14_counting_manager) and fails for a leaf that lies
example : ¬ Honest (fun (w : Nat) m => (w, m + 100)) (fun (w : Nat) (_ : ModelId) => w)
    (.leaf ⟨true, noHook, fun w m => (w + 1, .result ⟨m, false⟩), noHook⟩) := by
  intro h
  have := h 0 0 1 ⟨0, false⟩ (by rfl) rfl
  simp at this

-- C05's models: each flag takes both values, and the measures really drop
section
open IrVerif.Sem IrVerif.Passes IrVerif.PassFlags
def exT : Sem.Tensor := ⟨1, [2], [0, 0, 128, 63, 0, 0, 128, 63], []⟩
/-- x0 input; w1, w2 equal initializers; n: y3 = Add(x0, w1, none-trailing); dead: y4 = Neg(w2) -/
def exM : Model :=
  ⟨.mk [0] [3] [(1, exT), (2, exT)]
    [.mk ⟨"", "Add", ""⟩ [] [some 0, some 1, none] [3] [], .mk ⟨"", "Neg", ""⟩ [] [some 2] [4] []], []⟩
example : dceFlag exM = true ∧ dceCount exM = 3 ∧ dceSize (dceModel exM) + 3 ≤ dceSize exM ∧
    dceFlag (dceModel exM) = false := by decide
example : dedupFlag 1024 exM = true ∧ dedupFlag 1024 (dedupModel 1024 exM) = false ∧
    initsG (dedupModel 1024 exM).graph + 1 = initsG exM.graph := by decide +kernel
end

-- sort pass on C12's model: a reordered nested graph is seen, an ordered model is a fixpoint
section
open IrVerif.Sort
/-- main graph 0: node 1 = If with body graph 1 = [node 3 (uses node 2), node 2] -/
def exSortBad : MGraph := (0, [.mk 1 [] [(1, [.mk 3 [some 2] [], .mk 2 [] []])]])
def exSortGood : MGraph := (0, [.mk 1 [] [(1, [.mk 2 [] [], .mk 3 [some 2] []])]])
example : sortPassFlag [exSortBad] = true ∧ (passEffect [exSortBad]).1 = false := by decide
example : sortPassFlag [exSortGood] = false := by decide
end

end NonVacuity

/-! # Deepening round: flag / fix-point / measure clauses of further built-in passes

IdentityElimination, CSE, LiftSubgraphInitializers and OutputFix on C05's pass models
(`Model/Passes.lean`) with the flag transcribed in `Model/PassFlags2.lean`; NameFix on C15's model of
the pass (`Names.fixModel`, whose second component IS the flag); RemoveUnusedOpsets and
RemoveUnusedFunctions on their own transcriptions (`Model/PassFlags2.lean`).  "Unchanged" means: the
model value is the same value (C05's IR: structure and value identities; names, shapes, types and
metadata are not part of it - for NameFix: every value name, node name and initializer dictionary). -/

/-- **C14_pure_rounds**: a pass that is a pure function `f` of the model state with an honest flag and a
    measure that strictly decreases when the flag is up: a PassManager with `early_stop` around it
    executes at most `μ s + 1` rounds and, given more than `μ s` steps, ends in a state which the pass
    maps to itself reporting `False`. -/
theorem C14_pure_rounds {S : Type} (f : S → S) (flag : S → Bool) (μ : S → Nat)
    (hhon : ∀ s, flag s = false → f s = s) (hdec : ∀ s, flag s = true → μ (f s) < μ s)
    (n : Nat) (s : S) (m : ModelId) :
    let round : S → ModelId → Res S := fun s m => (f s, .ok ⟨m, flag s⟩)
    (mgrLoop round true n s m false).2.2.length ≤ μ s + 1 ∧
    ∀ s' r fl, μ s < n → mgrLoop round true n s m false = (s', .ok r, fl) →
      f s' = s' ∧ flag s' = false := by
  intro round
  have hdec' : ∀ w m w' r, round w m = (w', .ok r) → r.modified = true →
      (fun s (_ : ModelId) => μ s) w' r.model < (fun s (_ : ModelId) => μ s) w m := by
    intro w m w' r h hm
    simp only [round, Prod.mk.injEq, Except.ok.injEq] at h
    obtain ⟨rfl, rfl⟩ := h
    exact hdec w hm
  have hhon' : ∀ w m w' r, round w m = (w', .ok r) → r.modified = false → w' = w ∧ r.model = m := by
    intro w m w' r h hm
    simp only [round, Prod.mk.injEq, Except.ok.injEq] at h
    obtain ⟨rfl, rfl⟩ := h
    exact ⟨hhon w hm, rfl⟩
  refine ⟨C14_rounds round (fun s _ => μ s) hdec' n s m false, fun s' r fl hn h => ?_⟩
  have := (C14_fixpoint round (fun s _ => μ s) hdec' hhon' n s s' m false r fl hn h).2
  simp only [round, Prod.mk.injEq, Except.ok.injEq, PassResult.mk.injEq, true_and] at this
  exact this

/-- **C14_idempotent_rounds**: if one application of the round always reaches a state on which the
    round reports `False` (the pass is idempotent), a PassManager with `early_stop` executes at most
    two rounds, whatever `steps` is. -/
theorem C14_idempotent_rounds {W : Type} (round : W → ModelId → Res W)
    (hidem : ∀ w m w' r, round w m = (w', .ok r) →
      ∃ w'', round w' r.model = (w'', .ok ⟨r.model, false⟩))
    (n : Nat) (w : W) (m : ModelId) (acc : Bool) :
    (mgrLoop round true n w m acc).2.2.length ≤ 2 := by
  let μ : W → ModelId → Nat := fun w m =>
    match round w m with
    | (_, .ok r) => if r.modified then 1 else 0
    | (_, .error _) => 0
  have hdec : ∀ w m w' r, round w m = (w', .ok r) → r.modified = true → μ w' r.model < μ w m := by
    intro w m w' r h hm
    obtain ⟨w'', h2⟩ := hidem w m w' r h
    simp [μ, h, h2, hm]
  have hle : μ w m ≤ 1 := by
    simp only [μ]
    split
    · split <;> omega
    · omega
  have := C14_rounds round μ hdec n w m acc
  omega

section C05Models2
open IrVerif.Sem IrVerif.Passes IrVerif.PassFlags

/-! ## IdentityEliminationPass -/

/-- **C14_flag_identity**: IdentityEliminationPass (C05's model: main graph, all nested graphs, all
    functions; flag = some `_try_eliminate_identity_node` returned True) reports `modified = False`
    only if the model it returns is the model it was given. -/
theorem C14_flag_identity (m : Model) (h : ieFlag m = false) : ieModel m = m := by
  simp only [ieFlag, bne_eq_false_iff_eq, ieCount] at h
  have h1 : ieCntG (iiG m.graph ++ m.funcs.flatMap iiG) [] m.graph = 0 := by omega
  have h3 : (m.funcs.map (ieCntG (iiG m.graph ++ m.funcs.flatMap iiG) [])).sum = 0 := by omega
  have hf : m.funcs.map (ieG (iiG m.graph ++ m.funcs.flatMap iiG) []) = m.funcs := by
    have := sum_map_zero _ m.funcs h3
    conv => rhs; rw [← List.map_id m.funcs]
    exact List.map_congr_left (fun f hf => ieG_cnt0 _ f (this f hf))
  cases m with
  | mk g fs =>
    simp only at h1 hf
    simp only [ieModel, ieG_cnt0 _ g h1, hf]

/-- **C14_measure_identity**: every elimination removes a node and nothing is added: the number of
    nodes (main graph, functions, all nested graphs) drops by at least the number of eliminations, so
    `modified = True` strictly decreases it (hypothesis of `C14_rounds` / `C14_pure_rounds`). -/
theorem C14_measure_identity (m : Model) : nodesM (ieModel m) + ieCount m ≤ nodesM m ∧
    (ieFlag m = true → nodesM (ieModel m) < nodesM m) := by
  have key : nodesM (ieModel m) + ieCount m ≤ nodesM m := by
    have h1 := ieG_nodes (iiG m.graph ++ m.funcs.flatMap iiG) [] m.graph
    have h2 := ie_funcs_nodes (iiG m.graph ++ m.funcs.flatMap iiG) m.funcs
    simp only [nodesM, ieCount, ieModel]
    omega
  refine ⟨key, fun h => ?_⟩
  simp only [ieFlag, bne_iff_ne, ne_eq] at h
  omega

/-- **C14_fix_identity**: on a well-formed model (C05's `validModel`: SSA, closed, topologically ordered,
    scoped - evaluated by the driver on every case) in which Identity nodes hold no graph attributes,
    IdentityEliminationPass applied to its own result reports `False` and returns it unchanged: every
    Identity node the pass leaves behind is blocked by a keep rule (3 / 3b / 3c) that still applies to the
    result, because the values it mentions are produced before it and are therefore never renamed later. -/
theorem C14_fix_identity (m : Model) (hv : validModel m = true) (hn : idNoBodies m = true) :
    ieFlag (ieModel m) = false ∧ ieModel (ieModel m) = ieModel m := by
  have h : ieFlag (ieModel m) = false := by
    simp only [validModel, Bool.and_eq_true] at hv
    simp only [idNoBodies, Bool.and_eq_true] at hn
    have hg := hv.1
    simp only [validG, Bool.and_eq_true] at hg
    have e1 := ieG_ii (iiG m.graph ++ m.funcs.flatMap iiG) m.graph [] hn.1
    have e2 := flatMap_ii (iiG m.graph ++ m.funcs.flatMap iiG) m.funcs hn.2
    have c1 := ieStableG_cnt0 (iiG m.graph ++ m.funcs.flatMap iiG) _
      (ieG_stable (iiG m.graph ++ m.funcs.flatMap iiG) m.graph [] hg.1.1.1 hg.1.2 (by simp))
    have c2 := funcs_stable (iiG m.graph ++ m.funcs.flatMap iiG) m.funcs hv.2
    simp only [ieFlag, ieCount, ieModel, e1, e2, c1, c2, bne_self_eq_false]
  exact ⟨h, C14_flag_identity _ h⟩

/-- **C14_rounds_identity**: hence `PassManager([IdentityEliminationPass()], steps, early_stop=True)`
    on the model level stops within `#nodes + 1` rounds in a model the pass leaves unchanged. -/
theorem C14_rounds_identity (n : Nat) (s : Model) (m : ModelId) :
    let round : Model → ModelId → Res Model := fun s m => (ieModel s, .ok ⟨m, ieFlag s⟩)
    (mgrLoop round true n s m false).2.2.length ≤ nodesM s + 1 ∧
    ∀ s' r fl, nodesM s < n → mgrLoop round true n s m false = (s', .ok r, fl) →
      ieModel s' = s' ∧ ieFlag s' = false :=
  C14_pure_rounds ieModel ieFlag nodesM C14_flag_identity (fun s => (C14_measure_identity s).2) n s m

/-! ## CommonSubexpressionEliminationPass -/

/-- **C14_flag_cse**: CSE (C05's model, main graph) reports `modified = False` only if the model is
    returned as it was. -/
theorem C14_flag_cse (limit : Nat) (m : Model) (h : cseFlag limit m = false) : cseModel limit m = m := by
  cases m with
  | mk g fs =>
    cases g with
    | mk inputs outputs inits nodes =>
      simp only [cseFlag, bne_eq_false_iff_eq, cseCount, Graph.inputs, Graph.outputs, Graph.nodes] at h
      simp only [cseModel, cseNodes_cnt0 limit inputs nodes [] outputs h]

/-- **C14_measure_cse_partial**: exact accounting of the node list of the main graph: one node leaves per
    elimination (`modified = True` site), one Identity node enters for every graph output whose
    replacement is itself a graph output or input.  Hence when the pass reports `True` and had to insert
    no Identity node (decidable; evaluated and counted by the harness) the number of nodes strictly
    decreased.  PARTIAL: no measure is proved for rounds that insert Identity nodes (there the node
    count can stay or grow; the pass is then not idempotent either, see the example below) - that part of
    the convergence clause stays with the oracle. -/
theorem C14_measure_cse_partial (limit : Nat) (m : Model) :
    (cseModel limit m).graph.nodes.length + cseCount limit m = m.graph.nodes.length + cseInserted limit m ∧
    (cseFlag limit m = true → cseInserted limit m = 0 →
      (cseModel limit m).graph.nodes.length < m.graph.nodes.length) := by
  have key : (cseModel limit m).graph.nodes.length + cseCount limit m =
      m.graph.nodes.length + cseInserted limit m := by
    cases m with
    | mk g fs =>
      cases g with
      | mk inputs outputs inits nodes =>
        simp only [cseModel, cseCount, cseInserted, Graph.inputs, Graph.outputs, Graph.nodes]
        exact cseNodes_length limit inputs nodes [] [] outputs
  refine ⟨key, fun h h0 => ?_⟩
  simp only [cseFlag, bne_iff_ne, ne_eq] at h
  omega

/-- **C14_measure_cse_weighted_partial** (stronger than the strict part of `C14_measure_cse_partial`): with
    the weight 1 for an `Identity` node with one output and 1 + #outputs for every other node, every
    elimination lowers the weight of the main graph's node list - also when Identity nodes are inserted,
    because at most one is inserted per output of the eliminated node - EXCEPT the elimination of a one-output
    `Identity` node that is replaced by another Identity node (`cseStalled`, decidable, evaluated and counted
    by the harness).  Hence `modified = True` with no such rewrite strictly decreases the weight.  PARTIAL:
    for rounds with such a rewrite (`exCse3` below from its second round on) no measure is proved. -/
theorem C14_measure_cse_weighted_partial (limit : Nat) (m : Model) :
    cseW (cseModel limit m).graph.nodes + cseCount limit m ≤ cseW m.graph.nodes + cseStalled limit m ∧
    (cseFlag limit m = true → cseStalled limit m = 0 →
      cseW (cseModel limit m).graph.nodes < cseW m.graph.nodes) := by
  have key : cseW (cseModel limit m).graph.nodes + cseCount limit m ≤ cseW m.graph.nodes + cseStalled limit m := by
    cases m with
    | mk g fs =>
      cases g with
      | mk inputs outputs inits nodes =>
        simp only [cseModel, cseCount, cseStalled, Graph.inputs, Graph.outputs, Graph.nodes]
        exact cseNodes_weight limit inputs nodes [] [] outputs
  refine ⟨key, fun h h0 => ?_⟩
  simp only [cseFlag, bne_iff_ne, ne_eq] at h
  omega

/-! ## LiftSubgraphInitializersToMainGraphPass -/

/-- **C14_flag_lift_sub_inits**: `modified = False` only if the model is returned as it was. -/
theorem C14_flag_lift_sub_inits (m : Model) (h : lsiFlag m = false) : lsiModel m = m := by
  cases m with
  | mk g fs =>
    cases g with
    | mk inputs outputs inits nodes =>
      simp only [lsiFlag, bne_eq_false_iff_eq, lsiCount, Graph.nodes] at h
      have h0 : (lsiNodes nodes).2 = [] := List.eq_nil_of_length_eq_zero h
      simp only [lsiModel, h0, List.append_nil, lsiNodes_nil nodes h0]

/-- **C14_fix_lift_sub_inits**: the pass applied to its own result reports `False` and returns it
    unchanged (one round reaches the fixpoint). -/
theorem C14_fix_lift_sub_inits (m : Model) :
    lsiFlag (lsiModel m) = false ∧ lsiModel (lsiModel m) = lsiModel m := by
  cases m with
  | mk g fs =>
    cases g with
    | mk inputs outputs inits nodes =>
      have hi := lsiNodes_idem nodes
      refine ⟨?_, ?_⟩
      · simp only [lsiFlag, lsiCount, lsiModel, Graph.nodes, hi, List.length_nil, bne_self_eq_false]
      · simp only [lsiModel, hi, List.append_nil]

/-- **C14_measure_lift_sub_inits**: every lifted initializer leaves a graph below the main graph, so the
    number of initializers held below the main graph drops by exactly the count; `True` strictly
    decreases it. -/
theorem C14_measure_lift_sub_inits (m : Model) : subInits (lsiModel m) + lsiCount m = subInits m ∧
    (lsiFlag m = true → subInits (lsiModel m) < subInits m) := by
  have key : subInits (lsiModel m) + lsiCount m = subInits m := by
    cases m with
    | mk g fs =>
      cases g with
      | mk inputs outputs inits nodes =>
        simp only [subInits, lsiModel, lsiCount, Graph.nodes]
        exact lsiNodes_inits nodes
  refine ⟨key, fun h => ?_⟩
  simp only [lsiFlag, bne_iff_ne, ne_eq] at h
  omega

/-! ## OutputFixPass -/

/-- **C14_flag_output_fix**: `modified = False` only if the model is returned as it was. -/
theorem C14_flag_output_fix (m : Model) (h : ofixFlag m = false) : ofixModel m = m := by
  simp only [ofixFlag, bne_eq_false_iff_eq, ofixCount] at h
  have h1 := ofixG_cnt0 (ginsG m.graph ++ ginsBodies m.funcs) m.graph (freshId m) (by omega)
  simp only [h1] at h
  have h2 := ofixBodies_cnt0 (ginsG m.graph ++ ginsBodies m.funcs) m.funcs (freshId m) (by omega)
  cases m with
  | mk g fs =>
    simp only at h1 h2
    simp only [ofixModel, h1, h2]

theorem ofixCount_ofixModel (m : Model) : ofixCount (ofixModel m) = 0 := by
  have hgi : ∀ v ∈ ginsG m.graph ++ ginsBodies m.funcs, v < freshId m := by
    intro v hv
    apply lt_freshId_of_mem
    simp only [List.mem_append] at hv ⊢
    rcases hv with hv | hv
    · exact Or.inl (Or.inl (Or.inr (ginsG_sub_defs _ hv)))
    · exact Or.inr (ginsBodies_sub_defs _ hv)
  have hbg : ∀ v ∈ boutsG m.graph, v < freshId m := by
    intro v hv
    apply lt_freshId_of_mem
    simp only [List.mem_append]
    exact Or.inl (Or.inl (Or.inl ((mem_refsG v m.graph).2 (Or.inr hv))))
  have hbf : ∀ v ∈ boutsBodies m.funcs, v < freshId m := by
    intro v hv
    apply lt_freshId_of_mem
    simp only [List.mem_append]
    exact Or.inl (Or.inr ((mem_refsBodies v m.funcs).2 (Or.inr hv)))
  have hm := ofixG_mono (ginsG m.graph ++ ginsBodies m.funcs) m.graph (freshId m)
  have c1 := ofixG_clean (ginsG m.graph ++ ginsBodies m.funcs) m.graph (freshId m) hgi hbg
  have c2 := ofixBodies_clean (ginsG m.graph ++ ginsBodies m.funcs) m.funcs _
    (fun v hv => Nat.lt_of_lt_of_le (hgi v hv) hm) (fun v hv => Nat.lt_of_lt_of_le (hbf v hv) hm)
  simp only [ofixCount, ofixModel, ofixG_gins, ofixBodies_gins, c1, c2]

/-- **C14_fix_output_fix**: the pass applied to its own result reports `False` and returns it unchanged:
    after one application every output list (main graph, functions, every nested graph) is duplicate
    free and holds no graph input, because the new Identity outputs are fresh. -/
theorem C14_fix_output_fix (m : Model) :
    ofixFlag (ofixModel m) = false ∧ ofixModel (ofixModel m) = ofixModel m := by
  have h : ofixFlag (ofixModel m) = false := by
    simp only [ofixFlag, ofixCount_ofixModel, bne_self_eq_false]
  exact ⟨h, C14_flag_output_fix _ h⟩

/-- **C14_measure_output_fix**: the number of Identity nodes the pass would insert (repeated outputs
    and outputs that are graph inputs, over all graphs) is a measure: it is 0 after the pass, so
    `True` strictly decreases it and two rounds always suffice. -/
theorem C14_measure_output_fix (m : Model) : ofixCount (ofixModel m) = 0 ∧
    (ofixFlag m = true → ofixCount (ofixModel m) < ofixCount m) := by
  refine ⟨ofixCount_ofixModel m, fun h => ?_⟩
  simp only [ofixFlag, bne_iff_ne, ne_eq] at h
  rw [ofixCount_ofixModel]
  omega

/-! ## ordered stays ordered for the passes that only delete -/

/-- **C14_keeps_sorted_delete**: a model all of whose graphs are topologically ordered (`sortedModel`: C05's
    `noFwdG` for the main graph and every function, nested graphs included) is still ordered after
    RemoveUnusedNodes, LiftConstantsToInitializers (any setting), LiftSubgraphInitializersToMainGraph,
    RemoveInitializersFromInputs and AddInitializersToInputs (C05's models): these passes only delete nodes,
    trailing empty inputs and initializers of nested graphs, or touch the input list.  (Passes that
    substitute values or add nodes - IdentityElimination, CSE, Deduplicate, OutputFix - : oracle only.) -/
theorem C14_keeps_sorted_delete (m : Model) (h : sortedModel m = true) :
    sortedModel (dceModel m) = true ∧ (∀ la lim, sortedModel (liftConstModel la lim m) = true) ∧
    sortedModel (lsiModel m) = true ∧ sortedModel (rmInitInputsModel m) = true ∧
    sortedModel (addInitInputsModel m) = true := by
  simp only [sortedModel, Bool.and_eq_true] at h
  cases m with
  | mk g fs =>
    cases g with
    | mk inputs outputs inits nodes =>
      simp only at h
      refine ⟨?_, fun la lim => ?_, ?_, ?_, ?_⟩
      · have hg := (dceG_shrink (.mk inputs outputs inits nodes)).2.2 h.1
        simp only [sortedModel, dceModel, Bool.and_eq_true]
        refine ⟨?_, all_noFwd_map _ (fun f => (dceG_shrink f).2.2) fs h.2⟩
        simp only [dceG, noFwdG, Graph.nodes] at hg ⊢
        exact hg
      · simp only [sortedModel, liftConstModel, Bool.and_eq_true]
        exact ⟨(liftG_shrink la lim _).2.2 h.1, h.2⟩
      · simp only [sortedModel, lsiModel, Bool.and_eq_true, noFwdG] at h ⊢
        exact ⟨(lsiNodes_shrink nodes).noFwd h.1, h.2⟩
      · simp only [sortedModel, rmInitInputsModel, mapInputsTop, Bool.and_eq_true, noFwdG] at h ⊢
        exact h
      · simp only [sortedModel, addInitInputsModel, mapInputsTop, Bool.and_eq_true, noFwdG] at h ⊢
        exact h

/-- **C14_keeps_sorted_subst**: the same for two passes that delete AND substitute values.
    IdentityElimination: every value a remaining node reads after the pass is a value it read before or the
    input of an eliminated Identity node that stood before it, and an ordered graph defines neither at or
    after the node - no hypothesis besides orderedness.  Deduplicate(Hashed)Initializers: a duplicate is
    replaced by an initializer of the same or an enclosing graph, which no node defines when value ids are
    identities (`ssaG`, evaluated by the driver).  (CSE and OutputFix, which also ADD nodes: oracle only.) -/
theorem C14_keeps_sorted_subst (m : Model) (h : sortedModel m = true) :
    sortedModel (ieModel m) = true ∧
    (∀ lim, ssaG m.graph = true → sortedModel (dedupModel lim m) = true) := by
  simp only [sortedModel, Bool.and_eq_true] at h
  refine ⟨?_, fun lim hs => ?_⟩
  · simp only [sortedModel, ieModel, Bool.and_eq_true]
    exact ⟨ieG_noFwd _ m.graph [] h.1 (by simp),
      all_noFwd_map _ (fun f hf => ieG_noFwd _ f [] hf (by simp)) m.funcs h.2⟩
  · simp only [sortedModel, dedupModel, Bool.and_eq_true]
    exact ⟨dedupG_noFwd lim m.graph [] hs h.1 (by simp), h.2⟩

end C05Models2

/-! ## NameFixPass on C15's model of the pass -/
section NameFix
open IrVerif.Names

/-- **C14_flag_namefix**: when `NameFixPass.call` (C15's `fixModel`: main graph, then every function)
    returns without an exception and reports `modified = False`, no value name, no node name and no
    initializer dictionary changed: the world is the world it was given.  No hypothesis on the model. -/
theorem C14_flag_namefix (w : World) (tops : List Top) (hm : (fixModel w tops).2.1 = false)
    (hr : (fixModel w tops).2.2 = false) : (fixModel w tops).1 = w :=
  fixModel_quiet tops w hm hr

/-- **C14_fix_namefix**: on a well-formed model (C15's `PassWF`: initializers keyed by their names,
    every top-level graph closed, well scoped, without repeated node objects, top-level graphs
    disjoint) the pass applied to its own result changes nothing, reports `False` and does not raise
    (= `C15_namefix_idempotent`), so a PassManager with `early_stop` needs at most two rounds
    (`C14_idempotent_rounds`). -/
theorem C14_fix_namefix (w : World) (tops : List Top) (wf : PassWF w tops) :
    fixModel (fixModel w tops).1 tops = ((fixModel w tops).1, false, false) ∧
    (fixModel w tops).2.2 = false :=
  ⟨C15_namefix_idempotent w tops wf, (C15_namefix_post w tops wf).2.1⟩

end NameFix

/-! ## RemoveUnusedOpsetsPass / RemoveUnusedFunctionsPass (own transcriptions) -/
section Unused
open IrVerif.PassFlags

/-- **C14_unused_opsets_contract**: RemoveUnusedOpsetsPass (both settings of `process_functions`)
    reports `False` only if every `opset_imports` is unchanged; applied to its own result it reports
    `False` and changes nothing; `True` strictly decreases the number of opset imports. -/
theorem C14_unused_opsets_contract (pf : Bool) (s : OpsetSt) :
    ((removeUnusedOpsets pf s).2 = false → (removeUnusedOpsets pf s).1 = s) ∧
    removeUnusedOpsets pf (removeUnusedOpsets pf s).1 = ((removeUnusedOpsets pf s).1, false) ∧
    ((removeUnusedOpsets pf s).2 = true → opsetSize (removeUnusedOpsets pf s).1 < opsetSize s) := by
  cases s with
  | mk main funcs =>
    cases pf
    · refine ⟨fun h => ?_, ?_, fun h => ?_⟩
      · simp only [removeUnusedOpsets, Bool.false_eq_true, if_false] at h ⊢
        rw [opsetsGL_false _ main h]
      · simp only [removeUnusedOpsets, Bool.false_eq_true, if_false, opsetsGL_idem]
      · simp only [removeUnusedOpsets, Bool.false_eq_true, if_false, opsetSize] at h ⊢
        have := (opsetsGL_size ("" :: funcs.map Prod.fst) main).2 h
        omega
    · obtain ⟨i1, i2, i3⟩ := funcs_idem funcs
      refine ⟨fun h => ?_, ?_, fun h => ?_⟩
      · simp only [removeUnusedOpsets, if_true, Bool.or_eq_false_iff] at h ⊢
        rw [opsetsGL_false _ main h.1, funcs_false funcs h.2]
      · simp only [removeUnusedOpsets, if_true, i1, i2, i3, opsetsGL_idem, Bool.or_self]
      · simp only [removeUnusedOpsets, if_true, Bool.or_eq_true, opsetSize] at h ⊢
        have a := opsetsGL_size ("" :: funcs.map Prod.fst) main
        have b := funcs_size funcs
        rcases h with h | h
        · have := a.2 h; omega
        · have := b.2 h; omega

/-- **C14_unused_functions_flag**: RemoveUnusedFunctionsPass reports `False` only if `model.functions`
    is unchanged. -/
theorem C14_unused_functions_flag (s : FnSt) (h : (removeUnusedFunctions s).2 = false) :
    (removeUnusedFunctions s).1 = s := by
  cases s with
  | mk main funcs =>
    simp only [removeUnusedFunctions] at h ⊢
    rw [filter_of_any_false _ funcs h]

/-- **C14_unused_functions_measure**: ... and `True` strictly decreases the number of functions
    (hypothesis of `C14_rounds`). -/
theorem C14_unused_functions_measure (s : FnSt) (h : (removeUnusedFunctions s).2 = true) :
    (removeUnusedFunctions s).1.funcs.length < s.funcs.length := by
  cases s with
  | mk main funcs =>
    simp only [removeUnusedFunctions] at h ⊢
    exact filter_lt_of_any _ funcs h

/-- **C14_fix_unused_functions**: the pass applied to its own result reports `False` and removes nothing:
    the traversal of the reduced table visits exactly the functions it visited before (a function is
    only ever looked up after it was reached, and every reached function survived), with enough fuel. -/
theorem C14_fix_unused_functions (s : FnSt) :
    removeUnusedFunctions (removeUnusedFunctions s).1 = ((removeUnusedFunctions s).1, false) := by
  have hU := fnUsed_filtered s
  simp only [removeUnusedFunctions, hU, List.filter_filter, Bool.and_self, any_not_filter]

end Unused

namespace NonVacuity2
open IrVerif.Sem IrVerif.Passes IrVerif.PassFlags

/-- x0 input; y1 = Identity(x0); y2 = Relu(y1); output y2: the Identity is eliminated -/
def exIe : Model :=
  ⟨.mk [0] [2] [] [.mk ⟨"", "Identity", ""⟩ [] [some 0] [1] [], .mk ⟨"", "Relu", ""⟩ [] [some 1] [2] []], []⟩
example : ieFlag exIe = true ∧ nodesM (ieModel exIe) + 1 = nodesM exIe ∧ ieFlag (ieModel exIe) = false := by
  decide
example : validModel exIe = true ∧ idNoBodies exIe = true := by decide
/-- ... whereas an Identity from a graph input to a graph output is kept (rule 3): flag False -/
def exIeKeep : Model := ⟨.mk [0] [1] [] [.mk ⟨"", "Identity", ""⟩ [] [some 0] [1] []], []⟩
example : ieFlag exIeKeep = false := by decide

/-- a = Relu(x0), b = Relu(x0), c = Add(a, b): b is merged into a, no Identity needed -/
def exCse : Model :=
  ⟨.mk [0] [3] [] [.mk ⟨"", "Relu", ""⟩ [] [some 0] [1] [], .mk ⟨"", "Relu", ""⟩ [] [some 0] [2] [],
    .mk ⟨"", "Add", ""⟩ [] [some 1, some 2] [3] []], []⟩
example : cseFlag 10 exCse = true ∧ cseInserted 10 exCse = 0 ∧ cseFlag 10 (cseModel 10 exCse) = false := by
  decide
/-- three equal Relu nodes whose outputs are all graph outputs: the first round replaces two of them by
    Identity nodes reading the first one (node count unchanged, hypothesis `cseInserted = 0` fails),
    and these two are a common subexpression of the SECOND round: the pass is not idempotent and the
    node count is no measure here -/
def exCse3 : Model :=
  ⟨.mk [0] [1, 2, 3] [] [.mk ⟨"", "Relu", ""⟩ [] [some 0] [1] [], .mk ⟨"", "Relu", ""⟩ [] [some 0] [2] [],
    .mk ⟨"", "Relu", ""⟩ [] [some 0] [3] []], []⟩
example : cseStalled 10 exCse3 = 0 ∧ cseW (cseModel 10 exCse3).graph.nodes < cseW exCse3.graph.nodes ∧
    cseStalled 10 (cseModel 10 exCse3) = 1 := by decide
example : cseFlag 10 exCse3 = true ∧ cseInserted 10 exCse3 = 2 ∧
    (cseModel 10 exCse3).graph.nodes.length = exCse3.graph.nodes.length ∧
    cseFlag 10 (cseModel 10 exCse3) = true ∧
    cseFlag 10 (cseModel 10 (cseModel 10 exCse3)) = false := by decide

def exTen : Sem.Tensor := ⟨1, [1], [0, 0, 128, 63], []⟩
/-- an If-like node whose body holds an initializer that is neither input nor output of the body -/
def exLsi : Model :=
  ⟨.mk [0] [2] [] [.mk ⟨"", "If", ""⟩ [] [some 0] [2]
    [.mk [] [4] [(3, exTen)] [.mk ⟨"", "Neg", ""⟩ [] [some 3] [4] []]]], []⟩
example : lsiFlag exLsi = true ∧ subInits exLsi = 1 ∧ subInits (lsiModel exLsi) = 0 := by decide

/-- the input is an output, twice -/
def exOfix : Model := ⟨.mk [0] [0, 0] [] [], []⟩
example : ofixFlag exOfix = true ∧ ofixCount exOfix = 2 ∧ (ofixModel exOfix).graph.nodes.length = 2 := by
  decide
example : ofixFlag exIe = false := by decide
example : sortedModel exIe = true ∧ sortedModel exLsi = true := by decide
/-- a model that is not ordered: the consumer comes first -/
example : sortedModel ⟨.mk [0] [2] [] [.mk ⟨"", "Relu", ""⟩ [] [some 1] [2] [],
    .mk ⟨"", "Neg", ""⟩ [] [some 0] [1] []], []⟩ = false := by decide

example : (removeUnusedOpsets true ⟨⟨["", "a", "b"], ["a"]⟩, [("f", ⟨["", "c"], [""]⟩)]⟩) =
    (⟨⟨["", "a"], ["a"]⟩, [("f", ⟨[""], [""]⟩)]⟩, true) := by decide
example : (removeUnusedOpsets false ⟨⟨["", "f"], []⟩, [("f", ⟨["c"], []⟩)]⟩).2 = false := by decide

/-- main calls f1, f1 calls f2, f3 is unused (and calls f1) -/
example : removeUnusedFunctions ⟨[7, 1], [(1, [2, 9]), (2, []), (3, [1])]⟩ =
    (⟨[7, 1], [(1, [2, 9]), (2, [])]⟩, true) := by decide
example : (removeUnusedFunctions ⟨[1], [(1, [2]), (2, [1])]⟩).2 = false := by decide
/-- the fuel of `fnUsed` is enough on a chain that is as long as the table -/
example : (removeUnusedFunctions ⟨[3], [(1, []), (2, [1]), (3, [2, 2]), (4, [3])]⟩).1.funcs.map Prod.fst = [1, 2, 3] := by
  decide

end NonVacuity2

/-! # Second deepening round -/

/-! ## InlinePass on C05's model of the pass -/
section Inline
open IrVerif.Sem IrVerif.Passes IrVerif.Inline IrVerif.PassFlags

theorem sum_zero_of_all {α : Type} (f : α → Nat) : ∀ l : List α, (∀ a ∈ l, f a = 0) → (l.map f).sum = 0
  | [], _ => rfl
  | a :: l, h => by
    simp only [List.map_cons, List.sum_cons, h a (by simp), sum_zero_of_all f l (fun b hb => h b (by simp [hb]))]

theorem all_of_sum_zero {α : Type} (f : α → Nat) : ∀ l : List α, (l.map f).sum = 0 → ∀ a ∈ l, f a = 0
  | [], _, a, ha => by cases ha
  | x :: l, h, a, ha => by
    simp only [List.map_cons, List.sum_cons] at h
    rcases List.mem_cons.1 ha with rfl | ha'
    · omega
    · exact all_of_sum_zero f l (by omega) a ha'

/-- the measure is 0 exactly when no accepted call is left anywhere -/
theorem inlCalls_zero_iff (crit : OpId → Bool) (m : FModel) :
    inlCalls crit m = 0 ↔ (opsAllG (inlClean m.funcs crit) m.graph = true ∧
      ∀ f ∈ m.funcs, opsAllNodes (inlClean m.funcs crit) f.nodes = true) := by
  simp only [inlCalls, Nat.add_eq_zero_iff]
  constructor
  · rintro ⟨h1, h2⟩
    exact ⟨(opCntG_zero _ _).1 h1, fun f hf => (opCntNodes_zero _ _).1 (all_of_sum_zero _ _ h2 f hf)⟩
  · rintro ⟨h1, h2⟩
    exact ⟨(opCntG_zero _ _).2 h1, sum_zero_of_all _ _ (fun f hf => (opCntNodes_zero _ _).2 (h2 f hf))⟩

/-- **C14_flag_inline**: InlinePass (C05's model of the pass: main graph, nested graphs, the nodes inserted for a
    call, the functions that are left; any criteria) reports `modified = False` - `total_inlined == 0` - only if
    the model it returns is the model it was given (structure, value identities, function table, opset domains).
    `funcIdsNodup`: `model.functions` is a dictionary (evaluated by the driver on every case). -/
theorem C14_flag_inline (crit : OpId → Bool) (m : FModel) (hn : funcIdsNodup m = true)
    (h : inlFlag crit m = false) : (inlineRun crit m).model = m ∧ inlineModel crit m = m := by
  simp only [funcIdsNodup, decide_eq_true_eq] at hn
  simp only [inlFlag, bne_eq_false_iff_eq] at h
  have e := inlineRun_cnt0 crit m hn h
  refine ⟨e, ?_⟩
  unfold inlineModel
  split
  · exact e
  · rfl

/-- **C14_measure_inline**: the number of call nodes the pass would inline (calls to model-local functions that
    the criteria accept; main graph, every function, nested graphs) is a measure: after a run that is not
    `stuck` (the unrolling budget of the MODEL sufficed: always the case for a non-recursive call graph, see
    `C14_inline_valid`) it is 0 - no accepted call is left in the main graph or in a function that remains -
    so `modified = True` strictly decreases it. -/
theorem C14_measure_inline (crit : OpId → Bool) (m : FModel) (hn : funcIdsNodup m = true)
    (hs : (inlineRun crit m).st.stuck = false) :
    inlCalls crit (inlineRun crit m).model = 0 ∧
    (inlFlag crit m = true → inlCalls crit (inlineRun crit m).model < inlCalls crit m) := by
  simp only [funcIdsNodup, decide_eq_true_eq] at hn
  have hc := inlineRun_clean crit m hs
  have hsub : ∀ op, inlClean m.funcs crit op = true → inlClean (inlineRun crit m).model.funcs crit op = true := by
    intro op hop
    simp only [inlClean, Bool.not_eq_true', Bool.and_eq_false_iff] at hop ⊢
    rcases hop with hop | hop
    · exact Or.inl hop
    · right
      cases hh : (findFunc (inlineRun crit m).model.funcs op).isSome with
      | false => rfl
      | true =>
        have := (findFunc_isSome _ _).2 (inlineRun_ids_sub crit m op ((findFunc_isSome _ _).1 hh))
        rw [this] at hop; exact absurd hop (by decide)
  have h0 : inlCalls crit (inlineRun crit m).model = 0 :=
    (inlCalls_zero_iff crit _).2 ⟨PassFlags.opsAllG_mono hsub _ hc.1, fun f hf => PassFlags.opsAllNodes_mono hsub _ (hc.2 f hf)⟩
  refine ⟨h0, fun hf => ?_⟩
  rw [h0]
  apply Nat.pos_of_ne_zero
  intro hz
  obtain ⟨hg, hfs⟩ := (inlCalls_zero_iff crit m).1 hz
  have := (inlineRun_id crit m hn hg hfs).2.1
  simp [inlFlag, this] at hf

/-- **C14_fix_inline**: InlinePass applied to the result of a run that was not stuck reports `False`, returns
    that model unchanged and is itself not stuck: one round reaches the fixpoint, a PassManager with `early_stop`
    executes at most two rounds (`C14_idempotent_rounds`). -/
theorem C14_fix_inline (crit : OpId → Bool) (m : FModel) (hn : funcIdsNodup m = true)
    (hs : (inlineRun crit m).st.stuck = false) :
    inlFlag crit (inlineRun crit m).model = false ∧
    (inlineRun crit (inlineRun crit m).model).model = (inlineRun crit m).model ∧
    (inlineRun crit (inlineRun crit m).model).st.stuck = false ∧
    funcIdsNodup (inlineRun crit m).model = true := by
  have h0 := (C14_measure_inline crit m hn hs).1
  simp only [funcIdsNodup, decide_eq_true_eq] at hn ⊢
  have hn' := inlineRun_ids_nodup crit m hn
  obtain ⟨hg, hfs⟩ := (inlCalls_zero_iff crit _).1 h0
  obtain ⟨e1, e2, e3⟩ := inlineRun_id crit _ hn' hg hfs
  exact ⟨by simp [inlFlag, e2], e1, e3, hn'⟩

/-- **C14_inline_valid**: on a model that satisfies C05's `validF` (SSA, closed, ordered, scoped graphs; distinct
    function identifiers; non-recursive call graph; calls that fit their functions - evaluated by the driver on
    every case) and on which the pass does not raise, everything above holds of `inlineModel`, the function that
    the driver compares with the real pass: `False` means unchanged; the result has no accepted call left
    (measure 0, strictly smaller when the flag was up); a second application reports `False` and changes nothing.
    The budget hypothesis `stuck = false` is discharged by `C05_inline_total`. -/
theorem C14_inline_valid (crit : OpId → Bool) (m : FModel) (hv : validF m = true)
    (hr : (inlineRun crit m).st.raised = false) :
    (inlFlag crit m = false → inlineModel crit m = m) ∧
    inlCalls crit (inlineModel crit m) = 0 ∧
    (inlFlag crit m = true → inlCalls crit (inlineModel crit m) < inlCalls crit m) ∧
    inlFlag crit (inlineModel crit m) = false ∧
    inlineModel crit (inlineModel crit m) = inlineModel crit m := by
  obtain ⟨hok, hm⟩ := C05_inline_total crit m hv hr
  have hn : funcIdsNodup m = true := by
    simp only [validF, Bool.and_eq_true] at hv
    simp only [funcIdsNodup]
    exact hv.1.1.1.1.2
  have hs : (inlineRun crit m).st.stuck = false := by
    simp only [runOK, Bool.and_eq_true, Bool.not_eq_true'] at hok
    exact hok.1.1.1.1.1
  obtain ⟨f1, f2, _, _⟩ := C14_fix_inline crit m hn hs
  have hmeas := C14_measure_inline crit m hn hs
  rw [hm]
  refine ⟨fun h => (C14_flag_inline crit m hn h).1, hmeas.1, hmeas.2, f1, ?_⟩
  unfold inlineModel
  split
  · exact f2
  · rfl

end Inline

/-! ## CSE: what is proved about stalled rounds, and what is not -/
section Cse2
open IrVerif.Sem IrVerif.Passes IrVerif.PassFlags

/-- **C14_cse_weight_mono**: a stalled rewrite is an elimination (`cseStalled ≤ cseCount`), hence the weighted node
    count of the main graph NEVER grows, in whatever round (no hypothesis on the model); it drops strictly in every
    round with at least one rewrite that is not stalled (`cseStalled < cseCount`).  A stalled round can be followed
    by further modifying rounds (`exCse4` below: k equal nodes at the outputs need k-1 modifying rounds, all but
    the first of them stalled), so "a stalled round ends the iteration" is false; what decreases there is
    `C14_measure_cse`. -/
theorem C14_cse_weight_mono (limit : Nat) (m : Model) :
    cseStalled limit m ≤ cseCount limit m ∧
    cseW (cseModel limit m).graph.nodes ≤ cseW m.graph.nodes ∧
    (cseStalled limit m < cseCount limit m → cseW (cseModel limit m).graph.nodes < cseW m.graph.nodes) := by
  have h1 : cseStalled limit m ≤ cseCount limit m := by
    simp only [cseStalled, cseCount]
    exact cseStall_le_cnt limit _ _ _ _ _
  have h2 := (C14_measure_cse_weighted_partial limit m).1
  exact ⟨h1, by omega, fun h => by omega⟩

/-- **C14_measure_cse** (supersedes the `_partial` measure theorems: no `cseStalled = 0` hypothesis): on a well-formed
    model (C05's `validModel`, evaluated by the driver on every case) EVERY round of CSE that reports
    `modified = True` strictly decreases `cseMu` = `W*(W*W+1) + (W*W - depth)`, where `W` is the weighted node count
    of the main graph and `depth` the total Identity-chain depth of its one-input one-output Identity nodes
    (`depth ≤ W*W`).  A round with a rewrite that is not stalled lowers `W`; in a round all of whose rewrites are
    stalled (`o = Identity(x)` becomes `o = Identity(z)` with `z = Identity(x)` the kept node) `W` stays and `depth`
    grows by the number of rewrites. -/
theorem C14_measure_cse (limit : Nat) (m : Model) (hv : validModel m = true) (h : cseFlag limit m = true) :
    cseMu (cseModel limit m) < cseMu m ∧ cseDepth m ≤ cseW m.graph.nodes * cseW m.graph.nodes ∧
    (cseCount limit m ≤ cseStalled limit m → cseDepth m + cseCount limit m ≤ cseDepth (cseModel limit m)) := by
  simp only [cseFlag, bne_iff_ne, ne_eq] at h
  exact ⟨cseMu_decreases limit m hv h (C14_measure_cse_weighted_partial limit m).1 (C14_cse_weight_mono limit m).1,
    cseDepth_le m, cseModel_depth limit m hv⟩

/-- **C14_rounds_cse**: hence `PassManager([CommonSubexpressionEliminationPass(limit)], steps, early_stop=True)` on a
    well-formed model stops within `cseMu + 1` rounds (cubic in the size of the main graph; the pass is not idempotent),
    whatever `steps` is, and - given more steps than that - in a well-formed model that the pass maps to itself
    reporting `False`.  The invariant `validModel` is kept by the pass (`C05_pass_valid`). -/
theorem C14_rounds_cse (limit n : Nat) (s : Model) (m : ModelId) (hv : validModel s = true) :
    (mgrLoop (fun s m => (cseModel limit s, Except.ok ⟨m, cseFlag limit s⟩)) true n s m false).2.2.length ≤ cseMu s + 1 ∧
    ∀ s' r fl, cseMu s < n →
      mgrLoop (fun s m => (cseModel limit s, Except.ok ⟨m, cseFlag limit s⟩)) true n s m false = (s', .ok r, fl) →
      cseModel limit s' = s' ∧ cseFlag limit s' = false ∧ validModel s' = true :=
  pure_rounds_inv (cseModel limit) (cseFlag limit) cseMu (fun s => validModel s = true)
    (fun s hs => C05_pass_valid (.cse limit) s hs) (fun s _ h => C14_flag_cse limit s h)
    (fun s hs h => (C14_measure_cse limit s hs h).1) n s m false hv

end Cse2

/-! ## ordered stays ordered for the passes that ADD nodes -/
section SortedAdd
open IrVerif.Sem IrVerif.Passes IrVerif.PassFlags

theorem sorted_of_valid (m : Model) (hv : validModel m = true) : sortedModel m = true := by
  simp only [validModel, Bool.and_eq_true, List.all_eq_true] at hv
  simp only [sortedModel, Bool.and_eq_true, List.all_eq_true]
  refine ⟨?_, fun f hf => ?_⟩
  · have := hv.1; simp only [validG, Bool.and_eq_true] at this; exact this.1.2
  · have := hv.2 f hf; simp only [validG, Bool.and_eq_true] at this; exact this.1.2

/-- **C14_keeps_sorted_add**: CSE (which puts an Identity node at the place of an eliminated node whose output is
    a graph output) and OutputFix (which appends Identity nodes with fresh outputs) return a model all of whose
    graphs are topologically ordered when they are given a well-formed one (C05's `validModel`: ordered AND SSA,
    closed, scoped - evaluated by the driver on every case; for models that are ordered but not well-formed there
    is no theorem).  Corollary of `C05_pass_valid`.  (Inline, which inserts whole function bodies: oracle only.) -/
theorem C14_keeps_sorted_add (m : Model) (hv : validModel m = true) :
    (∀ limit, sortedModel (cseModel limit m) = true) ∧ sortedModel (ofixModel m) = true :=
  ⟨fun limit => sorted_of_valid _ (C05_pass_valid (.cse limit) m hv),
    sorted_of_valid _ (C05_pass_valid .outputFix m hv)⟩

end SortedAdd

/-! ## use-def / ownership links and names: passes that are programs over C01's kernel -/
section KernelPasses
open IrVerif.Kernel IrVerif.PassKernel

/-- **C14_wf_remove_unused_nodes**: RemoveUnusedNodesPass (main graph, nested graphs, unused initializers,
    functions; without the schema driven removal of optional outputs) written as a program over C01's kernel -
    every mutation is a call of `Graph.remove(safe=True)`, `Node.resize_inputs` or `del initializers[name]`, decided
    by reading the current world - keeps C01's invariant (use-def links, producers, ownership flags and counters,
    initializer keys = names, node sequences, name authority), whether it returns or raises, and the world it
    leaves is exactly the replay of the calls it issued.  Corollary of `C01_step_any`. -/
theorem C14_wf_remove_unused_nodes (fuel : Nat) (w : World) (g : Nat) (funcs : List Nat) (h : WF w) :
    WF (dceModelK fuel w g funcs).w ∧
    (dceModelK fuel w g funcs).w = replay w (dceModelK fuel w g funcs).trace.reverse :=
  ⟨(dceModelK_inv fuel w g funcs h).wf, (dceModelK_inv fuel w g funcs h).rep⟩

/-- **C14_wf_identity_elimination**: the same for IdentityEliminationPass (calls:
    `convenience.replace_all_uses_with(y, x, replace_graph_outputs=True)`, `x.name = y.name`,
    `graph.remove(node, safe=True)`). -/
theorem C14_wf_identity_elimination (exact : Bool) (fuel : Nat) (w : World) (g : Nat) (funcs : List Nat) (h : WF w) :
    WF (ieModelK exact fuel w g funcs).w ∧
    (ieModelK exact fuel w g funcs).w = replay w (ieModelK exact fuel w g funcs).trace.reverse :=
  ⟨(ieModelK_inv exact fuel w g funcs h).wf, (ieModelK_inv exact fuel w g funcs h).rep⟩

/-- **C14_wf_init_inputs**: the same for RemoveInitializersFromInputsPass (`graph.inputs.clear()`,
    `graph.inputs.extend(...)`) and AddInitializersToInputsPass (`graph.inputs.append(...)`) on the main graph. -/
theorem C14_wf_init_inputs (w : World) (g : Nat) (h : WF w) :
    (WF (rmInitInputsK w g).w ∧ (rmInitInputsK w g).w = replay w (rmInitInputsK w g).trace.reverse) ∧
    (WF (addInitInputsK w g).w ∧ (addInitInputsK w g).w = replay w (addInitInputsK w g).trace.reverse) :=
  ⟨⟨(rmInitInputsK_inv w g h).wf, (rmInitInputsK_inv w g h).rep⟩,
    ⟨(addInitInputsK_inv w g h).wf, (addInitInputsK_inv w g h).rep⟩⟩

/-- **C14_wf_output_fix**: the same for OutputFixPass, a pass that CREATES nodes and values (calls:
    `ir.node("Identity", inputs=[output])`, `Value.name = ...` for the new output and for the renamed input,
    `graph.append(node)`, `graph.outputs[i] = new_output`; main graph, subgraphs, functions). -/
theorem C14_wf_output_fix (fuel : Nat) (w : World) (g : Nat) (funcs : List Nat) (h : WF w) :
    WF (ofixModelK fuel w g funcs).w ∧
    (ofixModelK fuel w g funcs).w = replay w (ofixModelK fuel w g funcs).trace.reverse :=
  ⟨(ofixModelK_inv fuel w g funcs h).wf, (ofixModelK_inv fuel w g funcs h).rep⟩

/-- **C14_wf_cse** (wave 5): CommonSubexpressionEliminationPass written as a program over C01's kernel
    (`Model/PassKernel2.lean`; calls: `ir.Value(name=...)`, `ir.node("Identity", inputs=[new], outputs=[value])`,
    `graph.outputs[i] = ...`, `graph.insert_before(node, identity)`, `new_value.name = graph_output.name`,
    `convenience.replace_all_uses_with(old, new)`, `graph.remove(node, safe=True)`), for ANY classification `akey` of
    the attribute values of the nodes (the part of the decision that is outside C01's world): it keeps C01's invariant
    whether it returns or raises, and the world it leaves is exactly the replay of the calls it issued. -/
theorem C14_wf_cse (exact : Bool) (akey : Nat → Option Nat) (w : World) (g : Nat) (h : WF w) :
    WF (cseModelK exact akey w g).1.w ∧
    (cseModelK exact akey w g).1.w = replay w (cseModelK exact akey w g).1.trace.reverse :=
  ⟨(cseModelK_inv exact akey w g h).wf, (cseModelK_inv exact akey w g h).rep⟩

/-- **C14_wf_lift_constants** (wave 5): the same for LiftConstantsToInitializersPass (calls:
    `ir.Value(name=..., const_value=tensor)`, `graph.register_initializer(v)`, `output.replace_all_uses_with(v)`,
    `graph.remove(node, safe=True)`; main graph and nested graphs), for any `lift_all_constants`, any answer `big` of
    the size test and any naming `tnamed` of the tensors. -/
theorem C14_wf_lift_constants (liftAll : Bool) (big tnamed : Nat → Bool) (fuel : Nat) (w : World) (g : Nat) (h : WF w) :
    WF (lcModelK liftAll big tnamed fuel w g).1.w ∧
    (lcModelK liftAll big tnamed fuel w g).1.w = replay w (lcModelK liftAll big tnamed fuel w g).1.trace.reverse :=
  ⟨(lcModelK_inv liftAll big tnamed fuel w g h).wf, (lcModelK_inv liftAll big tnamed fuel w g h).rep⟩

/-- **C14_wf_lift_sub_inits** (wave 5): the same for LiftSubgraphInitializersToMainGraphPass (calls:
    `graph.initializers.pop(name)`, `initializer.name = new_name` with the collision-avoiding counter loop,
    `model.graph.register_initializer(initializer)`). -/
theorem C14_wf_lift_sub_inits (fuel : Nat) (w : World) (g : Nat) (h : WF w) :
    WF (lsiModelK fuel w g).1.w ∧ (lsiModelK fuel w g).1.w = replay w (lsiModelK fuel w g).1.trace.reverse :=
  ⟨(lsiModelK_inv fuel w g h).wf, (lsiModelK_inv fuel w g h).rep⟩

/-- **C14_wf_dedup** (wave 5): the same for DeduplicateInitializersPass (`tkey = hkey`) and
    DeduplicateHashedInitializersPass (`hkey` = class of the digest, `tkey` = class of the bytes compared when the
    digests agree), for ANY classification of the tensors (calls: `initializer.replace_all_uses_with(kept)`,
    `graph.initializers.pop(name)`; main graph and all subgraphs). -/
theorem C14_wf_dedup (hkey tkey : Nat → Option Nat) (fuel : Nat) (w : World) (g : Nat) (h : WF w) :
    WF (ddModelK hkey tkey fuel w g).1.w ∧
    (ddModelK hkey tkey fuel w g).1.w = replay w (ddModelK hkey tkey fuel w g).1.trace.reverse :=
  ⟨(ddModelK_inv hkey tkey fuel w g h).wf, (ddModelK_inv hkey tkey fuel w g h).rep⟩

/-- **C14_names_dedup** (wave 5, 'names of kept objects are kept'): Deduplicate(Hashed)InitializersPass as a kernel
    program renames nothing - every value that has a name before the pass has exactly that name after it, whether
    the pass returns or raises (so every consumer that is re-pointed to the kept initializer refers to a name that
    still denotes it). -/
theorem C14_names_dedup (hkey tkey : Nat → Option Nat) (fuel : Nat) (w : World) (g u : Nat) (nm : String)
    (hn : (w.val u).name = some nm) : ((ddModelK hkey tkey fuel w g).1.w.val u).name = some nm :=
  (ddModelK_ninv hkey tkey fuel w g).all_kept u nm hn

/-- **C14_names_lift_constants** (wave 5): LiftConstantsToInitializersPass renames no value that has a name before
    the pass (the only `Value.name = ...` it issues are for values it created itself: ids that belonged to no named
    value).  With `C14_names_initializers` the new initializer is registered under the name of the Constant output
    it replaces. -/
theorem C14_names_lift_constants (liftAll : Bool) (big tnamed : Nat → Bool) (fuel : Nat) (w : World) (g u : Nat)
    (nm : String) (hn : (w.val u).name = some nm) :
    ((lcModelK liftAll big tnamed fuel w g).1.w.val u).name = some nm :=
  (lcModelK_ninv liftAll big tnamed fuel w g).all_kept u nm hn

/-- **C14_names_kept** (wave 5): CSE and LiftSubgraphInitializers DO rename (CSE gives the output of the kept node
    the name of the graph output it takes over; LiftSubgraphInitializers renames a lifted initializer whose name
    collides in the main graph).  Every value that has a name keeps exactly that name unless the pass issued the
    public call `Value.name = ...` for this very value (read off the trace); no other call of either program -
    constructors, `graph.outputs[i] = ...`, `insert_before`, `replace_all_uses_with`, `remove`, `initializers.pop`,
    `register_initializer` - changes the name of a named value. -/
theorem C14_names_kept (exact : Bool) (akey : Nat → Option Nat) (fuel : Nat) (w : World) (g u : Nat) (nm : String)
    (hn : (w.val u).name = some nm) :
    ((∀ t, AnyOp.one (.setName u t) ∉ (cseModelK exact akey w g).1.trace) →
      ((cseModelK exact akey w g).1.w.val u).name = some nm) ∧
    ((∀ t, AnyOp.one (.setName u t) ∉ (lsiModelK fuel w g).1.trace) →
      ((lsiModelK fuel w g).1.w.val u).name = some nm) :=
  ⟨(cseModelK_ninv exact akey w g).kept u nm hn, (lsiModelK_ninv fuel w g).kept u nm hn⟩

/-- **C14_names_lift_sub_inits** (wave 5): LiftSubgraphInitializersToMainGraph renames only what it lifts: after a run
    that returns, every value that had a name has exactly that name, or it is now an initializer of the main graph
    (registered under its new name by `C14_names_initializers`).  (An accepted `initializers.pop` touches only the
    popped value and leaves it a non-initializer, `Value.name = ...` of a non-initializer touches only that value, an
    accepted `register_initializer` touches only the registered value and makes it an initializer of the graph.) -/
theorem C14_names_lift_sub_inits (fuel : Nat) (w : World) (g : Nat) (hr : (lsiModelK fuel w g).1.raised = false)
    (u : Nat) (nm : String) (hn : (w.val u).name = some nm) :
    ((lsiModelK fuel w g).1.w.val u).name = some nm ∨
    (((lsiModelK fuel w g).1.w.val u).isInit = true ∧ ((lsiModelK fuel w g).1.w.val u).graph = some g) :=
  lsiModelK_names fuel w g hr u nm hn

/-- **C14_names_cse_outputs** (wave 5): CSE keeps the interface names of the main graph.  The output list keeps its
    length, and every position whose value has a name holds, after the pass, a value with exactly that name - the
    same value, the kept value that took over the name (`new_value.name = graph_output.name`), or the output of the
    Identity node the pass created under that name - for every classification of the attribute values, whether the
    pass returns or raises.  (Proof: Lemmas/PassKernelOuts.lean .. PassKernelOuts3.lean - which calls leave an output
    list alone, the exact effect of `graph.outputs[i] = v` and of an accepted `Value.name = ...`, and an invariant of
    the walk over `enumerate(graph.outputs)` with its `replaced` dictionary: unprocessed positions are untouched,
    every replacement carries the name of what it replaces and sits at a processed position, hence is a graph output
    and is never renamed by a later step; C01's invariant supplies 'a value that is not a graph output is in no
    output list'.) -/
theorem C14_names_cse_outputs (exact : Bool) (akey : Nat → Option Nat) (w : World) (g : Nat) (h : WF w) :
    ((cseModelK exact akey w g).1.w.gr g).outputs.length = (w.gr g).outputs.length ∧
    ∀ (i v : Nat) (nm : String), (w.gr g).outputs[i]? = some v → (w.val v).name = some nm →
      ∃ v', ((cseModelK exact akey w g).1.w.gr g).outputs[i]? = some v' ∧
        ((cseModelK exact akey w g).1.w.val v').name = some nm :=
  cseModelK_OK exact akey w g h

/-- **C14_names_initializers** (wave 5): after each of the four programs every initializer of every graph is
    registered under its own, non-empty name (the name serialization writes) - in particular the initializers
    LiftConstants creates and the ones LiftSubgraphInitializers moves and renames.  Corollary of `C14_wf_*`. -/
theorem C14_names_initializers (exact liftAll : Bool) (akey hkey tkey : Nat → Option Nat) (big tnamed : Nat → Bool)
    (fuel : Nat) (w : World) (g : Nat) (h : WF w) (w' : World)
    (hw : w' = (cseModelK exact akey w g).1.w ∨ w' = (lcModelK liftAll big tnamed fuel w g).1.w ∨
      w' = (lsiModelK fuel w g).1.w ∨ w' = (ddModelK hkey tkey fuel w g).1.w)
    (g' : Nat) (key : String) (v : Nat) (hm : (key, v) ∈ (w'.gr g').inits) :
    (w'.val v).name = some key ∧ key ≠ "" := by
  have hwf : WF w' := by
    rcases hw with rfl | rfl | rfl | rfl
    · exact (cseModelK_inv exact akey w g h).wf
    · exact (lcModelK_inv liftAll big tnamed fuel w g h).wf
    · exact (lsiModelK_inv fuel w g h).wf
    · exact (ddModelK_inv hkey tkey fuel w g h).wf
  exact hwf.key.name g' key v hm

/-- **C14_flag_kernel** (wave 5): flag honesty of the four programs at the level of C01's world (names, use-def
    links, ownership, initializer keys, node sequences, name authority - everything the earlier flag theorems on
    C05's IR leave out except shapes / types / metadata): a run that returns (does not raise) with `modified = False`
    (`count = 0`) has issued NO call; the world is the start world. -/
theorem C14_flag_kernel (exact liftAll : Bool) (akey hkey tkey : Nat → Option Nat) (big tnamed : Nat → Bool)
    (fuel : Nat) (w : World) (g : Nat) :
    ((cseModelK exact akey w g).2 = false → (cseModelK exact akey w g).1.raised = false →
      (cseModelK exact akey w g).1.w = w ∧ (cseModelK exact akey w g).1.trace = []) ∧
    ((lcModelK liftAll big tnamed fuel w g).2 = 0 → (lcModelK liftAll big tnamed fuel w g).1.raised = false →
      (lcModelK liftAll big tnamed fuel w g).1.w = w ∧ (lcModelK liftAll big tnamed fuel w g).1.trace = []) ∧
    ((lsiModelK fuel w g).2 = 0 → (lsiModelK fuel w g).1.raised = false →
      (lsiModelK fuel w g).1.w = w ∧ (lsiModelK fuel w g).1.trace = []) ∧
    ((ddModelK hkey tkey fuel w g).2 = false → (ddModelK hkey tkey fuel w g).1.raised = false →
      (ddModelK hkey tkey fuel w g).1.w = w ∧ (ddModelK hkey tkey fuel w g).1.trace = []) := by
  have key : ∀ s : KSt, Quiet w s → s.raised = false → s.w = w ∧ s.trace = [] := fun s hq hr =>
    hq.elim id (fun h => by rw [hr] at h; simp at h)
  exact ⟨fun h => key _ (cseModelK_quiet exact akey w g h), fun h => key _ (lcModelK_quiet liftAll big tnamed fuel w g h),
    fun h => key _ (lsiModelK_quiet fuel w g h), fun h => key _ (ddModelK_quiet hkey tkey fuel w g h)⟩

/-- any pass that touches the IR only through the modelled public mutators keeps the invariant: what the two
    theorems above instantiate (`C01_history_from` read as a statement about passes) -/
theorem C14_wf_replay (w : World) (ops : List AnyOp) (h : WF w) : WF (replay w ops) :=
  foldl_inv WF _ (fun a b ha => C01_step_any a b ha) ops w h

end KernelPasses

namespace NonVacuity3
open IrVerif.Sem IrVerif.Passes IrVerif.Inline IrVerif.PassFlags

def fId : OpId := ⟨"local", "F", ""⟩
def gId : OpId := ⟨"local", "G", ""⟩
/-- F(a) = Neg(G(a)), G(b) = Relu(b); main: y = F(x) -/
def exInl : FModel :=
  ⟨.mk [0] [1] [] [.mk fId [] [some 0] [1] []],
   [⟨fId, [], [10], [12], [.mk gId [] [some 10] [11] [], .mk ⟨"", "Neg", ""⟩ [] [some 11] [12] []], [""]⟩,
    ⟨gId, [], [20], [21], [.mk ⟨"", "Relu", ""⟩ [] [some 20] [21] []], [""]⟩], [""]⟩
example : funcIdsNodup exInl = true ∧ validF exInl = true := by decide
example : inlFlag (fun _ => true) exInl = true ∧ inlCalls (fun _ => true) exInl = 2 ∧
    (inlineRun (fun _ => true) exInl).st.stuck = false ∧ (inlineRun (fun _ => true) exInl).st.raised = false ∧
    (inlineRun (fun _ => true) exInl).st.count = 2 ∧
    inlCalls (fun _ => true) (inlineRun (fun _ => true) exInl).model = 0 := by decide
/-- criteria that accept G only: the call in the main graph stays, the call inside F is inlined, F stays -/
example : inlFlag (fun op => op == gId) exInl = true ∧
    ((inlineRun (fun op => op == gId) exInl).model.funcs.map (·.id)) = [fId] ∧
    inlCalls (fun op => op == gId) (inlineRun (fun op => op == gId) exInl).model = 0 := by decide
/-- criteria that accept nothing: flag False -/
example : inlFlag (fun _ => false) exInl = false := by decide
/-- the hypothesis can fail: F calls itself, the budget of the model runs out -/
example : (inlineRun (fun _ => true)
    ⟨.mk [0] [1] [] [.mk fId [] [some 0] [1] []], [⟨fId, [], [10], [11], [.mk fId [] [some 10] [11] []], [""]⟩], [""]⟩).st.stuck
    = true := by decide
/-- ... and two functions with one identifier are not a dictionary -/
example : funcIdsNodup ⟨.mk [] [] [] [], [⟨fId, [], [], [], [], []⟩, ⟨fId, [], [], [], [], []⟩], []⟩ = false := by decide

/-- four equal Relu nodes whose outputs are all graph outputs: the second round is stalled (its two rewrites
    replace one-output Identity nodes by Identity nodes) and is followed by another modifying round -/
def exCse4 : Model :=
  ⟨.mk [0] [1, 2, 3, 4] [] [.mk ⟨"", "Relu", ""⟩ [] [some 0] [1] [], .mk ⟨"", "Relu", ""⟩ [] [some 0] [2] [],
    .mk ⟨"", "Relu", ""⟩ [] [some 0] [3] [], .mk ⟨"", "Relu", ""⟩ [] [some 0] [4] []], []⟩
example : cseCount 10 (cseModel 10 exCse4) = 2 ∧ cseStalled 10 (cseModel 10 exCse4) = 2 ∧
    cseFlag 10 (cseModel 10 (cseModel 10 exCse4)) = true ∧
    cseFlag 10 (cseModel 10 (cseModel 10 (cseModel 10 exCse4))) = false := by decide
example : validModel exCse4 = true ∧ sortedModel (cseModel 10 exCse4) = true := by decide
example : cseStalled 10 exCse4 < cseCount 10 exCse4 := by decide
/-- the measure over the rounds: the weight drops in the first one, the depth grows in the stalled ones -/
example : cseMu (cseModel 10 exCse4) < cseMu exCse4 ∧
    cseW (cseModel 10 (cseModel 10 exCse4)).graph.nodes = cseW (cseModel 10 exCse4).graph.nodes ∧
    cseDepth (cseModel 10 exCse4) = 3 ∧ cseDepth (cseModel 10 (cseModel 10 exCse4)) = 5 ∧
    cseMu (cseModel 10 (cseModel 10 exCse4)) < cseMu (cseModel 10 exCse4) := by decide

end NonVacuity3

section AddDefaults
open IrVerif.PassFlags4

/-- **C14_flag_add_defaults** (wave 5): AddDefaultAttributesPass (`Model/PassFlags4.lean`; the ONNX schema table, the
    opset imports and the visited nodes are arbitrary): `modified = False` implies that every visited node has exactly
    the attribute dictionary it had (same keys, same order, same values). -/
theorem C14_flag_add_defaults (tbl : SchemaTable) (imports : List (String × Nat)) (ns : List ANode)
    (h : (addDefaults tbl imports ns).2 = false) : (addDefaults tbl imports ns).1 = ns :=
  addDefaults_flag_false tbl imports ns h

/-- **C14_fix_add_defaults**: the pass is idempotent - applied to its own result it reports `False` and returns it
    unchanged (whatever the schema table says; a node without version / schema is skipped both times). -/
theorem C14_fix_add_defaults (tbl : SchemaTable) (imports : List (String × Nat)) (ns : List ANode) :
    addDefaults tbl imports (addDefaults tbl imports ns).1 = ((addDefaults tbl imports ns).1, false) :=
  addDefaults_idem tbl imports ns

/-- **C14_measure_add_defaults**: the measure `absentCount` = number of (visited node, optional attribute with a valid
    default that the node does not have) pairs: the flag is down exactly when it is 0, it is 0 after one application,
    hence strictly smaller whenever the flag is up. -/
theorem C14_measure_add_defaults (tbl : SchemaTable) (imports : List (String × Nat)) (ns : List ANode) :
    ((addDefaults tbl imports ns).2 = false ↔ absentCount tbl imports ns = 0) ∧
    absentCount tbl imports (addDefaults tbl imports ns).1 = 0 ∧
    ((addDefaults tbl imports ns).2 = true →
      absentCount tbl imports (addDefaults tbl imports ns).1 < absentCount tbl imports ns) := by
  refine ⟨addDefaults_flag_iff tbl imports ns, absentCount_after tbl imports ns, fun h => ?_⟩
  rw [absentCount_after]
  have := (addDefaults_flag_iff tbl imports ns).not
  simp only [h, Bool.true_eq_false, not_false_eq_true, true_iff] at this
  omega

/-- **C14_rounds_add_defaults**: a PassManager with `early_stop` around AddDefaultAttributes executes at most two
    rounds and, given at least two steps, ends in a state the pass maps to itself reporting `False`. -/
theorem C14_rounds_add_defaults (tbl : SchemaTable) (imports : List (String × Nat)) (n : Nat) (ns : List ANode)
    (m : ModelId) :
    let round : List ANode → ModelId → Res (List ANode) :=
      fun s m => ((addDefaults tbl imports s).1, .ok ⟨m, (addDefaults tbl imports s).2⟩)
    (mgrLoop round true n ns m false).2.2.length ≤ 2 ∧
    ∀ s' r fl, 1 < n → mgrLoop round true n ns m false = (s', .ok r, fl) →
      (addDefaults tbl imports s').1 = s' ∧ (addDefaults tbl imports s').2 = false := by
  intro round
  have hμ : ∀ s, (if absentCount tbl imports s = 0 then 0 else 1) ≤ 1 := fun s => by split <;> omega
  have key := C14_pure_rounds (fun s => (addDefaults tbl imports s).1) (fun s => (addDefaults tbl imports s).2)
    (fun s => if absentCount tbl imports s = 0 then 0 else 1)
    (fun s h => addDefaults_flag_false tbl imports s h)
    (fun s h => by
      have h1 := (C14_measure_add_defaults tbl imports s).2.2 h
      have h2 := (C14_measure_add_defaults tbl imports s).2.1
      simp only [h2, ↓reduceIte]
      split
      · omega
      · omega) n ns m
  refine ⟨Nat.le_trans key.1 (by have := hμ ns; omega), fun s' r fl hn h => key.2 s' r fl ?_ h⟩
  have := hμ ns; omega

end AddDefaults

namespace NonVacuity5
open IrVerif.Kernel IrVerif.PassKernel

namespace AddDef
open IrVerif.PassFlags4
/-- LeakyRelu has an optional `alpha` with a default, Cast a required `to` and an optional `saturate`; `Foo` has no schema -/
def tbl : SchemaTable := fun d op v =>
  if d = "" ∧ op = "LeakyRelu" ∧ v = 18 then some [⟨"alpha", false, some 1⟩]
  else if d = "" ∧ op = "Cast" ∧ v = 18 then some [⟨"saturate", false, some 2⟩, ⟨"to", true, none⟩]
  else none
def ns : List ANode := [⟨"", "LeakyRelu", none, []⟩, ⟨"", "Cast", none, [("to", 7)]⟩, ⟨"", "Foo", none, []⟩,
  ⟨"", "LeakyRelu", some 18, [("alpha", 5)]⟩, ⟨"other", "LeakyRelu", none, []⟩]
example : (addDefaults tbl [("", 18)] ns).2 = true ∧ absentCount tbl [("", 18)] ns = 2 ∧
    (addDefaults tbl [("", 18)] ns).1 = [⟨"", "LeakyRelu", none, [("alpha", 1)]⟩,
      ⟨"", "Cast", none, [("to", 7), ("saturate", 2)]⟩, ⟨"", "Foo", none, []⟩,
      ⟨"", "LeakyRelu", some 18, [("alpha", 5)]⟩, ⟨"other", "LeakyRelu", none, []⟩] := by decide
example : (addDefaults tbl [("", 18)] (addDefaults tbl [("", 18)] ns).1).2 = false := by decide
end AddDef

/-- x -> Relu -> a, x -> Relu -> b, graph output b: CSE keeps a, which takes over b's name -/
def wCse : World := runAny [.one (.newValue (some "x")), .one (.newNode "Relu" none [some 0] none none none),
  .one (.newNode "Relu" none [some 0] none none none), .one (.newGraph [0] [2] [0, 1] [])]
example : WF wCse := C01_history _
example : (cseModelK false (fun _ => some 0) wCse 0).2 = true ∧ (cseModelK false (fun _ => some 0) wCse 0).1.raised = false ∧
    (cseModelK false (fun _ => some 0) wCse 0).1.trace.length = 4 ∧
    (wCse.val 0).name = some "x" ∧ ((cseModelK false (fun _ => some 0) wCse 0).1.w.val 0).name = some "x" ∧
    (wCse.gr 0).outputs = [2] ∧ (wCse.val 2).name = some "val_1" ∧
    (wCse.val 1).name = some "val_0" ∧ ((cseModelK false (fun _ => some 0) wCse 0).1.w.val 1).name = some "val_1" ∧
    ((cseModelK false (fun _ => some 0) wCse 0).1.w.gr 0).outputs = [1] := by decide +kernel

/-- a Constant node with a `value` attribute whose output feeds a Relu: lifted to an initializer called like the output -/
def wLc : World := runAny [.one (.newNodeAttrs "Constant" none [] none none none [("value", [])]),
  .one (.setName 0 (some "c")), .one (.newNode "Relu" none [some 0] none none none), .one (.newGraph [] [1] [0, 1] [])]
example : (lcModelK false (fun _ => true) (fun _ => false) 4 wLc 0).2 = 1 ∧
    (lcModelK false (fun _ => true) (fun _ => false) 4 wLc 0).1.raised = false ∧
    ((lcModelK false (fun _ => true) (fun _ => false) 4 wLc 0).1.w.gr 0).inits = [("c", 2)] ∧
    ((lcModelK false (fun _ => true) (fun _ => false) 4 wLc 0).1.w.val 0).name = some "c" ∧
    ((lcModelK false (fun _ => true) (fun _ => false) 4 wLc 0).1.w.node 1).inputs = [some 2] := by decide +kernel

/-- an If-like node whose branch holds an initializer called like an input of the main graph: lifted and renamed -/
def wLsi : World := runAny [.one (.newValue (some "x")), .one (.newValue (some "x")), .one (.setConst 1 false),
  .one (.newNode "Relu" none [some 1] none none none), .one (.newGraph [] [2] [0] [1]),
  .one (.newNodeAttrs "If" none [some 0] none none none [("body", [0])]), .one (.newGraph [0] [3] [1] [])]
example : (lsiModelK 4 wLsi 1).2 = 1 ∧ (lsiModelK 4 wLsi 1).1.raised = false ∧
    ((lsiModelK 4 wLsi 1).1.w.gr 1).inits = [("x_1", 1)] ∧ ((lsiModelK 4 wLsi 1).1.w.gr 0).inits = [] ∧
    ((lsiModelK 4 wLsi 1).1.w.val 1).name = some "x_1" ∧ ((lsiModelK 4 wLsi 1).1.w.val 0).name = some "x" ∧
    (wLsi.val 1).name = some "x" ∧ ((lsiModelK 4 wLsi 1).1.w.val 1).isInit = true ∧
    ((lsiModelK 4 wLsi 1).1.w.val 1).graph = some 1 ∧
    (lsiModelK 4 wLsi 1).1.trace.length = 3 := by decide +kernel

/-- two initializers with the same content, each used once: the second is replaced by the first and popped -/
def wDd : World := runAny [.one (.newValue (some "a")), .one (.setConst 0 false), .one (.newValue (some "b")),
  .one (.setConst 1 false), .one (.newNode "Add" none [some 0, some 1] none none none), .one (.newGraph [] [2] [0] [0, 1])]
example : (ddModelK (fun _ => some 0) (fun _ => some 0) 4 wDd 0).2 = true ∧
    (ddModelK (fun _ => some 0) (fun _ => some 0) 4 wDd 0).1.raised = false ∧
    ((ddModelK (fun _ => some 0) (fun _ => some 0) 4 wDd 0).1.w.gr 0).inits = [("a", 0)] ∧
    ((ddModelK (fun _ => some 0) (fun _ => some 0) 4 wDd 0).1.w.node 0).inputs = [some 0, some 0] ∧
    ((ddModelK (fun _ => some 0) (fun _ => some 0) 4 wDd 0).1.w.val 1).name = some "b" := by decide +kernel
/-- hashed variant, equal digests but different bytes: nothing happens -/
example : (ddModelK (fun _ => some 0) (fun v => some v) 4 wDd 0).2 = false ∧
    (ddModelK (fun _ => some 0) (fun v => some v) 4 wDd 0).1.trace = [] := by decide +kernel

end NonVacuity5

end IrVerif.PassInfra

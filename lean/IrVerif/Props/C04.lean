/-
C04 — all tensor representations agree on values and bytes: the property theorems.

Models: `Model/Pack.lean` (pack/unpack, little-endian items, nbytes) and `Model/TensorRepr.lean`
(element-type tables, array / torch / packed / proto-backed / external / lazy representations,
destination files, serialize / deserialize).  Helper developments: `Lemmas/Pack.lean`,
`Lemmas/TensorRepr.lean`, `Lemmas/TensorReprAgree.lean`.  Everything is core Lean (no Mathlib).
-/
import IrVerif.Lemmas.Pack
import IrVerif.Lemmas.TensorReprAgree

namespace IrVerif.Pack

/-- **C04_unpack_pack4**: unpacking what was packed returns every element masked to 4 bits,
    for every length (odd lengths exercise the padding rule). -/
theorem C04_unpack_pack4 (xs : List Nat) : unpack4 (pack4 xs) xs.length = xs.map (· % 16) :=
  unpack4_pack4_mod xs

/-- **C04_unpack_pack2**: the same for 2-bit elements (lengths that are not multiples of 4
    exercise the padding rule). -/
theorem C04_unpack_pack2 (xs : List Nat) : unpack2 (pack2 xs) xs.length = xs.map (· % 4) :=
  unpack2_pack2_mod xs

theorem C04_pack4_len (xs : List Nat) : (pack4 xs).length = nbytes xs.length 4 := pack4_length xs

theorem C04_pack2_len (xs : List Nat) : (pack2 xs).length = nbytes xs.length 2 := pack2_length xs

/-- **C04_pack_unpack4**: packing what was unpacked from a buffer of exactly `nbytes n 4` bytes
    returns the buffer with the padding bits cleared (so a buffer with zero padding round-trips
    exactly). -/
theorem C04_pack_unpack4 (bs : List Nat) (n : Nat) (hb : ∀ b ∈ bs, b < 256)
    (hn : bs.length = nbytes n 4) : pack4 (unpack4 bs n) = clearPad 4 n bs :=
  pack4_unpack4 bs n hb hn

/-- **C04_pack_unpack2** -/
theorem C04_pack_unpack2 (bs : List Nat) (n : Nat) (hb : ∀ b ∈ bs, b < 256)
    (hn : bs.length = nbytes n 2) : pack2 (unpack2 bs n) = clearPad 2 n bs :=
  pack2_unpack2 bs n hb hn

/-- **C04_le_roundtrip**: little-endian item bytes decode back to the bit pattern. -/
theorem C04_le_roundtrip (w x : Nat) (h : x < 256 ^ w) : ofLeBytes (leBytes w x) = x :=
  ofLeBytes_leBytes w x h

/-- **C04_nbytes**: the canonical byte form has exactly `nbytes = ceil(size * bitwidth / 8)` bytes
    for the packed widths and for every whole-byte width. -/
theorem C04_nbytes (bw : Nat) (xs : List Nat) (h : bw = 2 ∨ bw = 4 ∨ bw % 8 = 0) :
    (tobytes bw xs).length = nbytes xs.length bw :=
  IrVerif.TensorRepr.packLE_length bw xs h

/-- **C04_pack_bitstream**: the canonical byte form IS the specified layout.  Read as one
    little-endian bit stream (bit 0 of byte 0 first), the bytes `tobytes bw xs` consist of the
    elements' `bw` low bits in element order, the FIRST element in the LOWEST bits, followed by
    zero bits up to `8 * nbytes`; for the 4- and 2-bit packings and for every whole-byte width
    (little-endian items), for all lengths.  `elemStream` / `natBits` do not mention `pack4`,
    `pack2` or `leBytes`: swapping the nibble order in the packer (even consistently with the
    unpacker) falsifies this theorem. -/
theorem C04_pack_bitstream (bw : Nat) (xs : List Nat) (h : bw = 2 ∨ bw = 4 ∨ bw % 8 = 0) :
    bitStream (tobytes bw xs) = elemStream bw xs (nbytes xs.length bw) :=
  bitStream_tobytes bw xs h

-- the specification is concrete: element 0 sits in the low bits
example : bitStream (pack4 [1, 2, 3]) =
    [true, false, false, false,  false, true, false, false,  true, true, false, false,  false, false, false, false] := by
  decide
example : bitStream (pack2 [1, 2]) = [true, false, false, true, false, false, false, false] := by decide
example : bitStream (leBytes 2 0x0102) = natBits 16 0x0102 := by decide

-- non-vacuity: odd lengths, out-of-range elements, non-zero padding bits
example : unpack4 (pack4 [1, 2, 31]) 3 = [1, 2, 15] := by decide
example : unpack2 (pack2 [0, 1, 2, 3, 5]) 5 = [0, 1, 2, 3, 1] := by decide
example : pack4 (unpack4 [0x21, 0xF3] 3) = [0x21, 0x03] := by decide
example : pack2 (unpack2 [0xE4, 0xFD] 5) = [0xE4, 0x01] := by decide
-- the pre-fix behaviour D20 (2-bit data unpacked with the 4-bit routine) is not the 2-bit decoding
example : unpack4 [0xE4, 0x01] 5 ≠ unpack2 [0xE4, 0x01] 5 := by decide

end IrVerif.Pack

namespace IrVerif.TensorRepr
open IrVerif.Pack

/-- what `C04_tables` states about the element-type tables of `_enums` -/
structure Tables : Prop where
  /-- 27 members with the codes 0..26 -/
  count : DType.all.length = 27
  code_inv : ∀ d : DType, DType.ofCode d.code = some d
  code_inv' : ∀ n, n < 27 → (DType.ofCode n).map DType.code = some n
  code_range : ∀ n, 27 ≤ n → DType.ofCode n = none
  /-- bit widths exist for every member except UNDEFINED and STRING -/
  bitwidth_total : ∀ d : DType, d.bitwidth = none ↔ (d = .undefined ∨ d = .string)
  /-- short names: total, and `from_short_name` / `short_name` are mutually inverse -/
  short_total : ∀ d : DType, (d.shortName.bind DType.ofShortName) = some d
  short_inv : ∀ (s : String) (d : DType), DType.ofShortName s = some d → d.shortName = some s
  /-- numpy types: total except UNDEFINED, `from_numpy` / `numpy()` mutually inverse -/
  np_total : ∀ d : DType, d ≠ .undefined → (d.npName.bind DType.ofNpName) = some d
  np_undefined : DType.undefined.npName = none
  np_inv : ∀ (s : String) (d : DType), DType.ofNpName s = some d → d.npName = some s
  /-- `itemsize * 8 = bitwidth` against the numpy item size: whole-byte types occupy bitwidth/8
      bytes, 2- and 4-bit types one byte per element -/
  itemsize : ∀ (d : DType) (bw : Nat), d.bitwidth = some bw →
    (8 ≤ bw → 8 * npItemBytes d = bw) ∧ (bw < 8 → npItemBytes d = 1)
  /-- the literal type sets used by the byte builders coincide with the bit-width table -/
  sets : ∀ (d : DType) (bw : Nat), d.bitwidth = some bw →
    (d.bytePack4 = true ↔ bw = 4) ∧ (d.bytePack2 = true ↔ bw = 2) ∧
    (d.extSubByte = true ↔ (bw = 4 ∨ bw = 2)) ∧
    (d.int32Legal = true → bw ≤ 32 ∧ (d.int32Bytes16 = true ↔ bw = 16) ∧
      (d.int32Bytes8 = true ↔ (bw = 8 ∨ bw = 4 ∨ bw = 2)) ∧ (d = .int32 ↔ bw = 32))
  /-- integer and floating-point classifications are disjoint and have a bit width -/
  classes : ∀ d : DType, ¬ (d.isInteger = true ∧ d.isFloatingPoint = true) ∧
    ((d.isInteger = true ∨ d.isFloatingPoint = true) → d.bitwidth.isSome = true)

/-- **C04_tables**: the element-type tables are total where claimed, mutually inverse, and
    consistent with each other (finite: by evaluation of the literals, which the check compares
    with the real `_enums` tables on every run). -/
theorem C04_tables : Tables where
  count := by decide
  code_inv := ofCode_code
  code_inv' := by decide
  code_range := by
    intro n hn
    simp only [DType.ofCode]
    exact List.getElem?_eq_none (by simpa [DType.all] using hn)
  bitwidth_total := by intro d; cases d <;> decide
  short_total := by intro d; cases d <;> decide
  short_inv := by
    intro s d h
    simp only [DType.ofShortName, Option.map_eq_some_iff] at h
    obtain ⟨p, hp, rfl⟩ := h
    have hm := List.mem_of_find?_eq_some hp
    have hs := List.find?_some hp
    simp only [decide_eq_true_eq] at hs
    rw [← hs]
    have hall : ∀ q ∈ DType.shortNameTable.reverse, q.1.shortName = some q.2 := by decide
    exact hall p hm
  np_total := by intro d; cases d <;> decide
  np_undefined := by decide
  np_inv := by
    intro s d h
    simp only [DType.ofNpName] at h
    have hall : ∀ q ∈ DType.npTable, DType.npTable.lookup q.1 = some q.2 → q.2.npName = some q.1 := by
      decide
    have hmem : (s, d) ∈ DType.npTable := by
      clear hall
      revert h
      generalize DType.npTable = t
      intro h
      induction t with
      | nil => simp [List.lookup] at h
      | cons q t ih =>
        simp only [List.lookup] at h
        split at h
        · rename_i heq
          simp only [beq_iff_eq] at heq
          simp only [Option.some.injEq] at h
          subst h; subst heq
          simp
        · exact List.mem_cons_of_mem _ (ih h)
    exact hall (s, d) hmem h
  itemsize := by
    intro d bw h
    have F := facts d bw h
    constructor
    · intro h8
      rcases F.item with h2 | h4 | hi
      · omega
      · omega
      · exact hi.symm
    · intro h8
      apply F.item1
      rcases F.range with h | h | h | h | h | h | h <;> omega
  sets := by
    intro d bw h
    have F := facts d bw h
    exact ⟨F.pack4, F.pack2, F.sub, F.i32⟩
  classes := by intro d; cases d <;> decide

/-- **C04_field_agree**: every legal representation of a logical tensor (element type `d` of `bw`
    bits, shape `dims`, element bit patterns `xs`) — array-backed with any storage form (also given as memory in either byte order behind an
    array-compatible object), torch
    adapter (also over a contiguous view at any storage offset of a larger storage), packed, proto-backed through `raw_data`, `int32_data` (any congruent int32 values, at
    32/16/8 bits and packed at 4/2 bits), `int64_data`, `uint64_data` (also for UINT32),
    `float_data` / `double_data` (also as complex pairs), external at any offset inside any file,
    and a lazy wrapper around any of these — reports `d` and `dims`, has
    `nbytes = ceil(size * bw / 8)`, decodes (`numpy()`, bits masked to the width) to exactly `xs`,
    and returns exactly the canonical little-endian packed bytes from `tobytes()` and `tofile()`. -/
theorem C04_field_agree {d : DType} {dims : List Nat} {bw : Nat} {xs : List Nat}
    (wf : WF d dims bw xs) {r : Rep} (h : Legal d dims bw xs r) : Agrees d dims bw xs r :=
  legal_agrees wf h

/-- **C04_all_agree**: any two legal representations of the same logical tensor are
    observationally equal. -/
theorem C04_all_agree {d : DType} {dims : List Nat} {bw : Nat} {xs : List Nat}
    (wf : WF d dims bw xs) {r₁ r₂ : Rep} (h₁ : Legal d dims bw xs r₁) (h₂ : Legal d dims bw xs r₂) :
    r₁.dtype = r₂.dtype ∧ r₁.shape = r₂.shape ∧ r₁.nbytes = r₂.nbytes ∧
    r₁.tobytes = r₂.tobytes ∧ r₁.tofile = r₂.tofile ∧
    (∃ u₁ u₂, r₁.numpy = .ok u₁ ∧ r₂.numpy = .ok u₂ ∧ obsBits bw u₁ = obsBits bw u₂) := by
  have A := legal_agrees wf h₁
  have B := legal_agrees wf h₂
  obtain ⟨u₁, hu₁, e₁⟩ := A.numpy
  obtain ⟨u₂, hu₂, e₂⟩ := B.numpy
  exact ⟨A.dtype.trans B.dtype.symm, A.shape.trans B.shape.symm, A.nbytes.trans B.nbytes.symm,
    A.tobytes.trans B.tobytes.symm, A.tofile.trans B.tofile.symm,
    u₁, u₂, hu₁, hu₂, e₁.trans e₂.symm⟩

/-- **C04_bytes_len**: the bytes every legal representation returns have length `nbytes`. -/
theorem C04_bytes_len {d : DType} {dims : List Nat} {bw : Nat} {xs : List Nat}
    (wf : WF d dims bw xs) : (packLE bw xs).length = nbytes (prod dims) bw := by
  have F := facts d bw wf.hbw
  rw [← wf.len]
  apply packLE_length
  rcases F.range with h | h | h | h | h | h | h <;> omega

/-- **C04_tofile_at**: a non-empty write at position `p` (the end in append mode) keeps every
    byte before `p` (zero-filling a gap past the old end), puts exactly the data at `[p, p+len)`,
    keeps every byte from `p+len` on, and leaves the position at `p+len`; an empty write changes
    nothing. -/
theorem C04_tofile_at (f : Dest) (data : List Nat) :
    (data = [] → f.write data = f) ∧
    (data ≠ [] →
      (f.write data).pos = (if f.append then f.img.length else f.pos) + data.length ∧
      (f.write data).img.take (if f.append then f.img.length else f.pos)
        = f.img.take (if f.append then f.img.length else f.pos)
          ++ List.replicate ((if f.append then f.img.length else f.pos) - f.img.length) 0 ∧
      ((f.write data).img.drop (if f.append then f.img.length else f.pos)).take data.length = data ∧
      (f.write data).img.drop ((if f.append then f.img.length else f.pos) + data.length)
        = f.img.drop ((if f.append then f.img.length else f.pos) + data.length)) :=
  ⟨fun h => by subst h; exact write_nil f, write_spec f data⟩

/-- **C04_tofile_paths**: the three ways `tofile` delivers bytes to a destination perform the
    same write.  `ndarray.tofile(file)` (write through a duplicated descriptor at `file.tell()`,
    then seek the file object behind the data), the `copy_file_range` path of `ExternalTensor.tofile`
    (any number of kernel rounds copying any amounts at `destination_offset + copied` without
    moving the position, `file.seek(destination_offset + copied)`, then the rest through the chunk
    loop; nothing kernel-copied in append mode) and a chunk loop with any chunk size all leave
    exactly the image and the position of a single `file.write(data)` — at any position, past the
    end of the file, and in append mode. -/
theorem C04_tofile_paths (f : Dest) (data : List Nat) :
    f.ndTofile data = f.write data ∧
    (∀ rounds : List Nat, f.copyRange data rounds = f.write data) ∧
    (∀ size : Nat, 0 < size → f.writeAll (chunk size data) = f.write data) ∧
    (∀ a b : List Nat, (f.write a).write b = f.write (a ++ b)) :=
  ⟨ndTofile_eq_write f data, copyRange_eq_write f data,
   fun size h => by rw [writeAll_eq, chunk_flatten size h], write_write f⟩

/-- **C04_tofile_repr**: `tofile` of any legal representation into any destination (regular
    file or buffer, any position, append mode), through whichever mechanism the representation
    uses for that kind of destination, performs exactly the write of the canonical bytes and does
    not raise. -/
theorem C04_tofile_repr {d : DType} {dims : List Nat} {bw : Nat} {xs : List Nat}
    (wf : WF d dims bw xs) {r : Rep} (h : Legal d dims bw xs r) (f : Dest) :
    r.tofileAt f = .ok (f.write (packLE bw xs), false) := by
  simp [Rep.tofileAt, (legal_agrees wf h).tofile, deliver_eq_write]

/-- **C04_serialize_roundtrip**: serializing any legal representation and deserializing the
    proto (with the same data file for an external tensor) yields a legal representation of the
    same logical tensor (so, by `C04_field_agree`, the same values and bytes). -/
theorem C04_serialize_roundtrip {d : DType} {dims : List Nat} {bw : Nat} {xs : List Nat}
    (wf : WF d dims bw xs) {r : Rep} (h : Legal d dims bw xs r) :
    ∃ p r', serialize r = .ok p ∧ deserialize p (fileOf r) = .ok r' ∧ Legal d dims bw xs r' :=
  serialize_roundtrip wf h

/-! non-vacuity: the hypotheses are satisfiable by concrete tensors of every kind -/

example : WF .int4 [3] 4 [15, 7, 8] := ⟨by decide, by decide, by decide⟩
example : WF .uint2 [5] 2 [0, 1, 2, 3, 1] := ⟨by decide, by decide, by decide⟩
example : WF .float [] 32 [0x7FC00000] := ⟨by decide, by decide, by decide⟩
example : WF .double [0] 64 [] := ⟨by decide, by decide, by decide⟩
-- odd-length 4-bit data in int32_data, one byte stored as a negative int32
example : Legal .int4 [3] 4 [15, 7, 8] (.proto { dataType := 22, dims := [3], int32Data := [127, -248] }) :=
  Legal.protoInt32 [127, -248] (by decide) (by decide)
-- a sign-extended int8 storage byte for a 4-bit element
example : Legal .int4 [3] 4 [15, 7, 8] (.array .int4 [3] [0xFF, 7, 0xF8]) :=
  Legal.array [0xFF, 7, 0xF8] (by decide) (by decide)
-- 2-bit data at the end of a file, behind one unrelated byte, offset given, length omitted
example : Legal .uint2 [5] 2 [0, 1, 2, 3, 1]
    (.external { dtype := .uint2, dims := [5], offset := some 1, length := none } (some ([7] ++ packLE 2 [0, 1, 2, 3, 1] ++ []))) :=
  Legal.external _ [7] [] rfl rfl rfl (by intro l h; cases h)
example : Legal .uint2 [5] 2 [0, 1, 2, 3, 1] (.lazy .uint2 [5] (.packed { dtype := .uint2, dims := [5], raw := packLE 2 [0, 1, 2, 3, 1] })) :=
  Legal.lazy _ (Legal.packed (Or.inl rfl))
example : Legal .complex64 [1] 64 [0x3F80000040000000]
    (.proto { dataType := 14, dims := [1], floatData := splitParts 32 [0x3F80000040000000] }) :=
  Legal.protoComplex64 rfl
example : Legal .uint32 [2] 32 [1, 0xFFFFFFFF] (.proto { dataType := 12, dims := [2], uint64Data := [0x100000001, 0xFFFFFFFF] }) :=
  Legal.protoUint64as32 _ rfl (by decide)
example : Legal .uint2 [5] 2 [0, 1, 2, 3, 1] (.torch .uint2 [5] [0, 1, 2, 3, 1]) :=
  Legal.torch _ (by decide) (by decide) (by decide)
-- a torch view at storage offset 2 of a 7-element storage
example : Legal .uint8 [3] 8 [5, 6, 7] (.torch .uint8 [3] (torchView ([1, 2] ++ [5, 6, 7] ++ [9, 9]) 2 3)) :=
  Legal.torchView [1, 2] [5, 6, 7] [9, 9] (by decide) (by decide) (by decide)
-- big-endian memory: a real ndarray is rejected, any other array-compatible holder is legal and is
-- serialised little-endian (never in memory order)
example : Legal .float [1] 32 [0x3F800000] (.arrayMem .float [1] (memOf (32 / 8) true [0x3F800000]) true false) :=
  Legal.arrayMem true false rfl (by decide) (by decide)
example : memOf 4 true [0x3F800000] = [0x3F, 0x80, 0x00, 0x00] := by decide
example : (Rep.arrayMem .float [1] (memOf (32 / 8) true [0x3F800000]) true false).tobytes
    = .ok (packLE 32 [0x3F800000]) :=
  (C04_field_agree ⟨by decide, by decide, by decide⟩ (Legal.arrayMem true false rfl (by decide) (by decide))).tobytes
example : packLE 32 [0x3F800000] = [0x00, 0x00, 0x80, 0x3F] := by decide
example : (Rep.arrayMem .float [1] [0x3F, 0x80, 0x00, 0x00] true true).tobytes = .error "TypeError" := rfl
example : (Rep.array .float [1] [0x3F800000]).tobytes = .ok [0x00, 0x00, 0x80, 0x3F] := rfl
-- the kernel-copy path with a short first round, in the middle of a file
example : (copyRounds { img := [1, 2, 3, 4, 5, 6], pos := 2, regular := true } 2 [7, 8, 9] [2, 0] 0).1.img
    = [1, 2, 7, 8, 5, 6] := by decide
example : (copyRounds { img := [1, 2, 3, 4, 5, 6], pos := 2, regular := true } 2 [7, 8, 9] [2, 0] 0).2 = 2 := by
  decide
-- and the conclusions are not trivially true: the model answers concrete bytes
example : (Rep.proto { dataType := 22, dims := [3], int32Data := [127, -248] }).numpy = .ok [15, 7, 8] := rfl
example : (Rep.external { dtype := .uint2, dims := [5], offset := some 1, length := none } (some [7, 0xE4, 0x01])).numpy
    = .ok [0, 1, 2, 3, 1] := rfl
example : (Dest.write { img := [1, 2, 3], pos := 5 } [9, 8]).img = [1, 2, 3, 0, 0, 9, 8] := by decide
example : (Dest.write { img := [1, 2, 3], pos := 1, append := true } [9]).img = [1, 2, 3, 9] := by decide

end IrVerif.TensorRepr

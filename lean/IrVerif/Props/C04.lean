/-
C04 — property theorems (pack/unpack core).  Helper lemmas live here only when they are
one-liners; everything is core Lean (no Mathlib).
-/
import IrVerif.Model.Pack
namespace IrVerif.Pack

theorem resize_self (xs : List Nat) : resize xs xs.length = xs := by
  simp [resize]

theorem pack4_length : ∀ xs : List Nat, (pack4 xs).length = nbytes xs.length 4
  | [] => by simp [pack4, nbytes]
  | [a] => by simp [pack4, nbytes]
  | a :: b :: rest => by
      have := pack4_length rest
      simp [pack4, nbytes] at *
      omega

theorem pack4_byte : ∀ xs : List Nat, ∀ b ∈ pack4 xs, b < 256
  | [] => by simp [pack4]
  | [a] => by simp [pack4]; omega
  | a :: b :: rest => by
      intro x hx
      simp only [pack4, List.mem_cons] at hx
      rcases hx with h | h
      · omega
      · exact pack4_byte rest x h

/-- even length: raw unpack of pack is the masked list -/
theorem unpack4raw_pack4_even : ∀ xs : List Nat, xs.length % 2 = 0 →
    unpack4raw (pack4 xs) = xs.map (· % 16)
  | [], _ => by simp [pack4, unpack4raw]
  | [a], h => by simp at h
  | a :: b :: rest, h => by
      have ih := unpack4raw_pack4_even rest (by simp at h; omega)
      simp only [pack4, unpack4raw, ih, List.map_cons]
      congr 1
      · omega
      · congr 1; omega

theorem unpack4raw_pack4_odd : ∀ xs : List Nat, xs.length % 2 = 1 →
    unpack4raw (pack4 xs) = xs.map (· % 16) ++ [0]
  | [], h => by simp at h
  | [a], _ => by simp [pack4, unpack4raw]; omega
  | a :: b :: rest, h => by
      have ih := unpack4raw_pack4_odd rest (by simp at h; omega)
      simp only [pack4, unpack4raw, ih, List.map_cons, List.cons_append]
      congr 1
      · omega
      · congr 1; omega

/-- **C04_unpack_pack4**: unpacking what was packed returns every element masked to 4 bits,
    for every length (odd lengths exercise the padding rule). -/
theorem C04_unpack_pack4 (xs : List Nat) : unpack4 (pack4 xs) xs.length = xs.map (· % 16) := by
  rcases Nat.mod_two_eq_zero_or_one xs.length with h | h
  · have := unpack4raw_pack4_even xs h
    simp only [unpack4, this, List.length_map]
    simp only [show ¬ (xs.length = xs.length + 1) by omega, if_false]
    simpa using resize_self (xs.map (· % 16))
  · have := unpack4raw_pack4_odd xs h
    simp only [unpack4, this, List.length_append, List.length_map, List.length_singleton, if_true,
      List.dropLast_concat]
    simpa using resize_self (xs.map (· % 16))

theorem C04_pack4_len (xs : List Nat) : (pack4 xs).length = nbytes xs.length 4 := pack4_length xs

theorem pack2_length : ∀ xs : List Nat, (pack2 xs).length = nbytes xs.length 2
  | [] => by simp [pack2, nbytes]
  | [a] => by simp [pack2, nbytes]
  | [a, b] => by simp [pack2, nbytes]
  | [a, b, c] => by simp [pack2, nbytes]
  | a :: b :: c :: d :: rest => by
      have := pack2_length rest
      simp [pack2, nbytes] at *
      omega

theorem C04_pack2_len (xs : List Nat) : (pack2 xs).length = nbytes xs.length 2 := pack2_length xs

/-- raw unpack of a 2-bit pack is the masked list followed by the zero padding -/
theorem unpack2raw_pack2 : ∀ xs : List Nat,
    unpack2raw (pack2 xs) = xs.map (· % 4) ++ List.replicate ((4 - xs.length % 4) % 4) 0
  | [] => by simp [pack2, unpack2raw]
  | [a] => by simp [pack2, unpack2raw]; omega
  | [a, b] => by simp [pack2, unpack2raw]; omega
  | [a, b, c] => by simp [pack2, unpack2raw]; omega
  | a :: b :: c :: d :: rest => by
      have ih := unpack2raw_pack2 rest
      have hl : (4 - (a :: b :: c :: d :: rest).length % 4) % 4 = (4 - rest.length % 4) % 4 := by
        simp; omega
      simp only [pack2, unpack2raw, ih, List.map_cons, List.cons_append, hl]
      congr 1
      · omega
      · congr 1
        · omega
        · congr 1
          · omega
          · congr 1; omega

/-- **C04_unpack_pack2** -/
theorem C04_unpack_pack2 (xs : List Nat) : unpack2 (pack2 xs) xs.length = xs.map (· % 4) := by
  have h := unpack2raw_pack2 xs
  simp only [unpack2, h]
  have hlen : (xs.map (· % 4)).length = xs.length := by simp
  split
  · rw [List.take_append_of_le_length (by simp)]
    simp only [List.take_of_length_le (Nat.le_of_eq hlen)]
    simpa using resize_self (xs.map (· % 4))
  · rename_i hgt
    simp at hgt
    have : (4 - xs.length % 4) % 4 = 0 := by omega
    simp only [this, List.replicate_zero, List.append_nil]
    simpa using resize_self (xs.map (· % 4))

theorem leBytes_length (w x : Nat) : (leBytes w x).length = w := by
  induction w generalizing x with
  | zero => rfl
  | succ w ih => simp [leBytes, ih]

/-- **C04_le_roundtrip**: little-endian item bytes decode back to the bit pattern. -/
theorem C04_le_roundtrip (w x : Nat) (h : x < 256 ^ w) : ofLeBytes (leBytes w x) = x := by
  induction w generalizing x with
  | zero => simp [leBytes, ofLeBytes] at *; omega
  | succ w ih =>
      simp only [leBytes, ofLeBytes]
      have : x / 256 < 256 ^ w := by
        rw [Nat.div_lt_iff_lt_mul (by decide)]; rw [Nat.pow_succ] at h; exact h
      rw [ih _ this]; omega

/-- **C04_nbytes**: the model's `tobytes` has exactly `nbytes` bytes for the packed widths and
    for every whole-byte width. -/
theorem C04_nbytes (bw : Nat) (xs : List Nat) (h : bw = 2 ∨ bw = 4 ∨ bw % 8 = 0) :
    (tobytes bw xs).length = nbytes xs.length bw := by
  unfold tobytes
  rcases h with h | h | h
  · subst h; simp [pack2_length]
  · subst h; simp [pack4_length]
  · have h4 : bw ≠ 4 := by omega
    have h2 : bw ≠ 2 := by omega
    simp only [h4, h2, if_false]
    have : ∀ ys : List Nat, (ys.flatMap (leBytes (bw / 8))).length = ys.length * (bw / 8) := by
      intro ys; induction ys with
      | nil => simp
      | cons y ys ih => simp [List.flatMap_cons, leBytes_length, ih, Nat.add_mul]; omega
    rw [this, nbytes]
    obtain ⟨k, hk⟩ : ∃ k, bw = 8 * k := ⟨bw / 8, by omega⟩
    subst hk
    have h8 : 8 * k / 8 = k := by omega
    rw [h8, show xs.length * (8 * k) = 8 * (xs.length * k) from Nat.mul_left_comm _ _ _]
    omega

-- non-vacuity: odd lengths and out-of-range elements are covered by the statements above
example : unpack4 (pack4 [1, 2, 31]) 3 = [1, 2, 15] := by decide
example : unpack2 (pack2 [0, 1, 2, 3, 5]) 5 = [0, 1, 2, 3, 1] := by decide

end IrVerif.Pack

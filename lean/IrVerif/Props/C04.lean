/-
C04 — all tensor representations agree on values and bytes: the property theorems.

Models: `Model/Pack.lean` (pack/unpack, little-endian items, nbytes) and `Model/TensorRepr.lean`
(element-type tables, array / torch / packed / proto-backed / external / lazy representations,
destination files, serialize / deserialize).  Helper developments: `Lemmas/Pack.lean`,
`Lemmas/TensorRepr.lean`, `Lemmas/TensorReprAgree.lean`.  Everything is core Lean (no Mathlib).

Deepening round (sections at the end of this file): `Model/ExtLife.lean` (the lifecycle of one
`ExternalTensor` object over call histories and a changing file system; `C04_ext_*`, helper
`Lemmas/ExtLife.lean`), `Model/Strided.lean` (strided array / torch memory reduced to logical order
by the model; `C04_strided_*`, helper `Lemmas/Strided.lean`) and `Model/StrTensor.lean` (STRING
tensors; `C04_string_*`).

Second deepening round (last sections): `Model/PyTensor.lean` (`ir.tensor` on plain Python data: dtype
inference, shape discovery and scalar conversion; `C04_pytensor_*`, helper `Lemmas/PyTensor.lean`) and
the bounds checks of the numpy / torch constructors (`C04_strided_npcheck`, helper
`Lemmas/StridedBounds.lean`), which discharge the `inBounds` hypothesis of the strided theorems.
-/
import IrVerif.Lemmas.Pack
import IrVerif.Lemmas.TensorReprAgree
import IrVerif.Lemmas.ExtLife
import IrVerif.Lemmas.Strided
import IrVerif.Lemmas.StridedBounds
import IrVerif.Lemmas.PyTensor
import IrVerif.Lemmas.F8Round
import IrVerif.Model.StrTensor

namespace IrVerif.Pack

/-- **C04_unpack_pack4**: unpacking what was packed returns every element masked to 4 bits,
    for every length (odd lengths exercise the padding rule). -/
theorem C04_unpack_pack4 (xs : List Nat) : unpack4 (pack4 xs) xs.length = xs.map (· % 16) :=
  unpack4_pack4_mod xs

/-- **C04_unpack_pack2**: the same for 2-bit elements (lengths that are not multiples of 4
    exercise the padding rule). -/
theorem C04_unpack_pack2 (xs : List Nat) : unpack2 (pack2 xs) xs.length = xs.map (· % 4) :=
  unpack2_pack2_mod xs

theorem C04_pack4_len (xs : List Nat) : (pack4 xs).length = nbytes xs.length 4 := pack4_length xs

theorem C04_pack2_len (xs : List Nat) : (pack2 xs).length = nbytes xs.length 2 := pack2_length xs

/-- **C04_pack_unpack4**: packing what was unpacked from a buffer of exactly `nbytes n 4` bytes
    returns the buffer with the padding bits cleared (so a buffer with zero padding round-trips
    exactly). -/
theorem C04_pack_unpack4 (bs : List Nat) (n : Nat) (hb : ∀ b ∈ bs, b < 256)
    (hn : bs.length = nbytes n 4) : pack4 (unpack4 bs n) = clearPad 4 n bs :=
  pack4_unpack4 bs n hb hn

/-- **C04_pack_unpack2** -/
theorem C04_pack_unpack2 (bs : List Nat) (n : Nat) (hb : ∀ b ∈ bs, b < 256)
    (hn : bs.length = nbytes n 2) : pack2 (unpack2 bs n) = clearPad 2 n bs :=
  pack2_unpack2 bs n hb hn

/-- **C04_le_roundtrip**: little-endian item bytes decode back to the bit pattern. -/
theorem C04_le_roundtrip (w x : Nat) (h : x < 256 ^ w) : ofLeBytes (leBytes w x) = x :=
  ofLeBytes_leBytes w x h

/-- **C04_nbytes**: the canonical byte form has exactly `nbytes = ceil(size * bitwidth / 8)` bytes
    for the packed widths and for every whole-byte width. -/
theorem C04_nbytes (bw : Nat) (xs : List Nat) (h : bw = 2 ∨ bw = 4 ∨ bw % 8 = 0) :
    (tobytes bw xs).length = nbytes xs.length bw :=
  IrVerif.TensorRepr.packLE_length bw xs h

/-- **C04_pack_bitstream**: the canonical byte form IS the specified layout.  Read as one
    little-endian bit stream (bit 0 of byte 0 first), the bytes `tobytes bw xs` consist of the
    elements' `bw` low bits in element order, the FIRST element in the LOWEST bits, followed by
    zero bits up to `8 * nbytes`; for the 4- and 2-bit packings and for every whole-byte width
    (little-endian items), for all lengths.  `elemStream` / `natBits` do not mention `pack4`,
    `pack2` or `leBytes`: swapping the nibble order in the packer (even consistently with the
    unpacker) falsifies this theorem. -/
theorem C04_pack_bitstream (bw : Nat) (xs : List Nat) (h : bw = 2 ∨ bw = 4 ∨ bw % 8 = 0) :
    bitStream (tobytes bw xs) = elemStream bw xs (nbytes xs.length bw) :=
  bitStream_tobytes bw xs h

-- the specification is concrete: element 0 sits in the low bits
example : bitStream (pack4 [1, 2, 3]) =
    [true, false, false, false,  false, true, false, false,  true, true, false, false,  false, false, false, false] := by
  decide
example : bitStream (pack2 [1, 2]) = [true, false, false, true, false, false, false, false] := by decide
example : bitStream (leBytes 2 0x0102) = natBits 16 0x0102 := by decide

-- non-vacuity: odd lengths, out-of-range elements, non-zero padding bits
example : unpack4 (pack4 [1, 2, 31]) 3 = [1, 2, 15] := by decide
example : unpack2 (pack2 [0, 1, 2, 3, 5]) 5 = [0, 1, 2, 3, 1] := by decide
example : pack4 (unpack4 [0x21, 0xF3] 3) = [0x21, 0x03] := by decide
example : pack2 (unpack2 [0xE4, 0xFD] 5) = [0xE4, 0x01] := by decide
-- the pre-fix behaviour D20 (2-bit data unpacked with the 4-bit routine) is not the 2-bit decoding
example : unpack4 [0xE4, 0x01] 5 ≠ unpack2 [0xE4, 0x01] 5 := by decide

end IrVerif.Pack

namespace IrVerif.TensorRepr
open IrVerif.Pack

/-- what `C04_tables` states about the element-type tables of `_enums` -/
structure Tables : Prop where
  /-- 27 members with the codes 0..26 -/
  count : DType.all.length = 27
  code_inv : ∀ d : DType, DType.ofCode d.code = some d
  code_inv' : ∀ n, n < 27 → (DType.ofCode n).map DType.code = some n
  code_range : ∀ n, 27 ≤ n → DType.ofCode n = none
  /-- bit widths exist for every member except UNDEFINED and STRING -/
  bitwidth_total : ∀ d : DType, d.bitwidth = none ↔ (d = .undefined ∨ d = .string)
  /-- short names: total, and `from_short_name` / `short_name` are mutually inverse -/
  short_total : ∀ d : DType, (d.shortName.bind DType.ofShortName) = some d
  short_inv : ∀ (s : String) (d : DType), DType.ofShortName s = some d → d.shortName = some s
  /-- numpy types: total except UNDEFINED, `from_numpy` / `numpy()` mutually inverse -/
  np_total : ∀ d : DType, d ≠ .undefined → (d.npName.bind DType.ofNpName) = some d
  np_undefined : DType.undefined.npName = none
  np_inv : ∀ (s : String) (d : DType), DType.ofNpName s = some d → d.npName = some s
  /-- `itemsize * 8 = bitwidth` against the numpy item size: whole-byte types occupy bitwidth/8
      bytes, 2- and 4-bit types one byte per element -/
  itemsize : ∀ (d : DType) (bw : Nat), d.bitwidth = some bw →
    (8 ≤ bw → 8 * npItemBytes d = bw) ∧ (bw < 8 → npItemBytes d = 1)
  /-- the literal type sets used by the byte builders coincide with the bit-width table -/
  sets : ∀ (d : DType) (bw : Nat), d.bitwidth = some bw →
    (d.bytePack4 = true ↔ bw = 4) ∧ (d.bytePack2 = true ↔ bw = 2) ∧
    (d.extSubByte = true ↔ (bw = 4 ∨ bw = 2)) ∧
    (d.int32Legal = true → bw ≤ 32 ∧ (d.int32Bytes16 = true ↔ bw = 16) ∧
      (d.int32Bytes8 = true ↔ (bw = 8 ∨ bw = 4 ∨ bw = 2)) ∧ (d = .int32 ↔ bw = 32))
  /-- integer and floating-point classifications are disjoint and have a bit width -/
  classes : ∀ d : DType, ¬ (d.isInteger = true ∧ d.isFloatingPoint = true) ∧
    ((d.isInteger = true ∨ d.isFloatingPoint = true) → d.bitwidth.isSome = true)

/-- **C04_tables**: the element-type tables are total where claimed, mutually inverse, and
    consistent with each other (finite: by evaluation of the literals, which the check compares
    with the real `_enums` tables on every run). -/
theorem C04_tables : Tables where
  count := by decide
  code_inv := ofCode_code
  code_inv' := by decide
  code_range := by
    intro n hn
    simp only [DType.ofCode]
    exact List.getElem?_eq_none (by simpa [DType.all] using hn)
  bitwidth_total := by intro d; cases d <;> decide
  short_total := by intro d; cases d <;> decide
  short_inv := by
    intro s d h
    simp only [DType.ofShortName, Option.map_eq_some_iff] at h
    obtain ⟨p, hp, rfl⟩ := h
    have hm := List.mem_of_find?_eq_some hp
    have hs := List.find?_some hp
    simp only [decide_eq_true_eq] at hs
    rw [← hs]
    have hall : ∀ q ∈ DType.shortNameTable.reverse, q.1.shortName = some q.2 := by decide
    exact hall p hm
  np_total := by intro d; cases d <;> decide
  np_undefined := by decide
  np_inv := by
    intro s d h
    simp only [DType.ofNpName] at h
    have hall : ∀ q ∈ DType.npTable, DType.npTable.lookup q.1 = some q.2 → q.2.npName = some q.1 := by
      decide
    have hmem : (s, d) ∈ DType.npTable := by
      clear hall
      revert h
      generalize DType.npTable = t
      intro h
      induction t with
      | nil => simp [List.lookup] at h
      | cons q t ih =>
        simp only [List.lookup] at h
        split at h
        · rename_i heq
          simp only [beq_iff_eq] at heq
          simp only [Option.some.injEq] at h
          subst h; subst heq
          simp
        · exact List.mem_cons_of_mem _ (ih h)
    exact hall (s, d) hmem h
  itemsize := by
    intro d bw h
    have F := facts d bw h
    constructor
    · intro h8
      rcases F.item with h2 | h4 | hi
      · omega
      · omega
      · exact hi.symm
    · intro h8
      apply F.item1
      rcases F.range with h | h | h | h | h | h | h <;> omega
  sets := by
    intro d bw h
    have F := facts d bw h
    exact ⟨F.pack4, F.pack2, F.sub, F.i32⟩
  classes := by intro d; cases d <;> decide

/-- **C04_field_agree**: every legal representation of a logical tensor (element type `d` of `bw`
    bits, shape `dims`, element bit patterns `xs`) — array-backed with any storage form (also given as memory in either byte order behind an
    array-compatible object), torch
    adapter (also over a contiguous view at any storage offset of a larger storage), packed, proto-backed through `raw_data`, `int32_data` (any congruent int32 values, at
    32/16/8 bits and packed at 4/2 bits), `int64_data`, `uint64_data` (also for UINT32),
    `float_data` / `double_data` (also as complex pairs), external at any offset inside any file,
    and a lazy wrapper around any of these — reports `d` and `dims`, has
    `nbytes = ceil(size * bw / 8)`, decodes (`numpy()`, bits masked to the width) to exactly `xs`,
    and returns exactly the canonical little-endian packed bytes from `tobytes()` and `tofile()`. -/
theorem C04_field_agree {d : DType} {dims : List Nat} {bw : Nat} {xs : List Nat}
    (wf : WF d dims bw xs) {r : Rep} (h : Legal d dims bw xs r) : Agrees d dims bw xs r :=
  legal_agrees wf h

/-- **C04_all_agree**: any two legal representations of the same logical tensor are
    observationally equal. -/
theorem C04_all_agree {d : DType} {dims : List Nat} {bw : Nat} {xs : List Nat}
    (wf : WF d dims bw xs) {r₁ r₂ : Rep} (h₁ : Legal d dims bw xs r₁) (h₂ : Legal d dims bw xs r₂) :
    r₁.dtype = r₂.dtype ∧ r₁.shape = r₂.shape ∧ r₁.nbytes = r₂.nbytes ∧
    r₁.tobytes = r₂.tobytes ∧ r₁.tofile = r₂.tofile ∧
    (∃ u₁ u₂, r₁.numpy = .ok u₁ ∧ r₂.numpy = .ok u₂ ∧ obsBits bw u₁ = obsBits bw u₂) := by
  have A := legal_agrees wf h₁
  have B := legal_agrees wf h₂
  obtain ⟨u₁, hu₁, e₁⟩ := A.numpy
  obtain ⟨u₂, hu₂, e₂⟩ := B.numpy
  exact ⟨A.dtype.trans B.dtype.symm, A.shape.trans B.shape.symm, A.nbytes.trans B.nbytes.symm,
    A.tobytes.trans B.tobytes.symm, A.tofile.trans B.tofile.symm,
    u₁, u₂, hu₁, hu₂, e₁.trans e₂.symm⟩

/-- **C04_bytes_len**: the bytes every legal representation returns have length `nbytes`. -/
theorem C04_bytes_len {d : DType} {dims : List Nat} {bw : Nat} {xs : List Nat}
    (wf : WF d dims bw xs) : (packLE bw xs).length = nbytes (prod dims) bw := by
  have F := facts d bw wf.hbw
  rw [← wf.len]
  apply packLE_length
  rcases F.range with h | h | h | h | h | h | h <;> omega

/-- **C04_tofile_at**: a non-empty write at position `p` (the end in append mode) keeps every
    byte before `p` (zero-filling a gap past the old end), puts exactly the data at `[p, p+len)`,
    keeps every byte from `p+len` on, and leaves the position at `p+len`; an empty write changes
    nothing. -/
theorem C04_tofile_at (f : Dest) (data : List Nat) :
    (data = [] → f.write data = f) ∧
    (data ≠ [] →
      (f.write data).pos = (if f.append then f.img.length else f.pos) + data.length ∧
      (f.write data).img.take (if f.append then f.img.length else f.pos)
        = f.img.take (if f.append then f.img.length else f.pos)
          ++ List.replicate ((if f.append then f.img.length else f.pos) - f.img.length) 0 ∧
      ((f.write data).img.drop (if f.append then f.img.length else f.pos)).take data.length = data ∧
      (f.write data).img.drop ((if f.append then f.img.length else f.pos) + data.length)
        = f.img.drop ((if f.append then f.img.length else f.pos) + data.length)) :=
  ⟨fun h => by subst h; exact write_nil f, write_spec f data⟩

/-- **C04_tofile_paths**: the three ways `tofile` delivers bytes to a destination perform the
    same write.  `ndarray.tofile(file)` (write through a duplicated descriptor at `file.tell()`,
    then seek the file object behind the data), the `copy_file_range` path of `ExternalTensor.tofile`
    (any number of kernel rounds copying any amounts at `destination_offset + copied` without
    moving the position, `file.seek(destination_offset + copied)`, then the rest through the chunk
    loop; nothing kernel-copied in append mode) and a chunk loop with any chunk size all leave
    exactly the image and the position of a single `file.write(data)` — at any position, past the
    end of the file, and in append mode. -/
theorem C04_tofile_paths (f : Dest) (data : List Nat) :
    f.ndTofile data = f.write data ∧
    (∀ rounds : List Nat, f.copyRange data rounds = f.write data) ∧
    (∀ size : Nat, 0 < size → f.writeAll (chunk size data) = f.write data) ∧
    (∀ a b : List Nat, (f.write a).write b = f.write (a ++ b)) :=
  ⟨ndTofile_eq_write f data, copyRange_eq_write f data,
   fun size h => by rw [writeAll_eq, chunk_flatten size h], write_write f⟩

/-- **C04_tofile_repr**: `tofile` of any legal representation into any destination (regular
    file or buffer, any position, append mode), through whichever mechanism the representation
    uses for that kind of destination, performs exactly the write of the canonical bytes and does
    not raise. -/
theorem C04_tofile_repr {d : DType} {dims : List Nat} {bw : Nat} {xs : List Nat}
    (wf : WF d dims bw xs) {r : Rep} (h : Legal d dims bw xs r) (f : Dest) :
    r.tofileAt f = .ok (f.write (packLE bw xs), false) := by
  simp [Rep.tofileAt, (legal_agrees wf h).tofile, deliver_eq_write]

/-- **C04_serialize_roundtrip**: serializing any legal representation and deserializing the
    proto (with the same data file for an external tensor) yields a legal representation of the
    same logical tensor (so, by `C04_field_agree`, the same values and bytes). -/
theorem C04_serialize_roundtrip {d : DType} {dims : List Nat} {bw : Nat} {xs : List Nat}
    (wf : WF d dims bw xs) {r : Rep} (h : Legal d dims bw xs r) :
    ∃ p r', serialize r = .ok p ∧ deserialize p (fileOf r) = .ok r' ∧ Legal d dims bw xs r' :=
  serialize_roundtrip wf h

/-! non-vacuity: the hypotheses are satisfiable by concrete tensors of every kind -/

example : WF .int4 [3] 4 [15, 7, 8] := ⟨by decide, by decide, by decide⟩
example : WF .uint2 [5] 2 [0, 1, 2, 3, 1] := ⟨by decide, by decide, by decide⟩
example : WF .float [] 32 [0x7FC00000] := ⟨by decide, by decide, by decide⟩
example : WF .double [0] 64 [] := ⟨by decide, by decide, by decide⟩
-- odd-length 4-bit data in int32_data, one byte stored as a negative int32
example : Legal .int4 [3] 4 [15, 7, 8] (.proto { dataType := 22, dims := [3], int32Data := [127, -248] }) :=
  Legal.protoInt32 [127, -248] (by decide) (by decide)
-- a sign-extended int8 storage byte for a 4-bit element
example : Legal .int4 [3] 4 [15, 7, 8] (.array .int4 [3] [0xFF, 7, 0xF8]) :=
  Legal.array [0xFF, 7, 0xF8] (by decide) (by decide)
-- 2-bit data at the end of a file, behind one unrelated byte, offset given, length omitted
example : Legal .uint2 [5] 2 [0, 1, 2, 3, 1]
    (.external { dtype := .uint2, dims := [5], offset := some 1, length := none } (some ([7] ++ packLE 2 [0, 1, 2, 3, 1] ++ []))) :=
  Legal.external _ [7] [] rfl rfl rfl (by intro l h; cases h)
example : Legal .uint2 [5] 2 [0, 1, 2, 3, 1] (.lazy .uint2 [5] (.packed { dtype := .uint2, dims := [5], raw := packLE 2 [0, 1, 2, 3, 1] })) :=
  Legal.lazy _ (Legal.packed (Or.inl rfl))
example : Legal .complex64 [1] 64 [0x3F80000040000000]
    (.proto { dataType := 14, dims := [1], floatData := splitParts 32 [0x3F80000040000000] }) :=
  Legal.protoComplex64 rfl
example : Legal .uint32 [2] 32 [1, 0xFFFFFFFF] (.proto { dataType := 12, dims := [2], uint64Data := [0x100000001, 0xFFFFFFFF] }) :=
  Legal.protoUint64as32 _ rfl (by decide)
example : Legal .uint2 [5] 2 [0, 1, 2, 3, 1] (.torch .uint2 [5] [0, 1, 2, 3, 1]) :=
  Legal.torch _ (by decide) (by decide) (by decide)
-- a torch view at storage offset 2 of a 7-element storage
example : Legal .uint8 [3] 8 [5, 6, 7] (.torch .uint8 [3] (torchView ([1, 2] ++ [5, 6, 7] ++ [9, 9]) 2 3)) :=
  Legal.torchView [1, 2] [5, 6, 7] [9, 9] (by decide) (by decide) (by decide)
-- big-endian memory: a real ndarray is rejected, any other array-compatible holder is legal and is
-- serialised little-endian (never in memory order)
example : Legal .float [1] 32 [0x3F800000] (.arrayMem .float [1] (memOf (32 / 8) true [0x3F800000]) true false) :=
  Legal.arrayMem true false rfl (by decide) (by decide)
example : memOf 4 true [0x3F800000] = [0x3F, 0x80, 0x00, 0x00] := by decide
example : (Rep.arrayMem .float [1] (memOf (32 / 8) true [0x3F800000]) true false).tobytes
    = .ok (packLE 32 [0x3F800000]) :=
  (C04_field_agree ⟨by decide, by decide, by decide⟩ (Legal.arrayMem true false rfl (by decide) (by decide))).tobytes
example : packLE 32 [0x3F800000] = [0x00, 0x00, 0x80, 0x3F] := by decide
example : (Rep.arrayMem .float [1] [0x3F, 0x80, 0x00, 0x00] true true).tobytes = .error "TypeError" := rfl
example : (Rep.array .float [1] [0x3F800000]).tobytes = .ok [0x00, 0x00, 0x80, 0x3F] := rfl
-- the kernel-copy path with a short first round, in the middle of a file
example : (copyRounds { img := [1, 2, 3, 4, 5, 6], pos := 2, regular := true } 2 [7, 8, 9] [2, 0] 0).1.img
    = [1, 2, 7, 8, 5, 6] := by decide
example : (copyRounds { img := [1, 2, 3, 4, 5, 6], pos := 2, regular := true } 2 [7, 8, 9] [2, 0] 0).2 = 2 := by
  decide
-- and the conclusions are not trivially true: the model answers concrete bytes
example : (Rep.proto { dataType := 22, dims := [3], int32Data := [127, -248] }).numpy = .ok [15, 7, 8] := rfl
example : (Rep.external { dtype := .uint2, dims := [5], offset := some 1, length := none } (some [7, 0xE4, 0x01])).numpy
    = .ok [0, 1, 2, 3, 1] := rfl
example : (Dest.write { img := [1, 2, 3], pos := 5 } [9, 8]).img = [1, 2, 3, 0, 0, 9, 8] := by decide
example : (Dest.write { img := [1, 2, 3], pos := 1, append := true } [9]).img = [1, 2, 3, 9] := by decide

end IrVerif.TensorRepr

/-! ## Deepening round: call histories of one `ExternalTensor` object (`Model/ExtLife.lean`)

The object keeps a mapping and an array between calls.  The theorems below quantify over ALL call
histories (reads through `numpy()`, `__array__`, `tobytes()`, `tofile()` with or without keeping
the returned array alive, `release()`, `invalidate()`, `base_dir` re-assignment, and the environment
creating, atomically replacing or removing the data file in any directory) from the constructor.
`fresh e en file` is what a newly constructed tensor answers through entry point `en` for the file
content `file`; `C04_field_agree` says what that is for a legal file. -/

namespace IrVerif.ExtLife
open IrVerif.Pack IrVerif.TensorRepr

/-- **C04_ext_history_read** (unconditional): after ANY history, a read either raises `ValueError`
    (the object was invalidated) or answers exactly what a FRESH object answers -- `tofile()` on
    the file the path currently names, the mapping-based entry points (`numpy()`, `__array__`,
    `tobytes()`) on the file they have seen: the mapped file while a complete load is held,
    otherwise the file the path currently names.  In particular `numpy()`, `__array__` and
    `tobytes()` always answer from the SAME file content, a failed load (file missing, empty or
    too short) leaves nothing behind that a later read would answer from, and no history makes a
    read return anything but the bytes `[offset, offset+length)` of a file that was named by
    `(base_dir, location)`, decoded per dtype. -/
theorem C04_ext_history_read (e : Ext) (fs : FS) (d : Nat) (ops : List Op) (en : Entry) (hold : Bool) :
    (step e (run e (init fs d) ops).1 (.read en hold)).2 =
      if (run e (init fs d) ops).1.st.valid = true then
        fresh e en (if en = .tofile then cur (run e (init fs d) ops).1 else seen (run e (init fs d) ops).1)
      else .raised "ValueError" := by
  have hi := inv_run (e := e) ops (inv_init e fs d)
  by_cases hv : (run e (init fs d) ops).1.st.valid = true
  · rw [if_pos hv]; exact read_obs hi hv en hold
  · rw [if_neg hv]; exact read_obs_invalid e _ (by simpa using hv) en hold

/-- **C04_ext_history_agree**: in a coherent state (no complete load is held, or the mapped file is
    still the file the path names) every entry point of a valid object answers what a fresh object
    answers for the file CURRENTLY named by `(base_dir, location)` -- the same file through every
    entry point.  `coherent` is decidable; the check evaluates it after every call of every
    generated history and publishes the share. -/
theorem C04_ext_history_agree (e : Ext) (fs : FS) (d : Nat) (ops : List Op)
    (hc : coherent (run e (init fs d) ops).1 = true)
    (hv : (run e (init fs d) ops).1.st.valid = true) (en : Entry) (hold : Bool) :
    (step e (run e (init fs d) ops).1 (.read en hold)).2 = fresh e en (cur (run e (init fs d) ops).1) := by
  rw [C04_ext_history_read, if_pos hv, seen_of_coherent hc]
  split <;> rfl

/-- **C04_ext_quiet_coherent**: coherence can only be lost by the environment: a history in which
    the named file is never replaced or removed WHILE the object holds a complete load of it
    (`quiet`, decidable on the history) ends in a coherent state -- whatever reads, failed loads,
    releases (also failing ones), invalidations, `base_dir` re-assignments and file replacements at
    other times or in other directories it contains. -/
theorem C04_ext_quiet_coherent (e : Ext) (fs : FS) (d : Nat) (ops : List Op)
    (hq : quiet e (init fs d) ops = true) : coherent (run e (init fs d) ops).1 = true :=
  coherent_run ops (inv_init e fs d) rfl hq

/-- **C04_ext_invalidated**: once `invalidate()` was called, every read raises `ValueError`, after
    any further history. -/
theorem C04_ext_invalidated (e : Ext) (fs : FS) (d : Nat) (before after : List Op) (en : Entry)
    (hold : Bool) :
    (step e (run e (init fs d) (before ++ Op.invalidate :: after)).1 (.read en hold)).2
      = .raised "ValueError" := by
  apply read_obs_invalid
  rw [run_append]
  simp only [run]
  exact run_valid_false after rfl

/-- **C04_ext_release_fresh**: after `release()` -- also one that raised `BufferError` because the
    caller still holds an exported array -- every read of a valid object answers what a fresh
    object answers for the file currently named (unconditionally: `release()` is what restores
    coherence). -/
theorem C04_ext_release_fresh (e : Ext) (fs : FS) (d : Nat) (ops : List Op) (en : Entry) (hold : Bool)
    (hv : (run e (init fs d) ops).1.st.valid = true) :
    (step e (step e (run e (init fs d) ops).1 .release).1 (.read en hold)).2
      = fresh e en (cur (run e (init fs d) ops).1) := by
  have hi := inv_run (e := e) ops (inv_init e fs d)
  have R := release_arr (run e (init fs d) ops).1.st
  have hi' := inv_step hi .release
  have hv' : (step e (run e (init fs d) ops).1 .release).1.st.valid = true := by
    simp only [step]; rw [R.2.1]; exact hv
  have hcur : cur (step e (run e (init fs d) ops).1 .release).1 = cur (run e (init fs d) ops).1 := by
    simp only [step, cur]; rw [R.2.2]
  rw [read_obs hi' hv' en hold, seen_of_arr_none (by simp only [step]; exact R.1), hcur]
  split <;> rfl

/-- **C04_ext_release_neutral**: in a coherent state `release()` never changes what the next read
    returns, through any entry point, valid or not. -/
theorem C04_ext_release_neutral (e : Ext) (fs : FS) (d : Nat) (ops : List Op) (en : Entry) (hold : Bool)
    (hc : coherent (run e (init fs d) ops).1 = true) :
    (step e (step e (run e (init fs d) ops).1 .release).1 (.read en hold)).2
      = (step e (run e (init fs d) ops).1 (.read en hold)).2 := by
  by_cases hv : (run e (init fs d) ops).1.st.valid = true
  · rw [C04_ext_release_fresh e fs d ops en hold hv, C04_ext_history_agree e fs d ops hc hv]
  · have hv' : (run e (init fs d) ops).1.st.valid = false := by simpa using hv
    rw [read_obs_invalid e _ hv', read_obs_invalid e _ (step_valid_false hv' .release)]

/-- **C04_ext_basedir**: assigning a DIFFERENT `base_dir` either succeeds, and then every read
    answers what a fresh object answers for the file in the NEW directory, or raises `BufferError`
    (an exported array is still held), and then `base_dir` is unchanged and every read answers what
    a fresh object answers for the file currently in the OLD directory; never anything read under
    the other directory. -/
theorem C04_ext_basedir (e : Ext) (fs : FS) (d : Nat) (ops : List Op) (d' : Nat)
    (hne : d' ≠ (run e (init fs d) ops).1.st.baseDir)
    (hv : (run e (init fs d) ops).1.st.valid = true) :
    (((step e (run e (init fs d) ops).1 (.setBaseDir d')).2 = .done ∧
        (step e (run e (init fs d) ops).1 (.setBaseDir d')).1.st.baseDir = d') ∨
      ((step e (run e (init fs d) ops).1 (.setBaseDir d')).2 = .raised "BufferError" ∧
        (step e (run e (init fs d) ops).1 (.setBaseDir d')).1.st.baseDir
          = (run e (init fs d) ops).1.st.baseDir)) ∧
    ∀ (en : Entry) (hold : Bool),
      (step e (step e (run e (init fs d) ops).1 (.setBaseDir d')).1 (.read en hold)).2
        = fresh e en (fsGet (run e (init fs d) ops).1.fs
            (step e (run e (init fs d) ops).1 (.setBaseDir d')).1.st.baseDir) := by
  have hi := inv_run (e := e) ops (inv_init e fs d)
  generalize (run e (init fs d) ops).1 = w at *
  have hi' := inv_step hi (.setBaseDir d')
  have harr : (step e w (.setBaseDir d')).1.st.arr = none := by
    simp only [step, doSetBaseDir, doRelease, ne_eq, hne, not_false_eq_true, ↓reduceIte]
    repeat' split
    all_goals rfl
  have hval : (step e w (.setBaseDir d')).1.st.valid = true := by
    simp only [step, doSetBaseDir, doRelease, ne_eq, hne, not_false_eq_true, ↓reduceIte]
    repeat' split
    all_goals exact hv
  constructor
  · simp only [step, doSetBaseDir, doRelease, ne_eq, hne, not_false_eq_true, ↓reduceIte]
    repeat' split
    all_goals simp_all
  · intro en hold
    rw [read_obs hi' hval en hold, seen_of_arr_none harr]
    have : cur (step e w (.setBaseDir d')).1 = fsGet w.fs (step e w (.setBaseDir d')).1.st.baseDir := rfl
    rw [this]
    split <;> rfl

/-- **C04_ext_history_legal**: the agreement theorem for histories.  When the file currently named
    holds the canonical bytes of a logical tensor at the offset (between arbitrary other content)
    and the state is coherent, then after ANY history the valid object returns exactly the logical
    elements from `numpy()` and `__array__`, exactly the canonical little-endian packed bytes from
    `tobytes()`, and delivers exactly those bytes through `tofile()` without raising. -/
theorem C04_ext_history_legal {dt : DType} {dims : List Nat} {bw : Nat} {xs : List Nat}
    (wf : WF dt dims bw xs) (e : Ext) (pre post : List Nat) (hd : e.dtype = dt) (hdims : e.dims = dims)
    (hoff : e.offset.getD 0 = pre.length)
    (hlen : ∀ l, e.length = some l → l = 0 ∨ l = nbytes (prod dims) bw)
    (fs : FS) (d : Nat) (ops : List Op)
    (hc : coherent (run e (init fs d) ops).1 = true)
    (hv : (run e (init fs d) ops).1.st.valid = true)
    (hfile : cur (run e (init fs d) ops).1 = some (pre ++ packLE bw xs ++ post)) (hold : Bool) :
    (∃ u, (step e (run e (init fs d) ops).1 (.read .numpy hold)).2 = .units u ∧ obsBits bw u = xs) ∧
    (∃ u, (step e (run e (init fs d) ops).1 (.read .asarray hold)).2 = .units u ∧ obsBits bw u = xs) ∧
    (step e (run e (init fs d) ops).1 (.read .tobytes hold)).2 = .bytes (packLE bw xs) ∧
    (step e (run e (init fs d) ops).1 (.read .tofile hold)).2 = .wrote (packLE bw xs) false := by
  have A := C04_field_agree wf (Legal.external e pre post hd hdims hoff hlen)
  obtain ⟨u, hu, hx⟩ := A.numpy
  have hn : e.numpy (some (pre ++ packLE bw xs ++ post)) = .ok u := hu
  have hb : e.tobytes (some (pre ++ packLE bw xs ++ post)) = .ok (packLE bw xs) := A.tobytes
  have hf : e.tofile (some (pre ++ packLE bw xs ++ post)) = .ok (packLE bw xs, false) := A.tofile
  refine ⟨⟨u, ?_, hx⟩, ⟨u, ?_, hx⟩, ?_, ?_⟩
  · rw [C04_ext_history_agree e fs d ops hc hv, hfile]; simp only [fresh, hn]
  · rw [C04_ext_history_agree e fs d ops hc hv, hfile]; simp only [fresh, hn]
  · rw [C04_ext_history_agree e fs d ops hc hv, hfile]; simp only [fresh, hb]
  · rw [C04_ext_history_agree e fs d ops hc hv, hfile]; simp only [fresh, hf]

/-- the tensor of the witnesses: four UINT4 elements (two bytes) at offset 1 of a four-byte file -/
def wExt : Ext := { dtype := .uint4, dims := [4], offset := some 1, length := some 2 }

/-- **C04_ext_stale_witness** (observation D380, why `coherent` is a hypothesis): the code serves
    `tobytes()` / `numpy()` from the mapping made by the first read, `tofile()` from the path.  After
    the data file is atomically replaced under a live mapping the entry points of ONE object
    disagree (old bytes vs new bytes), the state is not coherent, and `release()` changes what the
    next `tobytes()` returns. -/
theorem C04_ext_stale_witness :
    coherent (run wExt (init [(0, [1, 0x21, 0x43, 9])] 0)
        [Op.read .tobytes false, Op.put 0 [9, 0x65, 0x87, 9]]).1 = false ∧
    quiet wExt (init [(0, [1, 0x21, 0x43, 9])] 0) [Op.read .tobytes false, Op.put 0 [9, 0x65, 0x87, 9]] = false ∧
    (run wExt (init [(0, [1, 0x21, 0x43, 9])] 0)
        [.read .tobytes false, .put 0 [9, 0x65, 0x87, 9], .read .tobytes false, .read .numpy false,
         .read .tofile false, .release, .read .tobytes false]).2
      = [.bytes [0x21, 0x43], .done, .bytes [0x21, 0x43], .units [1, 2, 3, 4], .wrote [0x65, 0x87] false,
         .done, .bytes [0x65, 0x87]] := by
  decide

/-! non-vacuity and concreteness of the history theorems -/

-- a history with a failed load (file too short), a replacement, a failing release and a base_dir change
-- (UINT8 would pin the mapping; the 4-bit array is an unpacked copy and does not, so release succeeds)
example : (run wExt (init [(0, [1, 2])] 0)
    [.read .tobytes false, .put 0 [1, 0x21, 0x43, 9], .read .tobytes false, .read .numpy true, .release,
     .read .tofile false, .setBaseDir 1, .read .numpy false, .invalidate, .read .tofile false]).2
    = [.raised "ValueError", .done, .bytes [0x21, 0x43], .units [1, 2, 3, 4], .done,
       .wrote [0x21, 0x43] false, .done, .raised "FileNotFoundError", .done, .raised "ValueError"] := by decide
-- a held array of a whole-byte type pins the mapping: release() and the base_dir setter raise, base_dir stays
example : (run { dtype := .uint8, dims := [0], offset := none, length := none } (init [] 0)
    [.read .numpy true, .release, .read .tobytes false, .read .tofile false]).2
    = [.units [], .done, .bytes [], .raised "FileNotFoundError"] := by decide
example : doRelease { baseDir := 0, raw := some [1], arr := some [1], pinned := true }
    = ({ baseDir := 0, raw := some [1], arr := none, pinned := true }, .raised "BufferError") := by decide
example : doSetBaseDir { baseDir := 0, raw := some [1], arr := some [1], pinned := true } 5
    = ({ baseDir := 0, raw := some [1], arr := none, pinned := true }, .raised "BufferError") := by decide
-- that history is quiet, so it ends coherent
example : quiet wExt (init [(0, [1, 2])] 0)
    [.read .tobytes false, .put 0 [1, 0x21, 0x43, 9], .read .tobytes false, .read .numpy true, .release] = true := by
  decide
-- after the failed load the mapping exists without an array (D143): the state is coherent and the next
-- tobytes loads again instead of slicing the short mapping
example : (run wExt (init [(0, [1, 2])] 0) [.read .tobytes false]).1.st
    = { baseDir := 0, raw := some [1, 2], arr := none } := by decide
-- the hypotheses of C04_ext_history_legal are satisfiable: 2-bit data behind one unrelated byte
example : WF .uint2 [5] 2 [0, 1, 2, 3, 1] := ⟨by decide, by decide, by decide⟩
example : cur (run { dtype := .uint2, dims := [5], offset := some 1, length := none }
      (init [(3, [7] ++ packLE 2 [0, 1, 2, 3, 1] ++ [])] 3) [.read .numpy false, .release]).1
    = some ([7] ++ packLE 2 [0, 1, 2, 3, 1] ++ []) := by decide

end IrVerif.ExtLife

/-! ## Deepening round: strided array memory (`Model/Strided.lean`)

An array-backed tensor keeps the array it was given -- any strides (negative, zero, overlapping),
any storage offset, zero-size dims, either byte order behind an array-compatible object -- and a
torch adapter keeps the torch tensor.  `gather` is the C-order copy walk that `ravel`, `astype`,
`tobytes`, `tofile` and `contiguous` perform; `indices` / `addr` / `unravel` say, independently of
that walk, which logical element is where. -/

namespace IrVerif.Strided
open IrVerif.Pack IrVerif.TensorRepr

/-- **C04_strided_rowmajor**: the copy walk over ANY strided array (any rank, any strides including
    negative and zero, any offset, zero-size dims) enumerates exactly the logical elements in
    row-major order of their multi-indices, each read at `offset + Σ index_k * stride_k`; there are
    `prod shape` of them. -/
theorem C04_strided_rowmajor (a : Arr) (h : a.strides.length = a.shape.length) :
    a.items = (indices a.shape).map a.itemAt ∧ a.units = (indices a.shape).map a.valueAt ∧
    a.items.length = prod a.shape ∧ a.units.length = prod a.shape := by
  refine ⟨items_eq a h, units_eq a h, ?_, ?_⟩
  · rw [items_eq a h, List.length_map, indices_length]
  · rw [units_eq a h, List.length_map, indices_length]

/-- **C04_strided_index**: the `k`-th item of the walk is the logical element whose multi-index is
    the mixed-radix expansion of `k` (`np.unravel_index(k, shape)`): last axis fastest. -/
theorem C04_strided_index (a : Arr) (h : a.strides.length = a.shape.length) (k : Nat)
    (hk : k < prod a.shape) :
    a.items[k]? = some (a.itemAt (unravel a.shape k)) ∧ a.units[k]? = some (a.valueAt (unravel a.shape k)) := by
  rw [items_eq a h, units_eq a h, List.getElem?_map, List.getElem?_map, indices_getElem a.shape k hk]
  exact ⟨rfl, rfl⟩

/-- **C04_strided_agree**: an array-backed tensor over strided memory is a legal representation of
    its logical elements (the values at the multi-indices, row-major, masked to the bit width):
    `tobytes()` as the code computes it (`numpy()`, pack or itemsize assert, `astype('<')`,
    `tobytes()` in C order) returns exactly their canonical little-endian packed bytes, whatever
    the strides, offset and byte order of the memory; and by `C04_field_agree` / `C04_tofile_repr`
    / `C04_serialize_roundtrip` it agrees with every other representation of those elements.
    Hypotheses (decidable, evaluated by the driver on every generated array): the element type has
    a bit width, the array's itemsize is the numpy itemsize of the type, every item lies inside
    the storage, storage entries are bytes, and a big-endian dtype is not held by a real ndarray
    (which the constructor rejects: then `tobytes` raises TypeError like the representation). -/
theorem C04_strided_agree (d : DType) (bw : Nat) (a : Arr) (nd : Bool) (hbw : d.bitwidth = some bw)
    (hisz : a.itemsize = npItemBytes d) (hib : a.inBounds = true)
    (hbytes : ∀ b ∈ a.storage, b < 256) :
    a.tobytes d nd = (a.toRep d nd).tobytes ∧
    ((nd && a.bigEndian) = true → a.tobytes d nd = .error "TypeError") ∧
    ((nd && a.bigEndian) = false →
      WF d a.shape bw (obsBits bw a.units) ∧ Legal d a.shape bw (obsBits bw a.units) (a.toRep d nd) ∧
      a.tobytes d nd = .ok (packLE bw (obsBits bw a.units))) := by
  have E := tobytes_eq_rep d a nd hisz hib hbytes
  refine ⟨E, ?_, ?_⟩
  · intro h; simp [Arr.tobytes, h]
  · intro hnb
    obtain ⟨wf, lg⟩ := legal_strided d bw a nd hbw hisz hnb hib hbytes
    exact ⟨wf, lg, E.trans (C04_field_agree wf lg).tobytes⟩

/-- **C04_strided_torch**: the same for the torch adapter over a strided torch tensor
    (`contiguous()` then the raw memory; the 2-bit types through the packer). -/
theorem C04_strided_torch (d : DType) (bw : Nat) (a : Arr) (hbw : d.bitwidth = some bw)
    (hisz : a.itemsize = npItemBytes d) (ht : d.torchMapped = true) (hle : a.bigEndian = false)
    (hib : a.inBounds = true) (hbytes : ∀ b ∈ a.storage, b < 256) :
    Legal d a.shape bw (obsBits bw a.units) (a.toTorchRep d) ∧
    a.torchTobytes d = .ok (packLE bw (obsBits bw a.units)) := by
  have lg := legal_strided_torch d bw a hisz ht hib hbytes
  have wf : WF d a.shape bw (obsBits bw a.units) :=
    (legal_strided d bw a false hbw hisz (by simp) hib hbytes).1
  exact ⟨lg, (torchTobytes_eq_rep d bw a hbw hisz hle hib hbytes).trans (C04_field_agree wf lg).tobytes⟩

/-! non-vacuity: a transposed view, a reversed view, a broadcast, big-endian memory, a zero-size dim -/

-- a 2x3 int16 array transposed (shape [3,2], strides [2,6]) over 12 bytes
def wT : Arr := { shape := [3, 2], strides := [2, 6], offset := 0,
                  storage := [1, 0, 2, 0, 3, 0, 4, 0, 5, 0, 6, 0], itemsize := 2 }
example : wT.inBounds = true := by decide
example : wT.units = [1, 4, 2, 5, 3, 6] := by decide
example : wT.tobytes .int16 true = .ok [1, 0, 4, 0, 2, 0, 5, 0, 3, 0, 6, 0] := rfl
example : unravel [3, 2] 3 = [1, 1] ∧ wT.valueAt [1, 1] = 5 := by decide
-- reversed with a negative stride, starting at the last element
example : ({ shape := [3], strides := [-1], offset := 2, storage := [7, 8, 9], itemsize := 1 } : Arr).units = [9, 8, 7] := by
  decide
-- a broadcast (stride 0) and a zero-size dim
example : ({ shape := [2, 2], strides := [0, 1], offset := 1, storage := [7, 8, 9], itemsize := 1 } : Arr).units
    = [8, 9, 8, 9] := by decide
example : ({ shape := [2, 0], strides := [0, 1], offset := 0, storage := [], itemsize := 4 } : Arr).inBounds = true := by
  decide
-- big-endian float32 memory behind an array-compatible object is serialised little-endian; a real
-- ndarray of that dtype is rejected
example : ({ shape := [1], strides := [4], offset := 0, storage := [0x3F, 0x80, 0, 0], itemsize := 4,
             bigEndian := true } : Arr).tobytes .float false = .ok [0, 0, 0x80, 0x3F] := rfl
example : ({ shape := [1], strides := [4], offset := 0, storage := [0x3F, 0x80, 0, 0], itemsize := 4,
             bigEndian := true } : Arr).tobytes .float true = .error "TypeError" := rfl
-- an out-of-bounds description is detected by the hypothesis
example : ({ shape := [2], strides := [2], offset := 0, storage := [1, 2, 3], itemsize := 2 } : Arr).inBounds = false := by
  decide
-- sign-extended int8 storage of INT4 elements, every second one (stride 2)
example : ({ shape := [3], strides := [2], offset := 0, storage := [0xFF, 0, 7, 0, 0xF8], itemsize := 1 } : Arr).tobytes
    .int4 true = .ok [0x7F, 0x08] := rfl

end IrVerif.Strided

/-! ## Deepening round: STRING tensors (`Model/StrTensor.lean`) -/

namespace IrVerif.StrTensor
open IrVerif.TensorRepr

/-- the legal representations of the string tensor with elements `vals` (C order) and shape `dims` -/
inductive SLegal (vals : List Elem) (dims : List Nat) : SRep → Prop
  | seq : SLegal vals dims (.seq vals dims)
  | objArr : SLegal vals dims (.objArr vals dims)
  | proto : SLegal vals dims (.proto vals dims false)
  | lazy (inner : SRep) (h : SLegal vals dims inner) : SLegal vals dims (.lazy inner dims)

/-- **C04_string_bytes_raise**: EVERY string tensor representation -- legal or ill-formed, at any
    depth of lazy wrapping -- raises from `tobytes()` and from `tofile()`: a string tensor has no byte
    form and no representation invents one. -/
theorem C04_string_bytes_raise (r : SRep) : (∃ e, r.tobytes = .error e) ∧ (∃ e, r.tofile = .error e) := by
  induction r with
  | seq vals dims => exact ⟨⟨_, rfl⟩, ⟨_, rfl⟩⟩
  | objArr vals dims => exact ⟨⟨_, rfl⟩, ⟨_, rfl⟩⟩
  | proto vals dims raw => exact ⟨⟨_, rfl⟩, ⟨_, rfl⟩⟩
  | lazy inner dims ih => exact ih

/-- **C04_string_agree**: every legal representation of the string tensor with elements `vals` and
    shape `dims` -- `StringTensor` over a sequence or over an object array, `TensorProtoTensor` over
    `string_data`, what `deserialize_tensor` builds, and a lazy wrapper around any of these -- reports
    `STRING` and `dims`, returns exactly `vals` from `numpy()` (whole byte strings: trailing NUL bytes
    included), serializes to `string_data = vals` with `dims`, which deserializes to a legal
    representation again; `string_data()` and `nbytes`, where the class has them, are `vals` and the
    sum of the element lengths. -/
theorem C04_string_agree (vals : List Elem) (dims : List Nat) (hlen : vals.length = prod dims) {r : SRep}
    (h : SLegal vals dims r) :
    r.dtype = .string ∧ r.shape = dims ∧ r.numpy = .ok vals ∧
    serialize r = .ok { dims := dims, stringData := vals } ∧
    SLegal vals dims (deserialize { dims := dims, stringData := vals }) ∧
    (∀ sd, r.stringData = .ok sd → sd = vals) ∧
    (∀ n, r.nbytes = .ok n → n = (vals.map List.length).sum) := by
  induction h with
  | seq => simp [SRep.dtype, SRep.shape, SRep.numpy, SRep.reshapeObj, hlen, serialize, deserialize, SLegal.seq, SRep.stringData, SRep.nbytes]
  | objArr => simp [SRep.dtype, SRep.shape, SRep.numpy, serialize, deserialize, SLegal.seq, SRep.stringData, SRep.nbytes]
  | proto => simp [SRep.dtype, SRep.shape, SRep.numpy, SRep.reshapeObj, hlen, serialize, deserialize, SLegal.seq, SRep.stringData, SRep.nbytes]
  | lazy inner _ ih =>
    obtain ⟨_, _, hn, _, hd, _, _⟩ := ih
    simp [SRep.dtype, SRep.shape, SRep.numpy, hn, serialize, hd, SRep.stringData, SRep.nbytes]

/-- **C04_string_pytensor**: `ir.tensor` on text / bytes data (non-empty, or with
    `dtype=STRING`) is a legal representation of the elements' byte strings -- `bytes` as they are,
    `str` as their UTF-8 encoding -- with the shape numpy infers; so by `C04_string_agree` it agrees
    with every other representation of those byte strings. -/
theorem C04_string_pytensor (elems : List PyElem) (dims : List Nat) (dtypeString : Bool)
    (h : elems ≠ [] ∨ dtypeString = true) :
    ∃ r, pyTensor elems dims dtypeString = .str r ∧ SLegal (elems.map PyElem.encode) dims r := by
  refine ⟨.objArr (elems.map PyElem.encode) dims, ?_, SLegal.objArr⟩
  unfold pyTensor
  rcases h with h | h
  · simp [h]
  · simp [h]

example : SLegal [[97, 0], []] [2] (.lazy (.seq [[97, 0], []] [2]) [2]) := SLegal.lazy _ SLegal.seq
example : (SRep.seq [[97, 0], []] [2]).numpy = .ok [[97, 0], []] := rfl
example : (SRep.seq [[97, 0]] [2]).numpy = .error "ValueError" := rfl
example : (SRep.proto [[1]] [1] true).numpy = .error "TypeError" := rfl
example : pyTensor [] [0] false = .valueError := rfl
example : pyTensor [] [1, 0] false = .numeric := rfl
example : PyElem.encode (.bytes [97, 0]) = [97, 0] := rfl
end IrVerif.StrTensor


/-! ## Second deepening round: the constructors' bounds checks discharge `inBounds` -/

namespace IrVerif.Strided
open IrVerif.Pack IrVerif.TensorRepr

/-- **C04_strided_npcheck**: `inBounds`, the hypothesis of `C04_strided_agree` / `C04_strided_torch`,
    follows from the bounds check the constructors themselves perform: numpy's
    `ndarray(shape, dtype, buffer, offset, strides)` (`PyArray_CheckStrides`: the lowest corner
    `offset + Σ min(0, stride_i (shape_i - 1))` is not negative and the highest corner plus the
    item size does not exceed the buffer) over a NON-EMPTY buffer, and `torch.as_strided` (no
    negative stride, the last item ends inside the storage).  `npCheck` / `torchCheck` are compared
    with the installed numpy / torch on random descriptions (half of them out of bounds) on every
    run.  The buffer must be non-empty because numpy substitutes the array's own nominal size for
    an empty buffer (`C04_strided_npcheck_empty_witness`). -/
theorem C04_strided_npcheck (a : Arr) :
    (a.npCheck = true → a.storage ≠ [] → a.inBounds = true) ∧
    (a.torchCheck = true → a.inBounds = true) ∧
    (a.strides.length = a.shape.length → a.spanOk = true → a.inBounds = true) :=
  ⟨npCheck_inBounds a, torchCheck_inBounds a, spanOk_inBounds a⟩

/-- **C04_strided_npcheck_empty_witness** (observation D383, why `storage ≠ []` is a hypothesis):
    over an EMPTY buffer numpy's check passes for strides that reach outside it. -/
theorem C04_strided_npcheck_empty_witness :
    ({ shape := [2], strides := [1], offset := 0, storage := [], itemsize := 1 } : Arr).npCheck = true ∧
    ({ shape := [2], strides := [1], offset := 0, storage := [], itemsize := 1 } : Arr).inBounds = false ∧
    ({ shape := [2], strides := [1], offset := 0, storage := [], itemsize := 1 } : Arr).torchCheck = false := by
  decide

/-- the strided agreement theorem with the constructor's own check as hypothesis -/
theorem C04_strided_agree_npcheck (d : DType) (bw : Nat) (a : Arr) (nd : Bool) (hbw : d.bitwidth = some bw)
    (hisz : a.itemsize = npItemBytes d) (hck : a.npCheck = true) (hne : a.storage ≠ [])
    (hbytes : ∀ b ∈ a.storage, b < 256) (hnb : (nd && a.bigEndian) = false) :
    Legal d a.shape bw (obsBits bw a.units) (a.toRep d nd) ∧
    a.tobytes d nd = .ok (packLE bw (obsBits bw a.units)) := by
  have R := (C04_strided_agree d bw a nd hbw hisz (npCheck_inBounds a hck hne) hbytes).2.2 hnb
  exact ⟨R.2.1, R.2.2⟩

-- the checks are not trivially true: a transposed view passes, a too short buffer fails
example : wT.npCheck = true ∧ wT.torchCheck = true := by decide
example : ({ shape := [2], strides := [2], offset := 0, storage := [1, 2, 3], itemsize := 2 } : Arr).npCheck = false := by
  decide
example : ({ shape := [3], strides := [-1], offset := 2, storage := [7, 8, 9], itemsize := 1 } : Arr).npCheck = true := by
  decide
example : ({ shape := [3], strides := [-1], offset := 1, storage := [7, 8, 9], itemsize := 1 } : Arr).npCheck = false := by
  decide

end IrVerif.Strided

/-! ## Second deepening round: `ir.tensor` on plain Python data (`Model/PyTensor.lean`)

`pyTensor v dt` is what `ir.tensor(value, dtype)` returns for a tree `v` of Python scalars (None, bool,
int, float, complex, str, bytes) in nested lists / tuples.  `castLeaf d` is the conversion of one
scalar into one element of the numpy type of `d` (numpy / ml_dtypes rules, compared with the
installed packages on every run); `npShape` the shape numpy discovers. -/

namespace IrVerif.PyTensor
open IrVerif.Pack IrVerif.TensorRepr IrVerif.Strided

theorem build_numeric {v : PyVal} {d d' : DType} {dims : List Nat} {elems : List Nat}
    (h : build v d = .numeric d' dims elems) :
    d' = d ∧ npShape v = some dims ∧ castAll d (leaves v) = .ok elems := by
  unfold build at h
  split at h
  · cases h
  · rename_i ds hs
    split at h
    · rename_i xs hx
      simp only [PyResult.numeric.injEq] at h
      obtain ⟨rfl, rfl, rfl⟩ := h
      exact ⟨rfl, hs, hx⟩
    · cases h
    · cases h

/-- every array-backed result comes out of `build` -/
theorem pyTensor_numeric {v : PyVal} {dt : Option DType} {d : DType} {dims : List Nat} {elems : List Nat}
    (h : pyTensor v dt = .numeric d dims elems) :
    build v d = .numeric d dims elems ∧ (∀ d0, dt = some d0 → d = d0) := by
  unfold pyTensor at h
  split at h
  · cases h
  · split at h
    · cases h
    · cases h
    · rename_i d0 _ _
      have := (build_numeric h).1
      subst this
      exact ⟨h, fun d1 h1 => by cases h1; rfl⟩
    · split at h
      · cases h
      · rename_i d0 _
        have := (build_numeric h).1
        subst this
        exact ⟨h, fun d1 h1 => by cases h1⟩
      · split at h
        · cases h
        · split at h
          · rename_i d0 _
            have := (build_numeric h).1
            subst this
            exact ⟨h, fun d1 h1 => by cases h1⟩
          · cases h

/-- **C04_pytensor_declared**: whenever `ir.tensor(value, dtype=d)` returns an array-backed tensor
    it reports exactly the DECLARED dtype `d`, the shape is the nesting of the value, and the
    elements are the value's scalars converted one by one to the numpy type of `d`. -/
theorem C04_pytensor_declared (v : PyVal) (d d' : DType) (dims : List Nat) (elems : List Nat)
    (h : pyTensor v (some d) = .numeric d' dims elems) :
    d' = d ∧ npShape v = some dims ∧ castAll d (leaves v) = .ok elems := by
  obtain ⟨hb, hd⟩ := pyTensor_numeric h
  have := hd d rfl
  subst this
  exact build_numeric hb

/-- **C04_pytensor_rowmajor**: with or without a dtype, the array-backed tensor `ir.tensor` returns
    has the shape numpy discovers from the nesting, `prod shape` elements, and its `k`-th element
    (C order) is the conversion of the scalar at the multi-index `unravel shape k` of the nested
    value, `value[i0][i1]...`: the specification side (`getAt`, `unravel`) does not mention the
    depth-first assignment walk of the model. -/
theorem C04_pytensor_rowmajor (v : PyVal) (dt : Option DType) (d : DType) (dims : List Nat)
    (elems : List Nat) (h : pyTensor v dt = .numeric d dims elems) :
    npShape v = some dims ∧ elems.length = prod dims ∧
    ∀ k, k < prod dims → ∃ l x, getAt v (unravel dims k) = some l ∧ elems[k]? = some x ∧ castLeaf d l = .ok x := by
  obtain ⟨_, hs, hc⟩ := build_numeric (pyTensor_numeric h).1
  obtain ⟨hl, hk⟩ := castAll_ok d (leaves v) elems hc
  refine ⟨hs, by rw [hl, leaves_length hs], ?_⟩
  intro k hklt
  obtain ⟨l, hlk, hg⟩ := leaves_getElem hs k hklt
  obtain ⟨x, hx, hcx⟩ := hk k l hlk
  exact ⟨l, x, hg, hx, hcx⟩

/-- **C04_pytensor_agree**: the agreement theorem.  The tensor `ir.tensor(value, dtype)` returns for
    numeric Python data is a LEGAL array-backed representation of the logical tensor (element type
    `d`, the discovered shape, the converted scalars masked to the bit width): it reports `d` and the
    shape, has `nbytes = ceil(size * bw / 8)`, decodes to those elements and returns their canonical
    little-endian packed bytes from `tobytes()` / `tofile()` -- so by `C04_all_agree` it agrees
    with every other representation of the same elements, in particular with
    `ir.Tensor(np.array(value, dtype))`, which is the same representation. -/
theorem C04_pytensor_agree (v : PyVal) (dt : Option DType) (d : DType) (dims : List Nat) (elems : List Nat)
    (bw : Nat) (h : pyTensor v dt = .numeric d dims elems) (hw : ∀ l ∈ leaves v, l.wf = true)
    (hbw : d.bitwidth = some bw) :
    WF d dims bw (obsBits bw elems) ∧ Legal d dims bw (obsBits bw elems) (.array d dims elems) ∧
    Agrees d dims bw (obsBits bw elems) (.array d dims elems) := by
  obtain ⟨_, hs, hc⟩ := build_numeric (pyTensor_numeric h).1
  obtain ⟨hl, _⟩ := castAll_ok d (leaves v) elems hc
  have hu : ∀ e ∈ elems, e < 256 ^ npItemBytes d := by
    intro e he
    obtain ⟨l, hlm, hcl⟩ := castAll_mem d hc e he
    exact castLeaf_lt (hw l hlm) hcl
  have wf : WF d dims bw (obsBits bw elems) := by
    refine ⟨hbw, by simp [obsBits, hl, leaves_length hs], ?_⟩
    intro x hx
    simp only [obsBits, List.mem_map] at hx
    obtain ⟨u, _, rfl⟩ := hx
    exact Nat.mod_lt _ (Nat.two_pow_pos bw)
  have lg : Legal d dims bw (obsBits bw elems) (.array d dims elems) := Legal.array elems hu rfl
  exact ⟨wf, lg, C04_field_agree wf lg⟩

/-- **C04_pytensor_float_depth** (observation D381, the inference quirk as a theorem): without a
    dtype, Python floats become FLOAT (binary32, each value ROUNDED) when they are given as one
    scalar or as one flat sequence, but DOUBLE (binary64, the bit patterns unchanged) as soon as
    they are nested two or more levels deep -- the explicit `float32` default of the inference chain
    only looks at the items of the outermost sequence. -/
theorem C04_pytensor_float_depth :
    (∀ b, pyTensor (.leaf (.float b)) none = .numeric .float [] [encodeF 8 23 (decode64 b)]) ∧
    (∀ (xs : PyList), xs ≠ .nil → xs.toList.all PyVal.isFloatLeaf = true →
      ∃ elems, pyTensor (.seq xs) none = .numeric .float [xs.toList.length] elems) ∧
    (∀ (v : PyVal) (n m : Nat) (rest : List Nat), npShape v = some (n :: m :: rest) →
      leaves v ≠ [] → allFloat (leaves v) = true →
      pyTensor v none = .numeric .double (n :: m :: rest) ((leaves v).map Leaf.floatBits)) :=
  ⟨pyTensor_scalar_float, pyTensor_flat_float, pyTensor_nested_float⟩

/-- **C04_pytensor_int_depth**: Python ints (inside the int64 range) become INT64 at ANY nesting
    depth -- the explicit default and numpy's own discovery coincide for them -- and the elements
    are their two's complements. -/
theorem C04_pytensor_int_depth (v : PyVal) (dims : List Nat) (hs : npShape v = some dims)
    (hne : leaves v ≠ []) (hi : allInt64 (leaves v) = true) :
    pyTensor v none = .numeric .int64 dims ((leaves v).map (fun l => wrap 64 l.intValue)) :=
  pyTensor_int64 v dims hs hne hi

/-- **C04_pytensor_errors**: an empty top-level sequence without a dtype raises `ValueError`
    (nothing to infer from); an inhomogeneous nesting raises `ValueError` for every dtype except
    STRING and UNDEFINED (numpy's shape discovery, before any scalar is converted); `dtype=UNDEFINED` raises
    `TypeError`. -/
theorem C04_pytensor_errors :
    pyTensor (.seq .nil) none = .raised "ValueError" ∧
    (∀ (v : PyVal) (dt : Option DType), npShape v = none → dt ≠ some .string → dt ≠ some .undefined →
      pyTensor v dt = .raised "ValueError") ∧
    (∀ v : PyVal, (∀ r, maybeString v (some .undefined) ≠ some r) ∧ pyTensor v (some .undefined) = .raised "TypeError") :=
  ⟨rfl, pyTensor_ragged, fun v => ⟨by simp [maybeString], by simp [pyTensor, maybeString]⟩⟩

/-- **C04_pytensor_string**: text / bytes data (every scalar a `str` or `bytes`, a homogeneous
    nesting, and either at least one scalar or `dtype=STRING`) becomes the `StringTensor` of the
    UTF-8 / byte strings with the discovered shape: a legal string representation
    (`C04_string_agree` applies). -/
theorem C04_pytensor_string (v : PyVal) (dt : Option DType) (dims : List Nat) (hs : npShape v = some dims)
    (ht : (leaves v).all Leaf.isText = true) (hdt : dt = none ∨ dt = some .string)
    (hne : leaves v ≠ [] ∨ dt = some .string) :
    pyTensor v dt = .str (.objArr ((leaves v).map Leaf.encode) dims) ∧
    StrTensor.SLegal ((leaves v).map Leaf.encode) dims (.objArr ((leaves v).map Leaf.encode) dims) :=
  ⟨pyTensor_text v dt dims hs ht hdt hne, StrTensor.SLegal.objArr⟩

/-! non-vacuity and concreteness: the observed quirk, conversions, errors -/

-- ir.tensor([1.0]) is FLOAT, ir.tensor([[1.0]]) is DOUBLE, ir.tensor([[]]) is DOUBLE of shape [1, 0]
example : pyTensor (.seq (.cons (.leaf (.float 0x3FF0000000000000)) .nil)) none = .numeric .float [1] [0x3F800000] :=
  rfl
example : pyTensor (.seq (.cons (.seq (.cons (.leaf (.float 0x3FF0000000000000)) .nil)) .nil)) none
    = .numeric .double [1, 1] [0x3FF0000000000000] := rfl
example : pyTensor (.seq (.cons (.seq .nil) .nil)) none = .numeric .double [1, 0] [] := rfl
example : pyTensor (.seq .nil) (some .float) = .numeric .float [0] [] := rfl
-- 0.1 rounds to 0x3DCCCCCD in binary32, 0x2E66 in binary16, 0x3DCD in bfloat16 (through float32)
example : castLeaf .float (.float 0x3FB999999999999A) = .ok 0x3DCCCCCD := by decide
example : castLeaf .float16 (.float 0x3FB999999999999A) = .ok 0x2E66 := by decide
example : castLeaf .bfloat16 (.float 0x3FB999999999999A) = .ok 0x3DCD := by decide
-- double rounding: 2^60 + 2^36 + 1 goes through binary64 on its way to binary32 (ties to even: down)
example : castLeaf .float (.int (2 ^ 60 + 2 ^ 36 + 1)) = .ok 0x5D800000 := by decide
-- bfloat16 takes a Python int through float32 directly
example : castLeaf .bfloat16 (.int (2 ^ 60 + 2 ^ 52 + 2 ^ 36 + 1)) = .ok 0x5D81 := by decide
-- numpy integer types reject what does not fit, the ml_dtypes 4-bit types wrap
example : castLeaf .int8 (.int 128) = .err "OverflowError" := by decide
example : castLeaf .int4 (.int (-9)) = .ok 7 := by decide
example : castLeaf .int2 (.float 0x3FF8000000000000) = .err "OverflowError" := by decide
example : castLeaf .int8 (.float 0x3FFB333333333333) = .ok 1 := by decide
-- mixed nesting: bool + int + float promote to DOUBLE; an int beyond int64 becomes UINT64
example : pyTensor (.seq (.cons (.leaf (.bool true)) (.cons (.leaf (.int 2)) (.cons (.leaf (.float 0x4004000000000000)) .nil)))) none
    = .numeric .double [3] [0x3FF0000000000000, 0x4000000000000000, 0x4004000000000000] := rfl
example : pyTensor (.seq (.cons (.seq (.cons (.leaf (.int (2 ^ 63))) .nil)) .nil)) none = .numeric .uint64 [1, 1] [2 ^ 63] :=
  rfl
-- inhomogeneous nesting; None becomes the degenerate STRING tensor (observation D382)
example : pyTensor (.seq (.cons (.leaf (.int 1)) (.cons (.seq (.cons (.leaf (.int 2)) .nil)) .nil))) none
    = .raised "ValueError" := rfl
example : pyTensor (.leaf .none) none = .degenerate (some []) := rfl
-- the hypotheses of C04_pytensor_agree are satisfiable
example : ∀ l ∈ leaves (.seq (.cons (.leaf (.float 0x3FF0000000000000)) .nil)), l.wf = true := by decide
example : getAt (.seq (.cons (.seq (.cons (.leaf (.int 5)) (.cons (.leaf (.int 6)) .nil))) .nil)) [0, 1] = some (.int 6) := by
  decide

/-! ## Third deepening round: conversion INTO the 8-bit and 4-bit float types

`encF8 k` is the model of ml_dtypes' `T(double)` for FLOAT8E4M3FN / FLOAT8E4M3FNUZ / FLOAT8E5M2 /
FLOAT8E5M2FNUZ / FLOAT8E8M0 / FLOAT4E2M1 (round to nearest even on `Nat` / `Int`, per-type
overflow / infinity / NaN / signed-zero treatment), compared on every run with the installed
ml_dtypes through `ir.tensor` on ALL 65,536 binary16 values per type; `decF8 k` is the VALUE of a
bit pattern as the ONNX documentation defines it (compared with ml_dtypes' `float(pattern)`). -/

/-- **C04_pytensor_f8_total**: for the six narrow float types the conversion is TOTAL on the
    scalars ml_dtypes accepts (bool, an int inside the C long range, float: any of the 2^64 bit
    patterns) and the element fits the BIT WIDTH of the type (8, and 4 for FLOAT4E2M1: the array
    element is already the packed nibble, masking loses nothing); every other scalar (None,
    complex, text, bytes, an int beyond 64 bits) raises `TypeError`; a Python float converts with
    ONE rounding, an int through float32. -/
theorem C04_pytensor_f8_total (k : F8) (l : Leaf) :
    k.dtype.bitwidth = some k.bits ∧
    (l.isReal64 = true → ∃ x, castLeaf k.dtype l = .ok x ∧ x < 2 ^ k.bits) ∧
    (l.isReal64 = false → castLeaf k.dtype l = .err "TypeError") ∧
    (∀ b, castLeaf k.dtype (.float b) = .ok (encF8 k (decode64 b))) ∧
    (∀ i : Int, -(2 ^ 63 : Int) ≤ i → i < 2 ^ 63 →
      castLeaf k.dtype (.int i) = .ok (encF8 k (decode32 (encodeF 8 23 (ofInt i))))) := by
  refine ⟨by cases k <;> decide, fun h => ?_, fun h => ?_, fun b => ?_, fun i h1 h2 => ?_⟩
  · obtain ⟨f, hf⟩ := (castF8_total k l).1 h
    exact ⟨encF8 k f, by rw [castLeaf_f8, hf], encF8_lt_bits k f⟩
  · rw [castLeaf_f8]; exact (castF8_total k l).2 h
  · rw [castLeaf_f8]; rfl
  · rw [castLeaf_f8]; simp only [castF8, h1, h2, and_self, if_true]

/-- **C04_pytensor_f8_roundtrip**: the conversion is a left inverse of the value specification:
    for EVERY bit pattern `p` of every narrow float type, converting the exact value of `p` gives
    `p` back (the three NaNs per sign of FLOAT8E5M2 collapse into the quiet NaN) -- so the model's
    bias, subnormal range, special values and signed zeros are those of the ONNX formats, every
    representable value is a fixed point of the rounding, and every pattern except the
    non-canonical FLOAT8E5M2 NaNs is reachable through `ir.tensor`. -/
theorem C04_pytensor_f8_roundtrip (k : F8) (p : Nat) (hp : p < 2 ^ k.bits) :
    encF8 k (decF8 k p) = canonF8 k p := by
  revert p
  cases k <;> decide +kernel

/-- **C04_pytensor_f8_sign**: saturation versus NaN / infinity per type, for ALL inputs.
    The signed types (E4M3FN, E5M2, E2M1) are sign-magnitude: the sign bit of a finite input is
    copied and the magnitude is converted independently of it.  FLOAT8E5M2 never turns a finite
    input into a NaN (overflow is infinity `0x7C`); FLOAT8E4M3FN turns overflow into its NaN
    `0x7F`; FLOAT4E2M1 saturates (magnitude at most 7 = 6.0); the FNUZ types have no negative zero:
    a negative input gives `0x80` (NaN) only by overflow, never as a rounded-to-zero value; E8M0
    maps every zero, negative, infinite and NaN input to `0xFF`. -/
theorem C04_pytensor_f8_sign (neg : Bool) (m : Nat) (e : Int) :
    (encF8 .e4m3fn (.fin neg m e) = sgn8 neg + encF8 .e4m3fn (.fin false m e) ∧ encF8 .e4m3fn (.fin false m e) ≤ 0x7F) ∧
    (encF8 .e5m2 (.fin neg m e) = sgn8 neg + encF8 .e5m2 (.fin false m e) ∧ encF8 .e5m2 (.fin false m e) ≤ 0x7C) ∧
    (encF8 .e2m1 (.fin neg m e) = (if neg then 8 else 0) + encF8 .e2m1 (.fin false m e) ∧ encF8 .e2m1 (.fin false m e) ≤ 7) ∧
    (encF8 .e4m3fnuz (.fin neg m e) = 0x80 ↔ roundU 3 (-10) m e > 0x7F) ∧
    (encF8 .e5m2fnuz (.fin neg m e) = 0x80 ↔ roundU 2 (-17) m e > 0x7F) ∧
    (encF8 .e4m3fnuz (.zero neg) = 0 ∧ encF8 .e5m2fnuz (.zero neg) = 0) ∧
    (encF8 .e8m0 (.zero neg) = 0xFF ∧ encF8 .e8m0 (.fin true m e) = 0xFF ∧ encF8 .e8m0 (.inf neg) = 0xFF ∧
      encF8 .e8m0 (.nan neg) = 0xFF) := by
  refine ⟨⟨?_, ?_⟩, ⟨?_, ?_⟩, ⟨?_, ?_⟩, ?_, ?_, ⟨rfl, rfl⟩, ⟨rfl, rfl, rfl, rfl⟩⟩ <;> cases neg <;>
    simp only [encF8, sgn8, Bool.false_eq_true, if_false, if_true, Nat.zero_add] <;>
    (try (repeat' split)) <;> (try omega)

theorem roundU_eq (mb : Nat) (qmin : Int) (m : Nat) (e : Int) :
    roundU mb qmin m e = (roundQ mb qmin m e - qmin).toNat * 2 ^ mb + roundR mb qmin m e := rfl

/-- **C04_pytensor_f8_halfulp**: the rounding core of `encF8` against a specification that does not
    mention the algorithm (no division, no remainder, no case split on the discarded bits).  For
    EVERY format (`mb` fraction bits, smallest subnormal `2^qmin`) and every positive `m * 2^e`:
    `roundU = (q - qmin) * 2^mb + r` where `q >= qmin` is the exponent of the unit in the last place
    and `r` the rounded significand; if `2^q` divides the input the result is EXACT
    (`r = m * 2^(e-q)`); otherwise, with `P = 2^(q-e)`, `|m - r * P| <= P / 2` (written without
    subtraction and doubled: `2 r P <= 2 m + P` and `2 m <= (2 r + 1) P`) -- `r * 2^q` is a NEAREST
    multiple of `2^q` to `m * 2^e` -- and when the input lies exactly halfway (either side) `r` is
    EVEN: round to nearest, ties to even.  Together with `C04_pytensor_f8_roundtrip` (every
    representable value is a fixed point) and `C04_pytensor_f8_sign` (overflow / sign rules) this
    is the numeric meaning of the conversion. -/
theorem C04_pytensor_f8_halfulp (mb : Nat) (qmin : Int) (m : Nat) (e : Int) :
    qmin ≤ roundQ mb qmin m e ∧
    (roundQ mb qmin m e ≤ e → roundR mb qmin m e = m * 2 ^ (e - roundQ mb qmin m e).toNat) ∧
    (e < roundQ mb qmin m e →
      (2 * roundR mb qmin m e * 2 ^ (roundQ mb qmin m e - e).toNat ≤ 2 * m + 2 ^ (roundQ mb qmin m e - e).toNat ∧
       2 * m ≤ (2 * roundR mb qmin m e + 1) * 2 ^ (roundQ mb qmin m e - e).toNat ∧
       (2 * m = (2 * roundR mb qmin m e + 1) * 2 ^ (roundQ mb qmin m e - e).toNat → roundR mb qmin m e % 2 = 0) ∧
       (2 * m + 2 ^ (roundQ mb qmin m e - e).toNat = 2 * roundR mb qmin m e * 2 ^ (roundQ mb qmin m e - e).toNat →
          roundR mb qmin m e % 2 = 0))) := by
  refine ⟨by simp only [roundQ]; omega, ?_, ?_⟩
  · intro h; simp only [roundR, h, if_true]
  · intro h
    have hn : ¬ roundQ mb qmin m e ≤ e := by omega
    simp only [roundR, hn, if_false]
    generalize hs : (roundQ mb qmin m e - e).toNat = s
    have hs1 : 1 ≤ s := by omega
    obtain ⟨t, rfl⟩ : ∃ t, s = t + 1 := ⟨s - 1, by omega⟩
    simp only [Nat.add_sub_cancel]
    have hP : 2 ^ (t + 1) = 2 * 2 ^ t := by rw [Nat.pow_succ]; omega
    have hpos : 0 < 2 ^ t := Nat.two_pow_pos t
    have hdm := Nat.div_add_mod m (2 ^ (t + 1))
    have hlt := Nat.mod_lt m (show 0 < 2 ^ (t + 1) by omega)
    generalize hfl : m / 2 ^ (t + 1) = fl at *
    generalize hrem : m % 2 ^ (t + 1) = rem at *
    generalize hX : 2 ^ (t + 1) * fl = X at *
    have hX2 : fl * 2 ^ (t + 1) = X := by rw [Nat.mul_comm]; exact hX
    rw [hP] at hlt
    split
    · rename_i hc
      have e1 : 2 * (fl + 1) * 2 ^ (t + 1) = 2 * X + 2 * 2 ^ (t + 1) := by
        rw [← hX2, Nat.mul_assoc, Nat.add_mul, Nat.one_mul, Nat.mul_add]
      have e2 : (2 * (fl + 1) + 1) * 2 ^ (t + 1) = 2 * X + 3 * 2 ^ (t + 1) := by
        rw [Nat.add_mul, e1, Nat.one_mul]; omega
      rw [e1, e2, hP]
      refine ⟨by omega, by omega, by omega, ?_⟩
      intro h2
      rcases hc with hc | ⟨hc1, hc2⟩
      · omega
      · omega
    · rename_i hc
      have e1 : 2 * fl * 2 ^ (t + 1) = 2 * X := by rw [← hX2, Nat.mul_assoc]
      have e2 : (2 * fl + 1) * 2 ^ (t + 1) = 2 * X + 2 ^ (t + 1) := by rw [Nat.add_mul, e1, Nat.one_mul]
      rw [e1, e2, hP]
      have hc' : rem ≤ 2 ^ t ∧ (rem = 2 ^ t → fl % 2 = 0) := by
        constructor
        · omega
        · intro hr; have : ¬ (fl % 2 = 1) := fun h1 => hc (Or.inr ⟨hr, h1⟩); omega
      refine ⟨by omega, by omega, ?_, by omega⟩
      intro h2
      exact hc'.2 (by omega)

/-- fraction bits of the narrow float types -/
def F8.mbits : F8 → Nat
  | .e4m3fn => 3 | .e4m3fnuz => 3 | .e5m2 => 2 | .e5m2fnuz => 2 | .e8m0 => 0 | .e2m1 => 1

/-- exponent of the smallest subnormal (`1 - bias - mbits`; for E8M0 the exponent of the field `E = 1`) -/
def F8.qmin : F8 → Int
  | .e4m3fn => -9 | .e4m3fnuz => -10 | .e5m2 => -16 | .e5m2fnuz => -17 | .e8m0 => -126 | .e2m1 => -1

/-- the largest magnitude pattern that is a finite value the conversion does not reach by
    overflow: below the NaN `0x7F` of E4M3FN, below the infinity `0x7C` of E5M2, any magnitude of
    the FNUZ types, below the NaN `0xFF` of E8M0, and up to 6.0 (`7`, where saturation starts to be
    the identity) for E2M1 -/
def F8.maxFinite : F8 → Nat
  | .e4m3fn => 0x7E | .e4m3fnuz => 0x7F | .e5m2 => 0x7B | .e5m2fnuz => 0x7F | .e8m0 => 0xFE | .e2m1 => 7

/-- the result for an input that rounds to zero: the signed zero, the single zero of the FNUZ
    types, and `2^-127` (pattern `0x00`) for E8M0, which has no zero -/
def F8.zeroOf (k : F8) (neg : Bool) : F64 :=
  match k with
  | .e4m3fnuz => .zero false
  | .e5m2fnuz => .zero false
  | .e8m0 => .fin false 1 (-127)
  | _ => .zero neg

/-- **C04_pytensor_f8_decode_encode**: the NORMALISATION half of the rounding specification, for
    ALL inputs (no table).  For every one of the six formats and every finite input
    `(-1)^neg * m * 2^e` (`m > 0`, as `decode64` / `decode32` produce: `decode64_fin_pos`) that the
    conversion does not send to NaN / infinity / saturation (`roundU <= maxFinite`: decidable; E8M0
    has no sign, a negative input is NaN there), DECODING the pattern `encF8` produces (`decF8`:
    the value specification of the ONNX formats) gives a finite value `(-1)^neg * m' * 2^e'` with
    `e' >= q` and `m' * 2^(e' - q) = r`, i.e. EXACTLY `r * 2^q`, where `q = roundQ` and `r = roundR`
    are the exponent and significand of `C04_pytensor_f8_halfulp` -- so encode followed by decode IS
    the nearest representable value, ties to even; when `r = 0` the result is the zero of the format
    (sign kept; the one zero of the FNUZ types; `2^-127` for E8M0, which has no zero: observation
    in the comment of `encF8`).  The proof shows that `bitLen` is the position of the leading bit
    (`bitLen_spec`), hence `r` is normalised (`2^mb <= r <= 2^(mb+1)`, `roundR_normal`; the upper
    end is the rounding carry, decoded as `2^mb * 2^(q+1)`) or subnormal (`r <= 2^mb` at `q = qmin`,
    `roundR_subnormal`), and reads the fields of `sign + (q - qmin) * 2^mb + r` back. -/
theorem C04_pytensor_f8_decode_encode (k : F8) (neg : Bool) (m : Nat) (e : Int) (hm : 0 < m)
    (hfin : roundU k.mbits k.qmin m e ≤ k.maxFinite) (hneg : k = .e8m0 → neg = false) :
    (roundR k.mbits k.qmin m e = 0 → decF8 k (encF8 k (.fin neg m e)) = k.zeroOf neg) ∧
    (roundR k.mbits k.qmin m e ≠ 0 →
      ∃ m' e', decF8 k (encF8 k (.fin neg m e)) = .fin neg m' e' ∧
        roundQ k.mbits k.qmin m e ≤ e' ∧
        m' * 2 ^ (e' - roundQ k.mbits k.qmin m e).toNat = roundR k.mbits k.qmin m e) := by
  cases k
  case e4m3fn => exact dec_enc_e4m3fn neg m e hm hfin
  case e4m3fnuz => exact dec_enc_e4m3fnuz neg m e hm hfin
  case e5m2 => exact dec_enc_e5m2 neg m e hm hfin
  case e5m2fnuz => exact dec_enc_e5m2fnuz neg m e hm hfin
  case e2m1 => exact dec_enc_e2m1 neg m e hm hfin
  case e8m0 =>
    have := hneg rfl
    subst this
    exact dec_enc_e8m0 m e hm hfin

-- 1.0 -> 0x38 -> 8 * 2^-3; 17 rounds to 16 = 8 * 2^1 (r = 8 at q = 1); 31 carries: r = 16 at q = 1, decoded as 8 * 2^2
example : decF8 .e4m3fn (encF8 .e4m3fn (.fin false 1 0)) = .fin false 8 (-3) := by rfl
example : roundQ 3 (-9) 31 0 = 1 ∧ roundR 3 (-9) 31 0 = 16 ∧ decF8 .e4m3fn (encF8 .e4m3fn (.fin false 31 0)) = .fin false 8 2 :=
  ⟨by decide, by decide, by rfl⟩
-- the hypotheses are satisfiable in every format, and fail exactly on overflow
example : ∀ k : F8, roundU k.mbits k.qmin 1 0 ≤ k.maxFinite := by intro k; cases k <;> decide
example : ¬ roundU F8.e4m3fn.mbits F8.e4m3fn.qmin 465 0 ≤ F8.e4m3fn.maxFinite := by decide

/-- **C04_pytensor_f8_agree**: `ir.tensor(value, dtype=T)` for a narrow float type `T` and ANY
    homogeneous nesting of bool / int64 / float scalars never raises and never leaves the model:
    it returns the array-backed tensor that reports `T` and the discovered shape, whose elements
    are bit patterns of `T` (below `2^bits`, so they ARE the logical elements: masking is the
    identity), and that tensor is a legal representation -- it agrees with every other
    representation of those elements (`C04_all_agree`). -/
theorem C04_pytensor_f8_agree (k : F8) (v : PyVal) (dims : List Nat) (hs : npShape v = some dims)
    (hr : (leaves v).all Leaf.isReal64 = true) :
    ∃ elems, pyTensor v (some k.dtype) = .numeric k.dtype dims elems ∧ (∀ x ∈ elems, x < 2 ^ k.bits) ∧
      obsBits k.bits elems = elems ∧
      WF k.dtype dims k.bits elems ∧ Legal k.dtype dims k.bits elems (.array k.dtype dims elems) ∧
      Agrees k.dtype dims k.bits elems (.array k.dtype dims elems) := by
  obtain ⟨xs, hxs, hb⟩ := castAll_f8 k (leaves v) hr
  have hpt : pyTensor v (some k.dtype) = .numeric k.dtype dims xs := by
    have hm : maybeString v (some k.dtype) = none := by cases k <;> simp [maybeString, F8.dtype]
    have hbuild : build v k.dtype = .numeric k.dtype dims xs := by simp [build, hs, hxs]
    unfold pyTensor
    rw [hm]
    cases k <;> simpa [F8.dtype] using hbuild
  have hobs : obsBits k.bits xs = xs := by
    simp only [obsBits]
    conv => rhs; rw [← List.map_id xs]
    apply List.map_congr_left
    intro x hx
    exact Nat.mod_eq_of_lt (hb x hx)
  have hbw : k.dtype.bitwidth = some k.bits := by cases k <;> decide
  obtain ⟨hl, _⟩ := castAll_ok k.dtype (leaves v) xs hxs
  have hu : ∀ e ∈ xs, e < 256 ^ npItemBytes k.dtype := by
    intro e he
    have h1 := hb e he
    have h2 : 2 ^ k.bits ≤ 256 ^ npItemBytes k.dtype := by cases k <;> decide
    omega
  have wf : WF k.dtype dims k.bits xs := by
    refine ⟨hbw, by rw [hl, leaves_length hs], hb⟩
  have lg : Legal k.dtype dims k.bits xs (.array k.dtype dims xs) := by
    have := Legal.array (d := k.dtype) (dims := dims) (bw := k.bits) xs hu rfl
    rwa [hobs] at this
  exact ⟨xs, hpt, hb, hobs, wf, lg, C04_field_agree wf lg⟩

-- 1.0 in each type; 448 is the largest E4M3FN value, 464 ties to even (448), 465 overflows to NaN
example : castLeaf .float8e4m3fn (.float 0x3FF0000000000000) = .ok 0x38 := by decide
example : castLeaf .float8e4m3fn (.float 0x407D000000000000) = .ok 0x7E := by decide
example : castLeaf .float8e4m3fn (.float 0x407D100000000000) = .ok 0x7F := by decide
example : castLeaf .float8e5m2 (.float 0x7FF0000000000000) = .ok 0x7C := by decide
example : castLeaf .float8e4m3fnuz (.float 0x8000000000000000) = .ok 0 := by decide
example : castLeaf .float8e5m2fnuz (.float 0xFFF0000000000000) = .ok 0x80 := by decide
example : castLeaf .float4e2m1 (.float 0x7FF0000000000000) = .ok 7 := by decide
example : castLeaf .float4e2m1 (.float 0x3FD0000000000000) = .ok 0 := by decide   -- 0.25 ties to 0
example : castLeaf .float8e8m0 (.float 0) = .ok 0xFF := by decide
-- an int goes through float32: 2^40 + 2^39 - 1 rounds to 1.5 * 2^40 there and then up to 2^41
example : castLeaf .float8e8m0 (.int (2 ^ 40 + 2 ^ 39 - 1)) = .ok 168 := by decide
-- observation D384: 1.75 * 2^128 wraps to the pattern of 2^-127
example : castLeaf .float8e8m0 (.float 0x47FC000000000000) = .ok 0 := by decide
example : castLeaf .float8e5m2 .none = .err "TypeError" := by decide
example : castLeaf .float .none = .ok 0x7FC00000 := by decide
example : castLeaf .bool (.str "0") = .ok 1 := by decide
-- the hypotheses of C04_pytensor_f8_agree are satisfiable
example : (leaves (.seq (.cons (.leaf (.float 0x3FF0000000000000)) (.cons (.leaf (.int 3)) .nil)))).all Leaf.isReal64 = true := by
  decide

/-- **C04_ctor_accepts**: `Tensor(array, dtype=d)` validation (`_check_numpy_representation_type`).
    Whenever the constructor ACCEPTS an array whose dtype is one of the 26 numpy / ml_dtypes dtypes
    of the element-type table, the array's item size is the item size of `d`'s own numpy type --
    so the reinterpreting `view` of `_maybe_view_np_array_with_ml_dtypes` keeps the element count
    and the storage units, the tensor is the array-backed representation `Rep.array d dims units`,
    which is LEGAL for every unit list of the right length (second part, with `C04_field_agree`: it
    agrees with every other representation of those bits) -- and `d` is never UNDEFINED.  The
    accepted pairs are decided by kernel evaluation over all 26 x 27 combinations. -/
theorem C04_ctor_accepts :
    (∀ p ∈ DType.npItemsizeTable, ∀ d ∈ DType.all, ctorAccepts p.1 d = true →
      p.2 = npItemBytes d ∧ d ≠ .undefined ∧ (d.bitwidth.isSome ∨ d = .string)) ∧
    (∀ (d : DType) (dims : List Nat) (bw : Nat) (units : List Nat), d.bitwidth = some bw →
      units.length = prod dims → (∀ u ∈ units, u < 256 ^ npItemBytes d) →
      Legal d dims bw (obsBits bw units) (.array d dims units) ∧
      Agrees d dims bw (obsBits bw units) (.array d dims units)) := by
  refine ⟨by decide +kernel, ?_⟩
  intro d dims bw units hbw hl hu
  have wf : WF d dims bw (obsBits bw units) := by
    refine ⟨hbw, by simp [obsBits, hl], ?_⟩
    intro x hx
    simp only [obsBits, List.mem_map] at hx
    obtain ⟨u, _, rfl⟩ := hx
    exact Nat.mod_lt _ (Nat.two_pow_pos bw)
  have lg : Legal d dims bw (obsBits bw units) (.array d dims units) := Legal.array units hu rfl
  exact ⟨lg, C04_field_agree wf lg⟩

-- the lenient cases: raw bits, and ANY 8-bit ml_dtypes float for any 8-bit float type
example : ctorAccepts "uint8" .float8e5m2 = true := by decide
example : ctorAccepts "float8_e5m2" .float8e4m3fn = true := by decide
example : ctorAccepts "int8" .uint4 = false := by decide
example : ctorAccepts "uint8" .bool = false := by decide
example : ctorAccepts "float32" .int32 = false := by decide

end IrVerif.PyTensor

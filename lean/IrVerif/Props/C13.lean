/-
C13 — clones are faithful and fully independent of their originals.
Property theorems about the executable model `IrVerif.Clone` (Model/Clone.lean); the helper
developments are in Lemmas/Clone*.lean: Clone (invariant of the cloner, Hoare rules), CloneFrame /
CloneFrame2 (frame lemma per editing call, first and extended alphabet), CloneSim / CloneSer
(simulation, observation function), CloneScope (outer-scope values), CloneResidue (failed clones),
CloneTotal (total-correctness simulation of the cloner by the scope walker).

Proved (all heaps, all graphs, all histories of the model): freshness, closedness of ownership,
back pointers, node inputs and device annotations (`C13_closed*`, `C13_closed_sharding*` under
`devLocalW`), purity of cloning and of failed clones, the frame theorems over the 31-call alphabet
`Edit` and the 44-call alphabet `Edit2` (`*_ext`; strict separation, i.e. clones made with
`allow_outer_scope_values=False`), `functionalize`, observational equality, graph-level progress
and the exact error (`C13_clone_succeeds`, `C13_clone_error_exact`, `C13_clone_raises_iff`, hypothesis
= verdict of the decidable scope walker), and that the value map is a bijection
(`C13_value_map_bijection`).
Round 3b: `C13_wiring_image` (the clone's wiring is the image of the source's under the value map,
Lemmas/CloneWire.lean) with `C13_faithful_of_wiring` / `C13_faithful_observe_wiring` derived from it,
`C13_model_clone_succeeds` / `C13_model_clone_raises_iff` (walker locality, Lemmas/CloneLocal.lean,
CloneModelTotal.lean), `C13_spec_unbound_D342`, `C13_functionalize_any` (`functionalize` of ANY
pipeline of passes), the frame theorems over the 55-call alphabet `Edit3` (`*_ext3`,
Lemmas/CloneFrame3.lean: `sort` with subgraphs through property C12's `sortModel`, slices of graph
inputs / outputs, `initializers.pop / clear / update`, `extend`, `remove(safe=True)`,
`convenience.replace_all_uses_with` / `rename_values` / `replace_nodes_and_values`).
Round 4: `C13_wiring_image_function` / `C13_wiring_image_model` (Lemmas/CloneWireFM.lean: the image
relation and the value-map bijection lifted to `Function.clone` and `Model.clone`, model-level
fields, function keys and order) with `C13_faithful_function_of_wiring` / `C13_faithful_model_of_wiring`
derived from them; `C13_deep_copy_meta_*` / `C13_shallow_meta_shared` (the refinement
`IrVerif.Clone.Meta`, Model/CloneMeta.lean: the objects stored in `meta` as heap cells, `copy.deepcopy`
with its memo, in-place edits of those objects); `C13_functionalize_hooks` (`requires()` / `ensures()`
hooks that edit and raise, `modified` flags, `early_stop`); `C13_irregular_reasons*` /
`C13_irregular_reachable` (Lemmas/CloneIrregular.lean: the three reasons for an `irregular` walker
verdict, none of them a dangling pointer on a closed heap, the other two reachable through the public
API and really breaking the guarded claims); the fourth editing alphabet `Edit4` (`*_ext4`).
Round 6: `C13_meta_embed` / `C13_meta_refines_step` / `C13_meta_refines` / `C13_deep_copy_meta_fresh_main`
(Lemmas/CloneMetaLink.lean: the formal link between `IrVerif.Clone.Meta` and the `mstore` cells of this
model - embedding, abstraction, the commuting squares for both values of `deep_copy`, and the transfer
of freshness / frame to the clones of this model).
Not proved (differential / oracle only): in-place state of shared `Attr` objects (D114) and shared
tensors (D113), `Attr.meta` / `Model.meta`, meta values that are not lists / dicts of atoms, editing
calls outside `Edit4`, the extended alphabets for clones made with `allow_outer_scope_values=True`
(false by design).
-/
import IrVerif.Lemmas.Clone
import IrVerif.Lemmas.CloneFrame
import IrVerif.Lemmas.CloneFrame2
import IrVerif.Lemmas.CloneSim
import IrVerif.Lemmas.CloneSer
import IrVerif.Lemmas.CloneScope
import IrVerif.Lemmas.CloneResidue
import IrVerif.Lemmas.CloneTotal
import IrVerif.Lemmas.CloneWire
import IrVerif.Lemmas.CloneModelTotal
import IrVerif.Lemmas.CloneFrame3
import IrVerif.Lemmas.CloneWireFM
import IrVerif.Lemmas.CloneIrregular
import IrVerif.Lemmas.CloneMeta
import IrVerif.Lemmas.CloneFrame4
import IrVerif.Lemmas.CloneMetaLink
namespace IrVerif.Clone

/-! ### what "the objects of a clone" are -/

/-- attribute object `a` holds graph `j` -/
def GraphAttrOf (w : World) (a j : Nat) : Prop :=
  ∃ as, w[a]? = some (.attr as) ∧ (as.v = .graph j ∨ ∃ gs, as.v = .graphs gs ∧ j ∈ gs)

/-- ownership edges: a model owns its graph, functions and metadata containers; a function its
    body (and graph-valued attribute parameters); a graph its inputs, outputs, initializers, nodes
    and metadata containers; a node its outputs, metadata containers and the graphs held by its
    attributes; a value its type object, shape object and metadata containers. -/
def owns (w : World) (i j : Nat) : Prop :=
  match w[i]? with
  | some (.model m) => j = m.graph ∨ j ∈ m.funcs ∨ j = m.props ∨ j = m.mstore
  | some (.func f) => j = f.graph ∨ ∃ ka ∈ f.attrs, GraphAttrOf w ka.2 j
  | some (.graph g) => j ∈ g.inputs ∨ j ∈ g.outputs ∨ (∃ e ∈ g.inits, j = e.2) ∨ j ∈ g.nodes ∨
      j = g.props ∨ j = g.mstore
  | some (.node n) => j ∈ n.outputs ∨ j = n.props ∨ j = n.mstore ∨
      ∃ ka ∈ n.attrs, GraphAttrOf w ka.2 j
  | some (.val v) => v.type = some j ∨ v.shape = some j ∨ j = v.props ∨ j = v.mstore
  | _ => False

/-- everything a root (model, function or graph) owns, transitively: its graphs at every depth,
    nodes, values, type and shape objects, metadata containers -/
inductive Owned (w : World) (root : Nat) : Nat → Prop
  | root : Owned w root root
  | step {i j : Nat} : Owned w root i → owns w i j → Owned w root j

/-- the heap after a clone: the part before `w.length` is the pre-existing world -/
structure CloneResult (w : World) (allow : Bool) (w' : World) : Prop where
  grows : w.length ≤ w'.length
  /-- pre-existing cells keep their content; only the usage list of a value may gain records
      of new nodes -/
  old : ∀ (i : Nat) (c0 : Cell), w[i]? = some c0 → ∃ c, w'[i]? = some c ∧ OldSame w.length c0 c
  /-- and nothing at all changes when outer-scope values are not allowed -/
  oldEq : allow = false → ∀ (i : Nat) (c0 : Cell), w[i]? = some c0 → w'[i]? = some c0
  /-- every new cell refers only to new cells -/
  cells : ∀ (i : Nat) (c : Cell), w.length ≤ i → w'[i]? = some c → CellOk w w.length w'.length allow c

theorem CloneResult.of_good {w : World} {allow : Bool} {m : M Nat}
    (hm : ∀ s, Inv w allow s → GoodAt w allow m s (NewId w)) {r : Except Err Nat} {w' : World}
    (h : run m w = (r, w')) :
    CloneResult w allow w' ∧ ∀ g', r = .ok g' → w.length ≤ g' ∧ g' < w'.length := by
  obtain ⟨hI, _, hq⟩ := hm _ (Inv.init w allow)
  unfold run at h
  rcases hms : m { w := w } with ⟨r1, s1⟩
  rw [hms] at hI hq h
  simp only [Prod.mk.injEq] at h
  obtain ⟨rfl, rfl⟩ := h
  exact ⟨⟨hI.len, hI.old, hI.oldEq, hI.cells⟩, fun g' hg' => hq g' hg'⟩

theorem cellOk_attr {w0 : World} {lo hi : Nat} {allow : Bool} {as : AttrS}
    (h : CellOk w0 lo hi allow (.attr as)) {j : Nat}
    (hj : as.v = .graph j ∨ ∃ gs, as.v = .graphs gs ∧ j ∈ gs) : In lo hi j := by
  obtain ⟨nm, doc, v⟩ := as
  rcases hj with hj | ⟨gs, hj, hm⟩
  · simp only at hj; subst hj; exact h
  · simp only at hj; subst hj; exact h j hm

theorem old_attr_same {w w' : World} {allow : Bool} (h : CloneResult w allow w') {a : Nat}
    (hs : SharedAttr w a) : ∃ as, w'[a]? = some (.attr as) ∧ as.v.isGraphy = false := by
  obtain ⟨as, h0, hg⟩ := hs
  obtain ⟨c, h1, h2⟩ := h.old a _ h0
  have := h2.1
  cases c <;> simp [Cell.eraseUses] at this
  subst this
  exact ⟨_, h1, hg⟩

/-- in a heap produced by a clone, whatever a new object owns is new -/
theorem owns_new {w w' : World} {allow : Bool} (h : CloneResult w allow w') {i j : Nat}
    (hi : In w.length w'.length i) (ho : owns w' i j) : In w.length w'.length j := by
  unfold owns at ho
  have graphAttr : ∀ (attrs : List (String × Nat)),
      (∀ ka ∈ attrs, In w.length w'.length ka.2 ∨ SharedAttr w ka.2) →
      (∃ ka ∈ attrs, GraphAttrOf w' ka.2 j) → In w.length w'.length j := by
    intro attrs hat ⟨ka, hka, as, has, hj⟩
    rcases hat ka hka with hnew | hsh
    · exact cellOk_attr (h.cells ka.2 _ hnew.1 has) hj
    · obtain ⟨as', has', hg⟩ := old_attr_same h hsh
      rw [has] at has'
      cases has'
      rcases hj with hj | ⟨gs, hj, _⟩ <;> rw [hj] at hg <;> cases hg
  split at ho
  · next m hm =>
    obtain ⟨a, b, c, d⟩ := h.cells i _ hi.1 hm
    rcases ho with rfl | ho | rfl | rfl
    · exact a
    · exact b j ho
    · exact c
    · exact d
  · next f hf =>
    obtain ⟨a, b⟩ := h.cells i _ hi.1 hf
    rcases ho with rfl | ho
    · exact a
    · exact graphAttr f.attrs b ho
  · next g hg =>
    obtain ⟨a, b, c, d, e, f⟩ := h.cells i _ hi.1 hg
    rcases ho with ho | ho | ⟨x, hx, rfl⟩ | ho | rfl | rfl
    · exact a j ho
    · exact b j ho
    · exact c x hx
    · exact d j ho
    · exact e
    · exact f
  · next n hn =>
    obtain ⟨a, b, c, _, e, _⟩ := h.cells i _ hi.1 hn
    rcases ho with ho | rfl | rfl | ho
    · exact a j ho
    · exact b
    · exact c
    · exact graphAttr n.attrs e ho
  · next v hv =>
    obtain ⟨a, b, c, d, _, _⟩ := h.cells i _ hi.1 hv
    rcases ho with ho | ho | rfl | rfl
    · rw [ho] at a; exact a
    · rw [ho] at b; exact b
    · exact c
    · exact d
  · exact False.elim ho

theorem owned_new {w w' : World} {allow : Bool} (h : CloneResult w allow w') {root : Nat}
    (hr : In w.length w'.length root) {i : Nat} (ho : Owned w' root i) : In w.length w'.length i := by
  induction ho with
  | root => exact hr
  | step _ hij ih => exact owns_new h ih hij

/-! ### C13: freshness, closedness, no side effect on the original — `Graph.clone` /
`GraphView.clone`, `Function.clone`, `Model.clone` -/

/-- **C13_fresh** (graph / graph view).  Every object of the clone — its graphs at any depth,
    nodes, values, type objects, shape objects and metadata containers — is a new object: its id
    is not the id of any pre-existing object (`w.length ≤ i`), for every heap, every graph, both
    settings of `allow_outer_scope_values`. -/
theorem C13_fresh {w w' : World} {fuel : Nat} {allow : Bool} {g g' : Nat}
    (h : run (graphClone fuel allow g) w = (.ok g', w')) :
    ∀ i, Owned w' g' i → w.length ≤ i ∧ i < w'.length := by
  obtain ⟨hres, hroot⟩ := CloneResult.of_good (fun s hI => graphClone_good fuel g hI) h
  exact fun i hi => owned_new hres (hroot g' rfl) hi

/-- **C13_fresh_function** (`Function.clone`). -/
theorem C13_fresh_function {w w' : World} {fuel : Nat} {f f' : Nat}
    (h : run (funcClone fuel f) w = (.ok f', w')) :
    ∀ i, Owned w' f' i → w.length ≤ i ∧ i < w'.length := by
  obtain ⟨hres, hroot⟩ := CloneResult.of_good (fun s hI => funcClone_good fuel f hI) h
  exact fun i hi => owned_new hres (hroot f' rfl) hi

/-- **C13_fresh_model** (`Model.clone`, which is also what `functionalize` runs the pass on). -/
theorem C13_fresh_model {w w' : World} {fuel : Nat} {m m' : Nat}
    (h : run (modelClone fuel m) w = (.ok m', w')) :
    ∀ i, Owned w' m' i → w.length ≤ i ∧ i < w'.length := by
  obtain ⟨hres, hroot⟩ := CloneResult.of_good (fun s hI => modelClone_good fuel m hI) h
  exact fun i hi => owned_new hres (hroot m' rfl) hi

/-- **C13_closed**.  Every reference held by an object of the clone points into the clone: the
    ownership pointers always (previous theorems), the back pointers (`Value.graph`,
    `Value.producer`, `Node.graph`) always, and every node input whenever
    `allow_outer_scope_values` is `False` — so with `allow = false` a result can only be returned
    when no reference escapes; otherwise the call does not return a clone (it raises).  For
    `allow_outer_scope_values=True` see `C13_closed_outer`. -/
theorem C13_closed {w w' : World} {fuel : Nat} {allow : Bool} {g g' : Nat}
    (h : run (graphClone fuel allow g) w = (.ok g', w')) (i : Nat) (hi : Owned w' g' i) :
    (∀ n, w'[i]? = some (.node n) →
        (allow = false → ∀ v, some v ∈ n.inputs → w.length ≤ v ∧ v < w'.length) ∧
        (∀ gr, n.graph = some gr → w.length ≤ gr ∧ gr < w'.length)) ∧
    (∀ v, w'[i]? = some (.val v) →
        (∀ gr, v.graph = some gr → w.length ≤ gr ∧ gr < w'.length) ∧
        (∀ p, v.producer = some p → w.length ≤ p ∧ p < w'.length)) := by
  obtain ⟨hres, hroot⟩ := CloneResult.of_good (fun s hI => graphClone_good fuel g hI) h
  have hin := owned_new hres (hroot g' rfl) hi
  constructor
  · intro n hn
    obtain ⟨_, _, _, d, _, f, _⟩ := hres.cells i _ hin.1 hn
    exact ⟨f, fun gr hgr => by rw [hgr] at d; exact d⟩
  · intro v hv
    obtain ⟨_, _, _, _, e, f, _⟩ := hres.cells i _ hin.1 hv
    exact ⟨fun gr hgr => by rw [hgr] at e; exact e, fun p hp => by rw [hp] at f; exact f⟩

/-- **C13_closed_model**: a cloned model never refers to a value of the original. -/
theorem C13_closed_model {w w' : World} {fuel : Nat} {m m' : Nat}
    (h : run (modelClone fuel m) w = (.ok m', w')) (i : Nat) (hi : Owned w' m' i) :
    ∀ n, w'[i]? = some (.node n) → ∀ v, some v ∈ n.inputs → w.length ≤ v ∧ v < w'.length := by
  obtain ⟨hres, hroot⟩ := CloneResult.of_good (fun s hI => modelClone_good fuel m hI) h
  have hin := owned_new hres (hroot m' rfl) hi
  intro n hn
  obtain ⟨_, _, _, _, _, f, _⟩ := hres.cells i _ hin.1 hn
  exact f rfl

/-- **C13_clone_pure**.  Cloning never changes a pre-existing object, whether it returns or
    raises: with `allow_outer_scope_values=False` the old part of the heap is identical; with
    `True` the only change is in the usage lists of values: records by pre-existing nodes are
    unchanged (`OldSame`), records by nodes of the clone are added (and removed again when the
    clone is abandoned). -/
theorem C13_clone_pure {w w' : World} {fuel : Nat} {allow : Bool} {g : Nat} {r : Except Err Nat}
    (h : run (graphClone fuel allow g) w = (r, w')) :
    (allow = false → ∀ (i : Nat) (c : Cell), w[i]? = some c → w'[i]? = some c) ∧
    (∀ (i : Nat) (c : Cell), w[i]? = some c → ∃ c', w'[i]? = some c' ∧ OldSame w.length c c') := by
  obtain ⟨hres, _⟩ := CloneResult.of_good (fun s hI => graphClone_good fuel g hI) h
  exact ⟨hres.oldEq, hres.old⟩

theorem C13_clone_pure_model {w w' : World} {fuel : Nat} {m : Nat} {r : Except Err Nat}
    (h : run (modelClone fuel m) w = (r, w')) :
    ∀ (i : Nat) (c : Cell), w[i]? = some c → w'[i]? = some c := by
  obtain ⟨hres, _⟩ := CloneResult.of_good (fun s hI => modelClone_good fuel m hI) h
  exact hres.oldEq rfl


/-! ### C13_frame: edits of one copy leave the other copy's cells unchanged -/

theorem FInv.restart {ex strict : Bool} {B : Nat → Prop} {wB : World} {s : St} (h : FInv ex strict B wB s) :
    FInv ex strict B wB { w := s.w } := ⟨h.bound, h.same, h.sep⟩

theorem runHistory_inv {ex strict : Bool} {B : Nat → Prop} {wB : World} :
    ∀ (es : List Edit) (w : World), FInv ex strict B wB { w := w } → (∀ e ∈ es, ArgsOut B e) →
      FInv ex strict B wB { w := (runHistory es w).2 }
  | [], _, h, _ => h
  | e :: es, w, h, ha => by
    have h1 := (applyEdit_frame e h (ha e List.mem_cons_self)).1
    unfold runHistory run
    rcases hm : applyEdit e { w := w } with ⟨r, s1⟩
    rw [hm] at h1
    simp only
    have h2 := runHistory_inv es s1.w h1.restart (fun e' he' => ha e' (List.mem_cons_of_mem _ he'))
    rcases hr : runHistory es s1.w with ⟨rs, w2⟩
    rw [hr] at h2
    exact h2

/-- **C13_frame** (general form).  Let `B` be any set of cells of a heap `w` such that no cell
    outside `B` has a pointer into `B` among the pointers editing calls follow (type, shape,
    metadata containers, owning graph, constant tensor, node inputs, graph outputs).  Then for EVERY
    history of edits of the alphabet `Edit` whose arguments are outside `B` — whatever the edits
    are, however many, whether they succeed or raise half-way — every cell of `B` is afterwards
    exactly what it was.  The alphabet (Model/Clone.lean `Edit`, 31 editing calls): `Value.name=`
    (incl. initializer rename and the write-through to the tensor's name), `.type=`, `.dtype=`,
    `.type.denotation=`, `.shape=`, `.shape[i]=`, `.shape.set_denotation`, `.const_value=`,
    `.doc_string=`; `metadata_props[k]=` / `del`, `meta[k]=` / `del`, `meta.invalidate` on values,
    nodes, graphs, models; `Node.replace_input_with`, `.name=`, `.op_type=`, `.domain=`,
    `.overload=`, `.version=`, `.doc_string=`, `.attributes[k]=` / `del`, `.device_configurations=`;
    `Graph.name=`, `.doc_string=`, `.opset_imports[d]=`, `.remove(node)`, new node + `.append`,
    `.outputs.append` / `.pop`; `Function.name=`; model header fields.  NOT in the alphabet (covered
    by the oracle only as far as generated, or not at all): `graph.inputs` / initializer-dict edits,
    `sort`, `insert_before/after`, `replace_all_uses_with`, `resize_inputs/outputs`, `model.functions`
    edits, in-place mutation of shared `Attr` objects (D114). -/
theorem C13_frame (B : Nat → Prop) (w : World) (es : List Edit)
    (hb : ∀ i, B i → i < w.length)
    (hsep : ∀ (i : Nat) (c : Cell), ¬ B i → w[i]? = some c → CellOut true B c)
    (hargs : ∀ e ∈ es, ∀ a ∈ e.args, ¬ B a) :
    ∀ i, B i → (runHistory es w).2[i]? = w[i]? := by
  intro i hi
  have := (runHistory_inv (ex := false) (strict := true) (wB := w) es w
    ⟨hb, fun _ _ => OptRel.refl _ _ _, fun i c hi hc => CellOutX.of_cellOut (hsep i c hi hc)⟩ hargs).same i hi
  simp only at this
  cases h1 : w[i]? with
  | none =>
    rw [h1] at this
    cases h2 : (runHistory es w).2[i]? with
    | none => rfl
    | some c => rw [h2] at this; exact this.elim
  | some c0 =>
    rw [h1] at this
    cases h2 : (runHistory es w).2[i]? with
    | none => rw [h2] at this; exact this.elim
    | some c =>
      rw [h2] at this
      have : c = c0 := by simpa [OptRel, CellRel] using this
      rw [this]

/-- **C13_frame_weak** (general form when nodes outside `B` may consume values of `B`, as a clone
    made with `allow_outer_scope_values=True` does).  `CellOut false` does not constrain node inputs.
    Then every cell of `B` is afterwards what it was except for usage records: its content with the
    users erased is unchanged, and so is the list of usage records made by nodes of `B`. -/
theorem C13_frame_weak (B : Nat → Prop) (w : World) (es : List Edit)
    (hb : ∀ i, B i → i < w.length)
    (hsep : ∀ (i : Nat) (c : Cell), ¬ B i → w[i]? = some c → CellOut false B c)
    (hargs : ∀ e ∈ es, ∀ a ∈ e.args, ¬ B a) :
    ∀ i, B i → OptRel false B (w[i]?) ((runHistory es w).2[i]?) :=
  (runHistory_inv (ex := false) (strict := false) (wB := w) es w
    ⟨hb, fun _ _ => OptRel.refl _ _ _, fun i c hi hc => CellOutX.of_cellOut (hsep i c hi hc)⟩ hargs).same

/-- the pre-existing cells a clone must leave alone: all of them except the tensor objects, which
    clone and original share by design (`Value.name = ...` writes through to `const_value.name`:
    recorded finding D113) -/
def Protected (w : World) (i : Nat) : Prop := i < w.length ∧ ¬ ConstTarget w i

theorem cellOut_of_cellOk {w0 : World} {hi : Nat} {allow : Bool} {c : Cell}
    (h : CellOk w0 w0.length hi allow c) : CellOut (!allow) (Protected w0) c := by
  have opt : ∀ o, OptIn w0.length hi o → OptOut (Protected w0) o := by
    intro o ho
    cases o with
    | none => trivial
    | some x => exact fun hp => Nat.not_lt.mpr ho.1 hp.1
  have nin : ∀ x, In w0.length hi x → ¬ Protected w0 x := fun x hx hp => Nat.not_lt.mpr hx.1 hp.1
  cases c with
  | val v =>
    obtain ⟨a, b, c, d, e, _, k⟩ := h
    refine ⟨opt _ a, opt _ b, nin _ c, nin _ d, opt _ e, ?_⟩
    cases hc : v.const with
    | none => trivial
    | some t =>
      rw [hc] at k
      rcases k with k | k
      · exact fun hp => Nat.not_lt.mpr k hp.1
      · exact fun hp => hp.2 k
  | node n =>
    obtain ⟨_, b, c, _, _, f, _⟩ := h
    exact ⟨fun hs v hv => nin _ (f (by simpa using hs) v hv), nin _ b, nin _ c⟩
  | graph g =>
    obtain ⟨_, b, _, _, e, f⟩ := h
    exact ⟨fun v hv => nin _ (b v hv), nin _ e, nin _ f⟩
  | model m =>
    obtain ⟨_, _, c, d⟩ := h
    exact ⟨nin _ c, nin _ d⟩
  | attr _ => trivial
  | func _ => trivial
  | type _ => trivial
  | shape _ => trivial
  | dict _ => trivial
  | tensor _ => trivial

theorem constTarget_tensor {w : World} (hwf : wellFormed w = true) {i : Nat} (h : ConstTarget w i) :
    ∃ nm, w[i]? = some (.tensor nm) := by
  obtain ⟨j, vs, hj, hc⟩ := h
  unfold wellFormed at hwf
  rw [Bool.and_eq_true] at hwf
  have := hwf.2
  unfold constTyped at this
  rw [List.all_eq_true] at this
  have := this _ (List.mem_of_getElem? hj)
  simp only [hc] at this
  split at this
  · next nm h => exact ⟨nm, h⟩
  · cases this

/-- editing the clone never changes the original: shared statement for the three entry points -/
theorem frame_clone_edited {w w' : World} (hwf : wellFormed w = true) (hres : CloneResult w false w')
    (es : List Edit) (hargs : ∀ e ∈ es, ∀ a ∈ e.args, ¬ Protected w a) :
    ∀ i, Protected w i → (runHistory es w').2[i]? = w[i]? := by
  intro i hi
  have hsep : ∀ (i : Nat) (c : Cell), ¬ Protected w i → w'[i]? = some c → CellOut true (Protected w) c := by
    intro i c hni hc
    rcases Nat.lt_or_ge i w.length with hlt | hge
    · -- a pre-existing tensor cell (the only unprotected pre-existing cells): unchanged by cloning
      have hct : ConstTarget w i := Classical.byContradiction (fun hn => hni ⟨hlt, hn⟩)
      obtain ⟨nm, hnm⟩ := constTarget_tensor hwf hct
      have := hres.oldEq rfl i _ hnm
      rw [hc] at this
      cases this
      trivial
    · exact cellOut_of_cellOk (allow := false) (hres.cells i c hge hc)
  have := C13_frame (Protected w) w' es (fun i hi => Nat.lt_of_lt_of_le hi.1 hres.grows) hsep hargs i hi
  rw [this]
  exact hres.oldEq rfl i _ (List.getElem?_eq_getElem hi.1) ▸ (List.getElem?_eq_getElem hi.1).symm ▸ rfl

/-- **C13_frame_clone_edited** (`Graph.clone()`, `GraphView.clone()`).  After cloning, every
    history of edits applied to objects that did not exist before the clone (the clone's objects and
    whatever the edits create) leaves every pre-existing cell exactly as it was before cloning. -/
theorem C13_frame_clone_edited {w w' : World} {fuel g : Nat} {r : Except Err Nat}
    (hwf : wellFormed w = true)
    (h : run (graphClone fuel false g) w = (r, w')) (es : List Edit)
    (hargs : ∀ e ∈ es, ∀ a ∈ e.args, ¬ Protected w a) :
    ∀ i, Protected w i → (runHistory es w').2[i]? = w[i]? :=
  frame_clone_edited hwf (CloneResult.of_good (fun s hI => graphClone_good fuel g hI) h).1 es hargs

/-- **C13_frame_function** (`Function.clone()`). -/
theorem C13_frame_function {w w' : World} {fuel f : Nat} {r : Except Err Nat}
    (hwf : wellFormed w = true)
    (h : run (funcClone fuel f) w = (r, w')) (es : List Edit)
    (hargs : ∀ e ∈ es, ∀ a ∈ e.args, ¬ Protected w a) :
    ∀ i, Protected w i → (runHistory es w').2[i]? = w[i]? :=
  frame_clone_edited hwf (CloneResult.of_good (fun s hI => funcClone_good fuel f hI) h).1 es hargs

/-- **C13_functionalize**.  `functionalize fuel pass m w` is the model of
    `passes.functionalize(p)(model)` = `p(model.clone())` (`_pass_infra.py` 331-353); the wrapped
    in-place pass `p` is ANY function from the clone it is handed (and the heap it finds) to the
    history of editing calls it performs.  If those calls are applied to objects that did not exist
    before the call (the clone's objects, objects the pass creates) — which is all a pass can reach
    from the model it is given, by `C13_closed_model` — then the input model and everything else that
    existed before is unchanged, cell for cell (except the name of shared tensor objects, D113),
    whether cloning succeeds or raises. -/
theorem C13_functionalize {w w' : World} {fuel m : Nat} {r : Except Err Nat}
    (pass : Nat → World → List Edit) (hwf : wellFormed w = true)
    (h : functionalize fuel pass m w = (r, w'))
    (hargs : ∀ m' w1, ∀ e ∈ pass m' w1, ∀ a ∈ e.args, ¬ Protected w a) :
    ∀ i, Protected w i → w'[i]? = w[i]? := by
  unfold functionalize at h
  rcases hrun : run (modelClone fuel m) w with ⟨r1, w1⟩
  rw [hrun] at h
  have hres := (CloneResult.of_good (fun s hI => modelClone_good fuel m hI) hrun).1
  cases r1 with
  | ok m' =>
    simp only [Prod.mk.injEq] at h
    obtain ⟨_, rfl⟩ := h
    exact frame_clone_edited hwf hres (pass m' w1) (hargs m' w1)
  | error e =>
    simp only [Prod.mk.injEq] at h
    obtain ⟨_, rfl⟩ := h
    intro i hi
    exact hres.oldEq rfl i _ (List.getElem?_eq_getElem hi.1) ▸ (List.getElem?_eq_getElem hi.1).symm ▸ rfl

theorem usesByB_of_oldSame {w : World} {c0 c : Cell} (h : OldSame w.length c0 c) :
    usesByB (Protected w) c = usesByB (Protected w) c0 := by
  have key : ∀ (l : List (Nat × Nat)),
      l.filter (fun u => @decide (Protected w u.1) (Classical.propDecidable _)) =
      (l.filter (fun u => decide (u.1 < w.length))).filter
        (fun u => @decide (Protected w u.1) (Classical.propDecidable _)) := by
    intro l
    rw [List.filter_filter]
    apply List.filter_congr
    intro u _
    by_cases hu : Protected w u.1
    · simp [hu, hu.1]
    · simp [hu]
  unfold usesByB
  rw [key c.usesOf, key c0.usesOf, h.2]

/-- **C13_frame_clone_edited_outer** (`Graph.clone(allow_outer_scope_values=True)`).  The clone
    consumes outer-scope values of the original's world, so editing it may add or remove ITS OWN
    usage records on those values — and nothing else: after cloning and any history of edits on
    objects that did not exist before, every protected pre-existing cell has the same content with
    the users erased, and the same usage records by pre-existing nodes, as before cloning. -/
theorem C13_frame_clone_edited_outer {w w' : World} {fuel g : Nat} {r : Except Err Nat}
    (hwf : wellFormed w = true)
    (h : run (graphClone fuel true g) w = (r, w')) (es : List Edit)
    (hargs : ∀ e ∈ es, ∀ a ∈ e.args, ¬ Protected w a) :
    ∀ (i : Nat) (c0 : Cell), Protected w i → w[i]? = some c0 →
      ∃ c, (runHistory es w').2[i]? = some c ∧ c.eraseUses = c0.eraseUses ∧
        usesByB (Protected w) c = usesByB (Protected w) c0 := by
  obtain ⟨hres, _⟩ := CloneResult.of_good (fun s hI => graphClone_good (allow := true) fuel g hI) h
  intro i c0 hi hc0
  have hsep : ∀ (i : Nat) (c : Cell), ¬ Protected w i → w'[i]? = some c →
      CellOut false (Protected w) c := by
    intro i c hni hc
    rcases Nat.lt_or_ge i w.length with hlt | hge
    · have hct : ConstTarget w i := Classical.byContradiction (fun hn => hni ⟨hlt, hn⟩)
      obtain ⟨nm, hnm⟩ := constTarget_tensor hwf hct
      obtain ⟨c', h1, h2⟩ := hres.old i _ hnm
      rw [hc] at h1
      cases h1
      have := h2.1
      cases c <;> simp [Cell.eraseUses] at this
      trivial
    · exact cellOut_of_cellOk (allow := true) (hres.cells i c hge hc)
  have hrel := C13_frame_weak (Protected w) w' es (fun i hi => Nat.lt_of_lt_of_le hi.1 hres.grows)
    hsep hargs i hi
  obtain ⟨c1, hc1, hold⟩ := hres.old i c0 hc0
  rw [hc1] at hrel
  cases hfin : (runHistory es w').2[i]? with
  | none => rw [hfin] at hrel; exact hrel.elim
  | some c =>
    rw [hfin] at hrel
    have hrel' : c.eraseUses = c1.eraseUses ∧ usesByB (Protected w) c = usesByB (Protected w) c1 := by
      simpa [OptRel, CellRel] using hrel
    exact ⟨c, rfl, hrel'.1.trans hold.1, hrel'.2.trans (usesByB_of_oldSame hold)⟩

theorem followed_oldSame {n0 : Nat} {c0 c : Cell} (h : OldSame n0 c0 c) : followed c = followed c0 := by
  have := h.1
  cases c <;> cases c0 <;> simp [Cell.eraseUses] at this <;> try (subst this; rfl)
  next v v0 =>
    obtain ⟨_, _, _, _, e5, _, _, _, e1, e2, e6, e3, e4⟩ := this
    simp [followed, e1, e2, e3, e4, e5, e6]

theorem cellOut_of_followed {B : Nat → Prop} {c : Cell} (h : ∀ p ∈ followed c, ¬ B p) : CellOut true B c := by
  have opt : ∀ o : Option Nat, (∀ p ∈ o.toList, ¬ B p) → OptOut B o := by
    intro o ho
    cases o with
    | none => trivial
    | some x => exact ho x (by simp)
  cases c with
  | val v =>
    simp only [followed, List.mem_append, List.mem_cons] at h
    exact ⟨opt _ (fun p hp => h p (by simp [hp])), opt _ (fun p hp => h p (by simp [hp])),
      h _ (by simp), h _ (by simp), opt _ (fun p hp => h p (by simp [hp])),
      opt _ (fun p hp => h p (by simp [hp]))⟩
  | node n =>
    simp only [followed, List.mem_append, List.mem_cons, List.mem_filterMap, id] at h
    exact ⟨fun _ v hv => h v (.inl ⟨some v, hv, rfl⟩), h _ (by simp), h _ (by simp)⟩
  | graph g =>
    simp only [followed, List.mem_append, List.mem_cons] at h
    exact ⟨fun v hv => h v (.inl hv), h _ (by simp), h _ (by simp)⟩
  | model m =>
    simp only [followed, List.mem_cons] at h
    exact ⟨h _ (by simp), h _ (by simp)⟩
  | attr _ => trivial
  | func _ => trivial
  | type _ => trivial
  | shape _ => trivial
  | dict _ => trivial
  | tensor _ => trivial

theorem wellFormed_spec {w : World} (h : wellFormed w = true) {i : Nat} {c : Cell}
    (hc : w[i]? = some c) : ∀ p ∈ followed c, p < w.length := by
  unfold wellFormed at h
  rw [Bool.and_eq_true, List.all_eq_true] at h
  have := h.1 c (List.mem_of_getElem? hc)
  rw [List.all_eq_true] at this
  intro p hp
  simpa using this p hp

/-- **C13_frame_orig_edited**.  The symmetric direction, for both settings of
    `allow_outer_scope_values`: if the heap before cloning has no dangling pointers, every history
    of edits whose arguments are not objects created by the clone (the original's objects, the
    enclosing graphs, objects the edits create) leaves every cell created by the clone — the whole
    clone — exactly as it was. -/
theorem C13_frame_orig_edited {w w' : World} {fuel g : Nat} {allow : Bool} {r : Except Err Nat}
    (hwf : wellFormed w = true)
    (h : run (graphClone fuel allow g) w = (r, w')) (es : List Edit)
    (hargs : ∀ e ∈ es, ∀ a ∈ e.args, ¬ (w.length ≤ a ∧ a < w'.length)) :
    ∀ i, w.length ≤ i → i < w'.length → (runHistory es w').2[i]? = w'[i]? := by
  obtain ⟨hres, _⟩ := CloneResult.of_good (fun s hI => graphClone_good fuel g hI) h
  intro i h1 h2
  refine C13_frame (fun i => w.length ≤ i ∧ i < w'.length) w' es (fun i hi => hi.2) ?_ hargs i ⟨h1, h2⟩
  intro j c hj hc
  have hjlt : j < w.length := by
    have := lt_of_getElem? hc
    rcases Nat.lt_or_ge j w.length with h | h
    · exact h
    · exact absurd ⟨h, this⟩ hj
  obtain ⟨c', hc', hsame⟩ := hres.old j _ (List.getElem?_eq_getElem hjlt)
  rw [hc] at hc'
  cases hc'
  apply cellOut_of_followed
  rw [followed_oldSame hsame]
  intro p hp hB
  have := wellFormed_spec hwf (List.getElem?_eq_getElem hjlt) p hp
  omega

theorem C13_frame_orig_edited_model {w w' : World} {fuel m : Nat} {r : Except Err Nat}
    (hwf : wellFormed w = true)
    (h : run (modelClone fuel m) w = (r, w')) (es : List Edit)
    (hargs : ∀ e ∈ es, ∀ a ∈ e.args, ¬ (w.length ≤ a ∧ a < w'.length)) :
    ∀ i, w.length ≤ i → i < w'.length → (runHistory es w').2[i]? = w'[i]? := by
  obtain ⟨hres, _⟩ := CloneResult.of_good (fun s hI => modelClone_good fuel m hI) h
  intro i h1 h2
  refine C13_frame (fun i => w.length ≤ i ∧ i < w'.length) w' es (fun i hi => hi.2) ?_ hargs i ⟨h1, h2⟩
  intro j c hj hc
  have hjlt : j < w.length := by
    have := lt_of_getElem? hc
    rcases Nat.lt_or_ge j w.length with h | h
    · exact h
    · exact absurd ⟨h, this⟩ hj
  obtain ⟨c', hc', hsame⟩ := hres.old j _ (List.getElem?_eq_getElem hjlt)
  rw [hc] at hc'
  cases hc'
  apply cellOut_of_followed
  rw [followed_oldSame hsame]
  intro p hp hB
  have := wellFormed_spec hwf (List.getElem?_eq_getElem hjlt) p hp
  omega


/-! ### C13_faithful: the clone is observationally the original -/

theorem sim_of_run {m : M Nat} {Q : Nat → St → Prop} (hm : ∀ s, K s → SGoodAt m s Q) {w w' : World}
    {r : Nat} (h : run m w = (.ok r, w')) : ∃ s', s'.w = w' ∧ CoreLe w w' ∧ Q r s' := by
  have hK0 : K { w := w } := by intro p hp; cases hp
  have hq := hm _ hK0
  unfold run at h
  rcases hms : m { w := w } with ⟨r1, s1⟩
  rw [hms] at h
  simp only [Prod.mk.injEq] at h
  obtain ⟨rfl, rfl⟩ := h
  obtain ⟨_, hl, hq⟩ := hq r (by rw [hms])
  rw [hms] at hl hq
  exact ⟨s1, rfl, hl, hq⟩

/-- **C13_faithful** (`Graph.clone`, `GraphView.clone`; both settings of
    `allow_outer_scope_values`).  In the heap after cloning, the clone `g'` and the original `g` are
    related by `GraphSim`: same graph name, doc string, opset imports and metadata; inputs,
    initializers and outputs pairwise with the same observation (`VInfo`: name, doc string, constant
    tensor, content of the type and shape objects, of `metadata_props` and of `meta`); nodes pairwise
    with the same operator fields, metadata and device annotations, inputs that are either the same
    reference (`None`, an outer-scope value) or values with the same observation, outputs with the
    same observation, attributes that are the same (shared) objects or new attribute objects holding
    graphs that are again `GraphSim`-related — recursively at every depth.  Everything a serializer
    reads is covered by the relation (and more: `meta`), so original and clone serialize alike
    whenever the container keys are consistent (`dictOf` / `initDict` do not merge entries).
    Together with `C13_clone_pure` (cloning did not change the original) this is faithfulness. -/
theorem C13_faithful {w w' : World} {fuel : Nat} {allow : Bool} {g g' : Nat}
    (h : run (graphClone fuel allow g) w = (.ok g', w')) : GraphSim w' g g' := by
  obtain ⟨s', rfl, _, hq⟩ := sim_of_run (fun s hK => graphClone_sim fuel g hK) h
  exact hq

/-- **C13_faithful_function** (`Function.clone`). -/
theorem C13_faithful_function {w w' : World} {fuel : Nat} {f f' : Nat}
    (h : run (funcClone fuel f) w = (.ok f', w')) : FuncSim w' f f' := by
  obtain ⟨s', rfl, _, hq⟩ := sim_of_run (fun s hK => funcClone_sim fuel f hK) h
  exact hq

/-- **C13_faithful_model** (`Model.clone`; the model `functionalize` hands to the wrapped pass). -/
theorem C13_faithful_model {w w' : World} {fuel : Nat} {m m' : Nat}
    (h : run (modelClone fuel m) w = (.ok m', w')) : ModelSim w' m m' := by
  obtain ⟨s', rfl, _, hq⟩ := sim_of_run (fun s hK => modelClone_sim fuel m hK) h
  exact hq


/-- **C13_faithful_observe** (observational equality, graph / graph view).  `serGraph k w g` is this
    check's OWN observation function (Model/Clone.lean): the tree of everything a serializer can read
    of graph `g` in heap `w` — names, doc strings, opset imports, value infos with type / shape /
    metadata, initializers, nodes with input and output names, attributes incl. nested graphs, device
    annotations — defined when the containers are consistent (every attribute filed under its own
    name once, initializer names present and distinct, depth ≤ `k`).  It is NOT the model of
    `serde.py` (properties C02/C03 own that) and is not compared with it field by field; the run
    reports where its definedness differs from the real serializer's and why.  Whatever the original
    observes to BEFORE cloning, the clone observes to the same thing afterwards, and so does the
    original. -/
theorem C13_faithful_observe {w w' : World} {fuel : Nat} {allow : Bool} {g g' : Nat}
    (h : run (graphClone fuel allow g) w = (.ok g', w')) (k : Nat) (y : SGraph)
    (hy : serGraph k w g = some y) :
    serGraph k w' g' = some y ∧ serGraph k w' g = some y := by
  obtain ⟨s', rfl, hle, _⟩ := sim_of_run (fun s hK => graphClone_sim (allow := allow) fuel g hK) h
  have hy' := serGraph_mono hle k hy
  exact ⟨serGraph_sim k (C13_faithful h) hy', hy'⟩


/-! ### C13_closed_outer: with `allow_outer_scope_values=True`, what is passed through is outer -/

/-- **C13_closed_outer**.  `Graph.clone(allow_outer_scope_values=True)`: every input of every node
    created by the clone (at any depth) is either not a pre-existing object at all (`w.length ≤ v`:
    a value of the clone) or a pre-existing value that is NOT defined at the top level of the cloned
    graph — not one of its inputs, not one of its initializers, not an output of one of its nodes.
    So the clone never consumes a value of the graph it copies (D33 closed); what it passes through
    is a genuine outer-scope value.  The same holds, with the nested graph in place of `g`, for the
    nodes created while a nested graph is cloned (`cloneGraph_cov`, which this theorem instantiates
    at the root and which the induction uses at every nested call): a passed-through value is
    defined in no graph of the consumer's scope chain inside the cloned region. -/
theorem C13_closed_outer {w w' : World} {fuel : Nat} {allow : Bool} {g g' : Nat} {gs : GraphS}
    (h : run (graphClone fuel allow g) w = (.ok g', w')) (hg : w[g]? = some (.graph gs)) :
    ∀ (i : Nat) (ns : NodeS), w.length ≤ i → w'[i]? = some (.node ns) → ∀ v, some v ∈ ns.inputs →
      w.length ≤ v ∨
      (v ∉ gs.inputs ∧ v ∉ gs.inits.map (·.2) ∧
        ∀ n ∈ gs.nodes, ∀ x, w[n]? = some (.node x) → v ∉ x.outputs) := by
  have hK0 : KC w.length { w := w } := by
    refine ⟨?_, Nat.le_refl _, ?_, ?_⟩
    · intro p hp; cases hp
    · intro p hp; cases hp
    · intro i ns hi hc
      have hnone : w[i]? = none := List.getElem?_eq_none hi
      rw [hnone] at hc
      exact absurd hc (by simp)
  have hc := cloneGraph_cov (n0 := w.length) (allow := allow) fuel g { w := w } hK0
  unfold run graphClone withFreshMap at h
  rcases hms : cloneGraph allow fuel g { w := w } with ⟨r1, s1⟩
  have e0 : ({ w := w, vm := [], pend := [], created := [] } : St) = { w := w } := rfl
  simp only [e0, hms, Prod.mk.injEq] at h
  obtain ⟨rfl, rfl⟩ := h
  obtain ⟨hK1, _, _, _, _, gs0, hgs0, havoid⟩ := hc g' (by rw [hms])
  rw [hms] at hK1 havoid
  simp only at hK1 havoid hgs0
  have : gs0 = gs := by
    rw [cGraph_of hg] at hgs0; cases hgs0; rfl
  subst this
  intro i ns hi hn v hv
  rcases Nat.lt_or_ge v w.length with hlt | hge
  · right
    have hmem := hK1.allc i ns hi hn
    obtain ⟨ns', hns', hav⟩ := havoid i (by simpa using hmem)
    rw [cNode_of hn] at hns'
    cases hns'
    have hnd := hav v hv hlt
    refine ⟨fun h => hnd (.inl h), fun h => hnd (.inr (.inl h)), ?_⟩
    intro n hnm x hx hvx
    apply hnd
    refine .inr (.inr ?_)
    unfold outsOf
    rw [List.mem_flatMap]
    exact ⟨n, hnm, by rw [cNode_of hx]; exact hvx⟩
  · exact .inl hge


/-! ### C13_raises_iff_inputs: exactly when a node input makes the clone raise -/

/-- an input the cloner cannot resolve: not bound in the value map and either outer-scope values
    are not allowed, or it is the output of a node of the graph that is still to be cloned -/
def Unresolved (allow : Bool) (s : St) (l : List (Option Nat)) : Prop :=
  ∃ v, some v ∈ l ∧ s.vm.lookup v = none ∧ (allow = false ∨ v ∈ s.pend)

/-- **C13_raises_iff_inputs**.  The node-input loop of `clone_node`, run on the inputs `l` of a
    node in cloner state `s`, (1) never changes the state; (2) raises if and only if some input is
    unresolved: unbound in the value map and (`allow_outer_scope_values` is `False`, or the value
    is a pending output of a graph being cloned: use before definition); (3) otherwise returns every
    input replaced by its binding, unbound ones passed through.  So the two "clear errors" of the
    cloner are raised exactly for the references it cannot resolve, and never otherwise. -/
theorem C13_raises_iff_inputs (allow : Bool) (s : St) (l : List (Option Nat)) :
    (mapInputs allow l s).2 = s ∧
    (Unresolved allow s l ↔ ∃ why, (mapInputs allow l s).1 = .error (.raised why)) ∧
    (¬ Unresolved allow s l →
      (mapInputs allow l s).1 = .ok (l.map (fun o => o.map (fun v => (s.vm.lookup v).getD v)))) := by
  rw [mapInputs_eq_pure]
  refine ⟨rfl, ?_⟩
  simp only
  induction l with
  | nil =>
    refine ⟨⟨?_, ?_⟩, fun _ => rfl⟩
    · rintro ⟨v, hv, _⟩; cases hv
    · rintro ⟨why, hw⟩; cases hw
  | cons x rest ih =>
    obtain ⟨ih1, ih2⟩ := ih
    have lift : ∀ (f : Option Nat),
        ((∃ why, (mapInputsPure allow s rest).map (f :: ·) = .error (.raised why)) ↔
          ∃ why, mapInputsPure allow s rest = .error (.raised why)) := by
      intro f
      cases mapInputsPure allow s rest with
      | ok r => simp [Except.map]
      | error e => simp [Except.map]
    have liftok : ∀ (f : Option Nat) (r : List (Option Nat)), mapInputsPure allow s rest = .ok r →
        (mapInputsPure allow s rest).map (f :: ·) = .ok (f :: r) := by
      intro f r h; rw [h]; rfl
    cases x with
    | none =>
      have hu : Unresolved allow s (none :: rest) ↔ Unresolved allow s rest := by
        constructor
        · rintro ⟨v, hv, h⟩
          rcases List.mem_cons.mp hv with h' | h'
          · cases h'
          · exact ⟨v, h', h⟩
        · rintro ⟨v, hv, h⟩; exact ⟨v, List.mem_cons_of_mem _ hv, h⟩
      unfold mapInputsPure
      refine ⟨by rw [hu, lift]; exact ih1, fun hn => ?_⟩
      rw [liftok none _ (ih2 (fun h => hn (hu.mpr h)))]; rfl
    | some v =>
      unfold mapInputsPure
      cases hlk : s.vm.lookup v with
      | some v' =>
        have hu : Unresolved allow s (some v :: rest) ↔ Unresolved allow s rest := by
          constructor
          · rintro ⟨x, hx, h⟩
            rcases List.mem_cons.mp hx with h' | h'
            · cases h'; rw [hlk] at h; cases h.1
            · exact ⟨x, h', h⟩
          · rintro ⟨x, hx, h⟩; exact ⟨x, List.mem_cons_of_mem _ hx, h⟩
        simp only
        refine ⟨by rw [hu, lift]; exact ih1, fun hn => ?_⟩
        rw [liftok (some v') _ (ih2 (fun h => hn (hu.mpr h)))]
        simp [hlk]
      | none =>
        simp only
        cases hallow : allow with
        | false =>
          simp only [Bool.false_eq_true, if_false]
          subst hallow
          exact ⟨⟨fun _ => ⟨_, rfl⟩, fun _ => ⟨v, List.mem_cons_self, hlk, .inl rfl⟩⟩,
            fun hn => absurd ⟨v, List.mem_cons_self, hlk, .inl rfl⟩ hn⟩
        | true =>
          subst hallow
          simp only [if_true]
          cases hp : s.pend.contains v with
          | true =>
            simp only [if_true]
            have hvp : v ∈ s.pend := by simpa using hp
            exact ⟨⟨fun _ => ⟨_, rfl⟩, fun _ => ⟨v, List.mem_cons_self, hlk, .inr hvp⟩⟩,
              fun hn => absurd ⟨v, List.mem_cons_self, hlk, .inr hvp⟩ hn⟩
          | false =>
            simp only [Bool.false_eq_true, if_false]
            have hvp : v ∉ s.pend := by simpa using hp
            have hu : Unresolved true s (some v :: rest) ↔ Unresolved true s rest := by
              constructor
              · rintro ⟨x, hx, h⟩
                rcases List.mem_cons.mp hx with h' | h'
                · cases h'
                  rcases h.2 with h2 | h2
                  · cases h2
                  · exact absurd h2 hvp
                · exact ⟨x, h', h⟩
              · rintro ⟨x, hx, h⟩; exact ⟨x, List.mem_cons_of_mem _ hx, h⟩
            refine ⟨by rw [hu, lift]; exact ih1, fun hn => ?_⟩
            rw [liftok (some v) _ (ih2 (fun h => hn (hu.mpr h)))]
            simp [hlk]


/-! ### C13_failed_clone_no_residue: a clone that raises leaves nothing behind -/

/-- **C13_failed_clone_no_residue**.  When `Graph.clone` / `GraphView.clone` raises — for either
    setting of `allow_outer_scope_values`, wherever and at whatever nesting depth it fails — every
    pre-existing cell is afterwards exactly what it was: in particular the users lists of all
    pre-existing values (the nodes the abandoned clone had created, which consumed outer-scope
    values, were detached again: D112 fixed).  Hypothesis: the usage records of the heap before
    cloning name existing cells (checked on every abstracted real heap by the driver). -/
theorem C13_failed_clone_no_residue {w w' : World} {fuel : Nat} {allow : Bool} {g : Nat} {e : Err}
    (hub : usesBounded w = true)
    (h : run (graphClone fuel allow g) w = (.error e, w')) :
    ∀ (i : Nat) (c : Cell), w[i]? = some c → w'[i]? = some c := by
  obtain ⟨hres, _⟩ := CloneResult.of_good (fun s hI => graphClone_good (allow := allow) fuel g hI) h
  have hbound : ∀ (i : Nat) (vs : ValueS), w[i]? = some (.val vs) → ∀ u ∈ vs.uses, u.1 < w.length := by
    intro i vs hi u hu
    unfold usesBounded at hub
    rw [List.all_eq_true] at hub
    have := hub _ (List.mem_of_getElem? hi)
    simp only [List.all_eq_true] at this
    simpa using this u hu
  have hR0 : RInv w.length { w := w } := by
    refine ⟨?_, ?_, Nat.le_refl _, by intro n hn; cases hn⟩
    · intro v vs _ hvs u hu hun
      have := hbound v vs hvs u hu
      omega
    · intro n ns hn hns
      have hnone : w[n]? = none := List.getElem?_eq_none hn
      rw [hnone] at hns
      exact absurd hns (by simp)
  obtain ⟨⟨hR, _⟩, hcr⟩ := cloneGraph_res (n0 := w.length) (allow := allow) fuel g { w := w } hR0
  unfold run graphClone withFreshMap at h
  rcases hms : cloneGraph allow fuel g { w := w } with ⟨r1, s1⟩
  have e0 : ({ w := w, vm := [], pend := [], created := [] } : St) = { w := w } := rfl
  simp only [e0, hms, Prod.mk.injEq] at h
  obtain ⟨rfl, rfl⟩ := h
  rw [hms] at hR hcr
  have hcreated : s1.created = [] := by
    have := hcr e rfl
    simpa using this
  -- no usage record by a new node is left on a pre-existing value
  have hnone : ∀ (v : Nat) (vs : ValueS), v < w.length → s1.w[v]? = some (.val vs) →
      ∀ u ∈ vs.uses, u.1 < w.length := by
    intro v vs hv hvs u hu
    rcases Nat.lt_or_ge u.1 w.length with hlt | hge
    · exact hlt
    · exfalso
      obtain ⟨ns, hns, hin⟩ := hR.r v vs hv hvs u hu hge
      rcases hR.d u.1 ns hge hns with hd | hd
      · rw [hcreated] at hd; cases hd
      · have := hd (some v) (List.mem_of_getElem? hin)
        cases this
  intro i c hc
  obtain ⟨c', hc', hsame⟩ := hres.old i c hc
  rw [hc']
  have hi : i < w.length := lt_of_getElem? hc
  cases c with
  | val vs =>
    have h1 := hsame.1
    cases c' <;> simp [Cell.eraseUses] at h1
    next vs' =>
    have hu : vs'.uses = vs.uses := by
      have h2 := hsame.2
      simp only [Cell.usesOf] at h2
      have f1 : vs'.uses.filter (fun u => decide (u.1 < w.length)) = vs'.uses :=
        List.filter_eq_self.mpr (fun u hu => by simpa using hnone i vs' hi hc' u hu)
      have f2 : vs.uses.filter (fun u => decide (u.1 < w.length)) = vs.uses :=
        List.filter_eq_self.mpr (fun u hu => by simpa using hbound i vs hc u hu)
      rw [f1, f2] at h2
      exact h2
    obtain ⟨a1, a2, a3, a4, a5, a6, a7, a8, a9, a10, a11, a12, a13⟩ := h1
    cases vs; cases vs'
    simp only at a1 a2 a3 a4 a5 a6 a7 a8 a9 a10 a11 a12 a13 hu
    subst a1 a2 a3 a4 a5 a6 a7 a8 a9 a10 a11 a12 a13 hu
    rfl
  | _ =>
    have h1 := hsame.1
    cases c' <;> simp [Cell.eraseUses] at h1
    all_goals (subst h1; rfl)

/-! ### non-vacuity: the hypotheses are satisfiable and D33 is a real counterexample to the
unconditional statement for `allow = true` -/

/-- x --Relu--> y ; graph g0(x) -> y.  Cells: 0 graph, 1,2 its dicts, 3 x, 4,5 dicts, 6 node,
    7,8 dicts, 9 y, 10,11 dicts, 12 type object of x -/
def exWorld : World := [
  .graph { name := some "g", inputs := [3], outputs := [9], nodes := [6], props := 1, mstore := 2 },
  .dict {}, .dict {},
  .val { name := some "x", graph := some 0, isIn := true, uses := [(6, 0)], type := some 12,
         props := 4, mstore := 5 },
  .dict {}, .dict {},
  .node { name := some "n", opType := "Relu", inputs := [some 3], outputs := [9], graph := some 0,
          props := 7, mstore := 8 },
  .dict {}, .dict {},
  .val { name := some "y", producer := some 6, index := some 0, graph := some 0, isOut := true,
         props := 10, mstore := 11 },
  .dict {}, .dict {},
  .type { dtype := 1 } ]

/-- the hypothesis `serGraph k w g = some y` of C13_faithful_observe is satisfiable -/
example : (serGraph 3 exWorld 0).isSome = true := by decide +kernel

def typeOfDtype (w : World) : List Nat :=
  w.filterMap fun c => match c with
    | .type t => some t.dtype
    | _ => none

def isOk : Except Err Nat → Bool
  | .ok _ => true
  | .error _ => false

/-- the hypothesis `run (graphClone ..) w = (.ok g', w')` of the theorems is satisfiable -/
example : isOk (run (graphClone 4 false 0) exWorld).1 = true := by decide +kernel
example : isOk (run (graphClone 4 true 0) exWorld).1 = true := by decide +kernel

/-- the hypotheses of the frame theorems are satisfiable: the example heap is well formed, and
    there are histories whose arguments are objects of the clone -/
example : wellFormed exWorld = true := by decide +kernel

def exHistory : List Edit :=
  [.setDtype 16 7, .setName 16 (some "renamed"), .dictSet 25 .props "k" "v", .replaceInput 22 0 none,
   .setShape 16 (some { dims := [.int 2] }), .setDim 16 0 (.int 3)]

example : ∀ e ∈ exHistory, ∀ a ∈ e.args, exWorld.length ≤ a := by decide +kernel

/-- and such a history really changes the clone (so "the original is unchanged" is not vacuous) -/
example : typeOfDtype (runHistory exHistory (run (graphClone 4 false 0) exWorld).2).2 = [1, 7] ∧
    (runHistory exHistory (run (graphClone 4 false 0) exWorld).2).1.all
      (fun r => match r with | .ok _ => true | .error _ => false) = true := by
  decide +kernel

/-- the type object of the cloned input `x` is a new cell, not cell 12 (D32 fixed) -/
def typeOfValueNamed (w : World) (nm : String) : List (Option Nat) :=
  w.filterMap fun c => match c with
    | .val v => if v.name = some nm then some v.type else none
    | _ => none

example : typeOfValueNamed (run (graphClone 4 false 0) exWorld).2 "x" = [some 12, some 13] := by
  decide +kernel

/-! D33 (fixed): a graph that is not in def-before-use order is rejected for both settings of
`allow_outer_scope_values` — with `allow = true` the cloner used to return a clone whose node consumed
the ORIGINAL's value.  Graph g(x): nodes [b, a], a = A(x) -> va, b = B(va) -> vb. -/
def exUnsorted : World := [
  .graph { name := some "g", inputs := [3], outputs := [15], nodes := [12, 6], props := 1, mstore := 2 },
  .dict {}, .dict {},
  .val { name := some "x", graph := some 0, isIn := true, uses := [(6, 0)], props := 4, mstore := 5 },
  .dict {}, .dict {},
  .node { name := some "a", opType := "A", inputs := [some 3], outputs := [9], graph := some 0,
          props := 7, mstore := 8 },
  .dict {}, .dict {},
  .val { name := some "va", producer := some 6, index := some 0, uses := [(12, 0)], props := 10, mstore := 11 },
  .dict {}, .dict {},
  .node { name := some "b", opType := "B", inputs := [some 9], outputs := [15], graph := some 0,
          props := 13, mstore := 14 },
  .dict {}, .dict {},
  .val { name := some "vb", producer := some 12, index := some 0, graph := some 0, isOut := true,
         props := 16, mstore := 17 },
  .dict {}, .dict {} ]

def inputsOfNodesNamed (w : World) (nm : String) : List (List (Option Nat)) :=
  w.filterMap fun c => match c with
    | .node n => if n.name = some nm then some n.inputs else none
    | _ => none

def usersOf (w : World) (nm : String) : List (List (Nat × Nat)) :=
  w.filterMap fun c => match c with
    | .val v => if v.name = some nm then some v.uses else none
    | _ => none

/-- rejected, and nothing is left behind: no node named `b` besides the original's, and the users of
    `va` are what they were -/
example : isOk (run (graphClone 4 true 0) exUnsorted).1 = false ∧
    inputsOfNodesNamed (run (graphClone 4 true 0) exUnsorted).2 "b" = [[some 9]] ∧
    usersOf (run (graphClone 4 true 0) exUnsorted).2 "va" = [[(12, 0)]] := by
  decide +kernel

example : isOk (run (graphClone 4 false 0) exUnsorted).1 = false := by decide +kernel

/-- the hypothesis of C13_failed_clone_no_residue holds of the example heaps -/
example : usesBounded exUnsorted = true ∧ usesBounded exWorld = true := by decide +kernel

/-- a graph that captures an outer-scope value `o` (cell 3): c = C(o) -> vc -/
def exCapture : World := [
  .graph { name := some "sub", inputs := [], outputs := [9], nodes := [6], props := 1, mstore := 2 },
  .dict {}, .dict {},
  .val { name := some "o", uses := [(6, 0)], props := 4, mstore := 5 },
  .dict {}, .dict {},
  .node { name := some "c", opType := "C", inputs := [some 3], outputs := [9], graph := some 0,
          props := 7, mstore := 8 },
  .dict {}, .dict {},
  .val { name := some "vc", producer := some 6, index := some 0, graph := some 0, isOut := true,
         props := 10, mstore := 11 },
  .dict {}, .dict {} ]

/-- C13_closed_outer is not vacuous: the clone is returned and its node consumes the outer value -/
example : isOk (run (graphClone 4 true 0) exCapture).1 = true ∧
    inputsOfNodesNamed (run (graphClone 4 true 0) exCapture).2 "c" = [[some 3], [some 3]] := by
  decide +kernel

/-! ### C13_frame over the extended alphabet `Edit2` (deepening round 3)

`Edit2` = the 31 calls of `Edit` plus `graph.inputs.append / pop`, `graph.initializers[k] = v`,
`del graph.initializers[k]`, `graph.register_initializer`, `graph.sort()` (graphs whose nodes hold no
subgraphs), `graph.insert_before / insert_after`, `Value.replace_all_uses_with` (with and without
`replace_graph_outputs`), `Node.resize_inputs / resize_outputs`, `model.functions[id] = f`,
`del model.functions[id]`.  These calls follow four more kinds of pointers (the users of a value, the
outputs of a node, the inputs and the initializers of a graph), so the separation hypothesis is
`CellOutX true` instead of `CellOut`. -/

theorem runHistory2_inv {strict : Bool} {B : Nat → Prop} {wB : World} :
    ∀ (es : List Edit2) (w : World), FInv true strict B wB { w := w } → (∀ e ∈ es, ArgsOut2 B e) →
      FInv true strict B wB { w := (runHistory2 es w).2 }
  | [], _, h, _ => h
  | e :: es, w, h, ha => by
    have h1 := (applyEdit2_frame e h (ha e List.mem_cons_self)).1
    unfold runHistory2 run
    rcases hm : applyEdit2 e { w := w } with ⟨r, s1⟩
    rw [hm] at h1
    simp only
    have h2 := runHistory2_inv es s1.w h1.restart (fun e' he' => ha e' (List.mem_cons_of_mem _ he'))
    rcases hr : runHistory2 es s1.w with ⟨rs, w2⟩
    rw [hr] at h2
    exact h2

/-- **C13_frame_ext** (general form, extended alphabet).  Let `B` be any set of cells of a heap `w`
    such that no cell outside `B` has a pointer into `B` among the pointers the 44 editing calls of
    `Edit2` follow (those of `C13_frame`, and: the users of a value, the outputs of a node, the
    inputs and initializers of a graph).  Then for EVERY history of such calls whose receivers and
    arguments are outside `B` — however long, whether the calls succeed or raise half-way — every
    cell of `B` is afterwards exactly what it was. -/
theorem C13_frame_ext (B : Nat → Prop) (w : World) (es : List Edit2)
    (hb : ∀ i, B i → i < w.length)
    (hsep : ∀ (i : Nat) (c : Cell), ¬ B i → w[i]? = some c → CellOutX true true B c)
    (hargs : ∀ e ∈ es, ∀ a ∈ e.args, ¬ B a) :
    ∀ i, B i → (runHistory2 es w).2[i]? = w[i]? := by
  intro i hi
  have := (runHistory2_inv (strict := true) (wB := w) es w
    ⟨hb, fun _ _ => OptRel.refl _ _ _, hsep⟩ hargs).same i hi
  simp only at this
  cases h1 : w[i]? with
  | none =>
    rw [h1] at this
    cases h2 : (runHistory2 es w).2[i]? with
    | none => rfl
    | some c => rw [h2] at this; exact this.elim
  | some c0 =>
    rw [h1] at this
    cases h2 : (runHistory2 es w).2[i]? with
    | none => rw [h2] at this; exact this.elim
    | some c =>
      rw [h2] at this
      have : c = c0 := by simpa [OptRel, CellRel] using this
      rw [this]

theorem cellOutX_of_cellOk {w0 : World} {hi : Nat} {c : Cell}
    (h : CellOk w0 w0.length hi false c) : CellOutX true true (Protected w0) c := by
  have nin : ∀ x, In w0.length hi x → ¬ Protected w0 x := fun x hx hp => Nat.not_lt.mpr hx.1 hp.1
  have base := cellOut_of_cellOk (allow := false) h
  cases c with
  | val v =>
    obtain ⟨a, b, c, d, e, f⟩ := base
    obtain ⟨_, _, _, _, _, _, _, k⟩ := h
    exact ⟨a, b, c, d, e, f, fun _ x hx hp => Nat.not_lt.mpr (k x hx) hp.1⟩
  | node n =>
    obtain ⟨a, b, c⟩ := base
    obtain ⟨o, _⟩ := h
    exact ⟨a, b, c, fun _ x hx => nin _ (o x hx)⟩
  | graph g =>
    obtain ⟨a, b, c⟩ := base
    obtain ⟨i1, _, i3, _⟩ := h
    exact ⟨a, b, c, fun _ => ⟨fun x hx => nin _ (i1 x hx), fun e he => nin _ (i3 e he)⟩⟩
  | model m => exact base
  | attr _ => trivial
  | func _ => trivial
  | type _ => trivial
  | shape _ => trivial
  | dict _ => trivial
  | tensor _ => trivial

/-- editing the clone with the extended alphabet never changes the original -/
theorem frame_clone_edited_ext {w w' : World} (hwf : wellFormed w = true) (hres : CloneResult w false w')
    (es : List Edit2) (hargs : ∀ e ∈ es, ∀ a ∈ e.args, ¬ Protected w a) :
    ∀ i, Protected w i → (runHistory2 es w').2[i]? = w[i]? := by
  intro i hi
  have hsep : ∀ (i : Nat) (c : Cell), ¬ Protected w i → w'[i]? = some c →
      CellOutX true true (Protected w) c := by
    intro i c hni hc
    rcases Nat.lt_or_ge i w.length with hlt | hge
    · have hct : ConstTarget w i := Classical.byContradiction (fun hn => hni ⟨hlt, hn⟩)
      obtain ⟨nm, hnm⟩ := constTarget_tensor hwf hct
      have := hres.oldEq rfl i _ hnm
      rw [hc] at this
      cases this
      trivial
    · exact cellOutX_of_cellOk (hres.cells i c hge hc)
  have := C13_frame_ext (Protected w) w' es (fun i hi => Nat.lt_of_lt_of_le hi.1 hres.grows) hsep hargs i hi
  rw [this]
  exact hres.oldEq rfl i _ (List.getElem?_eq_getElem hi.1) ▸ (List.getElem?_eq_getElem hi.1).symm ▸ rfl

/-- **C13_frame_clone_edited_ext** (`Graph.clone()`, `GraphView.clone()`): after cloning, every
    history of the 44 editing calls applied to objects that did not exist before (the clone's
    objects, objects the edits create) leaves every pre-existing cell — the original and everything
    around it, except the shared tensor objects — exactly as it was before cloning. -/
theorem C13_frame_clone_edited_ext {w w' : World} {fuel g : Nat} {r : Except Err Nat}
    (hwf : wellFormed w = true)
    (h : run (graphClone fuel false g) w = (r, w')) (es : List Edit2)
    (hargs : ∀ e ∈ es, ∀ a ∈ e.args, ¬ Protected w a) :
    ∀ i, Protected w i → (runHistory2 es w').2[i]? = w[i]? :=
  frame_clone_edited_ext hwf (CloneResult.of_good (fun s hI => graphClone_good fuel g hI) h).1 es hargs

/-- **C13_frame_function_ext** (`Function.clone()`). -/
theorem C13_frame_function_ext {w w' : World} {fuel f : Nat} {r : Except Err Nat}
    (hwf : wellFormed w = true)
    (h : run (funcClone fuel f) w = (r, w')) (es : List Edit2)
    (hargs : ∀ e ∈ es, ∀ a ∈ e.args, ¬ Protected w a) :
    ∀ i, Protected w i → (runHistory2 es w').2[i]? = w[i]? :=
  frame_clone_edited_ext hwf (CloneResult.of_good (fun s hI => funcClone_good fuel f hI) h).1 es hargs

/-- **C13_functionalize_ext**: `C13_functionalize` for wrapped passes that use the extended
    alphabet (`functionalize2`). -/
theorem C13_functionalize_ext {w w' : World} {fuel m : Nat} {r : Except Err Nat}
    (pass : Nat → World → List Edit2) (hwf : wellFormed w = true)
    (h : functionalize2 fuel pass m w = (r, w'))
    (hargs : ∀ m' w1, ∀ e ∈ pass m' w1, ∀ a ∈ e.args, ¬ Protected w a) :
    ∀ i, Protected w i → w'[i]? = w[i]? := by
  unfold functionalize2 at h
  rcases hrun : run (modelClone fuel m) w with ⟨r1, w1⟩
  rw [hrun] at h
  have hres := (CloneResult.of_good (fun s hI => modelClone_good fuel m hI) hrun).1
  cases r1 with
  | ok m' =>
    simp only [Prod.mk.injEq] at h
    obtain ⟨_, rfl⟩ := h
    exact frame_clone_edited_ext hwf hres (pass m' w1) (hargs m' w1)
  | error e =>
    simp only [Prod.mk.injEq] at h
    obtain ⟨_, rfl⟩ := h
    intro i hi
    exact hres.oldEq rfl i _ (List.getElem?_eq_getElem hi.1) ▸ (List.getElem?_eq_getElem hi.1).symm ▸ rfl

theorem cellOutX_of_followed {B : Nat → Prop} {c : Cell} (h : ∀ p ∈ followed c, ¬ B p)
    (h2 : ∀ p ∈ followed2 c, ¬ B p) : CellOutX true true B c := by
  have base := cellOut_of_followed h
  cases c with
  | val v =>
    obtain ⟨a, b, c, d, e, f⟩ := base
    exact ⟨a, b, c, d, e, f, fun _ x hx => h2 x.1 (by simp only [followed2]; exact List.mem_map.mpr ⟨x, hx, rfl⟩)⟩
  | node n =>
    obtain ⟨a, b, c⟩ := base
    exact ⟨a, b, c, fun _ x hx => h2 x (by simpa [followed2] using hx)⟩
  | graph g =>
    obtain ⟨a, b, c⟩ := base
    refine ⟨a, b, c, fun _ => ⟨fun x hx => h2 x (by simp [followed2, hx]), fun e he => h2 e.2 ?_⟩⟩
    simp only [followed2, List.mem_append, List.mem_map]
    exact .inr ⟨e, he, rfl⟩
  | model m => exact base
  | attr _ => trivial
  | func _ => trivial
  | type _ => trivial
  | shape _ => trivial
  | dict _ => trivial
  | tensor _ => trivial

theorem wellFormed2_spec {w : World} (h : wellFormed2 w = true) {i : Nat} {c : Cell}
    (hc : w[i]? = some c) : wellFormed w = true ∧ ∀ p ∈ followed2 c, p < w.length := by
  unfold wellFormed2 at h
  rw [Bool.and_eq_true, List.all_eq_true] at h
  refine ⟨h.1, ?_⟩
  have := h.2 c (List.mem_of_getElem? hc)
  rw [List.all_eq_true] at this
  intro p hp
  simpa using this p hp

/-- the original edited with the extended alphabet: shared statement -/
theorem frame_orig_edited_ext {w w' : World} (hwf : wellFormed2 w = true) (hres : CloneResult w false w')
    (es : List Edit2) (hargs : ∀ e ∈ es, ∀ a ∈ e.args, ¬ (w.length ≤ a ∧ a < w'.length)) :
    ∀ i, w.length ≤ i → i < w'.length → (runHistory2 es w').2[i]? = w'[i]? := by
  intro i h1 h2
  refine C13_frame_ext (fun i => w.length ≤ i ∧ i < w'.length) w' es (fun i hi => hi.2) ?_ hargs i ⟨h1, h2⟩
  intro j c hj hc
  have hjlt : j < w.length := by
    have := lt_of_getElem? hc
    rcases Nat.lt_or_ge j w.length with h | h
    · exact h
    · exact absurd ⟨h, this⟩ hj
  have heq := hres.oldEq rfl j _ (List.getElem?_eq_getElem hjlt)
  rw [hc] at heq
  cases heq
  obtain ⟨hwf1, hf2⟩ := wellFormed2_spec hwf (List.getElem?_eq_getElem hjlt)
  apply cellOutX_of_followed
  · intro p hp hB
    have := wellFormed_spec hwf1 (List.getElem?_eq_getElem hjlt) p hp
    omega
  · intro p hp hB
    have := hf2 p hp
    omega

/-- **C13_frame_orig_edited_ext** (`Graph.clone()` / `GraphView.clone()` with
    `allow_outer_scope_values=False`).  The symmetric direction for the extended alphabet: if the
    heap before cloning has no dangling pointers (`wellFormed2`: also usage records, node outputs,
    graph inputs and initializers name existing cells), every history of the 44 editing calls whose
    receivers and arguments are not objects created by the clone leaves every cell created by the
    clone exactly as it was.  (With `allow_outer_scope_values=True` the clone's nodes are users of
    outer values of the original, and `outer.replace_all_uses_with(..)` on the original's side is
    MEANT to rewire them: that case is covered by `C13_frame_orig_edited` for the first alphabet only.) -/
theorem C13_frame_orig_edited_ext {w w' : World} {fuel g : Nat} {r : Except Err Nat}
    (hwf : wellFormed2 w = true)
    (h : run (graphClone fuel false g) w = (r, w')) (es : List Edit2)
    (hargs : ∀ e ∈ es, ∀ a ∈ e.args, ¬ (w.length ≤ a ∧ a < w'.length)) :
    ∀ i, w.length ≤ i → i < w'.length → (runHistory2 es w').2[i]? = w'[i]? :=
  frame_orig_edited_ext hwf (CloneResult.of_good (fun s hI => graphClone_good fuel g hI) h).1 es hargs

/-- **C13_frame_orig_edited_model_ext** (`Model.clone()`, hence `functionalize`). -/
theorem C13_frame_orig_edited_model_ext {w w' : World} {fuel m : Nat} {r : Except Err Nat}
    (hwf : wellFormed2 w = true)
    (h : run (modelClone fuel m) w = (r, w')) (es : List Edit2)
    (hargs : ∀ e ∈ es, ∀ a ∈ e.args, ¬ (w.length ≤ a ∧ a < w'.length)) :
    ∀ i, w.length ≤ i → i < w'.length → (runHistory2 es w').2[i]? = w'[i]? :=
  frame_orig_edited_ext hwf (CloneResult.of_good (fun s hI => modelClone_good fuel m hI) h).1 es hargs

/-- **C13_frame_orig_edited_function_ext** (`Function.clone()`). -/
theorem C13_frame_orig_edited_function_ext {w w' : World} {fuel f : Nat} {r : Except Err Nat}
    (hwf : wellFormed2 w = true)
    (h : run (funcClone fuel f) w = (r, w')) (es : List Edit2)
    (hargs : ∀ e ∈ es, ∀ a ∈ e.args, ¬ (w.length ≤ a ∧ a < w'.length)) :
    ∀ i, w.length ≤ i → i < w'.length → (runHistory2 es w').2[i]? = w'[i]? :=
  frame_orig_edited_ext hwf (CloneResult.of_good (fun s hI => funcClone_good fuel f hI) h).1 es hargs

/-! non-vacuity of the extended frame theorems -/

example : wellFormed2 exWorld = true := by decide +kernel

/-- a history of the new calls on the clone of `exWorld` (clone cells: 16 value `x`, 21 value `y`,
    22 the node, 25 the graph): every call succeeds and really changes the clone -/
def exHistory2 : List Edit2 :=
  [.replaceAllUses 16 21 false, .resizeInputs 22 2, .resizeOutputs 22 2, .sort 25,
   .popInput 25, .appendInput 25 16, .setInit 25 "x" 16, .delInit 25 "x", .insertBefore 25 22 22]

example : ∀ e ∈ exHistory2, ∀ a ∈ e.args, exWorld.length ≤ a := by decide +kernel

/-- each new call succeeds on the clone and really changes it (one call per example: the kernel
    evaluates nested histories without sharing) -/
example : isOk ((runHistory2 [.replaceAllUses 16 21 false] (run (graphClone 4 false 0) exWorld).2).1.head!.map
      fun _ => 0) = true ∧
    inputsOfNodesNamed (runHistory2 [.replaceAllUses 16 21 false] (run (graphClone 4 false 0) exWorld).2).2 "n" =
      [[some 3], [some 21]] := by
  decide +kernel

example : inputsOfNodesNamed (runHistory2 [.resizeInputs 22 3] (run (graphClone 4 false 0) exWorld).2).2 "n" =
      [[some 3], [some 16, none, none]] := by
  decide +kernel

/-! ### C13_closed_sharding: device annotations of the clone point into the clone -/

theorem closed_sharding_of_result {w w' : World} {allow : Bool} (hd : devLocalW w = true)
    (hres : CloneResult w allow w') {i : Nat} (hin : In w.length w'.length i) :
    ∀ n, w'[i]? = some (.node n) → ∀ c ∈ n.dev, ∀ sp ∈ c.specs, ∀ v, sp.value = some v →
      (some v ∈ n.inputs ∨ v ∈ n.outputs) ∧ (allow = false → w.length ≤ v ∧ v < w'.length) := by
  intro n hn c hc sp hsp v hv
  obtain ⟨o, _, _, _, _, f, f2, _⟩ := hres.cells i _ hin.1 hn
  have hl := f2 hd c hc sp hsp v hv
  refine ⟨hl, fun ha => ?_⟩
  rcases hl with h1 | h1
  · exact f ha v h1
  · exact o v h1

/-- **C13_closed_sharding** (`Graph.clone`, `GraphView.clone`).  If every sharding spec of the heap
    before cloning targets an input or an output of its own node (`devLocalW`, decidable, checked on
    every abstracted real heap: `Node.replace_input_with` / `resize_outputs` drop the specs of values
    that leave the node), then every sharding spec of every node of the clone — at any depth —
    targets an input or an output of THAT cloned node (the remap goes through the node's own
    input/output correspondence since the fix of D350), and with `allow_outer_scope_values=False`
    that value is an object of the clone: no device annotation of the clone refers to a value of the
    original.  (With `True` the only spec values outside the clone are captured outer values the
    node itself consumes, cf. `C13_closed_outer`.) -/
theorem C13_closed_sharding {w w' : World} {fuel : Nat} {allow : Bool} {g g' : Nat}
    (hd : devLocalW w = true)
    (h : run (graphClone fuel allow g) w = (.ok g', w')) (i : Nat) (hi : Owned w' g' i) :
    ∀ n, w'[i]? = some (.node n) → ∀ c ∈ n.dev, ∀ sp ∈ c.specs, ∀ v, sp.value = some v →
      (some v ∈ n.inputs ∨ v ∈ n.outputs) ∧ (allow = false → w.length ≤ v ∧ v < w'.length) := by
  obtain ⟨hres, hroot⟩ := CloneResult.of_good (fun s hI => graphClone_good fuel g hI) h
  exact closed_sharding_of_result hd hres (owned_new hres (hroot g' rfl) hi)

/-- **C13_closed_sharding_model** (`Model.clone`, hence `functionalize`; functions included). -/
theorem C13_closed_sharding_model {w w' : World} {fuel : Nat} {m m' : Nat}
    (hd : devLocalW w = true)
    (h : run (modelClone fuel m) w = (.ok m', w')) (i : Nat) (hi : Owned w' m' i) :
    ∀ n, w'[i]? = some (.node n) → ∀ c ∈ n.dev, ∀ sp ∈ c.specs, ∀ v, sp.value = some v →
      (some v ∈ n.inputs ∨ v ∈ n.outputs) ∧ (w.length ≤ v ∧ v < w'.length) := by
  obtain ⟨hres, hroot⟩ := CloneResult.of_good (fun s hI => modelClone_good fuel m hI) h
  intro n hn c hc sp hsp v hv
  have := closed_sharding_of_result hd hres (owned_new hres (hroot m' rfl) hi) n hn c hc sp hsp v hv
  exact ⟨this.1, this.2 rfl⟩

/-- **C13_closed_sharding_any** (`Graph.clone()` / `GraphView.clone()` with
    `allow_outer_scope_values=False`, since the fixes of D340 / D341).  WITHOUT any hypothesis on
    where the source's sharding specs point: every sharding spec of every node of the clone, at any
    depth, targets an object of the clone.  A spec on an input or output of its node follows the
    node's own input / output correspondence; a spec on any other value follows the cloner's value
    map; a spec on a value outside the cloned region makes the clone raise (`checkSpecs`), like an
    outer-scope node input — so a returned clone never refers into the original through a device
    annotation.  (With `allow_outer_scope_values=True` such a spec is kept: an allowed captured
    outer value.) -/
theorem C13_closed_sharding_any {w w' : World} {fuel : Nat} {g g' : Nat}
    (h : run (graphClone fuel false g) w = (.ok g', w')) (i : Nat) (hi : Owned w' g' i) :
    ∀ n, w'[i]? = some (.node n) → ∀ c ∈ n.dev, ∀ sp ∈ c.specs, ∀ v, sp.value = some v →
      w.length ≤ v ∧ v < w'.length := by
  obtain ⟨hres, hroot⟩ := CloneResult.of_good (fun s hI => graphClone_good fuel g hI) h
  intro n hn c hc sp hsp v hv
  obtain ⟨_, _, _, _, _, _, _, f3⟩ := hres.cells i _ (owned_new hres (hroot g' rfl) hi).1 hn
  exact f3 rfl c hc sp hsp v hv

/-- **C13_closed_sharding_any_model** (`Model.clone`, hence `functionalize`; functions included). -/
theorem C13_closed_sharding_any_model {w w' : World} {fuel : Nat} {m m' : Nat}
    (h : run (modelClone fuel m) w = (.ok m', w')) (i : Nat) (hi : Owned w' m' i) :
    ∀ n, w'[i]? = some (.node n) → ∀ c ∈ n.dev, ∀ sp ∈ c.specs, ∀ v, sp.value = some v →
      w.length ≤ v ∧ v < w'.length := by
  obtain ⟨hres, hroot⟩ := CloneResult.of_good (fun s hI => modelClone_good fuel m hI) h
  intro n hn c hc sp hsp v hv
  obtain ⟨_, _, _, _, _, _, _, f3⟩ := hres.cells i _ (owned_new hres (hroot m' rfl) hi).1 hn
  exact f3 rfl c hc sp hsp v hv

/-- a node with a sharding spec on its input: the hypothesis of C13_closed_sharding holds and the
    spec of the cloned node targets the cloned input -/
def exSharded : World := [
  .graph { name := some "g", inputs := [3], outputs := [9], nodes := [6], props := 1, mstore := 2 },
  .dict {}, .dict {},
  .val { name := some "x", graph := some 0, isIn := true, uses := [(6, 0)], props := 4, mstore := 5 },
  .dict {}, .dict {},
  .node { name := some "n", opType := "Relu", inputs := [some 3], outputs := [9], graph := some 0,
          dev := [{ cfg := 0, specs := [{ value := some 3, payload := 0 }, { value := some 9, payload := 1 }] }],
          props := 7, mstore := 8 },
  .dict {}, .dict {},
  .val { name := some "y", producer := some 6, index := some 0, graph := some 0, isOut := true,
         props := 10, mstore := 11 },
  .dict {}, .dict {} ]

def devOfNodesNamed (w : World) (nm : String) : List (List (Option Nat)) :=
  w.filterMap fun c => match c with
    | .node n => if n.name = some nm then some (n.dev.flatMap fun c => c.specs.map (·.value)) else none
    | _ => none

example : devLocalW exSharded = true ∧ devLocalW exWorld = true := by decide +kernel
example : isOk (run (graphClone 4 false 0) exSharded).1 = true ∧
    devOfNodesNamed (run (graphClone 4 false 0) exSharded).2 "n" = [[some 3, some 9], [some 14, some 19]] := by
  decide +kernel

/-! ### C13_clone_succeeds / C13_clone_raises_iff: graph-level progress (deepening round 3)

`cloneVerdict fuel allow w g` (Model/Clone.lean, `wGraph`) is a decidable walk over the SOURCE heap
in the cloner's traversal order with four lists as its only state: the values bound so far, the
node outputs still pending, the bound values a finished graph owns, the bound values a node
produces.  It is the decidable predicate "well-formed, def-before-use sorted, well-scoped": it
answers `ok` when every pointer has the right kind, every node input is bound when its node is
reached (or, with `allow_outer_scope_values`, is not a pending output), every graph output is
bound, and the `Graph(...)` constructor accepts the lists (no input / output / initializer already
owned by a finished graph, no input or initializer produced by a node, initializers named and not
named `""`); `err e` with the exact error otherwise; `irregular` (no claim) for a dangling pointer, a
node output that is already bound, initializer names that are not pairwise different.  The run
evaluates it on every generated case and compares it with the real outcome. -/

/-- **C13_clone_succeeds**.  If the walker accepts the source graph, `Graph.clone` /
    `GraphView.clone` returns a clone — for every heap, both settings of
    `allow_outer_scope_values`, every nesting depth within the fuel. -/
theorem C13_clone_succeeds {w : World} {fuel : Nat} {allow : Bool} {g : Nat} {A : Sc}
    (h : cloneVerdict fuel allow w g = .ok A) :
    ∃ g' w', run (graphClone fuel allow g) w = (.ok g', w') := by
  have := Total.graphClone_verdict fuel allow w g
  rw [h] at this
  obtain ⟨g', s', _, h2, _⟩ := this
  exact ⟨g', s'.w, h2⟩

/-- **C13_clone_error_exact**.  If the walker answers `err e`, the clone ends with exactly the
    error `e` (the two clear errors of the node-input loop, "graph output is not in the value map",
    the ownership / naming errors of the `Graph(...)` constructor; also the model's `unsupported`
    and `fuel` answers). -/
theorem C13_clone_error_exact {w : World} {fuel : Nat} {allow : Bool} {g : Nat} {e : Err}
    (h : cloneVerdict fuel allow w g = .err e) :
    (run (graphClone fuel allow g) w).1 = .error e := by
  have := Total.graphClone_verdict fuel allow w g
  rw [h] at this
  exact this

/-- **C13_clone_raises_iff**.  Whenever the walker makes a claim (its answer is not `irregular`),
    `Graph.clone` / `GraphView.clone` raises if and only if the walker answers `err (raised ..)`,
    and then with that very error: the exact graph-level characterisation of when cloning raises
    (`C13_raises_iff_inputs` is its node-input-loop instance). -/
theorem C13_clone_raises_iff {w : World} {fuel : Nat} {allow : Bool} {g : Nat}
    (hreg : ∀ why, cloneVerdict fuel allow w g ≠ .irregular why) (why : String) :
    (∃ w', run (graphClone fuel allow g) w = (.error (.raised why), w')) ↔
      cloneVerdict fuel allow w g = .err (.raised why) := by
  have hv := Total.graphClone_verdict fuel allow w g
  cases hc : cloneVerdict fuel allow w g with
  | ok A =>
    rw [hc] at hv
    obtain ⟨g', s', _, h2, _⟩ := hv
    constructor
    · rintro ⟨w', hw'⟩; rw [h2] at hw'; cases hw'
    · intro h; cases h
  | err e =>
    rw [hc] at hv
    simp only at hv
    constructor
    · rintro ⟨w', hw'⟩
      rw [hw'] at hv
      simp only at hv
      cases hv
      rfl
    · intro h
      cases h
      rcases hr : run (graphClone fuel allow g) w with ⟨x, w'⟩
      rw [hr] at hv
      simp only at hv
      exact ⟨w', by rw [hv]⟩
  | irregular why' => exact absurd hc (hreg why')

/-- **C13_value_map_bijection**.  When the walker accepts the source graph, the cloner's value map
    at the end of `clone_graph` (`s'.vm`, source value ↦ clone) is a bijection between the values
    the cloned region defines and the value objects the cloner created: its keys are exactly the
    walker's bound list `A.bound` (the graph inputs, initializers and node outputs of the graph
    and of its nested graphs, in traversal order) without repetition; it is injective; every pair
    maps a value of the source heap to a NEW value cell; and every value cell created by the clone
    is the image of a pair.  (By `C13_fresh` every value the clone owns is a new value cell, hence in
    the range.) -/
theorem C13_value_map_bijection {w : World} {fuel : Nat} {allow : Bool} {g : Nat} {A : Sc}
    (h : cloneVerdict fuel allow w g = .ok A) :
    ∃ g' s', cloneGraph allow fuel g { w := w } = (.ok g', s') ∧
      run (graphClone fuel allow g) w = (.ok g', s'.w) ∧
      s'.vm.map (·.1) = A.bound ∧ A.bound.Nodup ∧
      (∀ p ∈ s'.vm, ∀ q ∈ s'.vm, p.2 = q.2 → p = q) ∧
      (∀ p ∈ s'.vm, (∃ vs, w[p.1]? = some (.val vs)) ∧ w.length ≤ p.2 ∧
        ∃ vs', s'.w[p.2]? = some (.val vs')) ∧
      (∀ (i : Nat) (vs : ValueS), w.length ≤ i → s'.w[i]? = some (.val vs) → ∃ p ∈ s'.vm, p.2 = i) := by
  have := Total.graphClone_verdict fuel allow w g
  rw [h] at this
  obtain ⟨g', s', h1, h2, hT⟩ := this
  refine ⟨g', s', h1, h2, hT.keys, hT.nodup, hT.inj, ?_, hT.onto⟩
  intro p hp
  obtain ⟨a, vs0, vs', b, c, _⟩ := hT.vals p hp
  exact ⟨⟨vs0, b⟩, a, vs', c⟩

/-- **C13_function_clone_succeeds** (`Function.clone`): if the walker accepts the body and the
    graph-valued defaults of the attribute declarations (one value map for all of them, as the
    code has), the function is cloned. -/
theorem C13_function_clone_succeeds {w : World} {fuel f : Nat} {A : Sc}
    (h : funcVerdict fuel w f = .ok A) : ∃ f' w', run (funcClone fuel f) w = (.ok f', w') := by
  have := Total.funcClone_verdict fuel w f
  rw [h] at this
  exact this

/-- **C13_function_clone_raises_iff** (`Function.clone`): whenever the walker makes a claim,
    `Function.clone` raises iff the walker answers `err (raised ..)`, with that very error. -/
theorem C13_function_clone_raises_iff {w : World} {fuel f : Nat}
    (hreg : ∀ why, funcVerdict fuel w f ≠ .irregular why) (why : String) :
    (run (funcClone fuel f) w).1 = .error (.raised why) ↔ funcVerdict fuel w f = .err (.raised why) := by
  have hv := Total.funcClone_verdict fuel w f
  cases hc : funcVerdict fuel w f with
  | ok A =>
    rw [hc] at hv
    obtain ⟨f', w', h2⟩ := hv
    rw [h2]
    constructor <;> intro h <;> cases h
  | err e =>
    rw [hc] at hv
    simp only at hv
    rw [hv]
    constructor
    · intro h; cases h; rfl
    · intro h; cases h; rfl
  | irregular why' => exact absurd hc (hreg why')

def verdictKind : WRes Sc → String
  | .ok _ => "ok"
  | .err (.raised why) => "raised: " ++ why
  | .err (.unsupported why) => "unsupported: " ++ why
  | .err .fuel => "fuel"
  | .irregular why => "irregular: " ++ why

/-- non-vacuity: the walker accepts the example graphs, rejects the unsorted one and the uncovered
    capture with the cloner's own messages -/
example : verdictKind (cloneVerdict 4 false exWorld 0) = "ok" := by decide +kernel
example : verdictKind (cloneVerdict 4 true exCapture 0) = "ok" := by decide +kernel
example : verdictKind (cloneVerdict 4 false exCapture 0) = "raised: outer-scope value" := by decide +kernel
example : verdictKind (cloneVerdict 4 true exUnsorted 0) =
    "raised: value defined by a later node of the graph being cloned" := by decide +kernel

/-! D340 / D341 (fixed): node `b` carries a spec on `x`, which is neither its input nor its output.
Cloning the graph remaps it to the clone's `x`; cloning a view that does not contain `x` raises. -/
def exNonLocal : World := [
  .graph { name := some "g", inputs := [3], outputs := [15], nodes := [6, 12], props := 1, mstore := 2 },
  .dict {}, .dict {},
  .val { name := some "x", graph := some 0, isIn := true, uses := [(6, 0)], props := 4, mstore := 5 },
  .dict {}, .dict {},
  .node { name := some "a", opType := "A", inputs := [some 3], outputs := [9], graph := some 0,
          props := 7, mstore := 8 },
  .dict {}, .dict {},
  .val { name := some "va", producer := some 6, index := some 0, uses := [(12, 0)], props := 10, mstore := 11 },
  .dict {}, .dict {},
  .node { name := some "b", opType := "B", inputs := [some 9], outputs := [15], graph := some 0,
          dev := [{ cfg := 0, specs := [{ value := some 3, payload := 0 }] }], props := 13, mstore := 14 },
  .dict {}, .dict {},
  .val { name := some "vb", producer := some 12, index := some 0, graph := some 0, isOut := true,
         props := 16, mstore := 17 },
  .dict {}, .dict {},
  -- a view of node `b` alone: inputs [va], outputs [vb]
  .graph { name := some "v", inputs := [9], outputs := [15], nodes := [12], props := 19, mstore := 20, view := true },
  .dict {}, .dict {} ]

example : devLocalW exNonLocal = false := by decide +kernel
example : isOk (run (graphClone 4 false 0) exNonLocal).1 = true ∧
    devOfNodesNamed (run (graphClone 4 false 0) exNonLocal).2 "b" = [[some 3], [some 23]] := by
  decide +kernel
example : verdictKind (cloneVerdict 4 false exNonLocal 18) =
    "raised: sharding spec targets an outer-scope value" := by decide +kernel
example : verdictKind (cloneVerdict 4 true exNonLocal 18) = "ok" := by decide +kernel


/-! ### C13_wiring_image: the clone's wiring is the image of the source's wiring (round 3b)

`GraphWire allow w' vm g g'` (Lemmas/CloneWire.lean) relates the source graph `g` and its clone `g'`
in the heap after cloning through the cloner's final value map `vm`: graph inputs, initializers and
outputs of `g'` are the `vm`-bindings of those of `g` (exact lookups); the nodes correspond
position by position and for every pair the operator fields are equal, the clone's outputs are the
`vm`-bindings of the source's outputs, every input and every sharding target of the clone is the
`vm`-image of the source's (`RefImg`: `r' = r.map (img vm)`; with `allow_outer_scope_values=True`
a reference may also have been passed through unchanged), a graph-free attribute is the same
(shared) object and an attribute holding graphs is a new object around graphs that are again
`GraphWire`-related, `metadata_props` / `meta` have equal content.  Together with "every pair of
`vm` relates values with the same observation" (name, doc string, constant, type, shape, metadata)
and `C13_value_map_bijection` this says: the clone is the source with every object renamed. -/

/-- **C13_wiring_image**.  When the walker accepts the source graph, the clone returned by
    `Graph.clone` / `GraphView.clone` is the image of the source under the cloner's final value map
    `s'.vm` (`GraphWire`, at every nesting depth), and every pair of that map relates values with
    the same observation (`ValSim`: name, doc string, constant tensor, content of type and shape
    objects, of `metadata_props` and of `meta`). -/
theorem C13_wiring_image {w : World} {fuel : Nat} {allow : Bool} {g : Nat} {A : Sc}
    (h : cloneVerdict fuel allow w g = .ok A) :
    ∃ g' s', cloneGraph allow fuel g { w := w } = (.ok g', s') ∧
      run (graphClone fuel allow g) w = (.ok g', s'.w) ∧
      GraphWire allow s'.w s'.vm g g' ∧ (∀ p ∈ s'.vm, ValSim s'.w p.1 p.2) := by
  obtain ⟨g', s', h1, h2, h3, h4, _⟩ := graphClone_wiring h
  exact ⟨g', s', h1, h2, h3, h4⟩

/-- **C13_wiring_refs_exact**: with `allow_outer_scope_values=False` "image" is exact — a
    reference of the clone IS the reference of the source mapped through the value map. -/
theorem C13_wiring_refs_exact (vm : List (Nat × Nat)) (r r' : Option Nat) :
    RefImg false vm r r' ↔ r' = r.map (img vm) := by
  constructor
  · rintro (h | ⟨h, _⟩)
    · exact h
    · cases h
  · exact fun h => .inl h

/-- **C13_faithful_of_wiring**.  The observational simulation of `C13_faithful`, and with it the
    equality of what serialization observes, FOLLOWS from the wiring image: in any heap, if `g'` is
    the image of `g` under a value map whose pairs relate equally observed values, then `g` and `g'`
    are `GraphSim`-related and `g'` serializes to whatever `g` serializes to. -/
theorem C13_faithful_of_wiring {allow : Bool} {w : World} {vm : List (Nat × Nat)} {g g' : Nat}
    (hW : GraphWire allow w vm g g') (hK : ∀ p ∈ vm, ValSim w p.1 p.2) :
    GraphSim w g g' ∧ ∀ (k : Nat) (y : SGraph), serGraph k w g = some y → serGraph k w g' = some y :=
  ⟨hW.toSim hK, fun k _ hy => serGraph_sim k (hW.toSim hK) hy⟩

/-- **C13_faithful_observe_wiring**: `C13_faithful_observe` obtained through the wiring image
    (hypothesis: the walker accepts): the clone is returned, it observes to what the original
    observed to before cloning, and so does the original afterwards. -/
theorem C13_faithful_observe_wiring {w : World} {fuel : Nat} {allow : Bool} {g : Nat} {A : Sc}
    (h : cloneVerdict fuel allow w g = .ok A) (k : Nat) (y : SGraph) (hy : serGraph k w g = some y) :
    ∃ g' w', run (graphClone fuel allow g) w = (.ok g', w') ∧
      serGraph k w' g' = some y ∧ serGraph k w' g = some y := by
  obtain ⟨g', s', _, h2, hW, hK, hle⟩ := graphClone_wiring h
  have hy' := serGraph_mono hle k hy
  exact ⟨g', s'.w, h2, (C13_faithful_of_wiring hW hK).2 k y hy', hy'⟩

/-! ### C13_model_clone_succeeds / C13_model_clone_raises_iff: `Model.clone` (round 3b)

`modelVerdict fuel w m` (Model/Clone2.lean) is the walker's verdict on `model.clone()`: the verdict
of `cloneVerdict` on the main graph, then of `funcVerdict` on every function in order, every one
read off the SOURCE heap `w` although each function is cloned on the heap the previous clones
left: those heaps extend `w` (`C13_clone_pure_model`), and the walker's verdict is the same on every
extension of the heap unless it is `irregular` (Lemmas/CloneLocal.lean). -/

/-- **C13_model_clone_succeeds**: if the walker accepts the model, `Model.clone` returns. -/
theorem C13_model_clone_succeeds {w : World} {fuel m : Nat} (h : modelVerdict fuel w m = .ok ()) :
    ∃ m' w', run (modelClone fuel m) w = (.ok m', w') := by
  have := Total.modelClone_verdict fuel w m
  rw [h] at this
  exact this

/-- **C13_model_clone_raises_iff**: whenever the walker makes a claim, `Model.clone` raises iff the
    walker answers `err (raised ..)`, and then with that very error (the first failing step in the
    order graph, functions). -/
theorem C13_model_clone_raises_iff {w : World} {fuel m : Nat}
    (hreg : ∀ why, modelVerdict fuel w m ≠ .irregular why) (why : String) :
    (run (modelClone fuel m) w).1 = .error (.raised why) ↔ modelVerdict fuel w m = .err (.raised why) := by
  have hv := Total.modelClone_verdict fuel w m
  cases hc : modelVerdict fuel w m with
  | ok A =>
    rw [hc] at hv
    obtain ⟨f', w', h2⟩ := hv
    rw [h2]
    constructor <;> intro h <;> cases h
  | err e =>
    rw [hc] at hv
    simp only at hv
    rw [hv]
    constructor
    · intro h; cases h; rfl
    · intro h; cases h; rfl
  | irregular why' => exact absurd hc (hreg why')

/-- a model with one function: main graph `exWorld`-like (cells 0..12), function body (cells 13..),
    the function (cell 25), the model (cell 28) -/
def exModel : World := exWorld ++ [
  .graph { name := some "fb", inputs := [16], outputs := [22], nodes := [19], props := 14, mstore := 15 },
  .dict {}, .dict {},
  .val { name := some "a", graph := some 13, isIn := true, uses := [(19, 0)], props := 17, mstore := 18 },
  .dict {}, .dict {},
  .node { name := some "fn", opType := "Neg", inputs := [some 16], outputs := [22], graph := some 13,
          props := 20, mstore := 21 },
  .dict {}, .dict {},
  .val { name := some "b", producer := some 19, index := some 0, graph := some 13, isOut := true,
         props := 23, mstore := 24 },
  .dict {}, .dict {},
  .func { domain := "d", name := "f", graph := 13 },
  .dict {}, .dict {},
  .model { graph := 0, funcs := [25], props := 26, mstore := 27 } ]

def verdictKindU : WRes Unit → String
  | .ok _ => "ok"
  | .err (.raised why) => "raised: " ++ why
  | .err (.unsupported why) => "unsupported: " ++ why
  | .err .fuel => "fuel"
  | .irregular why => "irregular: " ++ why

/-- non-vacuity: the walker accepts the model and `Model.clone` returns; a model whose function body
    consumes a value of the main graph is rejected with the cloner's message -/
example : verdictKindU (modelVerdict 4 exModel 28) = "ok" := by decide +kernel
example : isOk (run (modelClone 4 28) exModel).1 = true := by decide +kernel

/-! ### D342: a sharding spec on a value the value map does not bind yet

`clone_node` resolves a spec whose value is neither an input nor an output of its node through the
cloner's value map AT THE TIME THE NODE IS CLONED (`cloneNode`: `vm` is read right after the node's
outputs were cloned).  A value that a LATER node of the cloned region defines is not bound yet, so the
spec is `specOuter` although the graph is closed and def-before-use sorted.  The model is what the
code is (finding D342, proposed_fixes/D342.md, not applied). -/

theorem ioMap_lookup_none {ins0 ins : List (Option Nat)} {outs0 outs : List Nat} {v : Nat}
    (h1 : ins0.contains (some v) = false) (h2 : outs0.contains v = false) :
    (ioMap ins0 ins outs0 outs).lookup v = none := by
  cases hl : (ioMap ins0 ins outs0 outs).lookup v with
  | none => rfl
  | some x =>
    exfalso
    have hmem := mem_of_lookup hl
    unfold ioMap at hmem
    rcases List.mem_append.mp hmem with h | h
    · have := (List.of_mem_zip h).1
      have : outs0.contains v = true := by simpa using this
      rw [h2] at this; cases this
    · obtain ⟨q, hq, hqe⟩ := List.mem_filterMap.mp h
      rcases q with ⟨qa, qb⟩
      cases qa with
      | none => simp at hqe
      | some a =>
        cases qb with
        | none => simp at hqe
        | some b =>
          simp at hqe
          obtain ⟨rfl, rfl⟩ := hqe
          have := (List.of_mem_zip hq).1
          have : ins0.contains (some a) = true := by simpa using this
          rw [h1] at this; cases this

/-- **C13_spec_unbound_D342**.  For every node `ns`, every value map `vm` and every sharding spec
    `sp` that is `specOuter ns vm` (decidable: its value is not an input of the node, not an output,
    and not bound in `vm` — in particular the output of a node that is cloned LATER): the remap of
    `clone_node` leaves the spec as it is, i.e. with `allow_outer_scope_values=True` the cloned
    node's annotation stays on the ORIGINAL's value, and with `False` the check of `clone_node`
    raises when the spec belongs to the node — also on a closed, sorted graph.  No hypothesis on the
    heap or the cloner state. -/
theorem C13_spec_unbound_D342 (ns : NodeS) (vm : List (Nat × Nat)) (ins : List (Option Nat)) (outs : List Nat)
    (sp : DevSpec) (s : St) (hsp : specOuter ns vm sp = true) :
    remapSpec (ioMap ns.inputs ins ns.outputs outs ++ vm) sp = sp ∧
    (checkSpecs true ns vm s).1 = .ok () ∧
    ((∃ c ∈ ns.dev, sp ∈ c.specs) →
      (checkSpecs false ns vm s).1 = .error (.raised "sharding spec targets an outer-scope value")) := by
  unfold specOuter at hsp
  cases hv : sp.value with
  | none => rw [hv] at hsp; cases hsp
  | some v =>
    rw [hv] at hsp
    simp only [Bool.and_eq_true, Bool.not_eq_true', Option.isNone_iff_eq_none] at hsp
    obtain ⟨⟨h1, h2⟩, h3⟩ := hsp
    refine ⟨?_, ?_, ?_⟩
    · unfold remapSpec
      rw [hv]
      simp only
      rw [lookup_append_none (ioMap_lookup_none h1 h2), h3]
    · simp [checkSpecs, Pure.pure, M.pure]
    · rintro ⟨c, hc, hspc⟩
      have : ns.dev.any (fun c => c.specs.any (specOuter ns vm)) = true := by
        rw [List.any_eq_true]
        refine ⟨c, hc, ?_⟩
        rw [List.any_eq_true]
        refine ⟨sp, hspc, ?_⟩
        simp only [specOuter, hv, h1, h2, h3]
        rfl
      simp [checkSpecs, this, raise, fail]

/-- D342 on a heap: g(x): a = A(x) -> va; b = B(va) -> vb with a spec on vc; c = C(va) -> vc.
    The graph is closed and def-before-use sorted; `b` is cloned before `c`. -/
def exLater : World := [
  .graph { name := some "g", inputs := [3], outputs := [15, 21], nodes := [6, 12, 18], props := 1, mstore := 2 },
  .dict {}, .dict {},
  .val { name := some "x", graph := some 0, isIn := true, uses := [(6, 0)], props := 4, mstore := 5 },
  .dict {}, .dict {},
  .node { name := some "a", opType := "A", inputs := [some 3], outputs := [9], graph := some 0,
          props := 7, mstore := 8 },
  .dict {}, .dict {},
  .val { name := some "va", producer := some 6, index := some 0, uses := [(12, 0), (18, 0)], props := 10, mstore := 11 },
  .dict {}, .dict {},
  .node { name := some "b", opType := "B", inputs := [some 9], outputs := [15], graph := some 0,
          dev := [{ cfg := 0, specs := [{ value := some 21, payload := 0 }] }], props := 13, mstore := 14 },
  .dict {}, .dict {},
  .val { name := some "vb", producer := some 12, index := some 0, graph := some 0, isOut := true,
         props := 16, mstore := 17 },
  .dict {}, .dict {},
  .node { name := some "c", opType := "C", inputs := [some 9], outputs := [21], graph := some 0,
          props := 19, mstore := 20 },
  .dict {}, .dict {},
  .val { name := some "vc", producer := some 18, index := some 0, graph := some 0, isOut := true,
         props := 22, mstore := 23 },
  .dict {}, .dict {} ]

/-- what the code does today: `allow=True` returns a clone whose node `b` keeps the spec on the
    ORIGINAL's `vc` (cell 21); `allow=False` raises although the graph is closed and sorted -/
example : isOk (run (graphClone 4 true 0) exLater).1 = true ∧
    devOfNodesNamed (run (graphClone 4 true 0) exLater).2 "b" = [[some 21], [some 21]] := by
  decide +kernel
example : verdictKind (cloneVerdict 4 false exLater 0) =
    "raised: sharding spec targets an outer-scope value" := by decide +kernel


/-! ### C13_functionalize_any: `functionalize` of ANY pass (round 3b)

`functionalizeAny fuel ps steps m w` (Model/Clone2.lean) is `functionalize(P)(model)` for a pipeline
`P = Sequential(*passes)` / `PassManager(passes, steps)`: `_FunctionalPassWrapper.call` clones the
model — always, it does not look at what `P` declares about itself — and runs `P` on the clone.  A
stage is ANY function from the model it is handed (and the heap it finds) to a history of the 44
editing calls, optionally followed by building a NEW `ir.Model` around the graph and functions of
the model it was handed; its declared flags (`in_place`, `changes_input`) are arbitrary, and so are
the flags `Sequential` derives from them (first pass only for `changes_input`). -/

theorem rewrapModel_frame {B : Nat → Prop} {wB : World} {s : St} (header m : Nat)
    (hI : FInv true true B wB s) :
    FGoodAt true true B wB (rewrapModel header m) s (fun _ _ => True) := by
  unfold rewrapModel
  fbind (FGoodAt.readModel hI) with ms s1 hI1 hl1 hq1
  have hcp : FGoodAt true true B wB (copyProps ms.props) s1 (fun r _ => ¬ B r) := by
    unfold copyProps
    fbind (FGoodAt.readDict hI1) with d s2 hI2 hl2 hq2
    exact (FGoodAt.alloc hI2 (c := .dict { data := d.data, invalid := [] }) trivial).mono
      (fun _ _ _ _ h => h.1)
  fbind hcp with pr s2 hI2 hl2 hpr
  fbind (FGoodAt.alloc hI2 (c := .dict {}) trivial) with me s3 hI3 hl3 hme
  exact (FGoodAt.alloc hI3 (c := .model ⟨ms.graph, ms.funcs, header, ms.dev, pr, me⟩) ⟨hpr, hme.1⟩).mono
    (fun _ _ _ _ _ => trivial)

theorem callChecked_snd (d : Decl) (m : Nat) (r : Except Err Nat × World) : (callChecked d m r).2 = r.2 := by
  rcases r with ⟨x, w⟩
  cases x with
  | error e => rfl
  | ok m1 =>
    simp only [callChecked]
    split
    · rfl
    · split <;> rfl

theorem runStages_inv {B : Nat → Prop} {wB : World} :
    ∀ (ps : List (Decl × Stage)) (m : Nat) (w : World), FInv true true B wB { w := w } →
      (∀ p ∈ ps, ∀ m' w1, ∀ e ∈ p.2.edits m' w1, ArgsOut2 B e) →
      FInv true true B wB { w := (runStages ps m w).2 }
  | [], _, _, h, _ => h
  | p :: rest, m, w, h, ha => by
    have hed := runHistory2_inv (strict := true) (p.2.edits m w) w h (ha p List.mem_cons_self m w)
    have hst : FInv true true B wB { w := (runStage p.1 p.2 m w).2 } := by
      unfold runStage
      rw [callChecked_snd]
      cases hp : p.2 with
      | inPlace edits => rw [hp] at hed; exact hed
      | rewrap edits header =>
        rw [hp] at hed
        simp only [Stage.edits] at hed
        have := (rewrapModel_frame header m hed).1
        simp only [run]
        exact this.restart
    unfold runStages
    rcases hr : runStage p.1 p.2 m w with ⟨x, w1⟩
    rw [hr] at hst
    cases x with
    | error e => exact hst
    | ok m1 => exact runStages_inv rest m1 w1 hst (fun q hq => ha q (List.mem_cons_of_mem _ hq))

/-- **C13_functionalize_any**.  `functionalize(P)(model)` for ANY pipeline `P` of passes: whatever
    the stages do — any history of the 44 editing calls on objects that did not exist before the
    call (the clone's objects, which is all a pass can reach from the model it is handed, and the
    objects the passes create), each stage possibly returning a NEW `ir.Model` that shares the graph
    and the functions of the model it was handed — whatever flags the passes declare and `Sequential`
    / `PassManager` derive from them, however many steps, whether a stage or a `PassBase.__call__`
    check raises half-way: the input model and everything else that existed before the call is
    unchanged, cell for cell (except the name of shared tensor objects, D113); and it stays so under
    every later history `es2` of editing calls on the returned model's objects.  The reason is the
    unconditional `model.clone()` in `_FunctionalPassWrapper.call`. -/
theorem C13_functionalize_any {w w' : World} {fuel m steps : Nat} {r : Except Err Nat}
    (ps : List (Decl × Stage)) (hwf : wellFormed w = true)
    (h : functionalizeAny fuel ps steps m w = (r, w'))
    (hargs : ∀ p ∈ ps, ∀ m' w1, ∀ e ∈ p.2.edits m' w1, ∀ a ∈ e.args, ¬ Protected w a)
    (es2 : List Edit2) (hargs2 : ∀ e ∈ es2, ∀ a ∈ e.args, ¬ Protected w a) :
    ∀ i, Protected w i → (runHistory2 es2 w').2[i]? = w[i]? := by
  unfold functionalizeAny at h
  rcases hrun : run (modelClone fuel m) w with ⟨r1, w1⟩
  rw [hrun] at h
  have hres := (CloneResult.of_good (fun s hI => modelClone_good fuel m hI) hrun).1
  -- the frame invariant after cloning
  have hsep : ∀ (i : Nat) (c : Cell), ¬ Protected w i → w1[i]? = some c →
      CellOutX true true (Protected w) c := by
    intro i c hni hc
    rcases Nat.lt_or_ge i w.length with hlt | hge
    · have hct : ConstTarget w i := Classical.byContradiction (fun hn => hni ⟨hlt, hn⟩)
      obtain ⟨nm, hnm⟩ := constTarget_tensor hwf hct
      have := hres.oldEq rfl i _ hnm
      rw [hc] at this
      cases this
      trivial
    · exact cellOutX_of_cellOk (hres.cells i c hge hc)
  have hI1 : FInv true true (Protected w) w1 { w := w1 } :=
    ⟨fun i hi => Nat.lt_of_lt_of_le hi.1 hres.grows, fun _ _ => OptRel.refl _ _ _, hsep⟩
  have hfin : FInv true true (Protected w) w1 { w := w' } := by
    cases r1 with
    | error e =>
      simp only [Prod.mk.injEq] at h
      obtain ⟨_, rfl⟩ := h
      exact hI1
    | ok m' =>
      simp only at h
      have hw' : w' = (runStages (List.replicate steps ps).flatten m' w1).2 := by
        have := congrArg Prod.snd h
        simp only [callChecked_snd, runPipeline] at this
        exact this.symm
      rw [hw']
      refine runStages_inv _ m' w1 hI1 ?_
      intro p hp
      obtain ⟨l, hl, hpl⟩ := List.mem_flatten.mp hp
      have := List.eq_of_mem_replicate hl
      subst this
      exact hargs p hpl
  have hfin2 := (runHistory2_inv (strict := true) es2 w' hfin hargs2).same
  intro i hi
  have h1 := hfin2 i hi
  simp only at h1
  have hold : w1[i]? = w[i]? := by
    have := hres.oldEq rfl i _ (List.getElem?_eq_getElem hi.1)
    rw [this, List.getElem?_eq_getElem hi.1]
  rw [hold] at h1
  cases hw : w[i]? with
  | none =>
    rw [hw] at h1
    cases h2 : (runHistory2 es2 w').2[i]? with
    | none => rfl
    | some c => rw [h2] at h1; exact h1.elim
  | some c0 =>
    rw [hw] at h1
    cases h2 : (runHistory2 es2 w').2[i]? with
    | none => rw [h2] at h1; exact h1.elim
    | some c =>
      rw [h2] at h1
      have : c = c0 := by simpa [OptRel, CellRel] using h1
      rw [this]

/-- the pipeline `Sequential(functional stamp, in-place pass)` DECLARES itself functional
    (`in_place = False`, `changes_input = False`) although it edits the graph of the model it is
    handed: the declaration is no reason to skip the clone -/
example : seqDecl [(⟨false, false⟩, .rewrap (fun _ _ => []) 0), (⟨true, true⟩, .inPlace (fun _ _ => []))] =
    ⟨false, false⟩ := by decide

/-- non-vacuity on `exModel`: the pipeline [stamp; in-place stage editing the clone's graph (cell 29:
    the cloned main graph is the first cell the clone allocates... its doc string)] runs, returns a new
    model object, and changes the clone -/
def exPipeline : List (Decl × Stage) :=
  [(⟨false, false⟩, .rewrap (fun _ _ => []) 7),
   (⟨true, true⟩, .inPlace (fun m w => match w[m]? with
      | some (.model ms) => [.base (.setGraphDoc ms.graph (some "edited"))]
      | _ => []))]

example : isOk (functionalizeAny 4 exPipeline 1 28 exModel).1 = true := by decide +kernel

def graphDocs (w : World) : List (Option String) :=
  w.filterMap fun c => match c with
    | .graph g => some g.doc
    | _ => none

example : graphDocs (functionalizeAny 4 exPipeline 1 28 exModel).2 = [none, none, some "edited", none] := by
  decide +kernel


/-! ### C13_frame over the third alphabet `Edit3` (round 3b)

`Edit3` (Model/Clone2.lean) = the 44 calls of `Edit2` plus `graph.sort()` on graphs whose nodes hold
subgraphs (`sortDeep`: property C12's `Sort.sortModel` on the tree of the nest, every graph of the
nest re-linked), `graph.inputs[a:b] = vs`, `graph.outputs[a:b] = vs`, `graph.initializers.pop(k)`,
`.clear()`, `.update(items)`, `graph.extend(nodes)`, `graph.remove(nodes, safe=True)`,
`convenience.replace_all_uses_with(values, replacements, ..)` with several pairs (checks of all pairs
first, as after fix c936126), `convenience.rename_values(values, names)` and
`convenience.replace_nodes_and_values` (replacing one node by a freshly built one: the new outputs take
over type object, shape object, constant and name of the old ones, the users are rewired, the new node
is inserted after the old one, which is removed with `safe=True`): 55 calls. -/

theorem runHistory3_inv {strict : Bool} {B : Nat → Prop} {wB : World} :
    ∀ (es : List Edit3) (w : World), FInv true strict B wB { w := w } → (∀ e ∈ es, ArgsOut3 B e) →
      FInv true strict B wB { w := (runHistory3 es w).2 }
  | [], _, h, _ => h
  | e :: es, w, h, ha => by
    have h1 := (applyEdit3_frame e h (ha e List.mem_cons_self)).1
    unfold runHistory3 run
    rcases hm : applyEdit3 e { w := w } with ⟨r, s1⟩
    rw [hm] at h1
    simp only
    have h2 := runHistory3_inv es s1.w h1.restart (fun e' he' => ha e' (List.mem_cons_of_mem _ he'))
    rcases hr : runHistory3 es s1.w with ⟨rs, w2⟩
    rw [hr] at h2
    exact h2

/-- **C13_frame_ext3** (general form, third alphabet).  Let `B` be any set of cells of a heap `w`
    such that no cell outside `B` has a pointer into `B` among the pointers the editing calls follow
    (as in `C13_frame_ext`).  Then for EVERY history of the 55 calls of `Edit3` whose receivers and
    arguments are outside `B` (for `sort`: the graph and the graphs nested in it) — however long,
    whether the calls succeed or raise half-way — every cell of `B` is afterwards exactly what it
    was. -/
theorem C13_frame_ext3 (B : Nat → Prop) (w : World) (es : List Edit3)
    (hb : ∀ i, B i → i < w.length)
    (hsep : ∀ (i : Nat) (c : Cell), ¬ B i → w[i]? = some c → CellOutX true true B c)
    (hargs : ∀ e ∈ es, ∀ a ∈ e.args, ¬ B a) :
    ∀ i, B i → (runHistory3 es w).2[i]? = w[i]? := by
  intro i hi
  have := (runHistory3_inv (strict := true) (wB := w) es w
    ⟨hb, fun _ _ => OptRel.refl _ _ _, hsep⟩ hargs).same i hi
  simp only at this
  cases h1 : w[i]? with
  | none =>
    rw [h1] at this
    cases h2 : (runHistory3 es w).2[i]? with
    | none => rfl
    | some c => rw [h2] at this; exact this.elim
  | some c0 =>
    rw [h1] at this
    cases h2 : (runHistory3 es w).2[i]? with
    | none => rw [h2] at this; exact this.elim
    | some c =>
      rw [h2] at this
      have : c = c0 := by simpa [OptRel, CellRel] using this
      rw [this]

theorem frame_clone_edited_ext3 {w w' : World} (hwf : wellFormed w = true) (hres : CloneResult w false w')
    (es : List Edit3) (hargs : ∀ e ∈ es, ∀ a ∈ e.args, ¬ Protected w a) :
    ∀ i, Protected w i → (runHistory3 es w').2[i]? = w[i]? := by
  intro i hi
  have hsep : ∀ (i : Nat) (c : Cell), ¬ Protected w i → w'[i]? = some c →
      CellOutX true true (Protected w) c := by
    intro i c hni hc
    rcases Nat.lt_or_ge i w.length with hlt | hge
    · have hct : ConstTarget w i := Classical.byContradiction (fun hn => hni ⟨hlt, hn⟩)
      obtain ⟨nm, hnm⟩ := constTarget_tensor hwf hct
      have := hres.oldEq rfl i _ hnm
      rw [hc] at this
      cases this
      trivial
    · exact cellOutX_of_cellOk (hres.cells i c hge hc)
  have := C13_frame_ext3 (Protected w) w' es (fun i hi => Nat.lt_of_lt_of_le hi.1 hres.grows) hsep hargs i hi
  rw [this]
  exact hres.oldEq rfl i _ (List.getElem?_eq_getElem hi.1) ▸ (List.getElem?_eq_getElem hi.1).symm ▸ rfl

/-- **C13_frame_clone_edited_ext3** (`Graph.clone()`, `GraphView.clone()`): after cloning, every
    history of the 55 editing calls applied to objects that did not exist before leaves every
    pre-existing cell (except the shared tensor objects) exactly as it was before cloning. -/
theorem C13_frame_clone_edited_ext3 {w w' : World} {fuel g : Nat} {r : Except Err Nat}
    (hwf : wellFormed w = true)
    (h : run (graphClone fuel false g) w = (r, w')) (es : List Edit3)
    (hargs : ∀ e ∈ es, ∀ a ∈ e.args, ¬ Protected w a) :
    ∀ i, Protected w i → (runHistory3 es w').2[i]? = w[i]? :=
  frame_clone_edited_ext3 hwf (CloneResult.of_good (fun s hI => graphClone_good fuel g hI) h).1 es hargs

/-- **C13_functionalize_ext3**: `C13_functionalize` for wrapped passes that use the third alphabet
    (`functionalize3`). -/
theorem C13_functionalize_ext3 {w w' : World} {fuel m : Nat} {r : Except Err Nat}
    (pass : Nat → World → List Edit3) (hwf : wellFormed w = true)
    (h : functionalize3 fuel pass m w = (r, w'))
    (hargs : ∀ m' w1, ∀ e ∈ pass m' w1, ∀ a ∈ e.args, ¬ Protected w a) :
    ∀ i, Protected w i → w'[i]? = w[i]? := by
  unfold functionalize3 at h
  rcases hrun : run (modelClone fuel m) w with ⟨r1, w1⟩
  rw [hrun] at h
  have hres := (CloneResult.of_good (fun s hI => modelClone_good fuel m hI) hrun).1
  cases r1 with
  | ok m' =>
    simp only [Prod.mk.injEq] at h
    obtain ⟨_, rfl⟩ := h
    exact frame_clone_edited_ext3 hwf hres (pass m' w1) (hargs m' w1)
  | error e =>
    simp only [Prod.mk.injEq] at h
    obtain ⟨_, rfl⟩ := h
    intro i hi
    exact hres.oldEq rfl i _ (List.getElem?_eq_getElem hi.1) ▸ (List.getElem?_eq_getElem hi.1).symm ▸ rfl

theorem frame_orig_edited_ext3 {w w' : World} (hwf : wellFormed2 w = true) (hres : CloneResult w false w')
    (es : List Edit3) (hargs : ∀ e ∈ es, ∀ a ∈ e.args, ¬ (w.length ≤ a ∧ a < w'.length)) :
    ∀ i, w.length ≤ i → i < w'.length → (runHistory3 es w').2[i]? = w'[i]? := by
  intro i h1 h2
  refine C13_frame_ext3 (fun i => w.length ≤ i ∧ i < w'.length) w' es (fun i hi => hi.2) ?_ hargs i ⟨h1, h2⟩
  intro j c hj hc
  have hjlt : j < w.length := by
    have := lt_of_getElem? hc
    rcases Nat.lt_or_ge j w.length with h | h
    · exact h
    · exact absurd ⟨h, this⟩ hj
  have heq := hres.oldEq rfl j _ (List.getElem?_eq_getElem hjlt)
  rw [hc] at heq
  cases heq
  obtain ⟨hwf1, hf2⟩ := wellFormed2_spec hwf (List.getElem?_eq_getElem hjlt)
  apply cellOutX_of_followed
  · intro p hp hB
    have := wellFormed_spec hwf1 (List.getElem?_eq_getElem hjlt) p hp
    omega
  · intro p hp hB
    have := hf2 p hp
    omega

/-- **C13_frame_orig_edited_ext3** (`Graph.clone()` / `GraphView.clone()` with
    `allow_outer_scope_values=False`): every history of the 55 editing calls whose receivers and
    arguments are not objects created by the clone leaves every cell created by the clone exactly
    as it was. -/
theorem C13_frame_orig_edited_ext3 {w w' : World} {fuel g : Nat} {r : Except Err Nat}
    (hwf : wellFormed2 w = true)
    (h : run (graphClone fuel false g) w = (r, w')) (es : List Edit3)
    (hargs : ∀ e ∈ es, ∀ a ∈ e.args, ¬ (w.length ≤ a ∧ a < w'.length)) :
    ∀ i, w.length ≤ i → i < w'.length → (runHistory3 es w').2[i]? = w'[i]? :=
  frame_orig_edited_ext3 hwf (CloneResult.of_good (fun s hI => graphClone_good fuel g hI) h).1 es hargs

/-- **C13_frame_orig_edited_model_ext3** (`Model.clone()`, hence `functionalize`). -/
theorem C13_frame_orig_edited_model_ext3 {w w' : World} {fuel m : Nat} {r : Except Err Nat}
    (hwf : wellFormed2 w = true)
    (h : run (modelClone fuel m) w = (r, w')) (es : List Edit3)
    (hargs : ∀ e ∈ es, ∀ a ∈ e.args, ¬ (w.length ≤ a ∧ a < w'.length)) :
    ∀ i, w.length ≤ i → i < w'.length → (runHistory3 es w').2[i]? = w'[i]? :=
  frame_orig_edited_ext3 hwf (CloneResult.of_good (fun s hI => modelClone_good fuel m hI) h).1 es hargs

/-- non-vacuity: calls of the third alphabet succeed on the clone of `exWorld` (clone cells: 16 value
    `x`, 21 value `y`, 22 the node, 25 the graph) and really change it -/
example : ∀ e ∈ ([.setInputsSlice 25 0 1 [], .removeSafe 25 [], .sortDeep 25 [], .clearInits 25,
      .renameValues [(16, "z")], .rauwMulti [(16, 21)] false] : List Edit3), ∀ a ∈ e.args, exWorld.length ≤ a := by
  decide +kernel

example : isOk ((runHistory3 [.setInputsSlice 25 0 1 []] (run (graphClone 4 false 0) exWorld).2).1.head!.map
      fun _ => 0) = true := by
  decide +kernel

example : isOk ((runHistory3 [.renameValues [(16, "z")]] (run (graphClone 4 false 0) exWorld).2).1.head!.map
      fun _ => 0) = true ∧
    typeOfValueNamed (runHistory3 [.renameValues [(16, "z")]] (run (graphClone 4 false 0) exWorld).2).2 "z" =
      [some 13] := by
  decide +kernel

example : isOk ((runHistory3 [.sortDeep 25 []] (run (graphClone 4 false 0) exWorld).2).1.head!.map
      fun _ => 0) = true := by
  decide +kernel

/-- `replace_nodes_and_values` on the clone: the node `n` (22) is replaced by a new node `m` whose
    output takes over the name `y` and the place among the graph outputs -/
example : isOk ((runHistory3 [.replaceNode 25 22 "m" "Abs" [some 16] ["t"]]
      (run (graphClone 4 false 0) exWorld).2).1.head!.map fun _ => 0) = true ∧
    inputsOfNodesNamed (runHistory3 [.replaceNode 25 22 "m" "Abs" [some 16] ["t"]]
      (run (graphClone 4 false 0) exWorld).2).2 "m" = [[some 16]] := by
  decide +kernel

/-! ### C13_wiring_image_function / C13_wiring_image_model (round 4)

`Function.clone` runs `funcCloneCore` (Lemmas/CloneWireFM.lean) under a fresh cloner
(`funcClone = withFreshMap funcCloneCore`, by definition), so the cloner's FINAL value map of a
function clone is the `vm` component of the state `funcCloneCore` ends in.  `FuncWire w vm f f'`: same
identifier (domain, name, overload), the body of `f'` is the `GraphWire`-image of the body of `f`, every
attribute declaration is the shared object or a new object around graphs that are again images, all
under the ONE value map `vm`.  `Model.clone` makes one cloner for the main graph and one per
function; `ModelWire n0 w m m'` says: header fields and device configurations are equal,
`metadata_props` has equal content, `meta` is empty (`Model.clone` does not copy it), the main graph
is the image under its cloner's map, the functions correspond position by position - same keys,
same order - and each is the image under ITS OWN cloner's map; each of these maps has pairwise
different keys, is injective and sends equally observed values to value objects that did not exist
before (`VmOk`). -/

/-- **C13_wiring_image_function** (`Function.clone`; hypothesis: the walker accepts, `funcVerdict`).
    The clone is the image of the function under the cloner's final value map `s'.vm` (body and
    graph-valued attribute declarations, every nesting depth), every pair of the map relates values
    with the same observation, and the map is a bijection between the values the function defines
    (the walker's bound list, once each) and the value objects the clone created. -/
theorem C13_wiring_image_function {w : World} {fuel f : Nat} {A : Sc} (h : funcVerdict fuel w f = .ok A) :
    ∃ f' s', funcCloneCore fuel f { w := w } = (.ok f', s') ∧
      run (funcClone fuel f) w = (.ok f', s'.w) ∧
      FuncWire s'.w s'.vm f f' ∧ (∀ p ∈ s'.vm, ValSim s'.w p.1 p.2) ∧
      s'.vm.map (·.1) = A.bound ∧ A.bound.Nodup ∧
      (∀ p ∈ s'.vm, ∀ q ∈ s'.vm, p.2 = q.2 → p = q) ∧
      (∀ p ∈ s'.vm, (∃ vs, w[p.1]? = some (.val vs)) ∧ w.length ≤ p.2 ∧
        ∃ vs', s'.w[p.2]? = some (.val vs')) ∧
      (∀ (i : Nat) (vs : ValueS), w.length ≤ i → s'.w[i]? = some (.val vs) → ∃ p ∈ s'.vm, p.2 = i) := by
  obtain ⟨f', s', h1, h2, hW, hK, _, hT⟩ := funcClone_wiring h
  refine ⟨f', s', h1, h2, hW, hK, hT.keys, hT.nodup, hT.inj, ?_, hT.onto⟩
  intro p hp
  obtain ⟨a, vs0, vs', b, c, _⟩ := hT.vals p hp
  exact ⟨⟨vs0, b⟩, a, vs', c⟩

/-- **C13_wiring_image_model** (`Model.clone`, hence the model `functionalize` hands to the wrapped
    pass; hypothesis: the walker accepts, `modelVerdict` on the SOURCE heap).  The clone is returned
    and is the image of the model (`ModelWire`): model-level fields equal, main graph and every
    function the image of its source under that clone step's own value map, every such map a
    bijection onto NEW value objects (`w.length ≤` target); nothing pre-existing changed (`CoreLe`
    here, cell by cell in `C13_clone_pure_model`). -/
theorem C13_wiring_image_model {w : World} {fuel m : Nat} (h : modelVerdict fuel w m = .ok ()) :
    ∃ m' w', run (modelClone fuel m) w = (.ok m', w') ∧ ModelWire w.length w' m m' ∧ CoreLe w w' :=
  modelClone_wiring h

/-- **C13_model_function_keys**: the functions of the cloned model are filed under the same
    identifiers in the same order as those of the source model. -/
theorem C13_model_function_keys {n0 : Nat} {w : World} {m m' : Nat} (h : ModelWire n0 w m m') :
    ∃ ms ms', cModel w m = some ms ∧ cModel w m' = some ms' ∧
      ms'.funcs.map (funcKey w) = ms.funcs.map (funcKey w) := h.keys

/-- **C13_faithful_function_of_wiring**: the observational simulation of `C13_faithful_function`
    FOLLOWS from the wiring image of a function. -/
theorem C13_faithful_function_of_wiring {w : World} {vm : List (Nat × Nat)} {f f' : Nat}
    (hW : FuncWire w vm f f') (hK : ∀ p ∈ vm, ValSim w p.1 p.2) : FuncSim w f f' := hW.toSim hK

/-- **C13_faithful_model_of_wiring**: model-level faithfulness (`ModelSim`, the conclusion of
    `C13_faithful_model`) DERIVED from the wiring image: whenever the walker accepts the model,
    `Model.clone` returns a model that is `ModelSim`-related to its source in the heap after cloning. -/
theorem C13_faithful_model_of_wiring {w : World} {fuel m : Nat} (h : modelVerdict fuel w m = .ok ()) :
    ∃ m' w', run (modelClone fuel m) w = (.ok m', w') ∧ ModelSim w' m m' := by
  obtain ⟨m', w', h1, hW, _⟩ := modelClone_wiring h
  exact ⟨m', w', h1, hW.toSim⟩

/-- non-vacuity: the walker accepts the function and the model of `exModel` -/
example : verdictKind (funcVerdict 4 exModel 25) = "ok" := by decide +kernel
example : verdictKindU (modelVerdict 4 exModel 28) = "ok" := by decide +kernel

/-! ### C13_functionalize_hooks: `requires()` / `ensures()` hooks and `early_stop` (round 4)

`functionalizeHooks` (Model/Clone2.lean) extends `functionalizeAny`: every pass of the pipeline and
the pipeline object itself have `requires` / `ensures` hooks - user code that is handed the model and
may do to it whatever a pass may (any history of the 44 editing calls; a well-behaved hook does
nothing) and then returns or raises (`PreconditionError` / `PostconditionError`) -, every pass reports
a `modified` flag, and `PassManager(steps, early_stop)` stops after the first round that reports no
modification.  The hooks of the wrapped pipeline are called by `PassBase.__call__` of the INNER pass,
i.e. on the clone; `_FunctionalPassWrapper`'s own hooks are the no-op defaults of a private class. -/

theorem runHook_snd (why : String) (h : Hook) (m : Nat) (w : World) :
    (runHook why h m w).2 = (runHistory2 (h.edits m w) w).2 := by
  unfold runHook; split <;> rfl

theorem runHook_inv {B : Nat → Prop} {wB : World} (why : String) (h : Hook) (m : Nat) (w : World)
    (hI : FInv true true B wB { w := w }) (ha : ∀ e ∈ h.edits m w, ArgsOut2 B e) :
    FInv true true B wB { w := (runHook why h m w).2 } := by
  rw [runHook_snd]; exact runHistory2_inv (strict := true) _ w hI ha

theorem stageCall_inv {B : Nat → Prop} {wB : World} (st : Stage) (m : Nat) (w : World)
    (hI : FInv true true B wB { w := w }) (ha : ∀ e ∈ st.edits m w, ArgsOut2 B e) :
    FInv true true B wB { w := (stageCall st m w).2 } := by
  have hed := runHistory2_inv (strict := true) (st.edits m w) w hI ha
  unfold stageCall
  cases st with
  | inPlace edits => exact hed
  | rewrap edits header =>
    simp only [Stage.edits] at hed
    have := (rewrapModel_frame header m hed).1
    simp only [run]
    exact this.restart

/-- every editing call a pass makes - in `requires`, in `call`, in `ensures` - names objects outside `B` -/
def PassH.ArgsOut (B : Nat → Prop) (p : PassH) : Prop :=
  (∀ m w, ∀ e ∈ p.requires.edits m w, ArgsOut2 B e) ∧ (∀ m w, ∀ e ∈ p.stage.edits m w, ArgsOut2 B e) ∧
    ∀ m w, ∀ e ∈ p.ensures.edits m w, ArgsOut2 B e

theorem callPassH_inv {B : Nat → Prop} {wB : World} (p : PassH) (m : Nat) (w : World)
    (hI : FInv true true B wB { w := w }) (ha : p.ArgsOut B) :
    FInv true true B wB { w := (callPassH p m w).2 } := by
  unfold callPassH
  have i1 := runHook_inv "PreconditionError" p.requires m w hI (ha.1 m w)
  rcases h1 : runHook "PreconditionError" p.requires m w with ⟨x1, w1⟩
  rw [h1] at i1
  cases x1 with
  | error e => exact i1
  | ok u1 =>
    simp only
    have i2 := stageCall_inv p.stage m w1 i1 (ha.2.1 m w1)
    rcases h2 : stageCall p.stage m w1 with ⟨x2, w2⟩
    rw [h2] at i2
    cases x2 with
    | error e => exact i2
    | ok m1 =>
      simp only
      have i3 := runHook_inv "PostconditionError" p.ensures m1 w2 i2 (ha.2.2 m1 w2)
      rcases h3 : runHook "PostconditionError" p.ensures m1 w2 with ⟨x3, w3⟩
      rw [h3] at i3
      cases x3 with
      | error e => exact i3
      | ok u3 =>
        simp only
        have h4 := callChecked_snd p.decl m (.ok m1, w3)
        rcases h5 : callChecked p.decl m (.ok m1, w3) with ⟨x4, w4⟩
        rw [h5] at h4
        simp only at h4
        subst h4
        cases x4 <;> exact i3

theorem runStagesH_inv {B : Nat → Prop} {wB : World} :
    ∀ (ps : List PassH) (m : Nat) (md : Bool) (w : World), FInv true true B wB { w := w } →
      (∀ p ∈ ps, p.ArgsOut B) → FInv true true B wB { w := (runStagesH ps m md w).2 }
  | [], _, _, _, h, _ => h
  | p :: rest, m, md, w, h, ha => by
    have hst := callPassH_inv p m w h (ha p List.mem_cons_self)
    unfold runStagesH
    rcases hr : callPassH p m w with ⟨x, w1⟩
    rw [hr] at hst
    cases x with
    | error e => exact hst
    | ok r => exact runStagesH_inv rest r.1 (md || r.2) w1 hst (fun q hq => ha q (List.mem_cons_of_mem _ hq))

theorem runRoundsH_inv {B : Nat → Prop} {wB : World} (ps : List PassH) (earlyStop : Bool)
    (ha : ∀ p ∈ ps, p.ArgsOut B) :
    ∀ (k m : Nat) (md : Bool) (w : World), FInv true true B wB { w := w } →
      FInv true true B wB { w := (runRoundsH ps earlyStop k m md w).2 }
  | 0, _, _, _, h => h
  | k + 1, m, md, w, h => by
    have hst := runStagesH_inv ps m false w h ha
    unfold runRoundsH
    rcases hr : runStagesH ps m false w with ⟨x, w1⟩
    rw [hr] at hst
    cases x with
    | error e => exact hst
    | ok r =>
      simp only
      split
      · exact hst
      · exact runRoundsH_inv ps earlyStop ha k r.1 (md || r.2) w1 hst

/-- **C13_functionalize_hooks**.  `functionalize(P)(model)` for ANY pipeline `P` whose passes - and `P`
    itself - have `requires()` / `ensures()` hooks that may edit the model they are handed and may
    raise, with `PassManager`'s `steps` and `early_stop` driven by whatever `modified` flags the passes
    report: the input model and everything else that existed before the call is unchanged, cell for
    cell (except the name of shared tensor objects, D113), also when a hook, a stage or an identity
    check raises half-way, and it stays so under every later history `es2` of editing calls on the
    returned model's objects.  Supersedes `C13_functionalize_any` (hooks that do nothing and never
    raise, `early_stop = false`). -/
theorem C13_functionalize_hooks {w w' : World} {fuel m steps : Nat} {earlyStop : Bool} {r : Except Err Nat}
    (ps : List PassH) (outerReq outerEns : Hook) (hwf : wellFormed w = true)
    (h : functionalizeHooks fuel ps outerReq outerEns steps earlyStop m w = (r, w'))
    (hargs : ∀ p ∈ ps, p.ArgsOut (Protected w))
    (hreq : ∀ m' w1, ∀ e ∈ outerReq.edits m' w1, ∀ a ∈ e.args, ¬ Protected w a)
    (hens : ∀ m' w1, ∀ e ∈ outerEns.edits m' w1, ∀ a ∈ e.args, ¬ Protected w a)
    (es2 : List Edit2) (hargs2 : ∀ e ∈ es2, ∀ a ∈ e.args, ¬ Protected w a) :
    ∀ i, Protected w i → (runHistory2 es2 w').2[i]? = w[i]? := by
  unfold functionalizeHooks at h
  rcases hrun : run (modelClone fuel m) w with ⟨r1, w1⟩
  rw [hrun] at h
  have hres := (CloneResult.of_good (fun s hI => modelClone_good fuel m hI) hrun).1
  have hsep : ∀ (i : Nat) (c : Cell), ¬ Protected w i → w1[i]? = some c →
      CellOutX true true (Protected w) c := by
    intro i c hni hc
    rcases Nat.lt_or_ge i w.length with hlt | hge
    · have hct : ConstTarget w i := Classical.byContradiction (fun hn => hni ⟨hlt, hn⟩)
      obtain ⟨nm, hnm⟩ := constTarget_tensor hwf hct
      have := hres.oldEq rfl i _ hnm
      rw [hc] at this
      cases this
      trivial
    · exact cellOutX_of_cellOk (hres.cells i c hge hc)
  have hI1 : FInv true true (Protected w) w1 { w := w1 } :=
    ⟨fun i hi => Nat.lt_of_lt_of_le hi.1 hres.grows, fun _ _ => OptRel.refl _ _ _, hsep⟩
  have hfin : FInv true true (Protected w) w1 { w := w' } := by
    cases r1 with
    | error e =>
      simp only [Prod.mk.injEq] at h
      obtain ⟨_, rfl⟩ := h
      exact hI1
    | ok m' =>
      simp only at h
      have i2 := runHook_inv "PreconditionError" outerReq m' w1 hI1 (hreq m' w1)
      rcases h2 : runHook "PreconditionError" outerReq m' w1 with ⟨x2, w2⟩
      rw [h2] at i2 h
      cases x2 with
      | error e =>
        simp only [Prod.mk.injEq] at h
        obtain ⟨_, rfl⟩ := h
        exact i2
      | ok u2 =>
        simp only at h
        have i3 := runRoundsH_inv ps earlyStop hargs steps m' false w2 i2
        rcases h3 : runRoundsH ps earlyStop steps m' false w2 with ⟨x3, w3⟩
        rw [h3] at i3 h
        cases x3 with
        | error e =>
          simp only [Prod.mk.injEq] at h
          obtain ⟨_, rfl⟩ := h
          exact i3
        | ok r3 =>
          simp only at h
          have i4 := runHook_inv "PostconditionError" outerEns r3.1 w3 i3 (hens r3.1 w3)
          rcases h4 : runHook "PostconditionError" outerEns r3.1 w3 with ⟨x4, w4⟩
          rw [h4] at i4 h
          cases x4 with
          | error e =>
            simp only [Prod.mk.injEq] at h
            obtain ⟨_, rfl⟩ := h
            exact i4
          | ok u4 =>
            simp only at h
            have := congrArg Prod.snd h
            simp only [callChecked_snd] at this
            rw [← this]
            exact i4
  have hfin2 := (runHistory2_inv (strict := true) es2 w' hfin hargs2).same
  intro i hi
  have h1 := hfin2 i hi
  simp only at h1
  have hold : w1[i]? = w[i]? := by
    have := hres.oldEq rfl i _ (List.getElem?_eq_getElem hi.1)
    rw [this, List.getElem?_eq_getElem hi.1]
  rw [hold] at h1
  cases hw : w[i]? with
  | none =>
    rw [hw] at h1
    cases h2 : (runHistory2 es2 w').2[i]? with
    | none => rfl
    | some c => rw [h2] at h1; exact h1.elim
  | some c0 =>
    rw [hw] at h1
    cases h2 : (runHistory2 es2 w').2[i]? with
    | none => rw [h2] at h1; exact h1.elim
    | some c =>
      rw [h2] at h1
      have : c = c0 := by simpa [OptRel, CellRel] using h1
      rw [this]

/-- non-vacuity on `exModel`: a pipeline whose `requires` hook edits the model it is handed (the
    clone) and whose `ensures` hook raises: the call ends with `PostconditionError`, the clone's graph
    was edited, nothing else -/
def exReqEdits (m : Nat) (w : World) : List Edit2 :=
  match w[m]? with
  | some (.model ms) => [.base (.setGraphDoc ms.graph (some "seen by requires"))]
  | _ => []

def exHookPass : PassH where
  decl := ⟨true, true⟩
  requires := ⟨exReqEdits, fun _ _ => false⟩
  stage := .inPlace (fun _ _ => [])
  ensures := ⟨fun _ _ => [], fun _ _ => true⟩
  modified := fun _ _ => false

def noHook : Hook := ⟨fun _ _ => [], fun _ _ => false⟩


def errKind : Except Err Nat → String
  | .ok _ => "ok"
  | .error (.raised why) => "raised: " ++ why
  | .error (.unsupported why) => "unsupported: " ++ why
  | .error .fuel => "fuel"

example : errKind (functionalizeHooks 4 [exHookPass] noHook noHook 3 true 28 exModel).1 =
    "raised: PostconditionError" := by decide +kernel
example : graphDocs (functionalizeHooks 4 [exHookPass] noHook noHook 3 true 28 exModel).2 =
    [none, none, some "seen by requires", none] := by decide +kernel
/-- `early_stop`: a pass that reports `modified = False` ends `PassManager(steps=3)` after one round -/
example : isOk (functionalizeHooks 4 [{ exHookPass with ensures := noHook }] noHook noHook 3 true 28 exModel).1 = true := by
  decide +kernel

/-! ### C13_irregular_*: when the walker makes no claim (round 4)

The walker answers `irregular` for exactly three reasons (Lemmas/CloneIrregular.lean): a pointer that
names no cell, a node output that the value map binds already when its node is cloned, initializer
names that are not pairwise different.  The first is impossible on a heap whose pointer fields all
name cells (`closedW`, decidable, evaluated on every abstracted heap).  The other two DO occur on
well-formed heaps - and with the real library, through the public API: a `GraphView` that lists the
output of one of its own nodes among its inputs, and a `GraphView` whose initializer keys went stale
because a value was renamed after the view was made.  There the clone is returned but the claims
the walker guards really fail (the value map is no bijection / the clone has fewer initializers):
`irregular` is not an artefact of the proof. -/

/-- **C13_irregular_reasons** (`Graph.clone` / `GraphView.clone`): the three reasons; no dangling
    pointer on a closed heap. -/
theorem C13_irregular_reasons {w : World} {fuel : Nat} {allow : Bool} {g : Nat} {why : String}
    (hg : g < w.length) (h : cloneVerdict fuel allow w g = .irregular why) :
    why = "node output is already bound in the value map" ∨ why = "initializer names not distinct" ∨
      (why = "dangling pointer" ∧ closedW w = false) :=
  Irr.irr_wGraph allow fuel g {} (fun _ => hg) why h

/-- **C13_irregular_reasons_function** (`Function.clone`). -/
theorem C13_irregular_reasons_function {w : World} {fuel f : Nat} {why : String}
    (hf : f < w.length) (h : funcVerdict fuel w f = .irregular why) :
    why = "node output is already bound in the value map" ∨ why = "initializer names not distinct" ∨
      (why = "dangling pointer" ∧ closedW w = false) :=
  Irr.irr_funcVerdict fuel f (fun _ => hf) why h

/-- **C13_irregular_reasons_model** (`Model.clone`). -/
theorem C13_irregular_reasons_model {w : World} {fuel m : Nat} {why : String}
    (hm : m < w.length) (h : modelVerdict fuel w m = .irregular why) :
    why = "node output is already bound in the value map" ∨ why = "initializer names not distinct" ∨
      (why = "dangling pointer" ∧ closedW w = false) :=
  Irr.irr_modelVerdict fuel m (fun _ => hm) why h

/-- a view (cell 18) of both nodes of `exNonLocal`'s graph that lists `va`, the output of its own
    node `a`, among its inputs: `GraphView([x, va], [vb], nodes=[a, b])` -/
def exOwnOutput : World := exNonLocal.take 18 ++ [
  .graph { name := some "v", inputs := [3, 9], outputs := [15], nodes := [6, 12], props := 19, mstore := 20, view := true },
  .dict {}, .dict {} ]

/-- a graph with initializer `w1` (cell 3) and a view (cell 15) made with initializers `[w1, w2]`
    whose second value (cell 6) was renamed to `w1` afterwards: the view's keys are stale -/
def exStaleKey : World := [
  .graph { name := some "g", outputs := [12], nodes := [9], inits := [("w1", 3)], props := 1, mstore := 2 },
  .dict {}, .dict {},
  .val { name := some "w1", graph := some 0, isInit := true, uses := [(9, 0)], props := 4, mstore := 5 },
  .dict {}, .dict {},
  .val { name := some "w1", uses := [(9, 1)], props := 7, mstore := 8 },
  .dict {}, .dict {},
  .node { name := some "n", opType := "Add", inputs := [some 3, some 6], outputs := [12], graph := some 0,
          props := 10, mstore := 11 },
  .dict {}, .dict {},
  .val { name := some "o", producer := some 9, index := some 0, graph := some 0, isOut := true,
         props := 13, mstore := 14 },
  .dict {}, .dict {},
  .graph { name := some "v", outputs := [12], nodes := [9], inits := [("w1", 3), ("w2", 6)], props := 16,
           mstore := 17, view := true },
  .dict {}, .dict {} ]

def initCounts (w : World) : List Nat :=
  w.filterMap fun c => match c with
    | .graph g => some g.inits.length
    | _ => none

/-- **C13_irregular_reachable**: `irregular` verdicts occur on heaps without any dangling pointer
    (`wellFormed2`, `closedW`), the clone is returned there, and the guarded claims fail: (1) a view
    listing an output of one of its own nodes among its inputs - the cloner's final value map binds
    that value twice (the graph-input clone is overwritten by the node-output clone: no bijection);
    (2) a view with stale initializer keys - the clone has ONE initializer where the source has two
    (finding D346: `Graph(initializers=...)` files the clones under their names). -/
theorem C13_irregular_reachable :
    (wellFormed2 exOwnOutput = true ∧ closedW exOwnOutput = true ∧
      verdictKind (cloneVerdict 4 false exOwnOutput 18) = "irregular: node output is already bound in the value map" ∧
      isOk (run (graphClone 4 false 18) exOwnOutput).1 = true ∧
      ¬ ((cloneGraph false 4 18 { w := exOwnOutput }).2.vm.map (·.1)).Nodup) ∧
    (wellFormed2 exStaleKey = true ∧ closedW exStaleKey = true ∧
      verdictKind (cloneVerdict 4 false exStaleKey 15) = "irregular: initializer names not distinct" ∧
      isOk (run (graphClone 4 false 15) exStaleKey).1 = true ∧
      initCounts (run (graphClone 4 false 15) exStaleKey).2 = [1, 2, 1]) := by
  decide +kernel

/-- non-vacuity of `closedW`: the example heaps are closed -/
example : closedW exWorld = true ∧ closedW exModel = true ∧ closedW exNonLocal = true := by decide +kernel

/-! ### C13_deep_copy_meta_*: `deep_copy=True` copies the objects stored in `meta` (round 4)

In `IrVerif.Clone` the values stored in a `meta` store are opaque atoms, so `deep_copy` is invisible
there.  `IrVerif.Clone.Meta` (Model/CloneMeta.lean, Lemmas/CloneMeta.lean) refines exactly that:
the stored values are references into a heap of mutable Python containers (`list` / `dict` cells,
immutable leaves as atoms), `Cloner.clone_meta(old, new, deep_copy)` is transcribed with CPython's
`copy.deepcopy` (memo per call, i.e. per KEY), and `PyEdit` is the alphabet of in-place edits of
such objects.  DECISION on `deep_copy=False` (the default, also what `functionalize` uses): the
property statement demands that "metadata CONTAINERS are new objects" - containers, not contents.
The clone's `MetadataStore` is a new container (a new `dict` cell in `IrVerif.Clone`: `C13_fresh`),
`meta[k] = x` / `del` / `invalidate` on one copy never show in the other (`C13_frame`); that the
stored OBJECTS are shared is the documented meaning of `deep_copy=False` (like tensors), stated
as `C13_shallow_meta_shared` with a witness that an in-place edit through one store is then visible
through the other, and counted by the check as `observation=meta-shared:*`, not as a violation. -/

/-- **C13_deep_copy_meta_fresh**: after `clone_meta(.., deep_copy=True)` - all heaps, stores, fuel -
    no pre-existing object changed, every object reachable from the clone's store is a NEW object,
    keys (in order) and invalid keys are the source's, atoms stay the same atoms. -/
theorem C13_deep_copy_meta_fresh (fuel : Nat) (st st' : Meta.Store) (h h' : Meta.PyHeap)
    (hc : Meta.cloneMeta true fuel st h = .ok (st', h')) :
    (∃ ext, h' = h ++ ext) ∧
    (∀ k i, (k, Meta.PyVal.ref i) ∈ st'.data → h.length ≤ i) ∧
    (∀ i o, h.length ≤ i → h'[i]? = some o → ∀ j, Meta.PyVal.ref j ∈ o.vals → h.length ≤ j) ∧
    (∀ i, Meta.Reach h' (st'.data.map (·.2)) i → h.length ≤ i) ∧
    st'.data.map (·.1) = st.data.map (·.1) ∧ st'.invalid = st.invalid ∧
    Meta.All2 (fun e e' => e'.1 = e.1 ∧ ∀ s, e.2 = .atom s ↔ e'.2 = .atom s) st.data st'.data :=
  Meta.deep_copy_meta_fresh fuel st st' h h' hc

/-- **C13_deep_copy_meta_fresh_all**: the same for all the `meta` stores of a cloned IR object, in the
    cloner's order, whatever aliasing there was between keys and between stores. -/
theorem C13_deep_copy_meta_fresh_all (fuel : Nat) (ss ss' : List Meta.Store) (h h' : Meta.PyHeap)
    (hc : Meta.cloneMetaAll true fuel ss h = .ok (ss', h')) :
    (∃ ext, h' = h ++ ext) ∧
    (∀ i o, h.length ≤ i → h'[i]? = some o → ∀ j, Meta.PyVal.ref j ∈ o.vals → h.length ≤ j) ∧
    (∀ i, Meta.Reach h' (Meta.rootsOf ss') i → h.length ≤ i) ∧
    Meta.All2 (fun s s' => s'.data.map (·.1) = s.data.map (·.1) ∧ s'.invalid = s.invalid ∧
      Meta.All2 (fun e e' => e'.1 = e.1 ∧ ∀ a, e.2 = .atom a ↔ e'.2 = .atom a) s.data s'.data) ss ss' :=
  Meta.deep_copy_meta_fresh_all fuel ss ss' h h' hc

/-- **C13_deep_copy_meta_frame**: every history of in-place edits of objects the deep clone created
    leaves every pre-existing object unchanged, so the original's stored values observe alike. -/
theorem C13_deep_copy_meta_frame (fuel : Nat) (st st' : Meta.Store) (h h' : Meta.PyHeap)
    (hc : Meta.cloneMeta true fuel st h = .ok (st', h')) (es : List Meta.PyEdit)
    (ht : ∀ e ∈ es, h.length ≤ e.target) :
    (∀ i, i < h.length → (Meta.runPyHistory es h')[i]? = h[i]?) ∧
    ∀ v, (∀ i, Meta.Reach h [v] i → i < h.length) → ∀ k,
      Meta.obs k (Meta.runPyHistory es h') v = Meta.obs k h v :=
  Meta.deep_copy_meta_frame fuel st st' h h' hc es ht

/-- **C13_deep_copy_meta_frame_reach**: the same with the edited objects given as "whatever is reachable
    from the clone's store at the time of the edit" (values written: atoms or such objects). -/
theorem C13_deep_copy_meta_frame_reach (fuel : Nat) (st st' : Meta.Store) (h h' : Meta.PyHeap)
    (hc : Meta.cloneMeta true fuel st h = .ok (st', h')) (es : List Meta.PyEdit)
    (hh : Meta.ReachHistory (st'.data.map (·.2)) es h') :
    (∀ i, i < h.length → (Meta.runPyHistory es h')[i]? = h[i]?) ∧
    ∀ v, (∀ i, Meta.Reach h [v] i → i < h.length) → ∀ k,
      Meta.obs k (Meta.runPyHistory es h') v = Meta.obs k h v :=
  Meta.deep_copy_meta_frame_reach fuel st st' h h' hc es hh

/-- **C13_deep_copy_meta_frame_all**: the same for all the stores of a cloned IR object. -/
theorem C13_deep_copy_meta_frame_all (fuel : Nat) (ss ss' : List Meta.Store) (h h' : Meta.PyHeap)
    (hc : Meta.cloneMetaAll true fuel ss h = .ok (ss', h')) (es : List Meta.PyEdit)
    (hh : Meta.ReachHistory (Meta.rootsOf ss') es h') :
    (∀ i, i < h.length → (Meta.runPyHistory es h')[i]? = h[i]?) ∧
    ∀ v, (∀ i, Meta.Reach h [v] i → i < h.length) → ∀ k,
      Meta.obs k (Meta.runPyHistory es h') v = Meta.obs k h v :=
  Meta.deep_copy_meta_frame_all fuel ss ss' h h' hc es hh

/-- **C13_deep_copy_meta_faithful**: the deep clone's store observes (to every depth) like the source
    store, on a heap without dangling references (decidable: `heapClosedB`, `storeOkB`; evaluated on
    every generated case). -/
theorem C13_deep_copy_meta_faithful (fuel : Nat) (st st' : Meta.Store) (h h' : Meta.PyHeap)
    (hwf : Meta.HeapClosed h) (hst : ∀ k j, (k, Meta.PyVal.ref j) ∈ st.data → j < h.length)
    (hc : Meta.cloneMeta true fuel st h = .ok (st', h')) :
    ∀ k, Meta.obsStore k h' st' = Meta.obsStore k h st :=
  Meta.deep_copy_meta_faithful fuel st st' h h' hwf hst hc

/-- **C13_shallow_meta_shared** (`deep_copy=False`): a new store with the same keys and invalid keys,
    the heap untouched, every stored object THE SAME object (see the decision above). -/
theorem C13_shallow_meta_shared (fuel : Nat) (st : Meta.Store) (h : Meta.PyHeap) :
    ∃ st', Meta.cloneMeta false fuel st h = .ok (st', h) ∧ st'.data = st.data ∧ st'.invalid = st.invalid :=
  Meta.shallow_meta_shared fuel st h

/-! ### C13_meta_refines: `IrVerif.Clone.Meta` and the `mstore` cells of this model (round 6)

The values of a `meta` store are atoms (`String`) in this model: what the harness puts there is
`str(value)`, i.e. what printing sees of the stored object - never its identity.  `IrVerif.Clone.Meta`
keeps the identities.  Lemmas/CloneMetaLink.lean ties the two:
* `MetaLink.embStore d`: the EMBEDDING of a store of this model into `Meta.Store` (its atoms; no Python
  heap cell is needed);
* `MetaLink.absStore enc k h st`: the ABSTRACTION of a refined store `st` over the Python heap `h` to a
  `DictS` of this model: per key `enc` of the unfolding of the value to depth `k` (`Meta.obs`; `enc` and
  `k` are arbitrary - whatever printing function the harness uses factors through some unfolding);
  the embedding is a section of it (`C13_meta_embed`).
The commuting squares: `Meta.cloneMeta b` followed by the abstraction is `copyMeta` on the abstraction
(`C13_meta_refines_step`: the only call of the cloner where `deep_copy` acts), for both values of the
flag; and for a whole clone of this model (`C13_meta_refines`): for the `meta` stores of ANY family of
owner pairs of the wiring image (`MetaLink.WiredOwner`: pairs of the value map, `NodeWire`-related
nodes, `GraphWire`-related graphs - every owner of the clone is the second component of one), in ANY
order, `Meta.cloneMetaAll b` run on refined source stores that abstract to the source cells yields
refined clone stores that abstract (in the final Python heap) to exactly what this model's clone holds.
`C13_deep_copy_meta_fresh_main` then transfers freshness and the frame theorem of `IrVerif.Clone.Meta`
to the clones of this model.  Hypotheses on the refined side: `Meta.HeapClosed` and `MetaLink.StoreOk`
(the decidable `heapClosedB` / `storeOkB` the driver evaluates on every generated case). -/

open MetaLink in
/-- **C13_meta_embed**: the embedding is a section of the abstraction (in every Python heap, to every
    depth, for every encoding that prints an atom as itself), and on embedded stores `clone_meta` is
    the identity that allocates nothing, for both values of `deep_copy`: literally "clone in this
    model, then embed = embed, then clone in `IrVerif.Clone.Meta`" (`copyMeta` keeps `data` and `invalid`). -/
theorem C13_meta_embed (enc : Meta.Tree → String) (henc : ∀ s, enc (.atom s) = s) (k : Nat)
    (h : Meta.PyHeap) (b : Bool) (fuel : Nat) (ds : List DictS) :
    (∀ d, absStore enc k h (embStore d) = d) ∧
    Meta.cloneMetaAll b fuel (ds.map embStore) h = .ok (ds.map embStore, h) :=
  ⟨absStore_embStore enc henc k h, cloneMetaAll_embStore b fuel h ds⟩

open MetaLink in
/-- **C13_meta_refines_step**: one `Cloner.clone_meta(old, new, deep_copy=b)`.  If the source cell of this
    model holds the abstraction of the refined store `st` (closed Python heap `h`), then `copyMeta`
    allocates a cell holding the abstraction of `Meta.cloneMeta b`'s result in ITS heap `h'` - for
    `b = true` new objects, for `b = false` the same objects: the abstraction cannot tell, which is
    why `deep_copy` is invisible in this model. -/
theorem C13_meta_refines_step (b : Bool) (fuel : Nat) (enc : Meta.Tree → String) (k : Nat)
    (st st' : Meta.Store) (h h' : Meta.PyHeap) (hwf : Meta.HeapClosed h) (hst : StoreOk h st)
    (hc : Meta.cloneMeta b fuel st h = .ok (st', h')) (s : St) (old : Nat)
    (hold : s.w[old]? = some (.dict (absStore enc k h st))) :
    copyMeta old s = (.ok s.w.length, { s with w := s.w ++ [.dict (absStore enc k h' st')] }) :=
  copyMeta_refines b fuel enc k st st' h h' hwf hst hc s old hold

open MetaLink in
/-- **C13_meta_refines**: a whole clone.  When the walker accepts the source graph, for every list `os`
    of owner pairs of the wiring image there is the list `ps` of their `meta` store cells such that
    for both values of `deep_copy`, every refinement (`σ`, `h`) of the SOURCE cells that abstracts to
    the heap before cloning: `Meta.cloneMetaAll b` on the refined sources gives refined clone stores
    that abstract, in the final Python heap `h'`, to the cells of this model's clone; the source
    cells are still abstractions of their refined stores in `h'`; `h'` is closed and extends `h`. -/
theorem C13_meta_refines {w : World} {fuel : Nat} {allow : Bool} {g : Nat} {A : Sc}
    (hv : cloneVerdict fuel allow w g = .ok A) :
    ∃ (g' : Nat) (s' : St), run (graphClone fuel allow g) w = (.ok g', s'.w) ∧
      GraphWire allow s'.w s'.vm g g' ∧ (∀ p ∈ s'.vm, ValSim s'.w p.1 p.2) ∧
      ∀ os : List (Nat × Nat), (∀ o ∈ os, WiredOwner allow s'.w s'.vm o.1 o.2) →
      ∃ ps : List (Nat × Nat),
        All2 (fun o p => mstoreOf s'.w o.1 = some p.1 ∧ mstoreOf s'.w o.2 = some p.2) os ps ∧
        ∀ (b : Bool) (fuelM k : Nat) (enc : Meta.Tree → String) (σ : Nat → Meta.Store)
          (h : Meta.PyHeap) (ss' : List Meta.Store) (h' : Meta.PyHeap),
          Meta.HeapClosed h → (∀ p ∈ ps, StoreOk h (σ p.1)) →
          (∀ p ∈ ps, cDict w p.1 = some (absStore enc k h (σ p.1))) →
          Meta.cloneMetaAll b fuelM (ps.map fun p => σ p.1) h = .ok (ss', h') →
          All2 (fun p st' => cDict s'.w p.2 = some (absStore enc k h' st')) ps ss' ∧
          (∀ p ∈ ps, cDict s'.w p.1 = some (absStore enc k h' (σ p.1))) ∧
          Meta.HeapClosed h' ∧ (∀ s2 ∈ ss', StoreOk h' s2) ∧
          h.length ≤ h'.length ∧ (∀ i, i < h.length → h'[i]? = h[i]?) := by
  obtain ⟨g', s', _, h2, h3, h4, hle⟩ := graphClone_wiring hv
  refine ⟨g', s', h2, h3, h4, fun os hos => ?_⟩
  obtain ⟨ps, hp1, hp2⟩ := wired_pairs os hos
  exact ⟨ps, hp1, fun b fuelM k enc σ h ss' h' hwf hok hcons hc =>
    refines_all b fuelM enc k hle ps hp2 σ h hwf hok hcons ss' h' hc⟩

open MetaLink in
/-- **C13_deep_copy_meta_fresh_main**: `C13_deep_copy_meta_fresh_all` / `_frame_all` transferred to the clones
    of THIS model.  With `deep_copy=True`, for the `meta` stores `ps` of any family of owner pairs of
    the wiring image and any refinement of the source cells as in `C13_meta_refines`: the refined
    clone stores `ss'` abstract to the clone's cells AND no pre-existing Python object changed, new
    cells refer to new cells only, every object reachable from a clone store is NEW, keys / invalid
    keys / atoms are the source's; and after ANY history of in-place edits of objects reached from
    the clone's stores every pre-existing object is unchanged and every source cell of this model is
    still the abstraction of its refined store (what the original's `meta` shows did not change). -/
theorem C13_deep_copy_meta_fresh_main {w : World} {fuel : Nat} {allow : Bool} {g : Nat} {A : Sc}
    (hv : cloneVerdict fuel allow w g = .ok A) :
    ∃ (g' : Nat) (s' : St), run (graphClone fuel allow g) w = (.ok g', s'.w) ∧
      GraphWire allow s'.w s'.vm g g' ∧ (∀ p ∈ s'.vm, ValSim s'.w p.1 p.2) ∧
      ∀ os : List (Nat × Nat), (∀ o ∈ os, WiredOwner allow s'.w s'.vm o.1 o.2) →
      ∃ ps : List (Nat × Nat),
        All2 (fun o p => mstoreOf s'.w o.1 = some p.1 ∧ mstoreOf s'.w o.2 = some p.2) os ps ∧
        ∀ (fuelM k : Nat) (enc : Meta.Tree → String) (σ : Nat → Meta.Store)
          (h : Meta.PyHeap) (ss' : List Meta.Store) (h' : Meta.PyHeap),
          Meta.HeapClosed h → (∀ p ∈ ps, StoreOk h (σ p.1)) →
          (∀ p ∈ ps, cDict w p.1 = some (absStore enc k h (σ p.1))) →
          Meta.cloneMetaAll true fuelM (ps.map fun p => σ p.1) h = .ok (ss', h') →
          All2 (fun p st' => cDict s'.w p.2 = some (absStore enc k h' st')) ps ss' ∧
          (∃ ext, h' = h ++ ext) ∧
          (∀ i o, h.length ≤ i → h'[i]? = some o → ∀ j, Meta.PyVal.ref j ∈ o.vals → h.length ≤ j) ∧
          (∀ i, Meta.Reach h' (Meta.rootsOf ss') i → h.length ≤ i) ∧
          Meta.All2 (fun s s2 => s2.data.map (·.1) = s.data.map (·.1) ∧ s2.invalid = s.invalid ∧
            Meta.All2 (fun e e' => e'.1 = e.1 ∧ ∀ a, e.2 = .atom a ↔ e'.2 = .atom a) s.data s2.data)
            (ps.map fun p => σ p.1) ss' ∧
          ∀ es : List Meta.PyEdit, Meta.ReachHistory (Meta.rootsOf ss') es h' →
            (∀ i, i < h.length → (Meta.runPyHistory es h')[i]? = h[i]?) ∧
            ∀ p ∈ ps, cDict s'.w p.1 = some (absStore enc k (Meta.runPyHistory es h') (σ p.1)) := by
  obtain ⟨g', s', _, h2, h3, h4, hle⟩ := graphClone_wiring hv
  refine ⟨g', s', h2, h3, h4, fun os hos => ?_⟩
  obtain ⟨ps, hp1, hp2⟩ := wired_pairs os hos
  refine ⟨ps, hp1, fun fuelM k enc σ h ss' h' hwf hok hcons hc => ?_⟩
  obtain ⟨r1, _, _, _, _, _⟩ := refines_all true fuelM enc k hle ps hp2 σ h hwf hok hcons ss' h' hc
  obtain ⟨f1, f2, f3, f4⟩ := Meta.deep_copy_meta_fresh_all fuelM _ ss' h h' hc
  refine ⟨r1, f1, f2, f3, f4, fun es hh => ?_⟩
  refine ⟨(Meta.deep_copy_meta_frame_all fuelM _ ss' h h' hc es hh).1, fun p hp => ?_⟩
  rw [cDict_mono hle (hcons p hp), frame_all fuelM enc k _ ss' h h' hwf hc es hh (σ p.1) (hok p hp)]

/-- a printing function for the examples: an atom as itself, a container by its class -/
def exEnc : Meta.Tree → String
  | .atom s => s
  | .list _ => "<list>"
  | .dict _ _ => "<dict>"
  | _ => "?"

/-- `exWorld` with the objects of `Meta.exStore` (a cyclic list under two keys, an atom, an invalid
    key) in the `meta` store of the graph input `x` (cell 5) -/
def exMetaWorld : World := exWorld.set 5 (.dict (MetaLink.absStore exEnc 2 Meta.exHeap Meta.exStore))

/-- non-vacuity of `C13_meta_refines` / `C13_deep_copy_meta_fresh_main`: the walker accepts `exMetaWorld`,
    the store holds non-atoms, and the hypotheses on the refined side hold for `σ 5 = Meta.exStore`
    over `Meta.exHeap` (closed, no dangling store value, consistent, `cloneMetaAll` returns) -/
example : verdictKind (cloneVerdict 4 false exMetaWorld 0) = "ok" ∧
    cDict exMetaWorld 5 = some { data := [("a", "<list>"), ("b", "<list>"), ("c", "z")], invalid := ["c"] } ∧
    cDict exMetaWorld 5 = some (MetaLink.absStore exEnc 2 Meta.exHeap Meta.exStore) ∧
    Meta.heapClosedB Meta.exHeap = true ∧ Meta.storeOkB Meta.exHeap Meta.exStore = true ∧
    (Meta.cloneMetaAll true 3 [Meta.exStore] Meta.exHeap).toBool = true ∧
    (Meta.cloneMetaAll false 3 [Meta.exStore] Meta.exHeap).toBool = true := by decide +kernel

/-- the hypotheses of the refined side are satisfiable over EVERY heap of this model: the embedding
    of the cells' contents over the empty Python heap (for every encoding that prints atoms as
    themselves) -/
example (enc : Meta.Tree → String) (henc : ∀ s, enc (.atom s) = s) (k : Nat) (b : Bool) (fuelM : Nat)
    (w : World) (ps : List (Nat × Nat)) (hps : ∀ p ∈ ps, (cDict w p.1).isSome) :
    let σ : Nat → Meta.Store := fun c => MetaLink.embStore ((cDict w c).getD {})
    Meta.HeapClosed [] ∧ (∀ p ∈ ps, MetaLink.StoreOk [] (σ p.1)) ∧
    (∀ p ∈ ps, cDict w p.1 = some (MetaLink.absStore enc k [] (σ p.1))) ∧
    Meta.cloneMetaAll b fuelM (ps.map fun p => σ p.1) [] = .ok (ps.map fun p => σ p.1, []) := by
  refine ⟨fun i o ho => by simp at ho, ?_, ?_, ?_⟩
  · intro p _ e he j hj
    simp only [MetaLink.embStore, List.mem_map] at he
    obtain ⟨x, _, rfl⟩ := he
    cases hj
  · intro p hp
    rw [MetaLink.absStore_embStore enc henc]
    have := hps p hp
    cases hc : cDict w p.1 with
    | none => rw [hc] at this; cases this
    | some d => rfl
  · have := MetaLink.cloneMetaAll_embStore b fuelM [] (ps.map fun p => (cDict w p.1).getD {})
    simpa [List.map_map, Function.comp_def] using this

/-- non-vacuity of `C13_meta_refines_step` with a store of non-atoms, and what it computes -/
example :
    (Meta.cloneMeta true 3 Meta.exStore Meta.exHeap).toBool = true ∧
    (copyMeta 0 { w := [.dict (MetaLink.absStore exEnc 2 Meta.exHeap Meta.exStore)] }).2.w =
      [.dict { data := [("a", "<list>"), ("b", "<list>"), ("c", "z")], invalid := ["c"] },
       .dict { data := [("a", "<list>"), ("b", "<list>"), ("c", "z")], invalid := ["c"] }] := by
  decide +kernel

end IrVerif.Clone

/-! ### C13_frame over the fourth alphabet `Edit4` (round 4)

`Edit4` (Model/Clone4.lean) = the 55 calls of `Edit3` plus the item-level calls on `graph.inputs` and
`graph.outputs` (`insert(i, v)`, `remove(v)`, `del lst[i]`, `lst[i] = v`, `extend(vs)`, `clear()`, any
index, negative too), `graph.initializers.setdefault(k, v)`, slices with any bounds and any step
(`lst[a:b:s] = vs`, `del lst[a:b:s]`; CPython's `slice.indices`, the size check of extended slices, the
zero step) and `convenience.replace_nodes_and_values` with SEVERAL old nodes and SEVERAL freshly built
new nodes (a later new node may consume outputs of an earlier one; generalises `Edit3.replaceNode`):
72 calls.  The frame lemma `applyEdit4_frame` (Lemmas/CloneFrame4.lean) is proved by composition from
the pieces of the older alphabets. -/
namespace IrVerif.Clone

/-- **C13_frame_ext4** (general form, fourth alphabet): see `Frame4.frame_ext4`. -/
theorem C13_frame_ext4 (B : Nat → Prop) (w : World) (es : List Edit4)
    (hb : ∀ i, B i → i < w.length)
    (hsep : ∀ (i : Nat) (c : Cell), ¬ B i → w[i]? = some c → CellOutX true true B c)
    (hargs : ∀ e ∈ es, ∀ a ∈ e.args, ¬ B a) :
    ∀ i, B i → (runHistory4 es w).2[i]? = w[i]? :=
  Frame4.frame_ext4 B w es hb hsep hargs

theorem frame_clone_edited_ext4 {w w' : World} (hwf : wellFormed w = true) (hres : CloneResult w false w')
    (es : List Edit4) (hargs : ∀ e ∈ es, ∀ a ∈ e.args, ¬ Protected w a) :
    ∀ i, Protected w i → (runHistory4 es w').2[i]? = w[i]? := by
  intro i hi
  have hsep : ∀ (i : Nat) (c : Cell), ¬ Protected w i → w'[i]? = some c →
      CellOutX true true (Protected w) c := by
    intro i c hni hc
    rcases Nat.lt_or_ge i w.length with hlt | hge
    · have hct : ConstTarget w i := Classical.byContradiction (fun hn => hni ⟨hlt, hn⟩)
      obtain ⟨nm, hnm⟩ := constTarget_tensor hwf hct
      have := hres.oldEq rfl i _ hnm
      rw [hc] at this
      cases this
      trivial
    · exact cellOutX_of_cellOk (hres.cells i c hge hc)
  have := C13_frame_ext4 (Protected w) w' es (fun i hi => Nat.lt_of_lt_of_le hi.1 hres.grows) hsep hargs i hi
  rw [this]
  exact hres.oldEq rfl i _ (List.getElem?_eq_getElem hi.1) ▸ (List.getElem?_eq_getElem hi.1).symm ▸ rfl

/-- **C13_frame_clone_edited_ext4** (`Graph.clone()`, `GraphView.clone()`): after cloning, every
    history of the 72 editing calls applied to objects that did not exist before leaves every
    pre-existing cell (except the shared tensor objects) exactly as it was before cloning. -/
theorem C13_frame_clone_edited_ext4 {w w' : World} {fuel g : Nat} {r : Except Err Nat}
    (hwf : wellFormed w = true)
    (h : run (graphClone fuel false g) w = (r, w')) (es : List Edit4)
    (hargs : ∀ e ∈ es, ∀ a ∈ e.args, ¬ Protected w a) :
    ∀ i, Protected w i → (runHistory4 es w').2[i]? = w[i]? :=
  frame_clone_edited_ext4 hwf (CloneResult.of_good (fun s hI => graphClone_good fuel g hI) h).1 es hargs

/-- **C13_functionalize_ext4**: `C13_functionalize` for wrapped passes that use the fourth alphabet
    (`functionalize4`). -/
theorem C13_functionalize_ext4 {w w' : World} {fuel m : Nat} {r : Except Err Nat}
    (pass : Nat → World → List Edit4) (hwf : wellFormed w = true)
    (h : functionalize4 fuel pass m w = (r, w'))
    (hargs : ∀ m' w1, ∀ e ∈ pass m' w1, ∀ a ∈ e.args, ¬ Protected w a) :
    ∀ i, Protected w i → w'[i]? = w[i]? := by
  unfold functionalize4 at h
  rcases hrun : run (modelClone fuel m) w with ⟨r1, w1⟩
  rw [hrun] at h
  have hres := (CloneResult.of_good (fun s hI => modelClone_good fuel m hI) hrun).1
  cases r1 with
  | ok m' =>
    simp only [Prod.mk.injEq] at h
    obtain ⟨_, rfl⟩ := h
    exact frame_clone_edited_ext4 hwf hres (pass m' w1) (hargs m' w1)
  | error e =>
    simp only [Prod.mk.injEq] at h
    obtain ⟨_, rfl⟩ := h
    intro i hi
    exact hres.oldEq rfl i _ (List.getElem?_eq_getElem hi.1) ▸ (List.getElem?_eq_getElem hi.1).symm ▸ rfl

theorem frame_orig_edited_ext4 {w w' : World} (hwf : wellFormed2 w = true) (hres : CloneResult w false w')
    (es : List Edit4) (hargs : ∀ e ∈ es, ∀ a ∈ e.args, ¬ (w.length ≤ a ∧ a < w'.length)) :
    ∀ i, w.length ≤ i → i < w'.length → (runHistory4 es w').2[i]? = w'[i]? := by
  intro i h1 h2
  refine C13_frame_ext4 (fun i => w.length ≤ i ∧ i < w'.length) w' es (fun i hi => hi.2) ?_ hargs i ⟨h1, h2⟩
  intro j c hj hc
  have hjlt : j < w.length := by
    have := lt_of_getElem? hc
    rcases Nat.lt_or_ge j w.length with h | h
    · exact h
    · exact absurd ⟨h, this⟩ hj
  have heq := hres.oldEq rfl j _ (List.getElem?_eq_getElem hjlt)
  rw [hc] at heq
  cases heq
  obtain ⟨hwf1, hf2⟩ := wellFormed2_spec hwf (List.getElem?_eq_getElem hjlt)
  apply cellOutX_of_followed
  · intro p hp hB
    have := wellFormed_spec hwf1 (List.getElem?_eq_getElem hjlt) p hp
    omega
  · intro p hp hB
    have := hf2 p hp
    omega

/-- **C13_frame_orig_edited_ext4** (`Graph.clone()` / `GraphView.clone()` with
    `allow_outer_scope_values=False`): every history of the 72 editing calls whose receivers and
    arguments are not objects created by the clone leaves every cell created by the clone exactly
    as it was. -/
theorem C13_frame_orig_edited_ext4 {w w' : World} {fuel g : Nat} {r : Except Err Nat}
    (hwf : wellFormed2 w = true)
    (h : run (graphClone fuel false g) w = (r, w')) (es : List Edit4)
    (hargs : ∀ e ∈ es, ∀ a ∈ e.args, ¬ (w.length ≤ a ∧ a < w'.length)) :
    ∀ i, w.length ≤ i → i < w'.length → (runHistory4 es w').2[i]? = w'[i]? :=
  frame_orig_edited_ext4 hwf (CloneResult.of_good (fun s hI => graphClone_good fuel g hI) h).1 es hargs

/-- **C13_frame_orig_edited_model_ext4** (`Model.clone()`, hence `functionalize`). -/
theorem C13_frame_orig_edited_model_ext4 {w w' : World} {fuel m : Nat} {r : Except Err Nat}
    (hwf : wellFormed2 w = true)
    (h : run (modelClone fuel m) w = (r, w')) (es : List Edit4)
    (hargs : ∀ e ∈ es, ∀ a ∈ e.args, ¬ (w.length ≤ a ∧ a < w'.length)) :
    ∀ i, w.length ≤ i → i < w'.length → (runHistory4 es w').2[i]? = w'[i]? :=
  frame_orig_edited_ext4 hwf (CloneResult.of_good (fun s hI => modelClone_good fuel m hI) h).1 es hargs

/-- a history of the new calls on the clone of `exWorld` (clone cells: 16 value `x`, 21 value `y`,
    22 the node `n`, 25 the graph): every receiver and argument is a cell created by the clone -/
def exHistory4 : List Edit4 :=
  [.ioInsert true 25 (-1) 16, .ioSetStep true 25 none none (-1) [16, 16], .ioDelStep true 25 (some 0) none 2,
   .ioRemove true 25 16, .ioExtend true 25 [16], .ioSetAt false 25 (-1) 21, .ioDelAt false 25 0,
   .ioInsert false 25 5 21, .ioClear true 25, .setdefaultInit 25 "x" 16,
   .replaceNodes 25 22 [22] [⟨"m1", "Abs", [.old 16], ["t"]⟩, ⟨"m2", "Neg", [.fresh 0 0], ["u"]⟩] [21] [(1, 0)]]

example : ∀ e ∈ exHistory4, ∀ a ∈ e.args, exWorld.length ≤ a := by decide +kernel

/-- every call of the history succeeds on the clone ... -/
example : (runHistory4 exHistory4 (run (graphClone 4 false 0) exWorld).2).1.all
    (fun r => isOk (r.map fun _ => 0)) = true := by
  decide +kernel

/-- ... really changes the clone (the new node `m2` consumes the output of the new node `m1`, which
    consumes the clone's `x`; `x` is now an initializer of the clone) ... -/
example : (inputsOfNodesNamed (runHistory4 exHistory4 (run (graphClone 4 false 0) exWorld).2).2 "m1" = [[some 16]]) ∧
    (inputsOfNodesNamed (runHistory4 exHistory4 (run (graphClone 4 false 0) exWorld).2).2 "m2").length = 1 ∧
    (runHistory4 exHistory4 (run (graphClone 4 false 0) exWorld).2).2 ≠ (run (graphClone 4 false 0) exWorld).2 := by
  decide +kernel

/-- ... and leaves the original's cells as they were (the conclusion of `C13_frame_clone_edited_ext4`,
    evaluated) -/
example : (runHistory4 exHistory4 (run (graphClone 4 false 0) exWorld).2).2.take exWorld.length = exWorld := by
  decide +kernel

/-- the error points: a zero step, an extended slice of another size, an index out of range, a value
    that is not listed -/
example : (runHistory4 [.ioSetStep true 25 none none 0 [], .ioSetStep true 25 none none 2 [16, 16],
      .ioDelAt true 25 7, .ioRemove false 25 16] (run (graphClone 4 false 0) exWorld).2).1.map
      (fun r => isOk (r.map fun _ => 0)) = [false, false, false, false] := by
  decide +kernel

end IrVerif.Clone

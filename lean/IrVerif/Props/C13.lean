/-
C13 — clones are faithful and fully independent of their originals.
Property theorems about the executable model `IrVerif.Clone` (Model/Clone.lean); the helper
development (invariant of the cloner, Hoare rules) is in Lemmas/Clone.lean.
-/
import IrVerif.Lemmas.Clone
namespace IrVerif.Clone

/-! ### what "the objects of a clone" are -/

/-- attribute object `a` holds graph `j` -/
def GraphAttrOf (w : World) (a j : Nat) : Prop :=
  ∃ as, w[a]? = some (.attr as) ∧ (as.v = .graph j ∨ ∃ gs, as.v = .graphs gs ∧ j ∈ gs)

/-- ownership edges: a model owns its graph, functions and metadata containers; a function its
    body (and graph-valued attribute parameters); a graph its inputs, outputs, initializers, nodes
    and metadata containers; a node its outputs, metadata containers and the graphs held by its
    attributes; a value its type object, shape object and metadata containers. -/
def owns (w : World) (i j : Nat) : Prop :=
  match w[i]? with
  | some (.model m) => j = m.graph ∨ j ∈ m.funcs ∨ j = m.props ∨ j = m.mstore
  | some (.func f) => j = f.graph ∨ ∃ ka ∈ f.attrs, GraphAttrOf w ka.2 j
  | some (.graph g) => j ∈ g.inputs ∨ j ∈ g.outputs ∨ (∃ e ∈ g.inits, j = e.2) ∨ j ∈ g.nodes ∨
      j = g.props ∨ j = g.mstore
  | some (.node n) => j ∈ n.outputs ∨ j = n.props ∨ j = n.mstore ∨
      ∃ ka ∈ n.attrs, GraphAttrOf w ka.2 j
  | some (.val v) => v.type = some j ∨ v.shape = some j ∨ j = v.props ∨ j = v.mstore
  | _ => False

/-- everything a root (model, function or graph) owns, transitively: its graphs at every depth,
    nodes, values, type and shape objects, metadata containers -/
inductive Owned (w : World) (root : Nat) : Nat → Prop
  | root : Owned w root root
  | step {i j : Nat} : Owned w root i → owns w i j → Owned w root j

/-- the heap after a clone: the part before `w.length` is the pre-existing world -/
structure CloneResult (w : World) (allow : Bool) (w' : World) : Prop where
  grows : w.length ≤ w'.length
  /-- pre-existing cells keep their content; only the usage list of a value may gain records
      of new nodes -/
  old : ∀ (i : Nat) (c0 : Cell), w[i]? = some c0 → ∃ c, w'[i]? = some c ∧ OldSame w.length c0 c
  /-- and nothing at all changes when outer-scope values are not allowed -/
  oldEq : allow = false → ∀ (i : Nat) (c0 : Cell), w[i]? = some c0 → w'[i]? = some c0
  /-- every new cell refers only to new cells -/
  cells : ∀ (i : Nat) (c : Cell), w.length ≤ i → w'[i]? = some c → CellOk w w.length w'.length allow c

theorem CloneResult.of_good {w : World} {allow : Bool} {m : M Nat}
    (hm : ∀ s, Inv w allow s → GoodAt w allow m s (NewId w)) {r : Except Err Nat} {w' : World}
    (h : run m w = (r, w')) :
    CloneResult w allow w' ∧ ∀ g', r = .ok g' → w.length ≤ g' ∧ g' < w'.length := by
  obtain ⟨hI, _, hq⟩ := hm _ (Inv.init w allow)
  unfold run at h
  rcases hms : m { w := w } with ⟨r1, s1⟩
  rw [hms] at hI hq h
  simp only [Prod.mk.injEq] at h
  obtain ⟨rfl, rfl⟩ := h
  exact ⟨⟨hI.len, hI.old, hI.oldEq, hI.cells⟩, fun g' hg' => hq g' hg'⟩

theorem cellOk_attr {w0 : World} {lo hi : Nat} {allow : Bool} {as : AttrS}
    (h : CellOk w0 lo hi allow (.attr as)) {j : Nat}
    (hj : as.v = .graph j ∨ ∃ gs, as.v = .graphs gs ∧ j ∈ gs) : In lo hi j := by
  obtain ⟨nm, doc, v⟩ := as
  rcases hj with hj | ⟨gs, hj, hm⟩
  · simp only at hj; subst hj; exact h
  · simp only at hj; subst hj; exact h j hm

theorem old_attr_same {w w' : World} {allow : Bool} (h : CloneResult w allow w') {a : Nat}
    (hs : SharedAttr w a) : ∃ as, w'[a]? = some (.attr as) ∧ as.v.isGraphy = false := by
  obtain ⟨as, h0, hg⟩ := hs
  obtain ⟨c, h1, h2⟩ := h.old a _ h0
  have := h2.1
  cases c <;> simp [Cell.eraseUses] at this
  subst this
  exact ⟨_, h1, hg⟩

/-- in a heap produced by a clone, whatever a new object owns is new -/
theorem owns_new {w w' : World} {allow : Bool} (h : CloneResult w allow w') {i j : Nat}
    (hi : In w.length w'.length i) (ho : owns w' i j) : In w.length w'.length j := by
  unfold owns at ho
  have graphAttr : ∀ (attrs : List (String × Nat)),
      (∀ ka ∈ attrs, In w.length w'.length ka.2 ∨ SharedAttr w ka.2) →
      (∃ ka ∈ attrs, GraphAttrOf w' ka.2 j) → In w.length w'.length j := by
    intro attrs hat ⟨ka, hka, as, has, hj⟩
    rcases hat ka hka with hnew | hsh
    · exact cellOk_attr (h.cells ka.2 _ hnew.1 has) hj
    · obtain ⟨as', has', hg⟩ := old_attr_same h hsh
      rw [has] at has'
      cases has'
      rcases hj with hj | ⟨gs, hj, _⟩ <;> rw [hj] at hg <;> cases hg
  split at ho
  · next m hm =>
    obtain ⟨a, b, c, d⟩ := h.cells i _ hi.1 hm
    rcases ho with rfl | ho | rfl | rfl
    · exact a
    · exact b j ho
    · exact c
    · exact d
  · next f hf =>
    obtain ⟨a, b⟩ := h.cells i _ hi.1 hf
    rcases ho with rfl | ho
    · exact a
    · exact graphAttr f.attrs b ho
  · next g hg =>
    obtain ⟨a, b, c, d, e, f⟩ := h.cells i _ hi.1 hg
    rcases ho with ho | ho | ⟨x, hx, rfl⟩ | ho | rfl | rfl
    · exact a j ho
    · exact b j ho
    · exact c x hx
    · exact d j ho
    · exact e
    · exact f
  · next n hn =>
    obtain ⟨a, b, c, _, e, _⟩ := h.cells i _ hi.1 hn
    rcases ho with ho | rfl | rfl | ho
    · exact a j ho
    · exact b
    · exact c
    · exact graphAttr n.attrs e ho
  · next v hv =>
    obtain ⟨a, b, c, d, _, _⟩ := h.cells i _ hi.1 hv
    rcases ho with ho | ho | rfl | rfl
    · rw [ho] at a; exact a
    · rw [ho] at b; exact b
    · exact c
    · exact d
  · exact False.elim ho

theorem owned_new {w w' : World} {allow : Bool} (h : CloneResult w allow w') {root : Nat}
    (hr : In w.length w'.length root) {i : Nat} (ho : Owned w' root i) : In w.length w'.length i := by
  induction ho with
  | root => exact hr
  | step _ hij ih => exact owns_new h ih hij

/-! ### C13: freshness, closedness, no side effect on the original — `Graph.clone` /
`GraphView.clone`, `Function.clone`, `Model.clone` -/

/-- **C13_fresh** (graph / graph view).  Every object of the clone — its graphs at any depth,
    nodes, values, type objects, shape objects and metadata containers — is a new object: its id
    is not the id of any pre-existing object (`w.length ≤ i`), for every heap, every graph, both
    settings of `allow_outer_scope_values`. -/
theorem C13_fresh {w w' : World} {fuel : Nat} {allow : Bool} {g g' : Nat}
    (h : run (graphClone fuel allow g) w = (.ok g', w')) :
    ∀ i, Owned w' g' i → w.length ≤ i ∧ i < w'.length := by
  obtain ⟨hres, hroot⟩ := CloneResult.of_good (fun s hI => graphClone_good fuel g hI) h
  exact fun i hi => owned_new hres (hroot g' rfl) hi

/-- **C13_fresh_function** (`Function.clone`). -/
theorem C13_fresh_function {w w' : World} {fuel : Nat} {f f' : Nat}
    (h : run (funcClone fuel f) w = (.ok f', w')) :
    ∀ i, Owned w' f' i → w.length ≤ i ∧ i < w'.length := by
  obtain ⟨hres, hroot⟩ := CloneResult.of_good (fun s hI => funcClone_good fuel f hI) h
  exact fun i hi => owned_new hres (hroot f' rfl) hi

/-- **C13_fresh_model** (`Model.clone`, which is also what `functionalize` runs the pass on). -/
theorem C13_fresh_model {w w' : World} {fuel : Nat} {m m' : Nat}
    (h : run (modelClone fuel m) w = (.ok m', w')) :
    ∀ i, Owned w' m' i → w.length ≤ i ∧ i < w'.length := by
  obtain ⟨hres, hroot⟩ := CloneResult.of_good (fun s hI => modelClone_good fuel m hI) h
  exact fun i hi => owned_new hres (hroot m' rfl) hi

/-- **C13_closed**.  Every reference held by an object of the clone points into the clone: the
    ownership pointers always (previous theorems), the back pointers (`Value.graph`,
    `Value.producer`, `Node.graph`) always, and every node input whenever
    `allow_outer_scope_values` is `False` — so with `allow = false` a result can only be returned
    when no reference escapes; otherwise the call does not return a clone (it raises). -/
theorem C13_closed {w w' : World} {fuel : Nat} {allow : Bool} {g g' : Nat}
    (h : run (graphClone fuel allow g) w = (.ok g', w')) (i : Nat) (hi : Owned w' g' i) :
    (∀ n, w'[i]? = some (.node n) →
        (allow = false → ∀ v, some v ∈ n.inputs → w.length ≤ v ∧ v < w'.length) ∧
        (∀ gr, n.graph = some gr → w.length ≤ gr ∧ gr < w'.length)) ∧
    (∀ v, w'[i]? = some (.val v) →
        (∀ gr, v.graph = some gr → w.length ≤ gr ∧ gr < w'.length) ∧
        (∀ p, v.producer = some p → w.length ≤ p ∧ p < w'.length)) := by
  obtain ⟨hres, hroot⟩ := CloneResult.of_good (fun s hI => graphClone_good fuel g hI) h
  have hin := owned_new hres (hroot g' rfl) hi
  constructor
  · intro n hn
    obtain ⟨_, _, _, d, _, f⟩ := hres.cells i _ hin.1 hn
    exact ⟨f, fun gr hgr => by rw [hgr] at d; exact d⟩
  · intro v hv
    obtain ⟨_, _, _, _, e, f⟩ := hres.cells i _ hin.1 hv
    exact ⟨fun gr hgr => by rw [hgr] at e; exact e, fun p hp => by rw [hp] at f; exact f⟩

/-- **C13_closed_model**: a cloned model never refers to a value of the original. -/
theorem C13_closed_model {w w' : World} {fuel : Nat} {m m' : Nat}
    (h : run (modelClone fuel m) w = (.ok m', w')) (i : Nat) (hi : Owned w' m' i) :
    ∀ n, w'[i]? = some (.node n) → ∀ v, some v ∈ n.inputs → w.length ≤ v ∧ v < w'.length := by
  obtain ⟨hres, hroot⟩ := CloneResult.of_good (fun s hI => modelClone_good fuel m hI) h
  have hin := owned_new hres (hroot m' rfl) hi
  intro n hn
  obtain ⟨_, _, _, _, _, f⟩ := hres.cells i _ hin.1 hn
  exact f rfl

/-- **C13_clone_pure**.  Cloning never changes a pre-existing object, whether it returns or
    raises: with `allow_outer_scope_values=False` the old part of the heap is identical; with
    `True` the only change is that new nodes are appended to the usage lists of values. -/
theorem C13_clone_pure {w w' : World} {fuel : Nat} {allow : Bool} {g : Nat} {r : Except Err Nat}
    (h : run (graphClone fuel allow g) w = (r, w')) :
    (allow = false → ∀ (i : Nat) (c : Cell), w[i]? = some c → w'[i]? = some c) ∧
    (∀ (i : Nat) (c : Cell), w[i]? = some c → ∃ c', w'[i]? = some c' ∧ OldSame w.length c c') := by
  obtain ⟨hres, _⟩ := CloneResult.of_good (fun s hI => graphClone_good fuel g hI) h
  exact ⟨hres.oldEq, hres.old⟩

theorem C13_clone_pure_model {w w' : World} {fuel : Nat} {m : Nat} {r : Except Err Nat}
    (h : run (modelClone fuel m) w = (r, w')) :
    ∀ (i : Nat) (c : Cell), w[i]? = some c → w'[i]? = some c := by
  obtain ⟨hres, _⟩ := CloneResult.of_good (fun s hI => modelClone_good fuel m hI) h
  exact hres.oldEq rfl

/-! ### non-vacuity: the hypotheses are satisfiable and D33 is a real counterexample to the
unconditional statement for `allow = true` -/

/-- x --Relu--> y ; graph g0(x) -> y.  Cells: 0 graph, 1,2 its dicts, 3 x, 4,5 dicts, 6 node,
    7,8 dicts, 9 y, 10,11 dicts, 12 type object of x -/
def exWorld : World := [
  .graph { name := some "g", inputs := [3], outputs := [9], nodes := [6], props := 1, mstore := 2 },
  .dict {}, .dict {},
  .val { name := some "x", graph := some 0, isIn := true, uses := [(6, 0)], type := some 12,
         props := 4, mstore := 5 },
  .dict {}, .dict {},
  .node { name := some "n", opType := "Relu", inputs := [some 3], outputs := [9], graph := some 0,
          props := 7, mstore := 8 },
  .dict {}, .dict {},
  .val { name := some "y", producer := some 6, index := some 0, graph := some 0, isOut := true,
         props := 10, mstore := 11 },
  .dict {}, .dict {},
  .type { dtype := 1 } ]

def isOk : Except Err Nat → Bool
  | .ok _ => true
  | .error _ => false

/-- the hypothesis `run (graphClone ..) w = (.ok g', w')` of the theorems is satisfiable -/
example : isOk (run (graphClone 4 false 0) exWorld).1 = true := by decide +kernel
example : isOk (run (graphClone 4 true 0) exWorld).1 = true := by decide +kernel

/-- the type object of the cloned input `x` is a new cell, not cell 12 (D32 fixed) -/
def typeOfValueNamed (w : World) (nm : String) : List (Option Nat) :=
  w.filterMap fun c => match c with
    | .val v => if v.name = some nm then some v.type else none
    | _ => none

example : typeOfValueNamed (run (graphClone 4 false 0) exWorld).2 "x" = [some 12, some 13] := by
  decide +kernel

end IrVerif.Clone

/-
C15 — property theorems.  Part A: the name authority (`_name_authority.py`) under arbitrary
histories of `register_or_name_value` / `register_or_name_node` calls, i.e. everything
`Graph.__init__/append/extend/insert_before/insert_after` do to names.
-/
import IrVerif.Model.Names
import IrVerif.Lemmas.Names
import IrVerif.Lemmas.NamesGraph
import IrVerif.Lemmas.NamesIdem
import IrVerif.Lemmas.NamesModel
import IrVerif.Lemmas.NamesOwned
import IrVerif.Lemmas.NamesRename
import IrVerif.Lemmas.NamesGen
import IrVerif.Lemmas.NamesGenPost
import IrVerif.Lemmas.NamesRec
import IrVerif.Lemmas.NamesRecOrd
namespace IrVerif.Names

/-! ### C15_loop_terminates -/

/-- **C15_loop_terminates**: the `while True` loops of `_unique_value_name` and
`_unique_node_name`, and the `while` loop of NameFixPass's `_find_and_record_next_unique_name`
(candidates `base_k`), end after at most `|seen| + 1` iterations, for every seen set (explicit names
shaped like generated ones included), every counter value, every `op_type` and every base name; a
larger budget returns the same name and counter (so the budgeted loop *is* the unbounded one). -/
theorem C15_loop_terminates (seen : List String) (c : Nat) (op : String) :
    (∃ r, uniqueLoop valName seen (seen.length + 1) c = some r
        ∧ ∀ fuel, seen.length + 1 ≤ fuel → uniqueLoop valName seen fuel c = some r)
    ∧ (∃ r, uniqueLoop (nodeName op) seen (seen.length + 1) c = some r
        ∧ ∀ fuel, seen.length + 1 ≤ fuel → uniqueLoop (nodeName op) seen fuel c = some r)
    ∧ (∃ r, uniqueLoop (sufName op) seen (seen.length + 1) c = some r
        ∧ ∀ fuel, seen.length + 1 ≤ fuel → uniqueLoop (sufName op) seen fuel c = some r) := by
  refine ⟨?_, ?_, ?_⟩
  · obtain ⟨r, hr⟩ := uniqueLoop_total valName (fun _ _ => valName_inj) seen c
    exact ⟨r, hr, fun fuel h => uniqueLoop_mono _ _ _ _ _ hr _ h⟩
  · obtain ⟨r, hr⟩ := uniqueLoop_total (nodeName op) (fun _ _ => nodeName_inj op) seen c
    exact ⟨r, hr, fun fuel h => uniqueLoop_mono _ _ _ _ _ hr _ h⟩
  · obtain ⟨r, hr⟩ := uniqueLoop_total (sufName op) (fun _ _ => sufName_inj_k op) seen c
    exact ⟨r, hr, fun fuel h => uniqueLoop_mono _ _ _ _ _ hr _ h⟩

/-! ### C15_fresh -/

/-- **C15_fresh**: along *any* history of naming calls on one graph's authority, starting from
*any* authority state, a name the authority generates (the object's name was `None`) is
(1) not in the seen set of its namespace at that moment — in particular not in the initial one —
and (2) different from the name of every earlier call of the same namespace, generated *or
explicitly given* (explicit names may be shaped like generated ones: "val_7").  Together with
`C15_monotone` this is "never equal to a name registered or assigned before, for the life of the
graph". -/
theorem C15_fresh (ops : List Op) : ∀ (a : Auth) (pre post : List Ev) (e : Ev),
    (run ops a).2 = pre ++ e :: post → e.generated = true →
      e.name ∉ a.seen e.isNode ∧ ∀ e' ∈ pre, e'.isNode = e.isNode → e'.name ≠ e.name := by
  induction ops with
  | nil => intro a pre post e h; simp [run] at h
  | cons op ops ih =>
    intro a pre post e h hg
    rw [run_cons] at h
    cases pre with
    | nil =>
      simp only [List.nil_append, List.cons.injEq] at h
      obtain ⟨h1, _⟩ := h
      subst h1
      exact ⟨step_fresh a op hg, by simp⟩
    | cons e0 pre' =>
      simp only [List.cons_append, List.cons.injEq] at h
      obtain ⟨h0, hrest⟩ := h
      obtain ⟨i1, i2⟩ := ih (step a op).1 pre' post e hrest hg
      refine ⟨fun hin => i1 ((step_mono a op).1 _ _ hin), ?_⟩
      intro e' he' hk
      rcases List.mem_cons.mp he' with h' | h'
      · subst h'; subst h0
        intro heq
        apply i1
        rw [← heq, ← hk]
        exact step_registers a op
      · exact i2 e' h' hk

/-- **C15_monotone** (second half of DESIGN's `C15_fresh`): seen sets and counters are monotone
along any history, and every name handed out or registered stays in the seen set for ever
(removing a node does not call the authority at all). -/
theorem C15_monotone (ops : List Op) (a : Auth) :
    (∀ b x, x ∈ a.seen b → x ∈ (run ops a).1.seen b)
    ∧ a.vc ≤ (run ops a).1.vc ∧ a.nc ≤ (run ops a).1.nc
    ∧ ∀ e ∈ (run ops a).2, e.name ∈ (run ops a).1.seen e.isNode :=
  ⟨(run_mono ops a).1, (run_mono ops a).2.1, (run_mono ops a).2.2, run_registers ops a⟩

/-! ### the graph level: every way a name reaches or leaves the graph -/

/-- **C15_carried**: along any history of attaching (`register_or_name_*`, joining inputs / outputs
/ initializers), detaching, and renaming (`value.name = …`, `node.name = …`) objects, every name
carried by a value or node the graph currently owns is in the authority's seen set. -/
theorem C15_carried (ops : List GOp) (st : GSt) (h : Carried st) : Carried (grun ops st) :=
  grun_carried ops st h

/-- **C15_graph_fresh**: a name the graph generates for an unnamed value (node) differs from the
name carried by *any* value (node) the graph owned at *any* earlier moment of the history (`st1`,
after the prefix `pre1`) — whether that name came through the constructor, an added node, the
inputs / outputs / initializers containers or a rename — and from every name the authority knew
initially. -/
theorem C15_graph_fresh (pre1 pre2 : List GOp) (st0 : GSt) (h0 : Carried st0) :
    (∀ v, (grun pre2 (grun pre1 st0)).vname v = none →
        (∀ u ∈ (grun pre1 st0).vown, (gstep (grun pre2 (grun pre1 st0)) (.regValue v)).vname v ≠ (grun pre1 st0).vname u)
        ∧ ∀ s ∈ st0.auth.vnames, (gstep (grun pre2 (grun pre1 st0)) (.regValue v)).vname v ≠ some s)
    ∧ (∀ n op, (grun pre2 (grun pre1 st0)).nname n = none →
        (∀ m ∈ (grun pre1 st0).nown, (gstep (grun pre2 (grun pre1 st0)) (.regNode n op)).nname n ≠ (grun pre1 st0).nname m)
        ∧ ∀ s ∈ st0.auth.nnames, (gstep (grun pre2 (grun pre1 st0)) (.regNode n op)).nname n ≠ some s) := by
  have c1 := grun_carried pre1 st0 h0
  have m01 := grun_mono pre1 st0
  have m12 := grun_mono pre2 (grun pre1 st0)
  constructor
  · intro v hv
    have hf := step_fresh (grun pre2 (grun pre1 st0)).auth (.value none) (by simp [step])
    have hk : (step (grun pre2 (grun pre1 st0)).auth (.value none)).2.isNode = false := by simp [step]
    rw [hk] at hf
    have hname : (gstep (grun pre2 (grun pre1 st0)) (.regValue v)).vname v
        = some (step (grun pre2 (grun pre1 st0)).auth (.value none)).2.name := by
      simp [gstep, hv]
    rw [hname]
    constructor
    · intro u hu he
      exact hf (by simpa [Auth.seen] using m12.1 _ (c1.values u hu _ he.symm))
    · intro s hs he
      cases he
      exact hf (by simpa [Auth.seen] using m12.1 _ (m01.1 _ hs))
  · intro n op hn
    have hf := step_fresh (grun pre2 (grun pre1 st0)).auth (.node none op) (by simp [step])
    have hk : (step (grun pre2 (grun pre1 st0)).auth (.node none op)).2.isNode = true := by simp [step]
    rw [hk] at hf
    have hname : (gstep (grun pre2 (grun pre1 st0)) (.regNode n op)).nname n
        = some (step (grun pre2 (grun pre1 st0)).auth (.node none op)).2.name := by
      simp [gstep, hn]
    rw [hname]
    constructor
    · intro m hm he
      exact hf (by simpa [Auth.seen] using m12.2 _ (c1.nodes m hm _ he.symm))
    · intro s hs he
      cases he
      exact hf (by simpa [Auth.seen] using m12.2 _ (m01.2 _ hs))

theorem gstep_keeps_value (st : GSt) (op : GOp) (v : Nat) (s : String) (h : st.vname v = some s)
    (hop : ∀ name, op ≠ .setValue v name) : (gstep st op).vname v = some s := by
  cases op with
  | regValue u =>
    simp only [gstep]
    by_cases huv : v = u
    · subst huv; simp [h, step]
    · rw [upd_ne _ _ huv]; exact h
  | regNode n o => exact h
  | noteValue u => exact h
  | setValue u name =>
    simp only [gstep]
    split
    · exact h
    · have : v ≠ u := fun e => hop name (by rw [e])
      simp only; rw [upd_ne _ _ this]; exact h
  | setNode n name => exact h
  | dropValue u => exact h
  | dropNode n => exact h

theorem gstep_keeps_node (st : GSt) (op : GOp) (n : Nat) (s : String) (h : st.nname n = some s)
    (hop : ∀ name, op ≠ .setNode n name) : (gstep st op).nname n = some s := by
  cases op with
  | regValue u => exact h
  | regNode m o =>
    simp only [gstep]
    by_cases hnm : n = m
    · subst hnm; simp [h, step]
    · rw [upd_ne _ _ hnm]; exact h
  | noteValue u => exact h
  | setValue u name =>
    simp only [gstep]
    split <;> exact h
  | setNode m name =>
    have : n ≠ m := fun e => hop name (by rw [e])
    simp only [gstep]; rw [upd_ne _ _ this]; exact h
  | dropValue u => exact h
  | dropNode m => exact h

/-- **C15_explicit_kept**: along any history, a value (node) that has a name — the empty string
included — keeps exactly that name unless the *user* assigns to it: constructing the graph, adding,
re-adding, inserting nodes, joining inputs / outputs / initializers, and naming *other* objects
never alter it, whatever has been seen before. -/
theorem C15_explicit_kept : ∀ (ops : List GOp) (st : GSt),
    (∀ v s, st.vname v = some s → (∀ name, GOp.setValue v name ∉ ops) → (grun ops st).vname v = some s)
    ∧ (∀ n s, st.nname n = some s → (∀ name, GOp.setNode n name ∉ ops) → (grun ops st).nname n = some s)
  | [], st => ⟨fun _ _ h _ => h, fun _ _ h _ => h⟩
  | op :: ops, st => by
    obtain ⟨a, b⟩ := C15_explicit_kept ops (gstep st op)
    constructor
    · intro v s h hno
      rw [grun_cons]
      exact a v s (gstep_keeps_value st op v s h (fun name e => hno name (e ▸ List.mem_cons_self)))
        (fun name hm => hno name (List.mem_cons_of_mem _ hm))
    · intro n s h hno
      rw [grun_cons]
      exact b n s (gstep_keeps_node st op n s h (fun name e => hno name (e ▸ List.mem_cons_self)))
        (fun name hm => hno name (List.mem_cons_of_mem _ hm))

/-- the E2 histories: a value named "val_0" joins the inputs (`noteValue`), or an owned value is
renamed to "val_0" — the next unnamed value gets "val_1" -/
example : (grun [.noteValue 0, .regNode 0 "Add", .regValue 1]
    { vname := fun i => if i = 0 then some "val_0" else none, nname := fun _ => none }).vname 1 = some "val_1" := by
  decide
example : ((List.range 3).map (grun [.regValue 0, .setValue 0 (some "val_1"), .regValue 1, .dropValue 0, .regValue 2]
    { vname := fun _ => none, nname := fun _ => none }).vname) = [some "val_1", some "val_2", some "val_3"] := by
  decide
/-! ### non-vacuity -/

/-- the explicit name "val_1" makes the generator skip 1: val_0, (explicit val_1), val_2 -/
example : ((run [.value none, .value (some "val_1"), .value none] {}).2.map (·.name))
    = ["val_0", "val_1", "val_2"] := by decide

/-- an explicit "val_0" given *after* val_0 was generated is kept (duplicates are the user's
responsibility, cf. the class docstring), and later generated names still avoid it -/
example : ((run [.value none, .value (some "val_0"), .value none] {}).2.map (·.name))
    = ["val_0", "val_0", "val_1"] := by decide

example : ((run [.node none "Add", .node (some "node_Add_1") "Mul", .node none "Add"] {}).2.map (·.name))
    = ["node_Add_0", "node_Add_1", "node_Add_2"] := by decide


/-! ## Part B — NameFixPass, one `_fix_graph_names` call (`fixTop`: the main graph or one function)

Hypotheses used below, all decidable on a concrete model and reported by the harness:
* `InitsOk w` — every initializer dictionary is keyed by the current names of its values, names
  non-empty, `is_initializer()/graph` consistent (the kernel invariant `I_key`);
* `Closed w.initOf t` — initializers mentioned under `t` belong to graphs under `t`;
* `scopedB w.inits t.tr [] [] = true` — **the scoping rule**: a value is only used in the graph that
  first mentions it or in graphs nested in it after that first mention (DESIGN, C15 **P**);
* `(allNodes t.body).Nodup` — a node object occurs once in the tree.
`allScopes w.inits t.tr []` lists, for every graph under `t`, the values recorded in enclosing
scopes before the graph was entered followed by the graph's own values (inputs, outputs,
initializers, node inputs and outputs); `allNodeScopes t.tr` lists every graph's nodes. -/

/-- **C15_namefix_call_total**: on a world whose initializers are keyed by their names the call never
raises — whatever the scoping — and keeps the dictionaries keyed by names. -/
theorem C15_namefix_call_total (w : World) (t : Top) (hok : InitsOk w) (hcl : Closed w.initOf t) :
    (fixTop w t).raised = false ∧ InitsOk (fixTop w t).toWorld :=
  ⟨(fixTop_TInv hok hcl).nr, (fixTop_TInv hok hcl).ok⟩

/-- **C15_namefix_call_post**: after the call
(1) every value visible in any graph has a non-empty name, and the names are pairwise different
    within every graph and different from the names recorded in enclosing scopes on entry;
(2) every node has a non-empty name, pairwise different within every graph;
(3) every initializer dictionary is keyed by the current names (`InitsOk`);
(4) nothing but names changed as far as the model can tell: the `is_initializer`/graph links are
    the same, every dictionary holds the same values, and values the call cannot meet keep their
    names (graph structure, node inputs/outputs etc. are not outputs of the model at all: the tree
    `t` is read-only). -/
theorem C15_namefix_call_post (w : World) (t : Top) (hok : InitsOk w) (hcl : Closed w.initOf t)
    (hsc : scopedB w.inits t.tr [] [] = true) (hnd : (allNodes t.body).Nodup) :
    (∀ L ∈ allScopes w.inits t.tr [], InjT (fixTop w t).vname L)
    ∧ (∀ L ∈ allNodeScopes t.tr, InjT (fixTop w t).nname L)
    ∧ InitsOk (fixTop w t).toWorld
    ∧ (fixTop w t).initOf = w.initOf
    ∧ (∀ g u, u ∈ (fixTop w t).toWorld.inits g ↔ u ∈ w.inits g)
    ∧ (∀ u, u ∉ mentioned t.tr → (∀ g ∈ graphsOf t.tr, w.initOf u ≠ some g) → (fixTop w t).vname u = w.vname u)
    ∧ (∀ m, m ∉ allNodes t.body → (fixTop w t).nname m = w.nname m) := by
  have inv := fixTop_TInv hok hcl
  have hiv : ∀ g u, u ∈ w.inits g ↔ w.initOf u = some g := fun g u => hok.mem_iff g u
  have sc := fixTop_scopes hok hcl w.inits hiv hsc
  have nd := fixTop_nodes inv.nr hnd
  refine ⟨fun L hL => ⟨(sc L hL).inj, fun a ha => ((sc L hL).seen a ha).2⟩,
    fun L hL => ⟨(nd.1 L hL).inj, (nd.1 L hL).named⟩, inv.ok, inv.io, ?_, ?_, nd.2⟩
  · intro g u
    show u ∈ ((fixTop w t).dicts g).map (·.2) ↔ _
    rw [inv.ok.mem_iff g u, inv.io, hiv g u]; rfl
  · intro u h1 h2
    refine inv.outside u ?_
    rintro (h | ⟨g, hg, h⟩)
    · exact h1 h
    · exact h2 g hg h

/-- **C15_namefix_call_keeps_unique**: a value whose name was non-empty and different from the names
of all other values visible together with it (any list of `allScopes` that contains it) keeps its
name; a node whose name was non-empty and unique among the nodes of its graph keeps its name.
(False before the fix of D31: `t, t, t_1`.) -/
theorem C15_namefix_call_keeps_unique (w : World) (t : Top) (hok : InitsOk w) (hcl : Closed w.initOf t)
    (hsc : scopedB w.inits t.tr [] [] = true) (hnd : (allNodes t.body).Nodup) :
    (∀ L ∈ allScopes w.inits t.tr [], ∀ v ∈ L, truthy (w.vname v) = true →
        (∀ u ∈ L, u ≠ v → w.vname u ≠ w.vname v) → (fixTop w t).vname v = w.vname v)
    ∧ (∀ L ∈ allNodeScopes t.tr, ∀ n ∈ L, truthy (w.nname n) = true →
        (∀ m ∈ L, m ≠ n → w.nname m ≠ w.nname n) → (fixTop w t).nname n = w.nname n) := by
  have inv := fixTop_TInv hok hcl
  have hiv : ∀ g u, u ∈ w.inits g ↔ w.initOf u = some g := fun g u => hok.mem_iff g u
  exact ⟨fun L hL v hv h1 h2 => (fixTop_scopes hok hcl w.inits hiv hsc L hL).kept v hv h1 h2,
    fun L hL n hn h1 h2 => ((fixTop_nodes inv.nr hnd).1 L hL).kept n hn h1 h2⟩

/-- **C15_namefix_call_idempotent**: running the call again on its own result changes no name and no
dictionary, reports `modified = False` and does not raise. -/
theorem C15_namefix_call_idempotent (w : World) (t : Top) (hok : InitsOk w) (hcl : Closed w.initOf t)
    (hsc : scopedB w.inits t.tr [] [] = true) (hnd : (allNodes t.body).Nodup) :
    (fixTop (fixTop w t).toWorld t).toWorld = (fixTop w t).toWorld
    ∧ (fixTop (fixTop w t).toWorld t).modified = false
    ∧ (fixTop (fixTop w t).toWorld t).raised = false := by
  obtain ⟨p1, p2, _, _, p5, _⟩ := C15_namefix_call_post w t hok hcl hsc hnd
  exact fixTop_stable w.inits (fun g u => p5 g u) hsc p1 hnd p2


/-! ## Part B' — the whole pass (`NameFixPass.call` = `fixModel`: main graph, then every function) -/

/-- what the pass-level theorems assume about the model: initializers keyed by names; every
top-level graph closed, well scoped, without repeated node objects; top-level graphs share
neither values nor nodes -/
structure PassWF (w : World) (tops : List Top) : Prop where
  inits : InitsOk w
  each : ∀ t ∈ tops, Closed w.initOf t ∧ scopedB w.inits t.tr [] [] = true ∧ (allNodes t.body).Nodup
  disj : tops.Pairwise (TopDisj w.initOf)

/-- **C15_namefix_total**: the pass never raises on a model whose initializers are keyed by their
names and are not shared between top-level graphs — whatever the names and whatever the scoping
(false before the fix of D30) — and the dictionaries stay keyed by the names. -/
theorem C15_namefix_total (w : World) (tops : List Top) (hok : InitsOk w) (hcl : ∀ t ∈ tops, Closed w.initOf t) :
    (fixModel w tops).2.2 = false ∧ InitsOk (fixModel w tops).1 ∧ (fixModel w tops).1.initOf = w.initOf :=
  fixModel_total tops w hok hcl

/-- **C15_namefix_post**: after the pass, for every top-level graph and every graph nested in it:
all visible values have non-empty, pairwise different names (within the graph and against the
names recorded in enclosing scopes on entry); all nodes have non-empty names, pairwise different
per graph; initializer dictionaries are keyed by the current names; `is_initializer`/graph links
and the value sets of the dictionaries are unchanged; names of values and nodes the pass cannot
reach are unchanged. -/
theorem C15_namefix_post (w : World) (tops : List Top) (wf : PassWF w tops) :
    (∀ t ∈ tops, (∀ L ∈ allScopes w.inits t.tr [], InjT (fixModel w tops).1.vname L)
                ∧ (∀ L ∈ allNodeScopes t.tr, InjT (fixModel w tops).1.nname L))
    ∧ (fixModel w tops).2.2 = false
    ∧ InitsOk (fixModel w tops).1
    ∧ (fixModel w tops).1.initOf = w.initOf
    ∧ (∀ g u, u ∈ (fixModel w tops).1.inits g ↔ u ∈ w.inits g)
    ∧ (∀ u, (∀ t ∈ tops, ¬ TopC w.initOf t u) → (fixModel w tops).1.vname u = w.vname u)
    ∧ (∀ m, (∀ t ∈ tops, m ∉ allNodes t.body) → (fixModel w tops).1.nname m = w.nname m) := by
  have hiv : ∀ g u, u ∈ w.inits g ↔ w.initOf u = some g := fun g u => wf.inits.mem_iff g u
  obtain ⟨t1, t2, t3⟩ := fixModel_total tops w wf.inits (fun t ht => (wf.each t ht).1)
  obtain ⟨f1, f2⟩ := fixModel_frame tops w wf.inits (fun t ht => ⟨(wf.each t ht).1, (wf.each t ht).2.2⟩)
  refine ⟨fun t ht => ?_, t1, t2, t3, ?_, f1, f2⟩
  · have := fixModel_post w.inits tops w wf.inits hiv wf.each wf.disj t ht
    exact ⟨fun L hL => (this.1 L hL).1, fun L hL => (this.2 L hL).1⟩
  · intro g u
    show u ∈ ((fixModel w tops).1.dicts g).map (·.2) ↔ _
    rw [t2.mem_iff g u, t3, hiv g u]

/-- **C15_namefix_keeps_unique**: a value whose name was non-empty and different from the names of
all other values visible together with it keeps its name through the whole pass; likewise a node
whose name was non-empty and unique among the nodes of its graph. (False before the fix of D31.) -/
theorem C15_namefix_keeps_unique (w : World) (tops : List Top) (wf : PassWF w tops) :
    ∀ t ∈ tops, (∀ L ∈ allScopes w.inits t.tr [], KeptOn w.vname (fixModel w tops).1.vname L)
              ∧ (∀ L ∈ allNodeScopes t.tr, KeptOn w.nname (fixModel w tops).1.nname L) := by
  have hiv : ∀ g u, u ∈ w.inits g ↔ w.initOf u = some g := fun g u => wf.inits.mem_iff g u
  intro t ht
  have := fixModel_post w.inits tops w wf.inits hiv wf.each wf.disj t ht
  exact ⟨fun L hL => (this.1 L hL).2, fun L hL => (this.2 L hL).2⟩

/-- a model in which every top-level graph already satisfies the postcondition is a fixed point -/
theorem fixModel_stable (iv : Nat → List Nat) (w : World) (hiv : ∀ g u, u ∈ (w.dicts g).map (·.2) ↔ u ∈ iv g) :
    ∀ (tops : List Top), (∀ t ∈ tops, scopedB iv t.tr [] [] = true ∧ (allNodes t.body).Nodup
        ∧ (∀ L ∈ allScopes iv t.tr [], InjT w.vname L) ∧ (∀ L ∈ allNodeScopes t.tr, InjT w.nname L)) →
      fixModel w tops = (w, false, false)
  | [], _ => rfl
  | t :: ts, h => by
    obtain ⟨a, b, c, d⟩ := h t List.mem_cons_self
    obtain ⟨e1, e2, e3⟩ := fixTop_stable iv hiv a c b d
    rw [fixModel_cons e3, e1, e2, fixModel_stable iv w hiv ts (fun t' ht' => h t' (List.mem_cons_of_mem _ ht'))]
    rfl

/-- **C15_namefix_idempotent**: running the pass on its own result changes nothing, reports
`modified = False` and does not raise. -/
theorem C15_namefix_idempotent (w : World) (tops : List Top) (wf : PassWF w tops) :
    fixModel (fixModel w tops).1 tops = ((fixModel w tops).1, false, false) := by
  obtain ⟨p1, _, _, _, p5, _⟩ := C15_namefix_post w tops wf
  exact fixModel_stable w.inits _ (fun g u => p5 g u) tops
    (fun t ht => ⟨(wf.each t ht).2.1, (wf.each t ht).2.2, (p1 t ht).1, (p1 t ht).2⟩)

/-- **C15_scoped_of_well_owned**: the scoping hypothesis of the theorems above follows from a
declarative *ownership rule* that does not mention traversal order: every value a node mentions is
owned (as input, output, initializer or node output) by the node's graph or by an enclosing graph,
and different graphs own different values.  In particular unsorted graphs, forward references and
forward captures (a subgraph using a value that an enclosing graph defines *later*) are covered. -/
theorem C15_scoped_of_well_owned (iv : Nat → List Nat) (t : Top) (hw : wellOwnedB iv t.tr [] = true)
    (hd : (ownedLists iv t.tr).Pairwise DisjointL) : scopedB iv t.tr [] [] = true :=
  (scoped_of_wellOwned iv t.tr [] [] [] (fun _ h => h) (fun _ h => h) hw (fun _ _ _ _ h => by simp at h) hd).1

/-- **C15_first_holder_keeps**: which of several values (nodes) carrying the same name keeps it.  Every list `L`
of `allScopes` (values visible together) and of `allNodeScopes` (the nodes of one graph) is in the order in which
NameFixPass visits its members (initializers of one graph never share a name, so their mutual order is
immaterial).  Split `L` at any occurrence of `v`, `L = A ++ v :: B`, where `v` has a non-empty name:
(1) if no member in front of `v` carried that name, `v` keeps it — the *first* holder is never renamed, whatever
comes later; (2) if a member in front of `v` carried it (and this is `v`'s first occurrence), `v` is renamed.
Together with `C15_namefix_keeps_unique` and `C15_namefix_post` this pins exactly which names change: those of
unnamed objects and of every holder of a name but the first. -/
theorem C15_first_holder_keeps (w : World) (tops : List Top) (wf : PassWF w tops) :
    ∀ t ∈ tops,
      (∀ L ∈ allScopes w.inits t.tr [], ∀ A v B, L = A ++ v :: B → truthy (w.vname v) = true →
          ((∀ u ∈ A, w.vname u ≠ w.vname v) → (fixModel w tops).1.vname v = w.vname v)
          ∧ (v ∉ A → (∃ u ∈ A, w.vname u = w.vname v) → (fixModel w tops).1.vname v ≠ w.vname v))
      ∧ (∀ L ∈ allNodeScopes t.tr, ∀ A n B, L = A ++ n :: B → truthy (w.nname n) = true →
          ((∀ m ∈ A, w.nname m ≠ w.nname n) → (fixModel w tops).1.nname n = w.nname n)
          ∧ (n ∉ A → (∃ m ∈ A, w.nname m = w.nname n) → (fixModel w tops).1.nname n ≠ w.nname n)) := by
  have hiv : ∀ g u, u ∈ w.inits g ↔ w.initOf u = some g := fun g u => wf.inits.mem_iff g u
  intro t ht
  have hf := fixModel_first w.inits tops w wf.inits hiv wf.each wf.disj t ht
  have hp := fixModel_post w.inits tops w wf.inits hiv wf.each wf.disj t ht
  exact ⟨fun L hL A v B e h1 => first_exact (hf.1 L hL) (hp.1 L hL).1.inj A v B e h1,
    fun L hL A n B e h1 => first_exact (hf.2 L hL) (hp.2 L hL).1.inj A n B e h1⟩

/-- **C15_namefix_call_first_holder_keeps**: the same for one `_fix_graph_names` call. -/
theorem C15_namefix_call_first_holder_keeps (w : World) (t : Top) (hok : InitsOk w) (hcl : Closed w.initOf t)
    (hsc : scopedB w.inits t.tr [] [] = true) (hnd : (allNodes t.body).Nodup) :
    (∀ L ∈ allScopes w.inits t.tr [], ∀ A v B, L = A ++ v :: B → truthy (w.vname v) = true →
        ((∀ u ∈ A, w.vname u ≠ w.vname v) → (fixTop w t).vname v = w.vname v)
        ∧ (v ∉ A → (∃ u ∈ A, w.vname u = w.vname v) → (fixTop w t).vname v ≠ w.vname v))
    ∧ (∀ L ∈ allNodeScopes t.tr, ∀ A n B, L = A ++ n :: B → truthy (w.nname n) = true →
        ((∀ m ∈ A, w.nname m ≠ w.nname n) → (fixTop w t).nname n = w.nname n)
        ∧ (n ∉ A → (∃ m ∈ A, w.nname m = w.nname n) → (fixTop w t).nname n ≠ w.nname n)) := by
  have inv := fixTop_TInv hok hcl
  have hiv : ∀ g u, u ∈ w.inits g ↔ w.initOf u = some g := fun g u => hok.mem_iff g u
  have sc := fixTop_scopes hok hcl w.inits hiv hsc
  have nd := fixTop_nodes inv.nr hnd
  exact ⟨fun L hL A v B e h1 => first_exact (sc L hL).first (sc L hL).inj A v B e h1,
    fun L hL A n B e h1 => first_exact (nd.1 L hL).first (nd.1 L hL).inj A n B e h1⟩

/-- first holder: `t, t, t_1, t` — the first `t` stays, the later ones move past the reserved `t_1` -/
example : ((List.range 4).map (fixModel
      { vname := fun i => if i = 2 then some "t_1" else some "t", nname := fun _ => none, initOf := fun _ => none, dicts := fun _ => [] }
      [{ gid := 0, isGraph := true, ins := [], outs := [],
         body := .node 0 [] [0] .nil (.node 1 [] [1] .nil (.node 2 [] [2] .nil (.node 3 [] [3] .nil .nil))) }]).1.vname)
    = [some "t", some "t_2", some "t_1", some "t_3"] := by decide

/-! ## Part C — `convenience.rename_values` (with the backing tensors) -/

/-- **C15_rename_values_atomic**: for *every* assignment (repeated values, swaps, cycles,
initializers of several graphs, empty targets, targets colliding with initializers inside or
outside the renamed set, backing tensors shared between values, tensors that refuse a name) on a
world whose initializers are keyed by their names, the call either raises and leaves the world —
names, dictionaries *and tensor names* (the rollback) — exactly as it was, or it does not raise and
then the assignment is applied completely: every listed value has its target name, no other value
changed its name, node names and `is_initializer()`/graph links are untouched, every initializer
dictionary holds the same values and is keyed by the current names, a backing tensor carries the
target of the values it backs (when they agree) and all other tensors keep their names. -/
theorem C15_rename_values_atomic (w : TWorld) (pairs : List (Nat × String)) (hok : InitsOk w.toWorld) :
    ((renameValuesT w pairs).2 = true → (renameValuesT w pairs).1 = w)
    ∧ ((renameValuesT w pairs).2 = false →
        (∀ p ∈ pairs, (renameValuesT w pairs).1.vname p.1 = some p.2)
        ∧ (∀ u, u ∉ pairs.map (·.1) → (renameValuesT w pairs).1.vname u = w.vname u)
        ∧ (renameValuesT w pairs).1.nname = w.nname
        ∧ (renameValuesT w pairs).1.initOf = w.initOf
        ∧ InitsOk (renameValuesT w pairs).1.toWorld
        ∧ (∀ g u, u ∈ (renameValuesT w pairs).1.toWorld.inits g ↔ u ∈ w.toWorld.inits g)
        ∧ (renameValuesT w pairs).1.constOf = w.constOf
        ∧ (∀ p ∈ pairs, ∀ t, renTensor w p = some t → (∀ q ∈ pairs, renTensor w q = some t → q.2 = p.2) →
              (renameValuesT w pairs).1.tname t = some p.2)
        ∧ (∀ t, (∀ q ∈ pairs, renTensor w q ≠ some t) → (renameValuesT w pairs).1.tname t = w.tname t)) :=
  renameValuesT_spec w pairs hok

/-- **C15_rename_values_succeeds**: the call does *not* raise (so, by `C15_rename_values_atomic`,
it applies the whole assignment) whenever no value is given two different targets, initializers
get non-empty targets that are pairwise different within their graph and are not held by an
initializer outside the renamed set, and no backing tensor refuses its new name.  Every swap,
cycle or other permutation of the names of a set of values — initializers included — satisfies
these conditions. -/
theorem C15_rename_values_succeeds (w : TWorld) (pairs : List (Nat × String)) (hok : InitsOk w.toWorld)
    (hcons : ∀ p ∈ pairs, ∀ q ∈ pairs, p.1 = q.1 → p.2 = q.2)
    (hne : ∀ p ∈ pairs, w.initOf p.1 ≠ none → p.2 ≠ "")
    (hdist : ∀ p ∈ pairs, ∀ q ∈ pairs, w.initOf p.1 ≠ none → w.initOf p.1 = w.initOf q.1 → p.2 = q.2 → p.1 = q.1)
    (hout : ∀ p ∈ pairs, ∀ g, w.initOf p.1 = some g → ∀ u, (p.2, u) ∈ w.dicts g → u ∈ pairs.map (·.1))
    (hfz : ∀ p ∈ pairs, ∀ t, renTensor w p = some t → w.frozen t = false) :
    (renameValuesT w pairs).2 = false :=
  renameValuesT_succeeds w pairs hok hcons hne hdist hout hfz

/-! ## non-vacuity of the hypotheses of parts B and C -/

/-- the D30 witness: output `w`, initializers `w`, `w_1` of graph 0 -/
def exW : World :=
  { vname := fun i => if i = 0 then some "w" else if i = 1 then some "w" else if i = 2 then some "w_1" else none
    nname := fun i => if i = 0 then some "a" else none
    initOf := fun i => if i = 1 then some 0 else if i = 2 then some 0 else none
    dicts := fun g => if g = 0 then [("w", 1), ("w_1", 2)] else [] }

def exT : Top := { gid := 0, isGraph := true, ins := [], outs := [0], body := .node 0 [] [0] .nil .nil }

theorem exW_ok : InitsOk exW := by
  refine ⟨?_, ?_, ?_⟩
  · intro g k v h
    by_cases hg : g = 0
    · subst hg
      simp only [exW, if_true, List.mem_cons, Prod.mk.injEq, List.not_mem_nil, or_false] at h
      rcases h with ⟨rfl, rfl⟩ | ⟨rfl, rfl⟩ <;> simp [exW]
    · simp [exW, hg] at h
  · intro g
    by_cases hg : g = 0
    · subst hg; simp [exW]
    · simp [exW, hg]
  · intro v g h
    simp only [exW] at h
    split at h
    · rename_i hv; subst hv; cases h; exact ⟨"w", by simp [exW]⟩
    · split at h
      · rename_i hv; subst hv; cases h; exact ⟨"w_1", by simp [exW]⟩
      · cases h

/-- `PassWF` is satisfiable, by a model on which the pass has work to do -/
theorem exWF : PassWF exW [exT] := by
  refine ⟨exW_ok, ?_, by simp⟩
  intro t ht
  simp only [List.mem_singleton] at ht
  subst ht
  refine ⟨?_, by decide, by decide⟩
  intro v hv g hg
  simp [exT, Top.tr, mentioned, nodeVals] at hv
  subst hv
  simp [exW] at hg

/-- ... the initializer `w` is renamed past the not-yet-visited `w_1` (D30), and re-keyed -/
example : (fixModel exW [exT]).1.vname 1 = some "w_2" ∧ (fixModel exW [exT]).1.vname 2 = some "w_1"
    ∧ (fixModel exW [exT]).1.dicts 0 = [("w_1", 2), ("w_2", 1)] ∧ (fixModel exW [exT]).2 = (true, false) := by
  decide

/-- the D31 witness `t, t, t_1` (values) and `n, n, n_1` (nodes) in one graph, plus a function
whose subgraph captures an outer value: the unique names `t_1` / `n_1` are kept -/
def exW2 : World :=
  { vname := fun i => if i = 0 then some "t" else if i = 1 then some "t" else if i = 2 then some "t_1"
                      else if i = 3 then some "t" else if i = 4 then none else none
    nname := fun i => if i = 0 then some "n" else if i = 1 then some "n" else if i = 2 then some "n_1" else none
    initOf := fun _ => none
    dicts := fun _ => [] }

def exT2 : Top := { gid := 0, isGraph := true, ins := [], outs := [],
                    body := .node 0 [] [0] .nil (.node 1 [] [1] .nil (.node 2 [] [2] .nil .nil)) }
/-- function `f(x3)`: node 3 holds a subgraph whose node 4 reads `x3` and produces the unnamed `v4` -/
def exT3 : Top := { gid := 1, isGraph := false, ins := [3], outs := [],
                    body := .node 3 [some 3] [] (.graph 2 true [] [4] (.node 4 [some 3] [4] .nil .nil) .nil) .nil }

theorem exWF2 : PassWF exW2 [exT2, exT3] := by
  refine ⟨⟨fun g k v h => by simp [exW2] at h, fun g => by simp [exW2], fun v g h => by simp [exW2] at h⟩, ?_, ?_⟩
  · intro t ht
    simp only [List.mem_cons, List.not_mem_nil, or_false] at ht
    rcases ht with rfl | rfl
    · exact ⟨fun v _ g hg => by simp [exW2] at hg, by decide, by decide⟩
    · exact ⟨fun v _ g hg => by simp [exW2] at hg, by decide, by decide⟩
  · simp only [List.pairwise_cons, List.mem_singleton, forall_eq, List.not_mem_nil, false_imp_iff, implies_true,
      List.Pairwise.nil, and_true]
    refine ⟨?_, by decide⟩
    intro u h1 h2
    rcases h1 with h1 | ⟨g, _, hg⟩
    · rcases h2 with h2 | ⟨g, _, hg⟩
      · have a : u ∈ [0, 1, 2] := by simpa [exT2, Top.tr, mentioned, nodeVals] using h1
        have b : u = 3 ∨ u = 4 ∨ u = 3 ∨ u = 4 := by simpa [exT3, Top.tr, mentioned, nodeVals] using h2
        simp only [List.mem_cons, List.not_mem_nil, or_false] at a
        omega
      · simp [exW2] at hg
    · simp [exW2] at hg

example : ((List.range 5).map (fixModel exW2 [exT2, exT3]).1.vname)
      = [some "t", some "t_2", some "t_1", some "t", some "v"]
    ∧ ((List.range 5).map (fixModel exW2 [exT2, exT3]).1.nname)
      = [some "n", some "n_2", some "n_1", some "node", some "node"] := by
  decide

/-- the D30 world with tensors: values 1 and 2 share tensor 0 ("w"), tensor 1 refuses names -/
def exTW : TWorld :=
  { toWorld := exW
    constOf := fun v => if v = 1 then some 0 else if v = 2 then some 0 else if v = 0 then some 1 else none
    tname := fun t => if t = 0 then some "w" else if t = 1 then some "frozen" else none
    frozen := fun t => t = 1 }

/-- `rename_values`: a swap of two initializers goes through (the shared tensor ends with the
last target); a target held by an initializer outside the renamed set is rejected with nothing
changed; a refusing tensor makes the call raise *after* tensor 0 was renamed, and the rollback
restores it -/
example : (renameValuesT exTW [(1, "w_1"), (2, "w")]).2 = false
    ∧ (renameValuesT exTW [(1, "w_1"), (2, "w")]).1.dicts 0 = [("w_1", 1), ("w", 2)]
    ∧ (renameValuesT exTW [(1, "w_1"), (2, "w")]).1.tname 0 = some "w"
    ∧ (renameValuesT exTW [(0, "z"), (1, "w_1")]).2 = true
    ∧ (renameValuesT exTW [(1, "q"), (0, "z")]).2 = true
    ∧ (renameValuesT exTW [(1, "q"), (0, "z")]).1.tname 0 = some "w" := by
  decide

/-- the hypotheses of `C15_rename_values_succeeds` hold for the swap -/
example : (∀ p ∈ [(1, "w_1"), (2, "w")], ∀ t, renTensor exTW p = some t → exTW.frozen t = false) := by decide

/-- forward capture (D221): main graph `[A{body: I(x)}, B -> x, C -> x]`: the subgraph of `A` uses
`B`'s output, defined later; the model is well scoped for the fixed traversal and `C`'s output is
renamed -/
def exW4 : World :=
  { vname := fun i => if i = 0 then some "a" else if i = 1 then some "x" else if i = 2 then some "x"
                      else if i = 3 then some "i" else none
    nname := fun i => if i = 0 then some "A" else if i = 1 then some "B" else if i = 2 then some "C"
                      else if i = 3 then some "I" else none
    initOf := fun _ => none
    dicts := fun _ => [] }
def exBody4 : Tr :=
  .node 0 [] [0] (.graph 1 true [] [3] (.node 3 [some 1] [3] .nil .nil) .nil)
    (.node 1 [] [1] .nil (.node 2 [] [2] .nil .nil))
def exT4 : Top := { gid := 0, isGraph := true, ins := [], outs := [], body := exBody4 }
example : scopedB exW4.inits exT4.tr [] [] = true
    ∧ ((List.range 4).map (fixModel exW4 [exT4]).1.vname) = [some "a", some "x", some "x_1", some "i"] := by
  decide

/-! ## Part B+ — NameFixPass with an arbitrary name generator and with backing tensors (`fixModelX`)

`fixModelX gen w [] tops` is the pass run with the generator `gen` on a world with tensors (`constOf`, `tname`,
`frozen` = the tensor refuses a new name).  The theorems of this part hold for **every** generator, every
scoping and **every outcome** — also when the pass stops in the middle with an exception (a refusing tensor, an
empty generated name for an initializer, a constant generator on an ill-scoped model).  The postcondition
theorems of part B / B' apply to `fixModelX` through `C15_gen_refines_default`. -/

/-- **C15_gen_step_fresh**: whatever base name `p` a generator answers, the name
`_find_and_record_next_unique_name` derives from it is neither in the used set nor reserved (the loop terminates
for every `p`: `C15_loop_terminates`), and it is empty exactly when the generator answered the empty string and
the empty string is not taken.  So "the generator never answers the empty string" is the one hypothesis on a
generator that "every object gets a non-empty name" needs, and it is necessary (`C15_gen_nonempty_necessary`);
no hypothesis is needed for termination or freshness — a constant generator gives `c, c_1, c_2, …`. -/
theorem C15_gen_step_fresh (p : String) (used res : List String) (c : Nat) :
    (findUnique p used res c).1 ∉ used ∧ (findUnique p used res c).1 ∉ res
    ∧ ((findUnique p used res c).1 = "" ↔ (p = "" ∧ "" ∉ used ∧ "" ∉ res)) := by
  obtain ⟨h1, h2, h3⟩ := findUnique_spec p used res c
  refine ⟨h1, h2, ?_⟩
  rcases h3 with ⟨e, a, b⟩ | ⟨k, _, e, hin⟩
  · rw [e]
    constructor
    · intro h; subst h; exact ⟨rfl, a, b⟩
    · exact fun h => h.1
  · rw [e]
    constructor
    · intro h; exact absurd h (sufName_ne_empty p k)
    · rintro ⟨rfl, a, b⟩; exact absurd hin (by simp [a, b])

/-- **C15_gen_ikey_preserved**: the initializer-key invariant is *preserved* by the pass — for every generator,
every scoping, with or without refusing tensors, whether or not the pass raises: if every initializer dictionary
is keyed by the current non-empty names on entry (the only place `InitsOk` is assumed) then so it is on exit,
every value is an initializer of the same graph as before, every dictionary holds the same values, and the
value-to-tensor links are untouched. -/
theorem C15_gen_ikey_preserved (gen : NameGen) (w : TWorld) (tops : List Top) (hok : InitsOk w.toWorld) :
    InitsOk (fixModelX gen w [] tops).w.toWorld
    ∧ (fixModelX gen w [] tops).w.initOf = w.initOf
    ∧ (∀ g u, u ∈ (fixModelX gen w [] tops).w.toWorld.inits g ↔ u ∈ w.toWorld.inits g)
    ∧ (fixModelX gen w [] tops).w.constOf = w.constOf
    ∧ (fixModelX gen w [] tops).w.frozen = w.frozen := by
  obtain ⟨h1, h2, h3, h4⟩ := fixModelX_inv (KeyInv.step gen w) tops w [] ⟨hok, rfl, rfl, rfl⟩
  refine ⟨h1, h2, ?_, h3, h4⟩
  intro g u
  show u ∈ ((fixModelX gen w [] tops).w.dicts g).map (·.2) ↔ u ∈ (w.dicts g).map (·.2)
  rw [h1.mem_iff g u, hok.mem_iff g u]
  show (fixModelX gen w [] tops).w.initOf u = some g ↔ _
  rw [h2]

/-- **C15_gen_tensor_follows**: the write-through of `Value.name` to the backing tensor, through the whole pass,
for every generator and every outcome: each tensor either is untouched together with the names of all values it
backs, or carries the current name of one of the values it backs; hence a tensor that backs a single value and
carried that value's name on entry carries the value's name on exit (also after a partial run). -/
theorem C15_gen_tensor_follows (gen : NameGen) (w : TWorld) (tops : List Top) (hok : InitsOk w.toWorld) :
    (∀ t, ((fixModelX gen w [] tops).w.tname t = w.tname t
            ∧ ∀ v, w.constOf v = some t → (fixModelX gen w [] tops).w.vname v = w.vname v)
          ∨ ∃ v, w.constOf v = some t ∧ (fixModelX gen w [] tops).w.tname t = (fixModelX gen w [] tops).w.vname v)
    ∧ (∀ v t, w.constOf v = some t → (∀ u, w.constOf u = some t → u = v) → w.tname t = w.vname v →
        (fixModelX gen w [] tops).w.tname t = (fixModelX gen w [] tops).w.vname v) := by
  obtain ⟨⟨_, h⟩, _⟩ := fixModelX_inv (Q := fun x => TensorInv w x ∧ InitsOk x.toWorld) (TensorInv.step gen w) tops w []
    ⟨TensorInv.refl w, hok⟩
  refine ⟨h, ?_⟩
  intro v t hv huniq hsync
  rcases h t with ⟨a, b⟩ | ⟨u, hu, e⟩
  · rw [a, hsync, b v hv]
  · rw [e, huniq u hu]

/-- **C15_gen_refines_default**: with the default `SimpleNameGenerator` and no refusing tensor the general model
is the model of parts B / B' (so every theorem about `fixModel` is a theorem about `fixModelX simpleGen`). -/
theorem C15_gen_refines_default (w : TWorld) (tops : List Top) (hf : ∀ t, w.frozen t = false) :
    (fixModelX simpleGen w [] tops).w.toWorld = (fixModel w.toWorld tops).1
    ∧ (fixModelX simpleGen w [] tops).modified = (fixModel w.toWorld tops).2.1
    ∧ (fixModelX simpleGen w [] tops).raised = (fixModel w.toWorld tops).2.2 :=
  fixModelX_sim tops w [] (fun _ t _ => hf t)

/-- the constant generator `"c"` and the generator that answers the empty string -/
def constGen (c : String) : NameGen := { v := fun _ _ => c, n := fun _ _ => c }

def twOf (w : World) : TWorld := { toWorld := w, constOf := fun _ => none, tname := fun _ => none, frozen := fun _ => false }

/-- **C15_gen_nonempty_necessary**: the hypothesis "the generator never answers the empty string" cannot be
dropped: on the D31 world (`t, t, t_1, t` + the unnamed value 4 of the function) the generator that answers `""`
leaves value 4 and nodes 3, 4 … with the empty name without raising; on the D30 world (an initializer that must be
renamed) the setter's guard raises.  A *constant* generator is fine: `t, c, t_1, …` then `c_1`. -/
theorem C15_gen_nonempty_necessary :
    (fixModelX (constGen "") (twOf exW2) [] [exT2, exT3]).raised = false
    ∧ (fixModelX (constGen "") (twOf exW2) [] [exT2, exT3]).w.vname 4 = some ""
    ∧ (fixModelX (constGen "") (twOf exW) [] [exT]).raised = true
    ∧ ((List.range 5).map (fixModelX (constGen "c") (twOf exW2) [] [exT2, exT3]).w.vname)
        = [some "t", some "c", some "t_1", some "t", some "c"]
    ∧ ((List.range 5).map (fixModelX (constGen "c") (twOf exW2) [] [exT2, exT3]).w.nname)
        = [some "n", some "c", some "n_1", some "c", some "c"] := by
  decide

/-- two sibling subgraphs `1`, `2` of node 0; graph 2 has the initializers `k1` (value 1) and `k2` (value 2) and an
input named `k2`; graph 1 uses value 1 next to its own `k1` (ill-scoped) -/
def exWX : World :=
  { vname := fun i => if i = 0 then some "k1" else if i = 1 then some "k1" else if i = 2 then some "k2"
                      else if i = 3 then some "k2" else if i = 4 then some "o" else none
    nname := fun i => if i = 0 then some "A" else if i = 1 then some "I1" else if i = 2 then some "I2" else none
    initOf := fun i => if i = 1 then some 2 else if i = 2 then some 2 else none
    dicts := fun g => if g = 2 then [("k1", 1), ("k2", 2)] else [] }
def exTX : Top :=
  { gid := 0, isGraph := true, ins := [], outs := [],
    body := .node 0 [] [4] (.graph 1 true [] [] (.node 1 [some 1] [0] .nil .nil)
                            (.graph 2 true [3] [] (.node 2 [] [] .nil .nil) .nil)) .nil }

/-- **C15_gen_total_needs_scoping**: `C15_namefix_total` (no exception whatever the scoping) is a property of the
default generator, whose `base_k` counters are global: a *constant* generator gives the bare name `c` to one
initializer in the scope of the first sibling and to the other in the scope of the second, and the setter's guard
raises — with the dictionaries still keyed by names (`C15_gen_ikey_preserved`). -/
theorem C15_gen_total_needs_scoping :
    scopedB exWX.inits exTX.tr [] [] = false
    ∧ (fixModelX simpleGen (twOf exWX) [] [exTX]).raised = false
    ∧ (fixModelX (constGen "c") (twOf exWX) [] [exTX]).raised = true
    ∧ (fixModelX (constGen "c") (twOf exWX) [] [exTX]).w.dicts 2 = [("k2", 2), ("c", 1)] := by
  decide

/-- the D30 world with value 1 backed by tensor 0 (named `w`); `fz` = the tensor refuses a new name -/
def exTWx (fz : Bool) : TWorld :=
  { toWorld := exW, constOf := fun v => if v = 1 then some 0 else none, tname := fun _ => some "w", frozen := fun _ => fz }

/-- a tensor that refuses its new name stops the pass in the middle: the value keeps its name and key (earlier
renames would stay); a willing tensor follows its value -/
example :
    (fixModelX simpleGen (exTWx true) [] [exT]).raised = true
    ∧ (fixModelX simpleGen (exTWx true) [] [exT]).w.dicts 0 = [("w", 1), ("w_1", 2)]
    ∧ (fixModelX simpleGen (exTWx true) [] [exT]).w.tname 0 = some "w"
    ∧ (fixModelX simpleGen (exTWx false) [] [exT]).raised = false
    ∧ (fixModelX simpleGen (exTWx false) [] [exT]).w.tname 0 = some "w_2" := by
  decide

/-! ## values owned by no graph / shared between sibling graphs (outside the scoping rule)

A value owned by no graph that is used in one graph only (and in graphs nested in it afterwards) satisfies
`scopedB`, so all theorems apply to it.  A value (owned by no graph, or by one of the siblings) that is used in two
*sibling* subgraphs does not: the pass records its name in the scope of the first sibling only, skips it in the
second (`seen_values`), and a value of the second sibling that carries the same name is not renamed. -/

/-- node 0 holds the sibling subgraphs 1 and 2; both use the free value 0 `x`; subgraph 2 also defines its own `x`
(value 2) -/
def exWS : World :=
  { vname := fun i => if i = 0 then some "x" else if i = 1 then some "a" else if i = 2 then some "x" else if i = 3 then some "o" else none
    nname := fun i => if i = 0 then some "A" else if i = 1 then some "I1" else if i = 2 then some "I2" else none
    initOf := fun _ => none
    dicts := fun _ => [] }
def exTS : Top :=
  { gid := 0, isGraph := true, ins := [], outs := [],
    body := .node 0 [] [3] (.graph 1 true [] [] (.node 1 [some 0] [1] .nil .nil)
                            (.graph 2 true [] [] (.node 2 [some 0] [2] .nil .nil) .nil)) .nil }
/-- the same with the free value used in subgraph 2 only -/
def exTS1 : Top :=
  { gid := 0, isGraph := true, ins := [], outs := [],
    body := .node 0 [] [3] (.graph 1 true [] [] (.node 1 [] [1] .nil .nil)
                            (.graph 2 true [] [] (.node 2 [some 0] [2] .nil .nil) .nil)) .nil }

/-- **C15_scoping_necessary**: the scoping hypothesis of `C15_namefix_post` cannot be dropped.  With the free value
`x` shared by two sibling subgraphs (`scopedB = false`) the pass does not raise and leaves the second sibling with
its own `x` next to the shared `x`; with the free value used in one subgraph only (`scopedB = true`) the two
get different names (the subgraph's own outputs are named first, so the free value moves to `x_1`). -/
theorem C15_scoping_necessary :
    scopedB exWS.inits exTS.tr [] [] = false
    ∧ (fixModel exWS [exTS]).2.2 = false
    ∧ (fixModel exWS [exTS]).1.vname 0 = some "x" ∧ (fixModel exWS [exTS]).1.vname 2 = some "x"
    ∧ scopedB exWS.inits exTS1.tr [] [] = true
    ∧ (fixModel exWS [exTS1]).1.vname 0 = some "x_1" ∧ (fixModel exWS [exTS1]).1.vname 2 = some "x" := by
  decide


/-! ## Part B+ continued — the full postcondition for an arbitrary generator; untouched objects; ill-scoped models -/

/-- **C15_gen_post**: the *full* postcondition of the pass for **every** `NameGenerator` that never answers the empty
string (necessary: `C15_gen_nonempty_necessary`), on a model that satisfies `PassWF` (initializers keyed by their
names, closed, **well scoped** — necessary for a custom generator even for "does not raise":
`C15_gen_total_needs_scoping` — node objects occurring once, top-level graphs disjoint) and in which no tensor that
backs a value refuses a new name: the pass does not raise; for every graph under every top-level graph the visible
values have pairwise different non-empty names (within the graph and against the names recorded in enclosing scopes
on entry), names that were unique are kept, and of several holders of a name exactly the first one (in visiting
order) keeps it; the same for the nodes of every graph; the initializer dictionaries are keyed by the current names
and hold the same values; objects the pass cannot reach keep their names.  With a custom generator the shape of a
generated name is arbitrary, so "the setter's guard never fires" is not a property of counters any more: the proof
carries the further invariant that every already-seen initializer of the graph of the value being named is visible
in the current scope (derived from `scopedB` of the part of the tree still to be walked), every unseen one still
carries its reserved name. -/
theorem C15_gen_post (gen : NameGen) (hgen : gen.NonEmpty) (w : TWorld) (tops : List Top) (wf : PassWF w.toWorld tops)
    (hfz : ∀ v t, w.constOf v = some t → w.frozen t = false) :
    (fixModelX gen w [] tops).raised = false
    ∧ (∀ t ∈ tops,
        (∀ L ∈ allScopes w.toWorld.inits t.tr [],
            InjT (fixModelX gen w [] tops).w.vname L ∧ KeptOn w.vname (fixModelX gen w [] tops).w.vname L
            ∧ ∀ A v B, L = A ++ v :: B → truthy (w.vname v) = true →
                ((∀ u ∈ A, w.vname u ≠ w.vname v) → (fixModelX gen w [] tops).w.vname v = w.vname v)
                ∧ (v ∉ A → (∃ u ∈ A, w.vname u = w.vname v) → (fixModelX gen w [] tops).w.vname v ≠ w.vname v))
        ∧ (∀ L ∈ allNodeScopes t.tr,
            InjT (fixModelX gen w [] tops).w.nname L ∧ KeptOn w.nname (fixModelX gen w [] tops).w.nname L
            ∧ ∀ A n B, L = A ++ n :: B → truthy (w.nname n) = true →
                ((∀ m ∈ A, w.nname m ≠ w.nname n) → (fixModelX gen w [] tops).w.nname n = w.nname n)
                ∧ (n ∉ A → (∃ m ∈ A, w.nname m = w.nname n) → (fixModelX gen w [] tops).w.nname n ≠ w.nname n)))
    ∧ InitsOk (fixModelX gen w [] tops).w.toWorld
    ∧ (fixModelX gen w [] tops).w.initOf = w.initOf
    ∧ (∀ g u, u ∈ (fixModelX gen w [] tops).w.toWorld.inits g ↔ u ∈ w.toWorld.inits g)
    ∧ (∀ u, (∀ t ∈ tops, ¬ TopC w.initOf t u) → (fixModelX gen w [] tops).w.vname u = w.vname u)
    ∧ (∀ m, (∀ t ∈ tops, m ∉ allNodes t.body) → (fixModelX gen w [] tops).w.nname m = w.nname m) := by
  have hiv : ∀ g u, u ∈ w.toWorld.inits g ↔ w.initOf u = some g := fun g u => wf.inits.mem_iff g u
  obtain ⟨r, fv, fn, per⟩ := fixModelX_post hgen w.toWorld.inits tops w [] wf.inits hfz hiv wf.each wf.disj
  obtain ⟨k1, k2, k3, _, _⟩ := C15_gen_ikey_preserved gen w tops wf.inits
  refine ⟨r, ?_, k1, k2, k3, fv, fn⟩
  intro t ht
  obtain ⟨pv, pn⟩ := per t ht
  exact ⟨fun L hL => ⟨(pv L hL).1, (pv L hL).2.1, fun A v B e h1 => first_exact (pv L hL).2.2 (pv L hL).1.inj A v B e h1⟩,
    fun L hL => ⟨(pn L hL).1, (pn L hL).2.1, fun A n B e h1 => first_exact (pn L hL).2.2 (pn L hL).1.inj A n B e h1⟩⟩

/-- the hypotheses of `C15_gen_post` are satisfiable by a generator other than the default one on a model on which
the pass has work to do (the D31 world with a function; results in `C15_gen_nonempty_necessary`) -/
theorem constGen_c_nonEmpty : (constGen "c").NonEmpty :=
  fun _ _ => ⟨by show "c" ≠ ""; decide, by show "c" ≠ ""; decide⟩
example : (fixModelX (constGen "c") (twOf exW2) [] [exT2, exT3]).raised = false :=
  (C15_gen_post (constGen "c") constGen_c_nonEmpty (twOf exW2) [exT2, exT3] exWF2 (fun _ _ h => by simp [twOf] at h)).1
/-- `NonEmpty` is a real restriction -/
example : ¬ (constGen "").NonEmpty := fun h => (h 0 none).1 rfl

/-- **C15_gen_untouched**: what the pass does *not* touch, for every generator, every scoping and every outcome
(also the exceptional exit).  `glog` is the log of generator calls (`(false, v)` = `generate_value_name(v)`,
`(true, n)` = `generate_node_name(n)`); a name is only ever assigned after the generator was asked.  A value (node)
the generator was never asked about keeps its name, and **a tensor none of whose values was handed to the generator
keeps its name** (the write-through of `Value.name` is the only way the pass renames a tensor). -/
theorem C15_gen_untouched (gen : NameGen) (w : TWorld) (tops : List Top) :
    (∀ v, (false, v) ∉ (fixModelX gen w [] tops).glog → (fixModelX gen w [] tops).w.vname v = w.vname v)
    ∧ (∀ t, (∀ v, w.constOf v = some t → (false, v) ∉ (fixModelX gen w [] tops).glog) →
        (fixModelX gen w [] tops).w.tname t = w.tname t)
    ∧ (∀ n, (true, n) ∉ (fixModelX gen w [] tops).glog → (fixModelX gen w [] tops).w.nname n = w.nname n) := by
  obtain ⟨h1, _, h3, h4⟩ := fixModelX_inv2 (LogInv.step gen w) tops w []
    ⟨fun _ _ => rfl, rfl, fun _ _ => rfl, fun _ _ => rfl⟩
  exact ⟨h1, h3, h4⟩

/-- on the D30 world with tensors (value 1 backed by tensor 0): only value 1 is handed to the generator; with a second
tensor 1 backing value 2 (not renamed) that tensor keeps its name -/
example : (fixModelX simpleGen (exTWx false) [] [exT]).glog = [(false, 1)] := by decide

/-- **C15_gen_default_raises_only_on_refusal**: with the default `SimpleNameGenerator`, on a model whose initializers
are keyed by their names (whatever the scoping), the pass raises *only* because a tensor that backs a value refuses
its new name: if it raises, such a tensor exists.  (Equivalently: when no backing tensor refuses, the general model
is the plain model, which never raises — `C15_gen_refines_default` under the weaker hypothesis, `C15_namefix_total`.) -/
theorem C15_gen_default_raises_only_on_refusal (w : TWorld) (tops : List Top) (hok : InitsOk w.toWorld)
    (hcl : ∀ t ∈ tops, Closed w.initOf t) :
    ((fixModelX simpleGen w [] tops).raised = true → ∃ v t, w.constOf v = some t ∧ w.frozen t = true)
    ∧ ((∀ v t, w.constOf v = some t → w.frozen t = false) →
        (fixModelX simpleGen w [] tops).w.toWorld = (fixModel w.toWorld tops).1
        ∧ (fixModelX simpleGen w [] tops).modified = (fixModel w.toWorld tops).2.1
        ∧ (fixModelX simpleGen w [] tops).raised = false) := by
  have key : (∀ v t, w.constOf v = some t → w.frozen t = false) →
      (fixModelX simpleGen w [] tops).w.toWorld = (fixModel w.toWorld tops).1
      ∧ (fixModelX simpleGen w [] tops).modified = (fixModel w.toWorld tops).2.1
      ∧ (fixModelX simpleGen w [] tops).raised = false := by
    intro hf
    obtain ⟨a, b, c⟩ := fixModelX_sim tops w [] hf
    exact ⟨a, b, c.trans (C15_namefix_total w.toWorld tops hok hcl).1⟩
  refine ⟨?_, key⟩
  intro hr
  apply Classical.byContradiction
  intro hne
  have hf : ∀ v t, w.constOf v = some t → w.frozen t = false := by
    intro v t hv
    cases hfz : w.frozen t with
    | false => rfl
    | true => exact absurd ⟨v, t, hv, hfz⟩ hne
  rw [(key hf).2.2] at hr
  cases hr

/-- the refusing tensor of the example above is the reason the pass raises there -/
example : (fixModelX simpleGen (exTWx true) [] [exT]).raised = true ∧ (exTWx true).constOf 1 = some 0 ∧ (exTWx true).frozen 0 = true := by
  decide

/-- **C15_illscoped_nodes**: what the pass guarantees on **ill-scoped** models (values shared by sibling subgraphs,
by the main graph and a function, ...).  No scoping hypothesis: on every model whose initializers are keyed by their
names (closed, node objects occurring once, top-level graphs sharing no nodes) the pass does not raise, the
initializer dictionaries stay keyed by the current non-empty names — so the initializers of one graph always end
with pairwise different non-empty names — and in **every** graph all nodes have pairwise different non-empty names,
unique node names are kept and the first holder of a node name keeps it.  (For value names the scoping rule is
necessary: `C15_scoping_necessary`.) -/
theorem C15_illscoped_nodes (w : World) (tops : List Top) (hok : InitsOk w)
    (hyp : ∀ t ∈ tops, Closed w.initOf t ∧ (allNodes t.body).Nodup)
    (hdisj : tops.Pairwise (fun a b => ∀ n ∈ allNodes a.body, n ∉ allNodes b.body)) :
    (fixModel w tops).2.2 = false
    ∧ InitsOk (fixModel w tops).1
    ∧ (∀ g, ((fixModel w tops).1.dicts g).Pairwise (fun a b => a.2 ≠ b.2 → (fixModel w tops).1.vname a.2 ≠ (fixModel w tops).1.vname b.2))
    ∧ ∀ t ∈ tops, ∀ L ∈ allNodeScopes t.tr,
        InjT (fixModel w tops).1.nname L ∧ KeptOn w.nname (fixModel w tops).1.nname L
        ∧ FirstB w.nname (fixModel w tops).1.nname L := by
  obtain ⟨t1, t2, _⟩ := fixModel_total tops w hok (fun t ht => (hyp t ht).1)
  refine ⟨t1, t2, ?_, fixModel_nodes tops w hok hyp hdisj⟩
  intro g
  have hnd := t2.keys_nodup g
  rw [List.pairwise_iff_forall_sublist]
  intro a b hab _ heq
  have ha : a ∈ (fixModel w tops).1.dicts g := hab.subset (by simp)
  have hb : b ∈ (fixModel w tops).1.dicts g := hab.subset (by simp)
  have e1 := (t2.key_name g a.1 a.2 ha).1
  have e2 := (t2.key_name g b.1 b.2 hb).1
  rw [e1, e2] at heq
  have hk : a.1 = b.1 := Option.some.inj heq
  have hsub : [a.1, b.1].Sublist (((fixModel w tops).1.dicts g).map (·.1)) := by
    simpa using hab.map (·.1)
  have := hsub.nodup hnd
  simp [hk] at this

/-- the ill-scoped witness of `C15_scoping_necessary`: its node names still come out unique per graph -/
example : ((List.range 3).map (fixModel exWS [exTS]).1.nname) = [some "A", some "I1", some "I2"] := by decide


/-- **C15_illscoped_values**: what the pass guarantees for **value names** on ill-scoped models — no scoping
hypothesis (initializers keyed by names, closed, node objects occurring once, top-level graphs disjoint).  (1) Every
value the pass can meet (mentioned under a top-level graph, or an initializer of a graph under it) ends with a
non-empty name.  (2) For every graph, the values *recorded* in its scope — those recorded in the enclosing scopes
before the graph was entered, followed by the values **first met** in the graph itself (`recScopes`) — end with
pairwise different names.  What is lost without the scoping rule is exactly the comparison with a value that is used
in the graph but was first met in a scope that is not visible from it (`C15_scoping_necessary`: it is skipped, its
name is not in the used set).  On a well-scoped model every value met in a graph is recorded in its scope chain and
this is `C15_namefix_post`. -/
theorem C15_illscoped_values (w : World) (tops : List Top) (hok : InitsOk w)
    (hyp : ∀ t ∈ tops, Closed w.initOf t ∧ (allNodes t.body).Nodup) (hdisj : tops.Pairwise (TopDisj w.initOf)) :
    ∀ t ∈ tops,
      (∀ L ∈ recScopes w.inits t.tr [] [], InjT (fixModel w tops).1.vname L)
      ∧ (∀ u, TopC w.initOf t u → truthy ((fixModel w tops).1.vname u) = true) :=
  fixModel_rec w.inits tops w hok (fun g u => hok.mem_iff g u) hyp hdisj

/-- the ill-scoped witness: the free value 0 is recorded in the scope of the first sibling only; the second sibling's
list does not contain it -/
example : recScopes exWS.inits exTS.tr [] [] = [[3], [3, 1, 0], [3, 2]] := by decide

/-- **C15_illscoped_first_holder**: 'kept' and 'first holder' for **value names** on ill-scoped models — no scoping
hypothesis (same hypotheses as `C15_illscoped_values`), default generator.  Every list `L` of `recScopes` — the
values recorded in the enclosing scopes when the graph was entered, followed by the values **first met** in the graph
itself — is in the order in which NameFixPass records its members (initializers of one graph never share a name, so
their mutual order is immaterial).  (1) A non-empty name carried by exactly one member of `L` is kept.  (2) Split `L`
at any occurrence of `v`, `L = A ++ v :: B`, where `v` has a non-empty name: if no member in front of `v` carried
that name, `v` keeps it — the *first* holder recorded in a scope is never renamed; if a member in front of `v`
carried it (and this is `v`'s first occurrence), `v` is renamed.  Together with `C15_illscoped_values` this pins,
per recorded scope, exactly which names change: those of unnamed values and of every holder of a name but the
first.  (A value met in the graph but first met in a scope that is not visible is not a member of `L`:
`C15_scoping_necessary`.) -/
theorem C15_illscoped_first_holder (w : World) (tops : List Top) (hok : InitsOk w)
    (hyp : ∀ t ∈ tops, Closed w.initOf t ∧ (allNodes t.body).Nodup) (hdisj : tops.Pairwise (TopDisj w.initOf)) :
    ∀ t ∈ tops, ∀ L ∈ recScopes w.inits t.tr [] [],
      KeptOn w.vname (fixModel w tops).1.vname L
      ∧ FirstB w.vname (fixModel w tops).1.vname L
      ∧ ∀ A v B, L = A ++ v :: B → truthy (w.vname v) = true →
          ((∀ u ∈ A, w.vname u ≠ w.vname v) → (fixModel w tops).1.vname v = w.vname v)
          ∧ (v ∉ A → (∃ u ∈ A, w.vname u = w.vname v) → (fixModel w tops).1.vname v ≠ w.vname v) := by
  intro t ht L hL
  have hiv : ∀ g u, u ∈ w.inits g ↔ w.initOf u = some g := fun g u => hok.mem_iff g u
  obtain ⟨hk, hf⟩ := fixModel_recOrd w.inits tops w hok hiv hyp hdisj t ht L hL
  have hinj := ((fixModel_rec w.inits tops w hok hiv hyp hdisj t ht).1 L hL).inj
  exact ⟨hk, hf, fun A v B e h1 => first_exact hf hinj A v B e h1⟩

/-- the ill-scoped witness of `C15_scoping_necessary` (names x, a, x, o): in the recorded lists `[3]`, `[3, 1, 0]`,
`[3, 2]` every name is unique, so every value keeps its name — also value 2 of the second sibling, whose name is
carried by the free value 0 that is met there but not recorded there -/
example : (List.range 4).map (fixModel exWS [exTS]).1.vname = [some "x", some "a", some "x", some "o"] := by decide

end IrVerif.Names

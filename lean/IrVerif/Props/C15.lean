/-
C15 — property theorems.  Part A: the name authority (`_name_authority.py`) under arbitrary
histories of `register_or_name_value` / `register_or_name_node` calls, i.e. everything
`Graph.__init__/append/extend/insert_before/insert_after` do to names.
-/
import IrVerif.Model.Names
import IrVerif.Lemmas.Names
namespace IrVerif.Names

/-! ### C15_loop_terminates -/

/-- **C15_loop_terminates**: the `while True` loops of `_unique_value_name` and
`_unique_node_name` end after at most `|seen| + 1` iterations, for every seen set (explicit names
shaped like generated ones included), every counter value and every `op_type`; a larger budget
returns the same name and counter (so the budgeted loop *is* the unbounded one). -/
theorem C15_loop_terminates (seen : List String) (c : Nat) (op : String) :
    (∃ r, uniqueLoop valName seen (seen.length + 1) c = some r
        ∧ ∀ fuel, seen.length + 1 ≤ fuel → uniqueLoop valName seen fuel c = some r)
    ∧ (∃ r, uniqueLoop (nodeName op) seen (seen.length + 1) c = some r
        ∧ ∀ fuel, seen.length + 1 ≤ fuel → uniqueLoop (nodeName op) seen fuel c = some r) := by
  constructor
  · obtain ⟨r, hr⟩ := uniqueLoop_total valName (fun _ _ => valName_inj) seen c
    exact ⟨r, hr, fun fuel h => uniqueLoop_mono _ _ _ _ _ hr _ h⟩
  · obtain ⟨r, hr⟩ := uniqueLoop_total (nodeName op) (fun _ _ => nodeName_inj op) seen c
    exact ⟨r, hr, fun fuel h => uniqueLoop_mono _ _ _ _ _ hr _ h⟩

/-- the name returned by the unbounded loop: not seen, made from a counter value `≥ c`, and the
counter moves past it -/
theorem uniqueFrom_spec (mk : Nat → String) (hinj : ∀ a b, mk a = mk b → a = b)
    (seen : List String) (c : Nat) :
    ∃ k, c ≤ k ∧ (uniqueFrom mk seen c) = (mk k, k + 1) ∧ mk k ∉ seen
      ∧ ∀ j, c ≤ j → j < k → mk j ∈ seen := by
  obtain ⟨⟨n, c'⟩, hr⟩ := uniqueLoop_total mk hinj seen c
  obtain ⟨k, h1, _, h3, h4, h5, h6⟩ := uniqueLoop_spec mk seen _ c n c' hr
  refine ⟨k, h1, ?_, h3 ▸ h5, h6⟩
  simp [uniqueFrom, hr, h3, h4]

/-! ### one call -/

/-- a generated name is not in the seen set of its namespace at that moment -/
theorem step_fresh (a : Auth) (op : Op) (h : (step a op).2.generated = true) :
    (step a op).2.name ∉ a.seen (step a op).2.isNode := by
  cases op with
  | value name =>
    cases name with
    | some s => simp [step] at h
    | none =>
      obtain ⟨k, _, he, hn, _⟩ := uniqueFrom_spec valName (fun _ _ => valName_inj) a.vnames a.vc
      simp [step, he, Auth.seen, hn]
  | node name o =>
    cases name with
    | some s => simp [step] at h
    | none =>
      obtain ⟨k, _, he, hn, _⟩ := uniqueFrom_spec (nodeName o) (fun _ _ => nodeName_inj o) a.nnames a.nc
      simp [step, he, Auth.seen, hn]

/-- the name an object has after the call is in the seen set afterwards -/
theorem step_registers (a : Auth) (op : Op) :
    (step a op).2.name ∈ (step a op).1.seen (step a op).2.isNode := by
  cases op with
  | value name => cases name <;> simp [step, Auth.seen]
  | node name o => cases name <;> simp [step, Auth.seen]

/-- seen sets never shrink, counters never decrease -/
theorem step_mono (a : Auth) (op : Op) :
    (∀ b x, x ∈ a.seen b → x ∈ (step a op).1.seen b) ∧ a.vc ≤ (step a op).1.vc ∧ a.nc ≤ (step a op).1.nc := by
  cases op with
  | value name =>
    cases name with
    | some s =>
      refine ⟨?_, by simp [step], by simp [step]⟩
      intro b x hx; cases b <;> simp_all [step, Auth.seen]
    | none =>
      obtain ⟨k, hk, he, _, _⟩ := uniqueFrom_spec valName (fun _ _ => valName_inj) a.vnames a.vc
      refine ⟨?_, by simp [step, he]; omega, by simp [step]⟩
      intro b x hx; cases b <;> simp_all [step, Auth.seen]
  | node name o =>
    cases name with
    | some s =>
      refine ⟨?_, by simp [step], by simp [step]⟩
      intro b x hx; cases b <;> simp_all [step, Auth.seen]
    | none =>
      obtain ⟨k, hk, he, _, _⟩ := uniqueFrom_spec (nodeName o) (fun _ _ => nodeName_inj o) a.nnames a.nc
      refine ⟨?_, by simp [step], by simp [step, he]; omega⟩
      intro b x hx; cases b <;> simp_all [step, Auth.seen]

theorem run_cons (op : Op) (ops : List Op) (a : Auth) :
    (run (op :: ops) a).2 = (step a op).2 :: (run ops (step a op).1).2 := by
  simp [run]

theorem run_cons_fst (op : Op) (ops : List Op) (a : Auth) :
    (run (op :: ops) a).1 = (run ops (step a op).1).1 := by
  simp [run]

/-- along any history: seen sets only grow and the counters only increase -/
theorem run_mono (ops : List Op) : ∀ (a : Auth),
    (∀ b x, x ∈ a.seen b → x ∈ (run ops a).1.seen b) ∧ a.vc ≤ (run ops a).1.vc ∧ a.nc ≤ (run ops a).1.nc := by
  induction ops with
  | nil => intro a; simp [run]
  | cons op ops ih =>
    intro a
    obtain ⟨h1, h2, h3⟩ := step_mono a op
    obtain ⟨g1, g2, g3⟩ := ih (step a op).1
    rw [run_cons_fst]
    exact ⟨fun b x hx => g1 b x (h1 b x hx), by omega, by omega⟩

/-- every name a history hands out or registers is in the final seen set of its namespace -/
theorem run_registers (ops : List Op) : ∀ (a : Auth) (e : Ev), e ∈ (run ops a).2 →
    e.name ∈ (run ops a).1.seen e.isNode := by
  induction ops with
  | nil => intro a e h; simp [run] at h
  | cons op ops ih =>
    intro a e h
    rw [run_cons] at h
    rw [run_cons_fst]
    rcases List.mem_cons.mp h with h | h
    · subst h
      exact (run_mono ops (step a op).1).1 _ _ (step_registers a op)
    · exact ih _ _ h

/-! ### C15_fresh -/

/-- **C15_fresh**: along *any* history of naming calls on one graph's authority, starting from
*any* authority state, a name the authority generates (the object's name was `None`) is
(1) not in the seen set of its namespace at that moment — in particular not in the initial one —
and (2) different from the name of every earlier call of the same namespace, generated *or
explicitly given* (explicit names may be shaped like generated ones: "val_7").  Together with
`C15_monotone` this is "never equal to a name registered or assigned before, for the life of the
graph". -/
theorem C15_fresh (ops : List Op) : ∀ (a : Auth) (pre post : List Ev) (e : Ev),
    (run ops a).2 = pre ++ e :: post → e.generated = true →
      e.name ∉ a.seen e.isNode ∧ ∀ e' ∈ pre, e'.isNode = e.isNode → e'.name ≠ e.name := by
  induction ops with
  | nil => intro a pre post e h; simp [run] at h
  | cons op ops ih =>
    intro a pre post e h hg
    rw [run_cons] at h
    cases pre with
    | nil =>
      simp only [List.nil_append, List.cons.injEq] at h
      obtain ⟨h1, _⟩ := h
      subst h1
      exact ⟨step_fresh a op hg, by simp⟩
    | cons e0 pre' =>
      simp only [List.cons_append, List.cons.injEq] at h
      obtain ⟨h0, hrest⟩ := h
      obtain ⟨i1, i2⟩ := ih (step a op).1 pre' post e hrest hg
      refine ⟨fun hin => i1 ((step_mono a op).1 _ _ hin), ?_⟩
      intro e' he' hk
      rcases List.mem_cons.mp he' with h' | h'
      · subst h'; subst h0
        intro heq
        apply i1
        rw [← heq, ← hk]
        exact step_registers a op
      · exact i2 e' h' hk

/-- **C15_monotone** (second half of DESIGN's `C15_fresh`): seen sets and counters are monotone
along any history, and every name handed out or registered stays in the seen set for ever
(removing a node does not call the authority at all). -/
theorem C15_monotone (ops : List Op) (a : Auth) :
    (∀ b x, x ∈ a.seen b → x ∈ (run ops a).1.seen b)
    ∧ a.vc ≤ (run ops a).1.vc ∧ a.nc ≤ (run ops a).1.nc
    ∧ ∀ e ∈ (run ops a).2, e.name ∈ (run ops a).1.seen e.isNode :=
  ⟨(run_mono ops a).1, (run_mono ops a).2.1, (run_mono ops a).2.2, run_registers ops a⟩

/-! ### C15_explicit_kept -/

theorem run_length (ops : List Op) : ∀ a, (run ops a).2.length = ops.length := by
  induction ops with
  | nil => intro a; simp [run]
  | cons op ops ih => intro a; simp [run_cons, ih]

/-- **C15_explicit_kept**: in any history, a call made for an object whose name is not `None`
(the empty string included) leaves that name exactly as given — whatever has been seen before
(duplicates and generated-looking names included). -/
theorem C15_explicit_kept (ops : List Op) : ∀ (a : Auth) (i : Nat),
    (∀ s, ops[i]? = some (Op.value (some s)) → (run ops a).2[i]? = some ⟨false, false, s⟩)
    ∧ (∀ s o, ops[i]? = some (Op.node (some s) o) → (run ops a).2[i]? = some ⟨true, false, s⟩) := by
  induction ops with
  | nil => intro a i; simp
  | cons op ops ih =>
    intro a i
    cases i with
    | zero =>
      constructor
      · intro s h
        simp only [List.getElem?_cons_zero, Option.some.injEq] at h
        subst h; simp [run_cons, step]
      · intro s o h
        simp only [List.getElem?_cons_zero, Option.some.injEq] at h
        subst h; simp [run_cons, step]
    | succ j =>
      simp only [List.getElem?_cons_succ, run_cons]
      exact ih _ j

/-! ### non-vacuity -/

/-- the explicit name "val_1" makes the generator skip 1: val_0, (explicit val_1), val_2 -/
example : ((run [.value none, .value (some "val_1"), .value none] {}).2.map (·.name))
    = ["val_0", "val_1", "val_2"] := by decide

/-- an explicit "val_0" given *after* val_0 was generated is kept (duplicates are the user's
responsibility, cf. the class docstring), and later generated names still avoid it -/
example : ((run [.value none, .value (some "val_0"), .value none] {}).2.map (·.name))
    = ["val_0", "val_0", "val_1"] := by decide

example : ((run [.node none "Add", .node (some "node_Add_1") "Mul", .node none "Add"] {}).2.map (·.name))
    = ["node_Add_0", "node_Add_1", "node_Add_2"] := by decide

end IrVerif.Names

/-
C12 — topological sort: correct across scopes, stable, deterministic, atomic.

Part A: theorems about the reverse Kahn loop of `Graph.sort` over an ARBITRARY finite
predecessor relation (`C12_kahn_*`).  Part B: the same instantiated with the predecessor lists
`Graph.sort` builds from a graph tree (`C12_perm`, `C12_respects`, `C12_cycle_iff`,
`C12_cycle_no_change`, `C12_order_independent`, `C12_fixpoint_graph`, `C12_fixpoint`,
`C12_deterministic`) and the pass over main graph + functions (`C12_pass_atomic`, `C12_pass_result`).
Not theorems (by construction of the model, hence not listed): the result depends only on the
current tree (the model is a function of it; the stateful correspondence checks the code), and
the `sharedGraph` branch of `sortModel` (a derived summary, differential only).
Helper developments: `Lemmas/SortKahn.lean` (the loop), `Lemmas/SortTree.lean` (the tree),
`Lemmas/SortPos.lean` (positions vs ids), `Lemmas/SortStable.lean` (stability; defines `WellScoped`,
`OrderedG`), `Lemmas/SortAcyclic.lean` (ordered => acyclic), `Lemmas/SortRename.lean` (renaming), `Lemmas/SortLifted.lean` (flat cycle => per-graph cycle), `Lemmas/SortLinked.lean` (C11 container).
-/
import IrVerif.Lemmas.SortAcyclic
import IrVerif.Lemmas.SortRename
import IrVerif.Lemmas.SortLifted
import IrVerif.Lemmas.SortLinked
import IrVerif.Lemmas.SortEffect
import Mathlib.Data.List.Forall2

namespace IrVerif.Sort
open List

/-! ## Part A — arbitrary finite relation

`n` positions, `preds c` the predecessor list of position `c` (entries may repeat);
`hp` says that predecessor lists mention positions only (true of the lists `Graph.sort` builds:
`predsAt_lt`). `kahn n preds` lists the popped positions most recent first, which is the order in
which `Graph.sort` finally re-links them. -/

/-- **C12_fuel_suffices**: after the `n` iterations the model grants the `while` loop, the
    priority queue is empty — the fuel never cuts the loop short. -/
theorem C12_fuel_suffices (n : Nat) (preds : Nat → List Nat)
    (hp : ∀ c, c < n → ∀ p ∈ preds c, p < n) : step preds (kahnState n preds) = none := by
  have h := (kahn_inv hp).2
  simp [step, h, maxOf]

/-- **C12_kahn_refines**: the loop with depth counters and a heap pops, at every step, the largest
    position that is ready (unpopped, all its children popped), and stops only when no position is
    ready. -/
theorem C12_kahn_refines (n : Nat) (preds : Nat → List Nat)
    (hp : ∀ c, c < n → ∀ p ∈ preds c, p < n) :
    Run n preds (kahn n preds) ∧ ∀ y, ¬ Ready n preds (kahn n preds) y :=
  ⟨kahn_run hp, kahn_stuck hp⟩

/-- **C12_kahn_perm**: no position is popped twice, only positions are popped, and when the cycle
    test passes the popped list is a permutation of all positions. -/
theorem C12_kahn_perm (n : Nat) (preds : Nat → List Nat)
    (hp : ∀ c, c < n → ∀ p ∈ preds c, p < n) :
    (kahn n preds).Nodup ∧ (∀ x ∈ kahn n preds, x < n) ∧
    ((kahn n preds).length = n → (kahn n preds).Perm (List.range n)) :=
  ⟨(kahn_run hp).nodup, (kahn_run hp).lt, (kahn_run hp).perm_range⟩

/-- **C12_kahn_respects**: when the cycle test passes, every predecessor comes before the node
    that depends on it, also along chains of dependencies. -/
theorem C12_kahn_respects (n : Nat) (preds : Nat → List Nat)
    (hp : ∀ c, c < n → ∀ p ∈ preds c, p < n) (hlen : (kahn n preds).length = n)
    {p c : Nat} (h : Relation.TransGen (Edge n preds) p c) : Before (kahn n preds) p c := by
  have hrun := kahn_run hp
  have hc := hrun.complete hlen
  have hlt := hrun.transGen_before hc h
  have hlt' := transGen_edge_lt h
  exact before_of_idxOf_lt hrun.nodup (hc p hlt'.1) (hc c hlt'.2) hlt

/-- **C12_kahn_cycle_iff**: the cycle test fails (fewer than `n` positions popped, `ValueError`)
    exactly when the predecessor relation has a cycle. -/
theorem C12_kahn_cycle_iff (n : Nat) (preds : Nat → List Nat)
    (hp : ∀ c, c < n → ∀ p ∈ preds c, p < n) :
    (kahn n preds).length ≠ n ↔ ∃ x, Relation.TransGen (Edge n preds) x x := by
  have hrun := kahn_run hp
  constructor
  · intro hne
    -- some position was not popped
    have hex : ∃ z, z < n ∧ z ∉ kahn n preds := by
      by_contra hall
      have hall' : ∀ z, z < n → z ∈ kahn n preds := by
        intro z hz; by_contra hc; exact hall ⟨z, hz, hc⟩
      have hs : List.range n ⊆ kahn n preds := fun z hz => hall' z (List.mem_range.1 hz)
      have := (List.subperm_of_subset List.nodup_range hs).length_le
      have := hrun.length_le
      simp at *; omega
    obtain ⟨z, hz, hzP⟩ := hex
    exact stuck_cycle (kahn_stuck hp) hz hzP
  · rintro ⟨x, hx⟩ hlen
    have := hrun.transGen_before (hrun.complete hlen) hx
    omega

/-- **C12_kahn_stable**: let `S` be a set of positions after `a` that is closed under
    "depends on", up to nodes that depend on `a` too.  If the cycle test passes, all of `S` is
    popped before `a`, i.e. `a` is re-linked before every member of `S` — no reordering. -/
theorem C12_kahn_stable (n : Nat) (preds : Nat → List Nat)
    (hp : ∀ c, c < n → ∀ p ∈ preds c, p < n) (hlen : (kahn n preds).length = n)
    (a : Nat) (S : Nat → Prop) (hS : ∀ x, S x → a < x ∧ x < n)
    (hcl : ∀ x c, S x → c < n → x ∈ preds c → S c ∨ a ∈ preds c) (ha : a < n) :
    ∀ b, S b → Before (kahn n preds) a b := by
  have hrun := kahn_run hp
  have hc := hrun.complete hlen
  obtain ⟨l1, l2, hP⟩ := List.mem_iff_append.1 (hc a ha)
  intro b hb
  exact ⟨l1, l2, hP, hrun.stable hc a S hS hcl hP b hb⟩

/-- **C12_relink**: `graph.extend(xs)` on a graph whose node sequence is `cur`, when `xs` is a
    duplicate-free arrangement of exactly the nodes of `cur`, leaves the sequence `xs` (every
    `append` first unlinks the node, then links it at the end). -/
theorem C12_relink (cur xs : List Nat) (hc : cur.Nodup) (hp : xs.Perm cur) : relink cur xs = xs :=
  relink_perm hc hp

/-- **C12_relink_refines** (tie to C11/C01): on the pointer-level node container of C11
    (`Model/LinkedSet.lean`: boxes, root, id->box dict; `LinkedSet.WF` is C11's representation
    invariant), `extend(xs)` — what step 5 of `Graph.sort` calls — returns normally, keeps the
    invariant, and leaves as observable sequence (`toList`) exactly `relink (toList s) xs`; when
    `xs` is an arrangement of exactly the nodes present (what `Graph.sort` passes, `C12_perm`),
    the sequence afterwards is `xs` itself.  Composes `C11_rep_toList` with `C12_relink`. -/
theorem C12_relink_refines {s : LinkedSet.LSet} (h : LinkedSet.WF s) (xs : List Nat) :
    LinkedSet.WF (LinkedSet.apply s (.extend xs)).1 ∧
    (LinkedSet.apply s (.extend xs)).2 = true ∧
    LinkedSet.toList (LinkedSet.apply s (.extend xs)).1 = relink (LinkedSet.toList s) xs ∧
    (xs.Perm (LinkedSet.toList s) → LinkedSet.toList (LinkedSet.apply s (.extend xs)).1 = xs) := by
  have hnd := linked_toList_nodup h
  obtain ⟨h1, h2⟩ := LinkedSet.C11_rep_toList h (.extend xs)
  have hL : LinkedSet.toList (LinkedSet.apply s (.extend xs)).1 = relink (LinkedSet.toList s) xs := by
    rw [h1]
    exact spec_extend_L ⟨LinkedSet.toList s, .fwd, .done⟩ hnd xs
  refine ⟨LinkedSet.C11_rep_step h _, ?_, hL, ?_⟩
  · rw [h2]; rfl
  · intro hp
    rw [hL]; exact C12_relink _ _ hnd hp

/-! ## Part B — the graph tree -/

/-- the encoded object tree is well formed: node ids are distinct, graph ids are distinct -/
structure WF (g : MGraph) : Prop where
  ids : ((nodesOf g).map Ent.id).Nodup
  gids : ((allGraphs g).map Prod.fst).Nodup

theorem sortModel_some {g : MGraph} {r : List (Nat × List Nat)} (h : sortModel g = some r) :
    (kahn (nodesOf g).length (predsAt (nodesOf g))).length = (nodesOf g).length ∧
    r = (graphsOf g).map (fun gc => (gc.1, relink gc.2
      (bucket (nodesOf g) (kahn (nodesOf g).length (predsAt (nodesOf g))) gc.1))) := by
  simp only [sortModel] at h
  split at h
  · simp at h
  split at h
  · simp at h
  · rename_i _ hlen
    simp only [bne_iff_ne, ne_eq, Decidable.not_not] at hlen
    exact ⟨hlen, (Option.some.inj h).symm⟩

theorem sortModel_none {g : MGraph} (hids : ((nodesOf g).map Ent.id).Nodup) :
    sortModel g = none ↔
    (kahn (nodesOf g).length (predsAt (nodesOf g))).length ≠ (nodesOf g).length := by
  have hs : sharedGraph (nodesOf g) = false := by simp [sharedGraph, hids]
  simp only [sortModel, hs]
  split <;> simp_all

/-- the new sequence of graph `h` after a successful sort is its bucket -/
theorem new_order_eq {g : MGraph} (hwf : WF g)
    (hlen : (kahn (nodesOf g).length (predsAt (nodesOf g))).length = (nodesOf g).length)
    {h : MGraph} (hh : h ∈ allGraphs g) :
    let b := bucket (nodesOf g) (kahn (nodesOf g).length (predsAt (nodesOf g))) h.1
    relink (h.2.map MNode.id) b = b ∧ b.Perm (h.2.map MNode.id) := by
  intro b
  have hrun := kahn_run (predsAt_lt (nodesOf g))
  have hperm := bucket_perm (hrun.perm_range hlen) h.1
  rw [filter_gid_root hwf.gids hh] at hperm
  have hnd : (h.2.map MNode.id).Nodup := by
    rw [← filter_gid_root hwf.gids hh]
    exact List.Nodup.sublist (List.filter_sublist.map _) hwf.ids
  exact ⟨relink_perm hnd hperm, hperm⟩

/-- **C12_perm**: a successful sort returns the same graphs, each with a permutation of exactly
    its own nodes (nothing moves between graphs). -/
theorem C12_perm (g : MGraph) (hwf : WF g) (r : List (Nat × List Nat)) (h : sortModel g = some r) :
    List.Forall₂ (fun old new => new.1 = old.1 ∧ new.2.Perm old.2) (graphsOf g) r := by
  obtain ⟨hlen, rfl⟩ := sortModel_some h
  rw [List.forall₂_map_right_iff, List.forall₂_same]
  intro gc hgc
  obtain ⟨h', hh', rfl⟩ := List.mem_map.1 hgc
  obtain ⟨h1, h2⟩ := new_order_eq hwf hlen hh'
  refine ⟨rfl, ?_⟩
  show (relink (h'.2.map MNode.id) (bucket _ _ h'.1)).Perm (h'.2.map MNode.id)
  rw [h1]; exact h2

/-- the result entry of a graph of the tree is its bucket -/
theorem result_entry {g : MGraph} (hwf : WF g) {r : List (Nat × List Nat)}
    (hs : sortModel g = some r) {h : MGraph} (hh : h ∈ allGraphs g) {new : List Nat}
    (hnew : (h.1, new) ∈ r) :
    new = bucket (nodesOf g) (kahn (nodesOf g).length (predsAt (nodesOf g))) h.1 := by
  obtain ⟨hlen, rfl⟩ := sortModel_some hs
  obtain ⟨gc, hgc, heq⟩ := List.mem_map.1 hnew
  obtain ⟨h', hh', rfl⟩ := List.mem_map.1 hgc
  rw [Prod.mk.injEq] at heq
  have h1 : h'.1 = h.1 := heq.1
  have : h' = h := List.inj_on_of_nodup_map hwf.gids hh' hh h1
  subst this
  exact heq.2.symm.trans (new_order_eq hwf hlen hh').1

/-- a use of a value of `p` by `c` or by a node nested in `c` (both nodes of graph `h`) is a chain
    of the flat dependency relation: `p -> u -> owner of u's graph -> ... -> c` -/
theorem lifted_dep_chain {g h : MGraph} (hh : h ∈ allGraphs g) {p c : MNode} (hp : p ∈ h.2)
    (hc : c ∈ h.2) {u : Ent} (hu : u ∈ entsN h.1 c) (huse : some p.id ∈ u.inputs) :
    Relation.TransGen (Dep (nodesOf g)) p.id c.id := by
  have hsubc : entsN h.1 c ⊆ nodesOf g := (node_infix hh hc).subset
  have hpU : entOf h.1 p ∈ nodesOf g := (node_infix hh hp).subset (entOf_mem_entsN _ _)
  have hdep : Dep (nodesOf g) p.id u.id := ⟨_, hpU, u, hsubc hu, rfl, rfl, Or.inl huse⟩
  rcases owner_chain (nodesOf g) c h.1 hsubc u hu with rfl | hch
  · exact Relation.TransGen.single hdep
  · exact Relation.TransGen.head hdep hch

/-- **C12_respects**: after a successful sort, in every graph `h` of the tree, a node `p` that
    produces a value used by node `c` of the same graph, or by a node `u` nested at any depth
    inside `c` (`u ∈ entsN h.1 c`: the span of `c`), comes before `c`. -/
theorem C12_respects (g : MGraph) (hwf : WF g) (r : List (Nat × List Nat))
    (hs : sortModel g = some r) (h : MGraph) (hh : h ∈ allGraphs g) (p c : MNode)
    (hp : p ∈ h.2) (hc : c ∈ h.2) (u : Ent) (hu : u ∈ entsN h.1 c)
    (huse : some p.id ∈ u.inputs) (new : List Nat) (hnew : (h.1, new) ∈ r) :
    Before new p.id c.id := by
  rw [result_entry hwf hs hh hnew]
  obtain ⟨hlen, _⟩ := sortModel_some hs
  have hpU : entOf h.1 p ∈ nodesOf g := (node_infix hh hp).subset (entOf_mem_entsN _ _)
  have hcU : entOf h.1 c ∈ nodesOf g := (node_infix hh hc).subset (entOf_mem_entsN _ _)
  have hchain := lifted_dep_chain hh hp hc hu huse
  have hpos := Relation.TransGen.lift (posOf (nodesOf g))
    (fun _ _ h => edge_of_dep hwf.ids h) _ _ hchain
  have hb := C12_kahn_respects _ _ (predsAt_lt (nodesOf g)) hlen hpos
  exact bucket_before hb (at_posOf hwf.ids hpU) (at_posOf hwf.ids hcU) h.1 rfl rfl

/-- **C12_cycle_iff**: `Graph.sort` raises exactly when the dependency relation it uses
    (`Dep`: producer of an input, or direct node of an attribute graph, both in the universe) has
    a cycle. -/
theorem C12_cycle_iff (g : MGraph) (hwf : WF g) :
    sortModel g = none ↔ ∃ a, Relation.TransGen (Dep (nodesOf g)) a a := by
  rw [sortModel_none hwf.ids, C12_kahn_cycle_iff _ _ (predsAt_lt (nodesOf g)), cycle_pos_iff hwf.ids]

/-- **C12_cycle_lifted**: if, in some graph of the tree, the property's dependencies ("used by it
    or by any node nested inside it", `LiftedDep`, defined in `Lemmas/SortLifted.lean`) contain a
    cycle, the sort raises.  No scoping hypothesis is needed for this direction. -/
theorem C12_cycle_lifted (g : MGraph) (hwf : WF g) (h : MGraph) (hh : h ∈ allGraphs g) (x : Nat)
    (hcyc : Relation.TransGen (LiftedDep h) x x) : sortModel g = none := by
  rw [C12_cycle_iff g hwf]
  have hmono : ∀ a b, Relation.TransGen (LiftedDep h) a b →
      Relation.TransGen (Dep (nodesOf g)) a b := by
    intro a b hab
    induction hab with
    | single hl =>
      obtain ⟨p, hp, c, hc, rfl, rfl, u, hu, huse⟩ := hl
      exact lifted_dep_chain hh hp hc hu huse
    | tail _ hl ih =>
      obtain ⟨p, hp, c, hc, rfl, rfl, u, hu, huse⟩ := hl
      exact ih.trans (lifted_dep_chain hh hp hc hu huse)
  exact ⟨x, hmono x x hcyc⟩

/-- **C12_cycle_iff_lifted**: for a well-scoped tree, "raises ⇔ the dependencies contain a
    cycle" in the property's own terms: `Graph.sort` raises exactly when, in some graph of the
    tree, the relation "is used by it or by any node nested inside it" between the nodes of that
    graph has a cycle. -/
theorem C12_cycle_iff_lifted (g : MGraph) (hwf : WF g) (hws : WellScoped g) :
    sortModel g = none ↔ ∃ h ∈ allGraphs g, ∃ x, Relation.TransGen (LiftedDep h) x x := by
  constructor
  · intro hnone
    exact lifted_cycle_of_dep_cycle hwf.ids hws ((C12_cycle_iff g hwf).1 hnone)
  · rintro ⟨h, hh, x, hx⟩
    exact C12_cycle_lifted g hwf h hh x hx

/-- **C12_cycle_no_change**: steps 4-5 are modelled as the sequence of effects the code performs
    (`sortTraceIn order`: the cycle test, then one `graph.extend` per graph, the graphs visited in
    an arbitrary `order` — set/dict iteration).  Whenever running these effects on the node
    containers ends in a raise, the raise was the first and only effect — no re-link precedes
    it — and every container is exactly as before the call. -/
theorem C12_cycle_no_change (g : MGraph) (order : List (Nat × List Nat))
    (h : (runEffs (graphsOf g) (sortTraceIn order g)).1 = true) :
    sortTraceIn order g = [Eff.raise] ∧
    (runEffs (graphsOf g) (sortTraceIn order g)).2 = graphsOf g := by
  rcases sortTraceIn_cases order g with ⟨_, ht⟩ | ⟨_, ht⟩
  · exact ⟨ht, by rw [ht]; rfl⟩
  · rw [ht] at h
    rw [runEffs_no_raise order _ (fun p => ⟨_, _, rfl⟩)] at h
    exact absurd h (by simp)

/-- **C12_order_independent** (the nondeterminism the code does have): `sorted_nodes_by_graph` is
    a dict built from a *set* of graphs, so the graphs are re-linked in an arbitrary order.  For
    every arrangement `order` of the graphs of the tree the observable outcome is the same:
    raised and nothing changed, or exactly the result of `sortModel` (re-links of different
    containers commute). -/
theorem C12_order_independent (g : MGraph) (hwf : WF g) (order : List (Nat × List Nat))
    (hp : order.Perm (graphsOf g)) :
    runEffs (graphsOf g) (sortTraceIn order g) = sortEffect g ∧
    sortEffect g = (match sortModel g with
      | none => (true, graphsOf g)
      | some r => (false, r)) := by
  rw [runEffs_sortTraceIn g hwf.gids order hp, sortEffect_eq g hwf.gids]
  exact ⟨rfl, rfl⟩

/-- after one `sort`, the containers hold graph by graph an arrangement of what they held -/
theorem sortEffect_rearranged (g : MGraph) (hwf : WF g) :
    Rearranged (graphsOf g) (sortEffect g).2 := by
  have hnd : ∀ gc ∈ graphsOf g, gc.2.Nodup := by
    intro gc hgc
    obtain ⟨h, hh, rfl⟩ := List.mem_map.1 hgc
    exact graph_ids_nodup hwf.ids hh
  rw [sortEffect_eq g hwf.gids]
  cases hs : sortModel g with
  | none =>
    apply forall₂_and_left _ hnd
    rw [List.forall₂_same]
    intro x _; exact ⟨rfl, List.Perm.refl _⟩
  | some r => exact forall₂_and_left (C12_perm g hwf r hs) hnd

theorem passSorts_rearranged (gs : List MGraph) (hwf : ∀ g ∈ gs, WF g) :
    List.Forall₂ Rearranged (gs.map graphsOf) (passSorts gs).2 := by
  induction gs with
  | nil => exact List.Forall₂.nil
  | cons g rest ih =>
    have h1 := sortEffect_rearranged g (hwf g (by simp))
    have hrest : ∀ g ∈ rest, WF g := fun g hg => hwf g (List.mem_cons_of_mem _ hg)
    simp only [passSorts, List.map_cons]
    split
    · refine List.Forall₂.cons h1 ?_
      rw [List.forall₂_same]
      intro x hx
      obtain ⟨g', hg', rfl⟩ := List.mem_map.1 hx
      have hnd : ∀ gc ∈ graphsOf g', gc.2.Nodup := by
        intro gc hgc
        obtain ⟨h, hh, rfl⟩ := List.mem_map.1 hgc
        exact graph_ids_nodup (hrest g' hg').ids hh
      apply forall₂_and_left _ hnd
      rw [List.forall₂_same]
      intro y _; exact ⟨rfl, List.Perm.refl _⟩
    · exact List.Forall₂.cons h1 (ih hrest)

/-- **C12_pass_atomic**: `TopologicalSortPass` (model of `call` with fix D201: sort the main graph,
    then every function, and on `ValueError` re-extend every recorded graph in its recorded order
    before re-raising) over `[main] ++ functions`: when the pass raises, the node order of every
    graph of the model — main graph, functions, all nested graphs, also those that had already
    been sorted successfully — is exactly what it was before the call. -/
theorem C12_pass_atomic (gs : List MGraph) (hwf : ∀ g ∈ gs, WF g)
    (h : (passEffect gs).1 = true) : (passEffect gs).2 = gs.map graphsOf := by
  unfold passEffect at *
  by_cases hr : (passSorts gs).1 = true
  · simp only [hr, if_true]
    exact passRestore_eq (passSorts_rearranged gs hwf)
  · simp only [hr] at h
    simp at h
    exact absurd h hr

/-- **C12_pass_result**: the pass raises exactly when the sort of one of its graph-likes raises;
    otherwise every graph-like ends up as its own `sort` leaves it. -/
theorem C12_pass_result (gs : List MGraph) :
    (passEffect gs).1 = gs.any (fun g => (sortEffect g).1) ∧
    ((passEffect gs).1 = false → (passEffect gs).2 = gs.map (fun g => (sortEffect g).2)) := by
  have key : (passSorts gs).1 = gs.any (fun g => (sortEffect g).1) ∧
      ((passSorts gs).1 = false → (passSorts gs).2 = gs.map (fun g => (sortEffect g).2)) := by
    induction gs with
    | nil => simp [passSorts]
    | cons g rest ih =>
      simp only [passSorts, List.any_cons, List.map_cons]
      by_cases he : (sortEffect g).1 = true
      · simp [he]
      · have he' : (sortEffect g).1 = false := by simpa using he
        simp only [he', Bool.false_or, Bool.false_eq_true, if_false]
        exact ⟨ih.1, fun h => by rw [ih.2 h]⟩
  unfold passEffect
  by_cases hr : (passSorts gs).1 = true
  · simp only [hr, if_true]
    exact ⟨by rw [← key.1, hr], by simp⟩
  · have hr' : (passSorts gs).1 = false := by simpa using hr
    simp only [hr', Bool.false_eq_true, if_false]
    exact ⟨by rw [← key.1, hr'], fun _ => key.2 hr'⟩

/-- **C12_fixpoint_graph** (per graph, stronger than the property asks): in a well-scoped tree
    whose sort succeeds, every graph that is already in order (`OrderedG`: each node after the
    same-graph producers of the values used by it or by nodes nested in it) keeps exactly its node
    sequence — even when other graphs of the tree are reordered. -/
theorem C12_fixpoint_graph (g : MGraph) (hwf : WF g) (hws : WellScoped g)
    (r : List (Nat × List Nat)) (hs : sortModel g = some r) (h : MGraph) (hh : h ∈ allGraphs g)
    (hord : OrderedG h) : orderOf h ∈ r ∧ ∀ new, (h.1, new) ∈ r → new = h.2.map MNode.id := by
  obtain ⟨hlen, hr⟩ := sortModel_some hs
  have hb := bucket_eq_of_ordered hwf.ids hwf.gids hws hlen hh hord
  constructor
  · rw [hr]
    refine List.mem_map.2 ⟨orderOf h, List.mem_map.2 ⟨h, hh, rfl⟩, ?_⟩
    show (h.1, relink (h.2.map MNode.id) (bucket _ _ h.1)) = (h.1, h.2.map MNode.id)
    rw [(new_order_eq hwf hlen hh).1, hb]
  · intro new hnew
    rw [result_entry hwf hs hh hnew, hb]

/-- **C12_fixpoint**: a well-scoped tree all of whose graphs are already in order is sorted
    without raising, and every graph keeps exactly its node sequence: output = input. -/
theorem C12_fixpoint (g : MGraph) (hwf : WF g) (hws : WellScoped g)
    (hord : ∀ h ∈ allGraphs g, OrderedG h) : sortModel g = some (graphsOf g) := by
  cases hs : sortModel g with
  | none =>
    exact absurd ((C12_cycle_iff g hwf).1 hs) (ordered_acyclic hwf.ids hws hord)
  | some r =>
    obtain ⟨hlen, hr⟩ := sortModel_some hs
    rw [hr]
    congr 1
    conv_rhs => rw [← List.map_id (graphsOf g)]
    apply List.map_congr_left
    intro gc hgc
    obtain ⟨h, hh, rfl⟩ := List.mem_map.1 hgc
    have hb := bucket_eq_of_ordered hwf.ids hwf.gids hws hlen hh (hord h hh)
    show (h.1, relink (h.2.map MNode.id) (bucket _ _ h.1)) = (h.1, h.2.map MNode.id)
    rw [(new_order_eq hwf hlen hh).1, hb]

/-- **C12_deterministic**: the model is a function of the encoded tree (structure + current
    order + identities); moreover it does not depend on the identities: renaming node identities
    by any injective `σ` and graph identities by any injective `τ` (e.g. a different allocation
    order of the same object graph) renames the outcome and nothing else — same raise-or-not,
    same new order of every graph. -/
theorem C12_deterministic (σ τ : Nat → Nat) (hσ : Function.Injective σ)
    (hτ : Function.Injective τ) (g : MGraph) :
    sortModel (renG σ τ g) = (sortModel g).map (renOrders σ τ) :=
  sortModel_ren hσ hτ g

/-! ## non-vacuity -/

/-- `g0 = [n1, n0]`, `n1` uses `n0` and owns the body `g1 = [n2]`, `n2` captures `n0` -/
def ex1 : MGraph := (0, [MNode.mk 1 [some 0] [(1, [MNode.mk 2 [some 0] []])], MNode.mk 0 [] []])
/-- two nodes using each other -/
def ex2 : MGraph := (0, [MNode.mk 0 [some 1] [], MNode.mk 1 [some 0] []])

example : WF ex1 := ⟨by decide, by decide⟩
example : WF ex2 := ⟨by decide, by decide⟩
example : sortModel ex1 = some [(0, [0, 1]), (1, [2])] := by decide
example : sortModel ex2 = none := by decide
example : sortEffect ex2 = (true, [(0, [0, 1])]) := by decide
example : Relation.TransGen (LiftedDep ex2) 0 0 :=
  Relation.TransGen.tail (Relation.TransGen.single (show LiftedDep ex2 0 1 by unfold LiftedDep; decide))
    (show LiftedDep ex2 1 0 by unfold LiftedDep; decide)
example : ∀ c, c < 3 → ∀ p ∈ predsAt (nodesOf ex1) c, p < 3 := predsAt_lt (nodesOf ex1)
example : (kahn 3 (predsAt (nodesOf ex1))) = [2, 1, 0] := by decide
example : relink [3, 1, 2] [1, 2, 3] = [1, 2, 3] := by decide
example : LinkedSet.WF LinkedSet.empty := LinkedSet.C11_rep_empty.1
example : LinkedSet.toList (LinkedSet.apply (LinkedSet.apply LinkedSet.empty (.extend [3, 1, 2])).1
    (.extend [1, 2, 3])).1 = [1, 2, 3] := by decide

/-- `g0 = [n0, n1, n3]`: `n1` uses `n0` and owns `g1 = [n2, n4]` where `n2` captures `n0` and
    `n4` uses `n2`; `n3` uses `n1` — well scoped and already in order -/
def ex3 : MGraph :=
  (0, [MNode.mk 0 [] [],
       MNode.mk 1 [some 0, none] [(1, [MNode.mk 2 [some 0] [], MNode.mk 4 [some 2, some 2] []])],
       MNode.mk 3 [some 1] []])
/-- like `ex3` with the outer graph out of order (`n1` before `n0`) but the body in order -/
def ex4 : MGraph :=
  (0, [MNode.mk 1 [some 0, none] [(1, [MNode.mk 2 [some 0] [], MNode.mk 4 [some 2, some 2] []])],
       MNode.mk 0 [] [],
       MNode.mk 3 [some 1] []])

example : WF ex3 := ⟨by decide, by decide⟩
example : WellScoped ex3 := by unfold WellScoped; decide
example : ∀ h ∈ allGraphs ex3, OrderedG h := by unfold OrderedG; decide
example : sortModel ex3 = some (graphsOf ex3) := by decide
example : WF ex4 ∧ WellScoped ex4 := ⟨⟨by decide, by decide⟩, by unfold WellScoped; decide⟩
example : OrderedG (1, [MNode.mk 2 [some 0] [], MNode.mk 4 [some 2, some 2] []]) ∧
    ¬ OrderedG ex4 := by unfold OrderedG; decide
example : sortModel ex4 = some [(0, [0, 1, 3]), (1, [2, 4])] := by decide
/-- the same body graph `g1 = [n1, n2]` (already in order) as the value of two attributes of `n0` -/
def ex5 : MGraph :=
  (0, [MNode.mk 0 [] [(1, [MNode.mk 1 [] [], MNode.mk 2 [some 1] []]),
                      (1, [MNode.mk 1 [] [], MNode.mk 2 [some 1] []])]])
example : ¬ ((nodesOf ex5).map Ent.id).Nodup := by decide
example : sortEffect ex5 = (true, [(0, [0]), (1, [1, 2]), (1, [1, 2])]) := by decide
example : passEffect [ex4, ex3, ex2] = (true, [graphsOf ex4, graphsOf ex3, graphsOf ex2]) := by decide
example : (passSorts [ex4, ex3, ex2]).2 ≠ [graphsOf ex4, graphsOf ex3, graphsOf ex2] := by decide
example : passEffect [ex4, ex3] = (false, [[(0, [0, 1, 3]), (1, [2, 4])], graphsOf ex3]) := by decide
example : (graphsOf ex1).reverse.Perm (graphsOf ex1) := List.reverse_perm _
example : runEffs (graphsOf ex1) (sortTraceIn (graphsOf ex1).reverse ex1) = sortEffect ex1 := by decide
example : Function.Injective (fun n : Nat => n + 7) := fun a b h => by simpa using h

end IrVerif.Sort

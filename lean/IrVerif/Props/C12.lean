/-
C12 — topological sort: correct across scopes, stable, deterministic, atomic.

Part A: theorems about the reverse Kahn loop of `Graph.sort` over an ARBITRARY finite
predecessor relation (`C12_kahn_*`).  Part B: the same instantiated with the predecessor lists
`Graph.sort` builds from a graph tree (`C12_perm`, `C12_respects`, `C12_cycle_iff`,
`C12_cycle_no_change`, `C12_order_independent`, `C12_fixpoint_graph`, `C12_fixpoint`,
`C12_deterministic`) and the pass over main graph + functions (`C12_pass_atomic`, `C12_pass_result`).
Part C: the stateful world (`Model/SortState.lean`: node containers = C11's pointer-level model,
explicit `extend` writes with a write trace): `C12_state_raise_no_write`, `C12_state_sort`,
`C12_state_abs_only` (the result depends on the current tree only, not on the history that produced
the containers), `C12_state_deterministic` (nor on identities), `C12_self_nested_recursion`,
`C12_shared_raises`; `C12_effect_equivariant` (equivariance of the observable effect).
Part D: the transcription with identity-keyed dicts over a universe that may repeat a node
(`Model/SortIds.lean`): `C12_ids_refines`, `C12_ids_shared_raises` (derivation of the `sharedGraph`
branch of `sortModel`), `C12_ids_equivariant`.
Helper developments: `Lemmas/SortKahn.lean` (the loop), `Lemmas/SortTree.lean` (the tree),
`Lemmas/SortPos.lean` (positions vs ids), `Lemmas/SortStable.lean` (stability; defines `WellScoped`,
`OrderedG`), `Lemmas/SortAcyclic.lean` (ordered => acyclic), `Lemmas/SortRename.lean` (renaming), `Lemmas/SortLifted.lean` (flat cycle => per-graph cycle), `Lemmas/SortLinked.lean` (C11 container),
`Lemmas/SortState.lean` (worlds), `Lemmas/SortIds.lean` (identity-keyed loop).
Part G/H: `heapq` (`Model/Heap.lean`): `C12_heappop_min_partial`; round 5: `C12_heap_invariant` (heapify establishes,
heappush / heappop preserve the heap invariant and the multiset of keys), `C12_heap_extract_min`,
`C12_heap_refines_queue`, `C12_heap_pops_increasing`; the Kahn loop on the real binary heap (`Model/SortHeap.lean`)
pops the same nodes as the `maxKey` loop: `C12_heap_kahn_refines`, `C12_heap_sort_refines`
(`Lemmas/Heap.lean`, `Lemmas/SortHeap.lean`).
Part I: the full pass refines the container-level pass (`C12_passF_refines_passW`; `Lemmas/SortPass.lean`), a successful
pass leaves every graph-like sorted at the END of the pass (`C12_pass_success_sorted`, `C12_passF_success_sorted`).
Part J: the pass after the proposed fix D392 (`passWD` / `passFD`: only graph-likes whose order changed are re-extended):
`C12_state_pass_atomic_D392`, `C12_passF_refines_passW_D392`.
-/
import IrVerif.Lemmas.SortAcyclic
import IrVerif.Lemmas.SortRename
import IrVerif.Lemmas.SortLifted
import IrVerif.Lemmas.SortLinked
import IrVerif.Lemmas.SortEffect
import IrVerif.Lemmas.SortState
import IrVerif.Lemmas.SortIds
import IrVerif.Lemmas.SortFull
import IrVerif.Model.Heap
import IrVerif.Lemmas.Heap
import IrVerif.Lemmas.SortHeap
import IrVerif.Lemmas.SortPass
import Mathlib.Data.List.Forall2

namespace IrVerif.Sort
open List

/-! ## Part A — arbitrary finite relation

`n` positions, `preds c` the predecessor list of position `c` (entries may repeat);
`hp` says that predecessor lists mention positions only (true of the lists `Graph.sort` builds:
`predsAt_lt`). `kahn n preds` lists the popped positions most recent first, which is the order in
which `Graph.sort` finally re-links them. -/

/-- **C12_fuel_suffices**: after the `n` iterations the model grants the `while` loop, the
    priority queue is empty — the fuel never cuts the loop short. -/
theorem C12_fuel_suffices (n : Nat) (preds : Nat → List Nat)
    (hp : ∀ c, c < n → ∀ p ∈ preds c, p < n) : step preds (kahnState n preds) = none := by
  have h := (kahn_inv hp).2
  simp [step, h, maxOf]

/-- **C12_kahn_refines**: the loop with depth counters and a heap pops, at every step, the largest
    position that is ready (unpopped, all its children popped), and stops only when no position is
    ready. -/
theorem C12_kahn_refines (n : Nat) (preds : Nat → List Nat)
    (hp : ∀ c, c < n → ∀ p ∈ preds c, p < n) :
    Run n preds (kahn n preds) ∧ ∀ y, ¬ Ready n preds (kahn n preds) y :=
  ⟨kahn_run hp, kahn_stuck hp⟩

/-- **C12_kahn_perm**: no position is popped twice, only positions are popped, and when the cycle
    test passes the popped list is a permutation of all positions. -/
theorem C12_kahn_perm (n : Nat) (preds : Nat → List Nat)
    (hp : ∀ c, c < n → ∀ p ∈ preds c, p < n) :
    (kahn n preds).Nodup ∧ (∀ x ∈ kahn n preds, x < n) ∧
    ((kahn n preds).length = n → (kahn n preds).Perm (List.range n)) :=
  ⟨(kahn_run hp).nodup, (kahn_run hp).lt, (kahn_run hp).perm_range⟩

/-- **C12_kahn_respects**: when the cycle test passes, every predecessor comes before the node
    that depends on it, also along chains of dependencies. -/
theorem C12_kahn_respects (n : Nat) (preds : Nat → List Nat)
    (hp : ∀ c, c < n → ∀ p ∈ preds c, p < n) (hlen : (kahn n preds).length = n)
    {p c : Nat} (h : Relation.TransGen (Edge n preds) p c) : Before (kahn n preds) p c := by
  have hrun := kahn_run hp
  have hc := hrun.complete hlen
  have hlt := hrun.transGen_before hc h
  have hlt' := transGen_edge_lt h
  exact before_of_idxOf_lt hrun.nodup (hc p hlt'.1) (hc c hlt'.2) hlt

/-- **C12_kahn_cycle_iff**: the cycle test fails (fewer than `n` positions popped, `ValueError`)
    exactly when the predecessor relation has a cycle. -/
theorem C12_kahn_cycle_iff (n : Nat) (preds : Nat → List Nat)
    (hp : ∀ c, c < n → ∀ p ∈ preds c, p < n) :
    (kahn n preds).length ≠ n ↔ ∃ x, Relation.TransGen (Edge n preds) x x := by
  have hrun := kahn_run hp
  constructor
  · intro hne
    -- some position was not popped
    have hex : ∃ z, z < n ∧ z ∉ kahn n preds := by
      by_contra hall
      have hall' : ∀ z, z < n → z ∈ kahn n preds := by
        intro z hz; by_contra hc; exact hall ⟨z, hz, hc⟩
      have hs : List.range n ⊆ kahn n preds := fun z hz => hall' z (List.mem_range.1 hz)
      have := (List.subperm_of_subset List.nodup_range hs).length_le
      have := hrun.length_le
      simp at *; omega
    obtain ⟨z, hz, hzP⟩ := hex
    exact stuck_cycle (kahn_stuck hp) hz hzP
  · rintro ⟨x, hx⟩ hlen
    have := hrun.transGen_before (hrun.complete hlen) hx
    omega

/-- **C12_kahn_stable**: let `S` be a set of positions after `a` that is closed under
    "depends on", up to nodes that depend on `a` too.  If the cycle test passes, all of `S` is
    popped before `a`, i.e. `a` is re-linked before every member of `S` — no reordering. -/
theorem C12_kahn_stable (n : Nat) (preds : Nat → List Nat)
    (hp : ∀ c, c < n → ∀ p ∈ preds c, p < n) (hlen : (kahn n preds).length = n)
    (a : Nat) (S : Nat → Prop) (hS : ∀ x, S x → a < x ∧ x < n)
    (hcl : ∀ x c, S x → c < n → x ∈ preds c → S c ∨ a ∈ preds c) (ha : a < n) :
    ∀ b, S b → Before (kahn n preds) a b := by
  have hrun := kahn_run hp
  have hc := hrun.complete hlen
  obtain ⟨l1, l2, hP⟩ := List.mem_iff_append.1 (hc a ha)
  intro b hb
  exact ⟨l1, l2, hP, hrun.stable hc a S hS hcl hP b hb⟩

/-- **C12_relink**: `graph.extend(xs)` on a graph whose node sequence is `cur`, when `xs` is a
    duplicate-free arrangement of exactly the nodes of `cur`, leaves the sequence `xs` (every
    `append` first unlinks the node, then links it at the end). -/
theorem C12_relink (cur xs : List Nat) (hc : cur.Nodup) (hp : xs.Perm cur) : relink cur xs = xs :=
  relink_perm hc hp

/-- **C12_relink_refines** (tie to C11/C01): on the pointer-level node container of C11
    (`Model/LinkedSet.lean`: boxes, root, id->box dict; `LinkedSet.WF` is C11's representation
    invariant), `extend(xs)` — what step 5 of `Graph.sort` calls — returns normally, keeps the
    invariant, and leaves as observable sequence (`toList`) exactly `relink (toList s) xs`; when
    `xs` is an arrangement of exactly the nodes present (what `Graph.sort` passes, `C12_perm`),
    the sequence afterwards is `xs` itself.  Composes `C11_rep_toList` with `C12_relink`. -/
theorem C12_relink_refines {s : LinkedSet.LSet} (h : LinkedSet.WF s) (xs : List Nat) :
    LinkedSet.WF (LinkedSet.apply s (.extend xs)).1 ∧
    (LinkedSet.apply s (.extend xs)).2 = true ∧
    LinkedSet.toList (LinkedSet.apply s (.extend xs)).1 = relink (LinkedSet.toList s) xs ∧
    (xs.Perm (LinkedSet.toList s) → LinkedSet.toList (LinkedSet.apply s (.extend xs)).1 = xs) := by
  have hnd := linked_toList_nodup h
  obtain ⟨h1, h2⟩ := LinkedSet.C11_rep_toList h (.extend xs)
  have hL : LinkedSet.toList (LinkedSet.apply s (.extend xs)).1 = relink (LinkedSet.toList s) xs := by
    rw [h1]
    exact spec_extend_L ⟨LinkedSet.toList s, .fwd, .done⟩ hnd xs
  refine ⟨LinkedSet.C11_rep_step h _, ?_, hL, ?_⟩
  · rw [h2]; rfl
  · intro hp
    rw [hL]; exact C12_relink _ _ hnd hp

/-! ## Part B — the graph tree -/

/-- the encoded object tree is well formed: node ids are distinct, graph ids are distinct -/
structure WF (g : MGraph) : Prop where
  ids : ((nodesOf g).map Ent.id).Nodup
  gids : ((allGraphs g).map Prod.fst).Nodup

theorem sortModel_some {g : MGraph} {r : List (Nat × List Nat)} (h : sortModel g = some r) :
    (kahn (nodesOf g).length (predsAt (nodesOf g))).length = (nodesOf g).length ∧
    r = (graphsOf g).map (fun gc => (gc.1, relink gc.2
      (bucket (nodesOf g) (kahn (nodesOf g).length (predsAt (nodesOf g))) gc.1))) := by
  simp only [sortModel] at h
  split at h
  · simp at h
  split at h
  · simp at h
  · rename_i _ hlen
    simp only [bne_iff_ne, ne_eq, Decidable.not_not] at hlen
    exact ⟨hlen, (Option.some.inj h).symm⟩

theorem sortModel_none {g : MGraph} (hids : ((nodesOf g).map Ent.id).Nodup) :
    sortModel g = none ↔
    (kahn (nodesOf g).length (predsAt (nodesOf g))).length ≠ (nodesOf g).length := by
  have hs : sharedGraph (nodesOf g) = false := by simp [sharedGraph, hids]
  simp only [sortModel, hs]
  split <;> simp_all

/-- the new sequence of graph `h` after a successful sort is its bucket -/
theorem new_order_eq {g : MGraph} (hwf : WF g)
    (hlen : (kahn (nodesOf g).length (predsAt (nodesOf g))).length = (nodesOf g).length)
    {h : MGraph} (hh : h ∈ allGraphs g) :
    let b := bucket (nodesOf g) (kahn (nodesOf g).length (predsAt (nodesOf g))) h.1
    relink (h.2.map MNode.id) b = b ∧ b.Perm (h.2.map MNode.id) := by
  intro b
  have hrun := kahn_run (predsAt_lt (nodesOf g))
  have hperm := bucket_perm (hrun.perm_range hlen) h.1
  rw [filter_gid_root hwf.gids hh] at hperm
  have hnd : (h.2.map MNode.id).Nodup := by
    rw [← filter_gid_root hwf.gids hh]
    exact List.Nodup.sublist (List.filter_sublist.map _) hwf.ids
  exact ⟨relink_perm hnd hperm, hperm⟩

/-- **C12_perm**: a successful sort returns the same graphs, each with a permutation of exactly
    its own nodes (nothing moves between graphs). -/
theorem C12_perm (g : MGraph) (hwf : WF g) (r : List (Nat × List Nat)) (h : sortModel g = some r) :
    List.Forall₂ (fun old new => new.1 = old.1 ∧ new.2.Perm old.2) (graphsOf g) r := by
  obtain ⟨hlen, rfl⟩ := sortModel_some h
  rw [List.forall₂_map_right_iff, List.forall₂_same]
  intro gc hgc
  obtain ⟨h', hh', rfl⟩ := List.mem_map.1 hgc
  obtain ⟨h1, h2⟩ := new_order_eq hwf hlen hh'
  refine ⟨rfl, ?_⟩
  show (relink (h'.2.map MNode.id) (bucket _ _ h'.1)).Perm (h'.2.map MNode.id)
  rw [h1]; exact h2

/-- the result entry of a graph of the tree is its bucket -/
theorem result_entry {g : MGraph} (hwf : WF g) {r : List (Nat × List Nat)}
    (hs : sortModel g = some r) {h : MGraph} (hh : h ∈ allGraphs g) {new : List Nat}
    (hnew : (h.1, new) ∈ r) :
    new = bucket (nodesOf g) (kahn (nodesOf g).length (predsAt (nodesOf g))) h.1 := by
  obtain ⟨hlen, rfl⟩ := sortModel_some hs
  obtain ⟨gc, hgc, heq⟩ := List.mem_map.1 hnew
  obtain ⟨h', hh', rfl⟩ := List.mem_map.1 hgc
  rw [Prod.mk.injEq] at heq
  have h1 : h'.1 = h.1 := heq.1
  have : h' = h := List.inj_on_of_nodup_map hwf.gids hh' hh h1
  subst this
  exact heq.2.symm.trans (new_order_eq hwf hlen hh').1

/-- a use of a value of `p` by `c` or by a node nested in `c` (both nodes of graph `h`) is a chain
    of the flat dependency relation: `p -> u -> owner of u's graph -> ... -> c` -/
theorem lifted_dep_chain {g h : MGraph} (hh : h ∈ allGraphs g) {p c : MNode} (hp : p ∈ h.2)
    (hc : c ∈ h.2) {u : Ent} (hu : u ∈ entsN h.1 c) (huse : some p.id ∈ u.inputs) :
    Relation.TransGen (Dep (nodesOf g)) p.id c.id := by
  have hsubc : entsN h.1 c ⊆ nodesOf g := (node_infix hh hc).subset
  have hpU : entOf h.1 p ∈ nodesOf g := (node_infix hh hp).subset (entOf_mem_entsN _ _)
  have hdep : Dep (nodesOf g) p.id u.id := ⟨_, hpU, u, hsubc hu, rfl, rfl, Or.inl huse⟩
  rcases owner_chain (nodesOf g) c h.1 hsubc u hu with rfl | hch
  · exact Relation.TransGen.single hdep
  · exact Relation.TransGen.head hdep hch

/-- **C12_respects**: after a successful sort, in every graph `h` of the tree, a node `p` that
    produces a value used by node `c` of the same graph, or by a node `u` nested at any depth
    inside `c` (`u ∈ entsN h.1 c`: the span of `c`), comes before `c`. -/
theorem C12_respects (g : MGraph) (hwf : WF g) (r : List (Nat × List Nat))
    (hs : sortModel g = some r) (h : MGraph) (hh : h ∈ allGraphs g) (p c : MNode)
    (hp : p ∈ h.2) (hc : c ∈ h.2) (u : Ent) (hu : u ∈ entsN h.1 c)
    (huse : some p.id ∈ u.inputs) (new : List Nat) (hnew : (h.1, new) ∈ r) :
    Before new p.id c.id := by
  rw [result_entry hwf hs hh hnew]
  obtain ⟨hlen, _⟩ := sortModel_some hs
  have hpU : entOf h.1 p ∈ nodesOf g := (node_infix hh hp).subset (entOf_mem_entsN _ _)
  have hcU : entOf h.1 c ∈ nodesOf g := (node_infix hh hc).subset (entOf_mem_entsN _ _)
  have hchain := lifted_dep_chain hh hp hc hu huse
  have hpos := Relation.TransGen.lift (posOf (nodesOf g))
    (fun _ _ h => edge_of_dep hwf.ids h) _ _ hchain
  have hb := C12_kahn_respects _ _ (predsAt_lt (nodesOf g)) hlen hpos
  exact bucket_before hb (at_posOf hwf.ids hpU) (at_posOf hwf.ids hcU) h.1 rfl rfl

/-- **C12_cycle_iff**: `Graph.sort` raises exactly when the dependency relation it uses
    (`Dep`: producer of an input, or direct node of an attribute graph, both in the universe) has
    a cycle. -/
theorem C12_cycle_iff (g : MGraph) (hwf : WF g) :
    sortModel g = none ↔ ∃ a, Relation.TransGen (Dep (nodesOf g)) a a := by
  rw [sortModel_none hwf.ids, C12_kahn_cycle_iff _ _ (predsAt_lt (nodesOf g)), cycle_pos_iff hwf.ids]

/-- **C12_cycle_lifted**: if, in some graph of the tree, the property's dependencies ("used by it
    or by any node nested inside it", `LiftedDep`, defined in `Lemmas/SortLifted.lean`) contain a
    cycle, the sort raises.  No scoping hypothesis is needed for this direction. -/
theorem C12_cycle_lifted (g : MGraph) (hwf : WF g) (h : MGraph) (hh : h ∈ allGraphs g) (x : Nat)
    (hcyc : Relation.TransGen (LiftedDep h) x x) : sortModel g = none := by
  rw [C12_cycle_iff g hwf]
  have hmono : ∀ a b, Relation.TransGen (LiftedDep h) a b →
      Relation.TransGen (Dep (nodesOf g)) a b := by
    intro a b hab
    induction hab with
    | single hl =>
      obtain ⟨p, hp, c, hc, rfl, rfl, u, hu, huse⟩ := hl
      exact lifted_dep_chain hh hp hc hu huse
    | tail _ hl ih =>
      obtain ⟨p, hp, c, hc, rfl, rfl, u, hu, huse⟩ := hl
      exact ih.trans (lifted_dep_chain hh hp hc hu huse)
  exact ⟨x, hmono x x hcyc⟩

/-- **C12_cycle_iff_lifted**: for a well-scoped tree, "raises ⇔ the dependencies contain a
    cycle" in the property's own terms: `Graph.sort` raises exactly when, in some graph of the
    tree, the relation "is used by it or by any node nested inside it" between the nodes of that
    graph has a cycle. -/
theorem C12_cycle_iff_lifted (g : MGraph) (hwf : WF g) (hws : WellScoped g) :
    sortModel g = none ↔ ∃ h ∈ allGraphs g, ∃ x, Relation.TransGen (LiftedDep h) x x := by
  constructor
  · intro hnone
    exact lifted_cycle_of_dep_cycle hwf.ids hws ((C12_cycle_iff g hwf).1 hnone)
  · rintro ⟨h, hh, x, hx⟩
    exact C12_cycle_lifted g hwf h hh x hx

/-- **C12_cycle_no_change**: steps 4-5 are modelled as the sequence of effects the code performs
    (`sortTraceIn order`: the cycle test, then one `graph.extend` per graph, the graphs visited in
    an arbitrary `order` — set/dict iteration).  Whenever running these effects on the node
    containers ends in a raise, the raise was the first and only effect — no re-link precedes
    it — and every container is exactly as before the call. -/
theorem C12_cycle_no_change (g : MGraph) (order : List (Nat × List Nat))
    (h : (runEffs (graphsOf g) (sortTraceIn order g)).1 = true) :
    sortTraceIn order g = [Eff.raise] ∧
    (runEffs (graphsOf g) (sortTraceIn order g)).2 = graphsOf g := by
  rcases sortTraceIn_cases order g with ⟨_, ht⟩ | ⟨_, ht⟩
  · exact ⟨ht, by rw [ht]; rfl⟩
  · rw [ht] at h
    rw [runEffs_no_raise order _ (fun p => ⟨_, _, rfl⟩)] at h
    exact absurd h (by simp)

/-- **C12_order_independent** (the nondeterminism the code does have): `sorted_nodes_by_graph` is
    a dict built from a *set* of graphs, so the graphs are re-linked in an arbitrary order.  For
    every arrangement `order` of the graphs of the tree the observable outcome is the same:
    raised and nothing changed, or exactly the result of `sortModel` (re-links of different
    containers commute). -/
theorem C12_order_independent (g : MGraph) (hwf : WF g) (order : List (Nat × List Nat))
    (hp : order.Perm (graphsOf g)) :
    runEffs (graphsOf g) (sortTraceIn order g) = sortEffect g ∧
    sortEffect g = (match sortModel g with
      | none => (true, graphsOf g)
      | some r => (false, r)) := by
  rw [runEffs_sortTraceIn g hwf.gids order hp, sortEffect_eq g hwf.gids]
  exact ⟨rfl, rfl⟩

/-- after one `sort`, the containers hold graph by graph an arrangement of what they held -/
theorem sortEffect_rearranged (g : MGraph) (hwf : WF g) :
    Rearranged (graphsOf g) (sortEffect g).2 := by
  have hnd : ∀ gc ∈ graphsOf g, gc.2.Nodup := by
    intro gc hgc
    obtain ⟨h, hh, rfl⟩ := List.mem_map.1 hgc
    exact graph_ids_nodup hwf.ids hh
  rw [sortEffect_eq g hwf.gids]
  cases hs : sortModel g with
  | none =>
    apply forall₂_and_left _ hnd
    rw [List.forall₂_same]
    intro x _; exact ⟨rfl, List.Perm.refl _⟩
  | some r => exact forall₂_and_left (C12_perm g hwf r hs) hnd

theorem passSorts_rearranged (gs : List MGraph) (hwf : ∀ g ∈ gs, WF g) :
    List.Forall₂ Rearranged (gs.map graphsOf) (passSorts gs).2 := by
  induction gs with
  | nil => exact List.Forall₂.nil
  | cons g rest ih =>
    have h1 := sortEffect_rearranged g (hwf g (by simp))
    have hrest : ∀ g ∈ rest, WF g := fun g hg => hwf g (List.mem_cons_of_mem _ hg)
    simp only [passSorts, List.map_cons]
    split
    · refine List.Forall₂.cons h1 ?_
      rw [List.forall₂_same]
      intro x hx
      obtain ⟨g', hg', rfl⟩ := List.mem_map.1 hx
      have hnd : ∀ gc ∈ graphsOf g', gc.2.Nodup := by
        intro gc hgc
        obtain ⟨h, hh, rfl⟩ := List.mem_map.1 hgc
        exact graph_ids_nodup (hrest g' hg').ids hh
      apply forall₂_and_left _ hnd
      rw [List.forall₂_same]
      intro y _; exact ⟨rfl, List.Perm.refl _⟩
    · exact List.Forall₂.cons h1 (ih hrest)

/-- **C12_pass_atomic**: `TopologicalSortPass` (model of `call` with fix D201: sort the main graph,
    then every function, and on `ValueError` re-extend every recorded graph in its recorded order
    before re-raising) over `[main] ++ functions`: when the pass raises, the node order of every
    graph of the model — main graph, functions, all nested graphs, also those that had already
    been sorted successfully — is exactly what it was before the call. -/
theorem C12_pass_atomic (gs : List MGraph) (hwf : ∀ g ∈ gs, WF g)
    (h : (passEffect gs).1 = true) : (passEffect gs).2 = gs.map graphsOf := by
  unfold passEffect at *
  by_cases hr : (passSorts gs).1 = true
  · simp only [hr, if_true]
    exact passRestore_eq (passSorts_rearranged gs hwf)
  · simp only [hr] at h
    simp at h
    exact absurd h hr

/-- **C12_pass_result**: the pass raises exactly when the sort of one of its graph-likes raises;
    otherwise every graph-like ends up as its own `sort` leaves it. -/
theorem C12_pass_result (gs : List MGraph) :
    (passEffect gs).1 = gs.any (fun g => (sortEffect g).1) ∧
    ((passEffect gs).1 = false → (passEffect gs).2 = gs.map (fun g => (sortEffect g).2)) := by
  have key : (passSorts gs).1 = gs.any (fun g => (sortEffect g).1) ∧
      ((passSorts gs).1 = false → (passSorts gs).2 = gs.map (fun g => (sortEffect g).2)) := by
    induction gs with
    | nil => simp [passSorts]
    | cons g rest ih =>
      simp only [passSorts, List.any_cons, List.map_cons]
      by_cases he : (sortEffect g).1 = true
      · simp [he]
      · have he' : (sortEffect g).1 = false := by simpa using he
        simp only [he', Bool.false_or, Bool.false_eq_true, if_false]
        exact ⟨ih.1, fun h => by rw [ih.2 h]⟩
  unfold passEffect
  by_cases hr : (passSorts gs).1 = true
  · simp only [hr, if_true]
    exact ⟨by rw [← key.1, hr], by simp⟩
  · have hr' : (passSorts gs).1 = false := by simpa using hr
    simp only [hr', Bool.false_eq_true, if_false]
    exact ⟨by rw [← key.1, hr'], fun _ => key.2 hr'⟩

/-- **C12_fixpoint_graph** (per graph, stronger than the property asks): in a well-scoped tree
    whose sort succeeds, every graph that is already in order (`OrderedG`: each node after the
    same-graph producers of the values used by it or by nodes nested in it) keeps exactly its node
    sequence — even when other graphs of the tree are reordered. -/
theorem C12_fixpoint_graph (g : MGraph) (hwf : WF g) (hws : WellScoped g)
    (r : List (Nat × List Nat)) (hs : sortModel g = some r) (h : MGraph) (hh : h ∈ allGraphs g)
    (hord : OrderedG h) : orderOf h ∈ r ∧ ∀ new, (h.1, new) ∈ r → new = h.2.map MNode.id := by
  obtain ⟨hlen, hr⟩ := sortModel_some hs
  have hb := bucket_eq_of_ordered hwf.ids hwf.gids hws hlen hh hord
  constructor
  · rw [hr]
    refine List.mem_map.2 ⟨orderOf h, List.mem_map.2 ⟨h, hh, rfl⟩, ?_⟩
    show (h.1, relink (h.2.map MNode.id) (bucket _ _ h.1)) = (h.1, h.2.map MNode.id)
    rw [(new_order_eq hwf hlen hh).1, hb]
  · intro new hnew
    rw [result_entry hwf hs hh hnew, hb]

/-- **C12_fixpoint**: a well-scoped tree all of whose graphs are already in order is sorted
    without raising, and every graph keeps exactly its node sequence: output = input. -/
theorem C12_fixpoint (g : MGraph) (hwf : WF g) (hws : WellScoped g)
    (hord : ∀ h ∈ allGraphs g, OrderedG h) : sortModel g = some (graphsOf g) := by
  cases hs : sortModel g with
  | none =>
    exact absurd ((C12_cycle_iff g hwf).1 hs) (ordered_acyclic hwf.ids hws hord)
  | some r =>
    obtain ⟨hlen, hr⟩ := sortModel_some hs
    rw [hr]
    congr 1
    conv_rhs => rw [← List.map_id (graphsOf g)]
    apply List.map_congr_left
    intro gc hgc
    obtain ⟨h, hh, rfl⟩ := List.mem_map.1 hgc
    have hb := bucket_eq_of_ordered hwf.ids hwf.gids hws hlen hh (hord h hh)
    show (h.1, relink (h.2.map MNode.id) (bucket _ _ h.1)) = (h.1, h.2.map MNode.id)
    rw [(new_order_eq hwf hlen hh).1, hb]

/-- **C12_deterministic**: the model is a function of the encoded tree (structure + current
    order + identities); moreover it does not depend on the identities: renaming node identities
    by any injective `σ` and graph identities by any injective `τ` (e.g. a different allocation
    order of the same object graph) renames the outcome and nothing else — same raise-or-not,
    same new order of every graph. -/
theorem C12_deterministic (σ τ : Nat → Nat) (hσ : Function.Injective σ)
    (hτ : Function.Injective τ) (g : MGraph) :
    sortModel (renG σ τ g) = (sortModel g).map (renOrders σ τ) :=
  sortModel_ren hσ hτ g

/-- renaming of one observable effect -/
def renEff (σ τ : Nat → Nat) : Eff → Eff
  | .relink k xs => .relink (τ k) (xs.map σ)
  | .raise => .raise

theorem runEffs_ren {σ τ : Nat → Nat} (hσ : Function.Injective σ) (hτ : Function.Injective τ)
    (es : List Eff) : ∀ st : List (Nat × List Nat),
    runEffs (renOrders σ τ st) (es.map (renEff σ τ)) =
      ((runEffs st es).1, renOrders σ τ (runEffs st es).2) := by
  induction es with
  | nil => intro st; rfl
  | cons e es ih =>
    intro st
    cases e with
    | raise => rfl
    | relink k xs =>
      simp only [List.map_cons, renEff, runEffs, applyEff]
      have : (renOrders σ τ st).map (fun gc => if gc.1 = τ k then (gc.1, relink gc.2 (xs.map σ)) else gc)
          = renOrders σ τ (st.map (fun gc => if gc.1 = k then (gc.1, relink gc.2 xs) else gc)) := by
        simp only [renOrders, List.map_map]
        apply List.map_congr_left
        intro gc _
        simp only [Function.comp]
        by_cases h : gc.1 = k
        · simp [h, relink_ren hσ]
        · have : τ gc.1 ≠ τ k := fun hc => h (hτ hc)
          simp [h, this]
      rw [this]
      exact ih _

/-- **C12_effect_equivariant** (determinism, stated for what a caller observes): relabelling node
    identities by an injective `σ` and graph identities by an injective `τ` — any other
    allocation of the same tree — leaves the outcome (raised or not) the same and relabels the
    node order of every graph afterwards, also when the call raises.  The relabelling goes through
    every place where the model consults an identity: the node-keyed lookups of the Kahn loop
    (`indexOfId`), the grouping of popped nodes by `node.graph` (`bucket`), the identity lookups of
    the container (`appendMove`), and the choice of the container a write goes to (`applyEff`).
    The heap keys are positions in the pre-order universe, not identities. -/
theorem C12_effect_equivariant (σ τ : Nat → Nat) (hσ : Function.Injective σ)
    (hτ : Function.Injective τ) (g : MGraph) :
    sortEffect (renG σ τ g) = ((sortEffect g).1, renOrders σ τ (sortEffect g).2) := by
  have htr : sortTrace (renG σ τ g) = (sortTrace g).map (renEff σ τ) := by
    simp only [sortTrace, sortTraceIn, nodesOf_ren, List.length_map, predsAt_ren (τ := τ) hσ,
      sharedGraph_ren (τ := τ) hσ, graphsOf_ren]
    split
    · rfl
    split
    · rfl
    · simp only [renOrders, List.map_map]
      apply List.map_congr_left
      intro gc _
      simp only [Function.comp, renEff, bucket_ren hτ]
  simp only [sortEffect]
  rw [htr, graphsOf_ren]
  exact runEffs_ren hσ hτ _ _

/-! ## Part C — the stateful world: containers at pointer level, explicit writes

`Model/SortState.lean`: the node containers are C11's `DoublyLinkedSet` models, whose
representation (boxes, dict order, erased boxes) depends on the whole history of edits; `sortW`
reads the tree off the world, runs steps 1-4 and then performs one `extend` per graph on the
containers, recording every write. -/

/-- the keys of `sorted_nodes_by_graph` are graphs of the tree -/
theorem sortKeys_sub {t : MGraph} {k : Nat} (hk : k ∈ sortKeys (nodesOf t)) :
    k ∈ gidsOf (allGraphs t) := by
  obtain ⟨e, he, rfl⟩ := List.mem_map.1 (mem_firsts.1 hk)
  obtain ⟨h, hh, x, _, rfl⟩ := ent_is_node_root he
  exact List.mem_map.2 ⟨h, hh, rfl⟩

/-- a graph of the tree that owns a node is a key -/
theorem sortKeys_of_node {t h : MGraph} (hh : h ∈ allGraphs t) {x : MNode} (hx : x ∈ h.2) :
    h.1 ∈ sortKeys (nodesOf t) := by
  apply mem_firsts.2
  exact List.mem_map.2 ⟨entOf h.1 x, (node_infix hh hx).subset (entOf_mem_entsN _ _), rfl⟩

/-- **C12_state_raise_no_write**: whenever `sortW` does not end normally — `ValueError` of the
    cycle test (also the shared-Graph-object case) or `RecursionError` of a graph nested in
    itself — the write trace is empty and the world is *equal* to the world before the call:
    every box, every dict entry, every table. -/
theorem C12_state_raise_no_write (w : SWorld) (order : List Nat) (g : Nat)
    (h : (sortW w order g).out ≠ .ok) :
    (sortW w order g).trace = [] ∧ (sortW w order g).world = w := by
  cases hu : unfoldG w w.fuel g with
  | none => simp [sortW, hu]
  | some t =>
    simp only [sortW, hu] at h ⊢
    by_cases h1 : sharedGraph (nodesOf t) = true
    · simp [h1]
    · by_cases h2 : ((kahn (nodesOf t).length (predsAt (nodesOf t))).length != (nodesOf t).length) = true
      · simp [h1, h2]
      · simp [h1, h2] at h

/-- **C12_state_sort**: on a world whose containers satisfy C11's representation invariant, for a
    tree read off the world that is well formed (`WF`: no shared Graph object) and any re-link order
    that is an arrangement of the graphs owning a node: the outcome is that of `sortModel` on the
    tree; on `ValueError` nothing is written and the world is equal; on success every write is
    `extend` of one graph's container with that graph's entry of `sortModel`'s result, each graph
    owning a node is written exactly once, afterwards the container of EVERY graph of the tree holds
    (`toList` of the pointer structure) exactly the sorted sequence, containers of graphs outside
    the tree are untouched (equal as pointer structures), all containers still satisfy the
    invariant, and attribute / input tables are unchanged.  Composes `C12_relink_refines` (C11)
    with `C12_perm`. -/
theorem C12_state_sort (w : SWorld) (hw : LinkedSet.WorldWF w.rw) (order : List Nat) (g : Nat)
    (t : MGraph) (hu : unfoldG w w.fuel g = some t) (hwf : WF t)
    (hord : order.Perm (sortKeys (nodesOf t))) :
    LinkedSet.WorldWF (sortW w order g).world.rw ∧
    (sortW w order g).world.inputs = w.inputs ∧
    (sortW w order g).world.rw.attrs = w.rw.attrs ∧
    (match sortModel t with
     | none => (sortW w order g).out = .valueError ∧ (sortW w order g).trace = [] ∧
         (sortW w order g).world = w
     | some res => (sortW w order g).out = .ok ∧
         (sortW w order g).trace.map Prod.fst = order ∧
         (∀ p ∈ (sortW w order g).trace, p ∈ res) ∧
         (∀ k new, (k, new) ∈ res → (sortW w order g).world.order k = new) ∧
         (∀ k, k ∉ gidsOf (allGraphs t) → (sortW w order g).world.rw.setOf k = w.rw.setOf k)) := by
  have hs : sharedGraph (nodesOf t) = false := by simp [sharedGraph, hwf.ids]
  cases hm : sortModel t with
  | none =>
    have hlen := (sortModel_none hwf.ids).1 hm
    have hlen' : ((kahn (nodesOf t).length (predsAt (nodesOf t))).length != (nodesOf t).length) = true := by
      simpa using hlen
    have hres : sortW w order g = ⟨.valueError, w, []⟩ := by
      simp only [sortW, hu, hs, hlen']; rfl
    rw [hres]
    exact ⟨hw, rfl, rfl, rfl, rfl, rfl⟩
  | some res =>
    obtain ⟨hlen, hr⟩ := sortModel_some hm
    have hlen' : ((kahn (nodesOf t).length (predsAt (nodesOf t))).length != (nodesOf t).length) = false := by
      simp [hlen]
    let bk := fun k => bucket (nodesOf t) (kahn (nodesOf t).length (predsAt (nodesOf t))) k
    have hres : sortW w order g =
        ⟨.ok, applyWrites w (order.map (fun k => (k, bk k))), order.map (fun k => (k, bk k))⟩ := by
      simp only [sortW, hu, hs, hlen']; rfl
    rw [hres]
    obtain ⟨hi, ha, _, _⟩ := applyWrites_inputs w (order.map (fun k => (k, bk k)))
    have hkeys : (order.map (fun k => (k, bk k))).map Prod.fst = order := by
      rw [List.map_map]; exact List.map_id' _
    have hnd : ((order.map (fun k => (k, bk k))).map Prod.fst).Nodup := by
      rw [hkeys]; exact hord.nodup_iff.2 (firsts_nodup _)
    obtain ⟨hother, hsame⟩ := applyWrites_setOf w _ hnd
    -- the entry of a graph of the tree in the result is its bucket
    have hentry : ∀ h ∈ allGraphs t, (h.1, bk h.1) ∈ res ∧ (bk h.1).Perm (w.order h.1) := by
      intro h hh
      obtain ⟨h1, h2⟩ := new_order_eq hwf hlen hh
      refine ⟨?_, by rw [← unfold_orders hu h hh]; exact h2⟩
      rw [hr]
      refine List.mem_map.2 ⟨orderOf h, List.mem_map.2 ⟨h, hh, rfl⟩, ?_⟩
      show (h.1, relink (h.2.map MNode.id) (bk h.1)) = (h.1, bk h.1)
      rw [h1]
    refine ⟨worldWF_applyWrites hw _, hi, ha, rfl, hkeys, ?_, ?_, ?_⟩
    · intro p hp
      obtain ⟨k, hk, rfl⟩ := List.mem_map.1 hp
      obtain ⟨h, hh, rfl⟩ := List.mem_map.1 (sortKeys_sub (hord.subset hk))
      exact (hentry h hh).1
    · intro k new hmem
      rw [hr] at hmem
      obtain ⟨gc, hgc, heq⟩ := List.mem_map.1 hmem
      obtain ⟨h, hh, rfl⟩ := List.mem_map.1 hgc
      rw [Prod.mk.injEq] at heq
      obtain ⟨rfl, rfl⟩ := heq
      obtain ⟨h1, h2⟩ := new_order_eq hwf hlen hh
      show LinkedSet.toList ((applyWrites w _).rw.setOf h.1) = relink (h.2.map MNode.id) (bk h.1)
      rw [h1]
      have hperm := (hentry h hh).2
      by_cases hk : h.1 ∈ order
      · by_cases hlt : h.1 < w.rw.sets.length
        · rw [hsame h.1 (bk h.1) (List.mem_map.2 ⟨h.1, hk, rfl⟩) hlt]
          exact (C12_relink_refines (hw.setOf h.1) (bk h.1)).2.2.2 hperm
        · -- out of range: the container is the empty default and the graph has no node
          have hlen2 : (applyWrites w (order.map (fun k => (k, bk k)))).rw.sets.length = w.rw.sets.length :=
            (applyWrites_inputs w _).2.2.1
          have he : ∀ w' : SWorld, w'.rw.sets.length = w.rw.sets.length → w'.rw.setOf h.1 = LinkedSet.empty := by
            intro w' hl
            simp only [LinkedSet.RWorld.setOf, List.getD]
            rw [List.getElem?_eq_none (by omega)]; rfl
          rw [he _ hlen2, toList_empty]
          have : w.order h.1 = [] := by
            simp only [SWorld.order, he w rfl, toList_empty]
          rw [this] at hperm
          exact (List.perm_nil.1 hperm).symm
      · -- not addressed: the graph owns no node
        have hnil : h.2 = [] := by
          cases hx : h.2 with
          | nil => rfl
          | cons x xs =>
            exact absurd (hord.symm.subset (sortKeys_of_node hh (x := x) (by rw [hx]; simp))) hk
        rw [hother h.1 (by rw [hkeys]; exact hk)]
        have h0 : w.order h.1 = [] := by rw [← unfold_orders hu h hh, hnil]; rfl
        rw [h0] at hperm
        show w.order h.1 = bk h.1
        rw [h0, List.perm_nil.1 hperm]
    · intro k hk
      apply hother
      rw [hkeys]
      exact fun hc => hk (sortKeys_sub (hord.subset hc))

/-- **C12_state_abs_only** (history independence): two worlds with the same abstraction — the same
    node sequence in every container, the same attribute graphs, the same input producers — but
    arbitrary, different pointer-level representations (box numbering, erased boxes, dict order:
    whatever their edit histories left) give the same outcome, the same write trace, and worlds
    with the same abstraction afterwards.  `Graph.sort` depends on the current tree only. -/
theorem C12_state_abs_only (w1 w2 : SWorld) (hw1 : LinkedSet.WorldWF w1.rw)
    (hw2 : LinkedSet.WorldWF w2.rw) (habs : absW w1 = absW w2) (order : List Nat) (g : Nat) :
    (sortW w1 order g).out = (sortW w2 order g).out ∧
    (sortW w1 order g).trace = (sortW w2 order g).trace ∧
    absW (sortW w1 order g).world = absW (sortW w2 order g).world := by
  simp only [absW, Prod.mk.injEq] at habs
  obtain ⟨hsets, hattrs, hins⟩ := habs
  have ho : ∀ k, w1.order k = w2.order k := fun k => by rw [order_eq_abs, order_eq_abs, hsets]
  have hsub : ∀ v, w1.subsOf v = w2.subsOf v := fun v => by
    simp only [SWorld.subsOf, LinkedSet.RWorld.visit, LinkedSet.RWorld.attrsOf, hattrs]
  have hin : ∀ v, w1.inputsOf v = w2.inputsOf v := fun v => by simp only [SWorld.inputsOf, hins]
  have hfuel : w1.fuel = w2.fuel := by
    have := congrArg List.length hsets
    simp only [List.length_map] at this
    simp only [SWorld.fuel, this]
  have hunf : unfoldG w1 w1.fuel g = unfoldG w2 w2.fuel g := by
    rw [hfuel]; exact unfold_congr ho hsub hin _ g
  unfold sortW
  rw [hunf]
  cases unfoldG w2 w2.fuel g with
  | none => exact ⟨rfl, rfl, by simp only [absW, hsets, hattrs, hins]⟩
  | some t =>
    simp only
    split
    · exact ⟨rfl, rfl, by simp only [absW, hsets, hattrs, hins]⟩
    · split
      · exact ⟨rfl, rfl, by simp only [absW, hsets, hattrs, hins]⟩
      · refine ⟨rfl, rfl, ?_⟩
        simp only [absW, Prod.mk.injEq]
        obtain ⟨i1, a1, _, _⟩ := applyWrites_inputs w1
          (order.map (fun k => (k, bucket (nodesOf t) (kahn (nodesOf t).length (predsAt (nodesOf t))) k)))
        obtain ⟨i2, a2, _, _⟩ := applyWrites_inputs w2
          (order.map (fun k => (k, bucket (nodesOf t) (kahn (nodesOf t).length (predsAt (nodesOf t))) k)))
        refine ⟨?_, by rw [a1, a2, hattrs], by rw [i1, i2, hins]⟩
        rw [abs_applyWrites hw1, abs_applyWrites hw2, hsets]

/-- **C12_self_nested_recursion**: if a graph nested in itself (directly or through other graphs)
    can be reached from the sorted graph, no depth bound suffices to read the tree: the call ends
    with `RecursionError` (real code: out of `RecursiveGraphIterator`, line 1 of `Graph.sort`),
    nothing is written, the world is equal. -/
theorem C12_self_nested_recursion (w : SWorld) (order : List Nat) (g : Nat)
    (h : ∃ c, Relation.ReflTransGen (Nests w) g c ∧ Relation.TransGen (Nests w) c c) :
    (sortW w order g).out = .recursionError ∧ (sortW w order g).trace = [] ∧
    (sortW w order g).world = w := by
  have hn := unfold_none_of_self_nested h w.fuel
  simp [sortW, hn]

/-- **C12_shared_raises**: a Graph object reachable through two attributes (the tree read off the
    world lists some node twice): the pure model raises and its observable containers are as
    before; the stateful model ends with `ValueError`, performs no write and leaves the world
    equal — nothing is re-linked.  (That the *code* raises there is derived line by line in
    `C12_ids_shared_raises` below.) -/
theorem C12_shared_raises (t : MGraph) (hs : ¬ ((nodesOf t).map Ent.id).Nodup) :
    sortModel t = none ∧ sortEffect t = (true, graphsOf t) ∧
    ∀ (w : SWorld) (order : List Nat) (g : Nat), unfoldG w w.fuel g = some t →
      (sortW w order g).out = .valueError ∧ (sortW w order g).trace = [] ∧
      (sortW w order g).world = w := by
  have hsh : sharedGraph (nodesOf t) = true := by simp [sharedGraph, hs]
  refine ⟨by simp [sortModel, hsh], ?_, ?_⟩
  · simp [sortEffect, sortTrace, sortTraceIn, hsh, runEffs, applyEff]
  · intro w order g hu
    simp only [sortW, hu, hsh]
    exact ⟨rfl, rfl, rfl⟩

theorem allGraphs_ren (σ τ : Nat → Nat) (g : MGraph) :
    allGraphs (renG σ τ g) = (allGraphs g).map (renG σ τ) := by
  simp only [allGraphs, List.map_cons]
  rw [show (renG σ τ g).2 = renNs σ τ g.2 from rfl, subgraphsNs_ren]

theorem WF_ren {σ τ : Nat → Nat} (hσ : Function.Injective σ) (hτ : Function.Injective τ)
    {g : MGraph} (h : WF g) : WF (renG σ τ g) := by
  constructor
  · rw [nodesOf_ren, List.map_map]
    have : (Ent.id ∘ renEnt σ τ) = σ ∘ Ent.id := by funext e; rfl
    rw [this, ← List.map_map]
    exact (List.nodup_map_iff hσ).2 h.ids
  · rw [allGraphs_ren, List.map_map]
    have : (Prod.fst ∘ renG σ τ) = τ ∘ Prod.fst := by funext e; rfl
    rw [this, ← List.map_map]
    exact (List.nodup_map_iff hτ).2 h.gids

/-- **C12_state_deterministic** (no dependence on identities, creation indices or history): two
    worlds — arbitrary pointer-level representations, arbitrary histories — whose trees are the
    same up to an injective relabelling `σ` of node identities and `τ` of graph identities (same
    nesting, same node order in every graph, same producer of every input), sorted with arbitrary
    re-link orders: same outcome (`ok` / `ValueError`), and afterwards every graph of the tree
    holds, in the second world, the relabelled sequence it holds in the first. -/
theorem C12_state_deterministic (σ τ : Nat → Nat) (hσ : Function.Injective σ)
    (hτ : Function.Injective τ) (w1 w2 : SWorld) (hw1 : LinkedSet.WorldWF w1.rw)
    (hw2 : LinkedSet.WorldWF w2.rw) (o1 o2 : List Nat) (g1 g2 : Nat) (t : MGraph)
    (hu1 : unfoldG w1 w1.fuel g1 = some t) (hu2 : unfoldG w2 w2.fuel g2 = some (renG σ τ t))
    (hwf : WF t) (ho1 : o1.Perm (sortKeys (nodesOf t)))
    (ho2 : o2.Perm (sortKeys (nodesOf (renG σ τ t)))) :
    (sortW w1 o1 g1).out = (sortW w2 o2 g2).out ∧
    ∀ h ∈ allGraphs t, (sortW w2 o2 g2).world.order (τ h.1) =
      ((sortW w1 o1 g1).world.order h.1).map σ := by
  obtain ⟨_, _, _, h1⟩ := C12_state_sort w1 hw1 o1 g1 t hu1 hwf ho1
  obtain ⟨_, _, _, h2⟩ := C12_state_sort w2 hw2 o2 g2 _ hu2 (WF_ren hσ hτ hwf) ho2
  rw [C12_deterministic σ τ hσ hτ t] at h2
  cases hm : sortModel t with
  | none =>
    simp only [hm, Option.map_none] at h1 h2
    refine ⟨by rw [h1.1, h2.1], ?_⟩
    intro h hh
    rw [h1.2.2, h2.2.2]
    have hh' : renG σ τ h ∈ allGraphs (renG σ τ t) := by
      rw [allGraphs_ren]; exact List.mem_map_of_mem hh
    have e2 := unfold_orders hu2 _ hh'
    have e1 := unfold_orders hu1 _ hh
    show w2.order (renG σ τ h).1 = _
    rw [← e2, ← e1]
    exact renNs_ids σ τ h.2
  | some res =>
    simp only [hm, Option.map_some] at h1 h2
    refine ⟨by rw [h1.1, h2.1], ?_⟩
    intro h hh
    obtain ⟨_, hr⟩ := sortModel_some hm
    have hmem : (h.1, relink (h.2.map MNode.id)
        (bucket (nodesOf t) (kahn (nodesOf t).length (predsAt (nodesOf t))) h.1)) ∈ res := by
      rw [hr]
      exact List.mem_map.2 ⟨orderOf h, List.mem_map.2 ⟨h, hh, rfl⟩, rfl⟩
    rw [h1.2.2.2.1 _ _ hmem]
    apply h2.2.2.2.1
    exact List.mem_map.2 ⟨_, hmem, rfl⟩

/-! ## Part D — the dictionaries keyed by node identity (`Model/SortIds.lean`)

`sortIds` transcribes steps 1-4 with `node_depth` / `node_predecessors` / `neg_node_index` keyed by
node identity and `nodes` a list that may repeat a node, exactly as the code has them. -/

/-- **C12_ids_refines**: on a well-formed tree (distinct node identities) the identity-keyed
    transcription and the position-keyed model compute the same thing — same raise-or-not, same
    new order of every graph.  Hence every `C12_*` theorem about `sortModel` is a theorem about
    the identity-keyed loop, and modelling the node-keyed dicts by positions loses nothing. -/
theorem C12_ids_refines (g : MGraph) (hwf : WF g) : sortIds g = sortModel g :=
  sortIds_eq_sortModel g hwf.ids

/-- in a tree whose root graph lists each of its own nodes once, a node listed twice is a direct
    node of an attribute graph of some node of the universe -/
theorem dup_is_owned (g : MGraph)
    (hroot : ∀ n ∈ g.2, ((nodesOf g).map Ent.id).count n.id = 1) :
    ∀ p, 2 ≤ (idsOf (nodesOf g)).count p → ∃ o ∈ nodesOf g, p ∈ o.subNodes := by
  intro p hp
  have hmem : p ∈ idsOf (nodesOf g) := List.count_pos_iff.1 (by omega)
  obtain ⟨e, he, rfl⟩ := List.mem_map.1 hmem
  obtain ⟨h, hh, x, hx, rfl⟩ := ent_is_node_root he
  rcases mem_allGraphs.1 hh with rfl | ⟨m, hm, hin⟩
  · have := hroot x hx
    simp only [idsOf, entOf] at hp this
    omega
  · obtain ⟨o, ho, hall⟩ := graph_owner m g.1 h hin
    exact ⟨o, mem_entsNs.2 ⟨m, hm, ho⟩, hall x hx⟩

/-- **C12_ids_shared_raises** (the shared-Graph-object branch, derived line by line): when the
    universe lists some node twice — a Graph object reachable through two attributes — and the
    root graph's own nodes are listed once, the identity-keyed loop never queues a node twice
    (the popped nodes are distinct; so no two queue entries ever carry the same key), it ends
    with an empty queue within `len(nodes)` iterations, it pops fewer than `len(nodes)` nodes, and
    so the cycle test raises: `sortIds = none` — which is what the `sharedGraph` branch of
    `sortModel` says. -/
theorem C12_ids_shared_raises (g : MGraph) (hdup : ¬ ((nodesOf g).map Ent.id).Nodup)
    (hroot : ∀ n ∈ g.2, ((nodesOf g).map Ent.id).count n.id = 1) :
    (kahnIds (nodesOf g)).sorted.Nodup ∧ (kahnIds (nodesOf g)).heap = [] ∧
    (kahnIds (nodesOf g)).sorted.length < (nodesOf g).length ∧
    sortIds g = none ∧ sortIds g = sortModel g := by
  have hown := dup_is_owned g hroot
  obtain ⟨hinv, hend⟩ := kahnIds_inv (nodesOf g) hown
  have hlt := kahnIds_sorted_lt (nodesOf g) hdup hown
  have hnone : sortIds g = none := by
    have : ((kahnIds (nodesOf g)).sorted.length != (nodesOf g).length) = true := by
      simp only [bne_iff_ne, ne_eq]; omega
    simp [sortIds, this]
  refine ⟨(List.nodup_append.1 hinv.nodup).2.1, ?_, hlt, hnone, ?_⟩
  · rcases hend with h | h
    · exact h
    · omega
  · rw [hnone, (C12_shared_raises g hdup).1]

theorem count_map_inj {σ : Nat → Nat} (hσ : Function.Injective σ) (l : List Nat) (x : Nat) :
    (l.map σ).count (σ x) = l.count x := by
  induction l with
  | nil => rfl
  | cons a as ih =>
    simp only [List.map_cons, List.count_cons, ih]
    by_cases h : a = x
    · subst h; simp
    · have : σ a ≠ σ x := fun hc => h (hσ hc)
      simp [h, this]

/-- **C12_ids_equivariant**: the identity-keyed transcription itself is equivariant under every
    injective relabelling of node and graph identities, on well-formed trees and on trees with a
    shared Graph object alike (root nodes listed once): the keys of its dicts are identities, and
    no result depends on which identities they are. -/
theorem C12_ids_equivariant (σ τ : Nat → Nat) (hσ : Function.Injective σ)
    (hτ : Function.Injective τ) (g : MGraph)
    (hroot : ∀ n ∈ g.2, ((nodesOf g).map Ent.id).count n.id = 1) :
    sortIds (renG σ τ g) = (sortIds g).map (renOrders σ τ) := by
  have hids : (nodesOf (renG σ τ g)).map Ent.id = ((nodesOf g).map Ent.id).map σ := by
    rw [nodesOf_ren, List.map_map, List.map_map]; rfl
  by_cases hnd : ((nodesOf g).map Ent.id).Nodup
  · have hnd' : (idsOf (nodesOf (renG σ τ g))).Nodup := by
      show ((nodesOf (renG σ τ g)).map Ent.id).Nodup
      rw [hids]; exact (List.nodup_map_iff hσ).2 hnd
    rw [sortIds_eq_sortModel _ hnd', sortIds_eq_sortModel _ hnd]
    exact C12_deterministic σ τ hσ hτ g
  · have hdup' : ¬ ((nodesOf (renG σ τ g)).map Ent.id).Nodup := by
      rw [hids]; exact fun hc => hnd ((List.nodup_map_iff hσ).1 hc)
    have hroot' : ∀ n ∈ (renG σ τ g).2, ((nodesOf (renG σ τ g)).map Ent.id).count n.id = 1 := by
      intro n hn
      have hn' : n.id ∈ ((renG σ τ g).2).map MNode.id := List.mem_map_of_mem hn
      rw [show (renG σ τ g).2 = renNs σ τ g.2 from rfl, renNs_ids] at hn'
      obtain ⟨i, hi, hin⟩ := List.mem_map.1 hn'
      obtain ⟨m, hm, rfl⟩ := List.mem_map.1 hi
      rw [hids, ← hin, count_map_inj hσ]
      exact hroot m hm
    rw [(C12_ids_shared_raises _ hdup' hroot').2.2.2.1, (C12_ids_shared_raises g hnd hroot).2.2.2.1]
    rfl


/-! ## Part E — the full world: `node.graph`, names, name authorities, the checking phase (fix D89)

`Model/SortFull.lean`: `sortF` buckets the popped nodes by `node.graph`, checks every node of every bucket
(`_check_node_can_be_added`) before the first write, and re-links with `Graph.extend` — checks again, names
nodes and outputs through the name authority, assigns `node.graph`, then writes the container. -/

theorem mem_poppedIds {u : List Ent} {out : List Nat} {i : Nat} (h : i ∈ poppedIds u out) :
    ∃ e ∈ u, e.id = i := by
  obtain ⟨e, he, rfl⟩ := List.mem_map.1 h
  exact ⟨e, mem_popped_sub he, rfl⟩

/-- everything `sortF` does, branch by branch -/
theorem sortF_spec (w : FWorld) (order : List Nat) (g : Nat) :
    (sortF w order g).out ≠ .late ∧ Mono w (sortF w order g).world ∧
    ((sortF w order g).out ≠ .ok → (sortF w order g).trace = [] ∧ (sortF w order g).world = w) ∧
    (sortF w order g).world.sw = applyWrites w.sw (sortF w order g).trace := by
  unfold sortF
  cases hu : unfoldG w.sw w.sw.fuel g with
  | none => exact ⟨by simp, Mono.refl w, fun _ => ⟨rfl, rfl⟩, rfl⟩
  | some t =>
    simp only
    split
    · exact ⟨by simp, Mono.refl w, fun _ => ⟨rfl, rfl⟩, rfl⟩
    split
    · exact ⟨by simp, Mono.refl w, fun _ => ⟨rfl, rfl⟩, rfl⟩
    split
    · exact ⟨by simp, Mono.refl w, fun _ => ⟨rfl, rfl⟩, rfl⟩
    split
    · exact ⟨by simp, Mono.refl w, fun _ => ⟨rfl, rfl⟩, rfl⟩
    · rename_i _ _ _ hchk
      have hall : ∀ p ∈ order.map (fun k => (k, bucketF w (nodesOf t)
          (kahn (nodesOf t).length (predsAt (nodesOf t))) k)), ∀ n ∈ p.2,
          nodeOK w p.1 n = true ∧ (w.nodes n).graph = some p.1 := by
        intro p hp n hn
        refine ⟨?_, ?_⟩
        · simp only [List.any_eq_true, Bool.not_eq_true', not_exists, not_and, Bool.not_eq_false] at hchk
          have := hchk p hp
          exact List.all_eq_true.1 this n hn
        · obtain ⟨k, _, rfl⟩ := List.mem_map.1 hp
          exact mem_bucketF_graph hn
      obtain ⟨h1, h2, h3, h4⟩ := writeAll_ok w _ ⟨w, false, []⟩ rfl (Mono.refl w) hall
      unfold writeAll
      simp only [h1, Bool.false_eq_true, if_false]
      refine ⟨by simp, h2, fun h => absurd rfl h, ?_⟩
      rw [h3, h4]; rfl

/-- **C12_full_no_late** (what fix D89 is for): once the checking phase has passed, no check of any
    `Graph.extend` / `_set_node_graph_to_self_and_assign_names` and no name setter of the re-linking phase
    raises — for EVERY world (no consistency, well-formedness or scoping hypothesis): a call never ends with
    some graphs re-linked or some names assigned and an exception. -/
theorem C12_full_no_late (w : FWorld) (order : List Nat) (g : Nat) : (sortF w order g).out ≠ .late :=
  (sortF_spec w order g).1

/-- **C12_full_raise_no_write**: whenever `sortF` does not end normally — `RecursionError`, the failed
    `assert node.graph is not None`, `ValueError` of the cycle test / a shared Graph object, or a node that
    cannot be re-added (an unnamed output whose tensor refuses a name; a node of another graph) — no container
    write was performed and the world is EQUAL: every container box, every `node.graph`, every node, value
    and tensor name, both counters and both name sets of every name authority. -/
theorem C12_full_raise_no_write (w : FWorld) (order : List Nat) (g : Nat)
    (h : (sortF w order g).out ≠ .ok) :
    (sortF w order g).trace = [] ∧ (sortF w order g).world = w :=
  (sortF_spec w order g).2.2.1 h

/-- **C12_full_frame**: whatever the outcome, `Graph.sort` never changes `node.graph`, a node's outputs or
    op type, a tensor's willingness to be renamed, a value's owner, the attribute graphs or the input
    producers; a node or value that has a name keeps it (`Mono`); the containers have received exactly the
    writes of the trace. -/
theorem C12_full_frame (w : FWorld) (order : List Nat) (g : Nat) :
    Mono w (sortF w order g).world ∧
    (sortF w order g).world.sw = applyWrites w.sw (sortF w order g).trace ∧
    (sortF w order g).world.sw.inputs = w.sw.inputs ∧
    (sortF w order g).world.sw.rw.attrs = w.sw.rw.attrs := by
  obtain ⟨_, h2, _, h4⟩ := sortF_spec w order g
  refine ⟨h2, h4, ?_, ?_⟩
  · rw [h4]; exact (applyWrites_inputs _ _).1
  · rw [h4]; exact (applyWrites_inputs _ _).2.1

/-- outcomes of the full model that the container-level model has too -/
def FOut.toS : FOut → Option SOut
  | .ok => some .ok
  | .valueError => some .valueError
  | .recursionError => some .recursionError
  | _ => none

/-- **C12_full_refines_state**: when `node.graph` names the graph whose container lists the node (C01's
    ownership consistency, decidable, evaluated per sort), the full model and the container-level model
    `sortW` agree: either the checking phase refuses (then `sortW` would have sorted, and nothing is written),
    or same outcome, same write trace, same containers.  Hence `C12_state_sort`, `C12_state_abs_only`,
    `C12_state_deterministic` speak about the containers of the full model. -/
theorem C12_full_refines_state (w : FWorld) (order : List Nat) (g : Nat)
    (hc : ∀ t, unfoldG w.sw w.sw.fuel g = some t → Consistent w (nodesOf t)) :
    ((sortF w order g).out = .refused ∧ (sortW w.sw order g).out = .ok) ∨
    ((sortF w order g).out.toS = some (sortW w.sw order g).out ∧
      (sortF w order g).world.sw = (sortW w.sw order g).world ∧
      (sortF w order g).trace = (sortW w.sw order g).trace) := by
  have hspec := sortF_spec w order g
  revert hspec
  unfold sortF sortW
  cases hu : unfoldG w.sw w.sw.fuel g with
  | none => intro _; exact Or.inr ⟨rfl, rfl, rfl⟩
  | some t =>
    have hcons := hc t hu
    simp only
    split
    · intro _; exact Or.inr ⟨rfl, rfl, rfl⟩
    have hna : (poppedIds (nodesOf t) (kahn (nodesOf t).length (predsAt (nodesOf t)))).any
        (fun i => (w.nodes i).graph.isNone) = false := by
      rw [List.any_eq_false]
      intro i hi
      obtain ⟨e, he, rfl⟩ := mem_poppedIds hi
      rw [hcons e he]; simp
    simp only [hna, Bool.false_eq_true, if_false]
    split
    · intro _; exact Or.inr ⟨rfl, rfl, rfl⟩
    have hws : order.map (fun k => (k, bucketF w (nodesOf t) (kahn (nodesOf t).length (predsAt (nodesOf t))) k))
        = order.map (fun k => (k, bucket (nodesOf t) (kahn (nodesOf t).length (predsAt (nodesOf t))) k)) := by
      apply List.map_congr_left
      intro k _
      rw [bucketF_eq_bucket hcons]
    rw [hws]
    split
    · intro _; exact Or.inl ⟨rfl, rfl⟩
    · rename_i hchk
      intro hspec
      obtain ⟨hl, _, _, hsw⟩ := hspec
      have hl' : (writeAll w (order.map (fun k => (k, bucket (nodesOf t)
          (kahn (nodesOf t).length (predsAt (nodesOf t))) k)))).late = false := by
        cases hb : (writeAll w (order.map (fun k => (k, bucket (nodesOf t)
          (kahn (nodesOf t).length (predsAt (nodesOf t))) k)))).late with
        | false => rfl
        | true => simp [hb] at hl
      simp only [hl', Bool.false_eq_true, if_false] at hsw ⊢
      have hall : ∀ p ∈ order.map (fun k => (k, bucket (nodesOf t)
          (kahn (nodesOf t).length (predsAt (nodesOf t))) k)), ∀ n ∈ p.2,
          nodeOK w p.1 n = true ∧ (w.nodes n).graph = some p.1 := by
        intro p hp n hn
        refine ⟨?_, ?_⟩
        · simp only [List.any_eq_true, Bool.not_eq_true', not_exists, not_and, Bool.not_eq_false] at hchk
          exact List.all_eq_true.1 (hchk p hp) n hn
        · obtain ⟨k, _, rfl⟩ := List.mem_map.1 hp
          rw [← bucketF_eq_bucket hcons] at hn
          exact mem_bucketF_graph hn
      obtain ⟨_, _, h3, h4⟩ := writeAll_ok w _ ⟨w, false, []⟩ rfl (Mono.refl w) hall
      refine Or.inr ⟨rfl, ?_, ?_⟩
      · exact h3
      · rw [show (writeAll w _).trace = _ from h4]; rfl

/-! ## Part F — `TopologicalSortPass` on the stateful world (containers at pointer level) -/

theorem order_applyWrite {w : SWorld} (hw : LinkedSet.WorldWF w.rw) (p : Nat × List Nat) (k : Nat) :
    (applyWrite w p).order k =
      if k = p.1 ∧ p.1 < w.rw.sets.length then relink (w.order k) p.2 else w.order k := by
  rw [order_eq_abs, abs_applyWrite hw, order_eq_abs]
  simp only [absWrite, List.getD_eq_getElem?_getD, List.getElem?_set, List.length_map]
  by_cases h1 : p.1 = k
  · subst h1
    by_cases h2 : p.1 < w.rw.sets.length
    · simp [h2]
    · simp [h2]
  · have h1' : ¬ k = p.1 := fun h => h1 h.symm
    simp [h1, h1']

/-- one `graph_like.extend(original_nodes)` of the restore loop, when every container still holds an
    arrangement of its recorded nodes -/
theorem restore_step (f : Nat → List Nat) {w : SWorld} (hw : LinkedSet.WorldWF w.rw)
    (hp : ∀ k, (w.order k).Perm (f k)) (k0 : Nat) :
    LinkedSet.WorldWF (applyWrite w (k0, f k0)).rw ∧
    (∀ k, ((applyWrite w (k0, f k0)).order k).Perm (f k)) ∧
    (∀ k, w.order k = f k → (applyWrite w (k0, f k0)).order k = f k) ∧
    (applyWrite w (k0, f k0)).order k0 = f k0 := by
  have hrel : relink (w.order k0) (f k0) = f k0 :=
    C12_relink _ _ (linked_toList_nodup (hw.setOf k0)) (hp k0).symm
  have hk0 : (applyWrite w (k0, f k0)).order k0 = f k0 := by
    rw [order_applyWrite hw]
    by_cases h2 : k0 < w.rw.sets.length
    · simp [h2, hrel]
    · simp only [h2, and_false, if_false]
      have he : w.order k0 = [] := by
        simp only [SWorld.order, LinkedSet.RWorld.setOf, List.getD]
        rw [List.getElem?_eq_none (by omega)]; exact toList_empty
      have := hp k0
      rw [he] at this ⊢
      exact (List.nil_perm.1 this).symm
  refine ⟨worldWF_applyWrite hw _, ?_, ?_, hk0⟩
  · intro k
    by_cases h : k = k0
    · subst h; rw [hk0]
    · rw [order_applyWrite hw]; simp only [h, false_and, if_false]; exact hp k
  · intro k hk
    by_cases h : k = k0
    · subst h; exact hk0
    · rw [order_applyWrite hw]; simp only [h, false_and, if_false]; exact hk

/-- the whole restore loop -/
theorem restore_all (f : Nat → List Nat) : ∀ (gls : List Nat) (w : SWorld), LinkedSet.WorldWF w.rw →
    (∀ k, (w.order k).Perm (f k)) →
    LinkedSet.WorldWF (applyWrites w (gls.map (fun k => (k, f k)))).rw ∧
    (∀ k, ((applyWrites w (gls.map (fun k => (k, f k)))).order k).Perm (f k)) ∧
    (∀ k, (k ∈ gls ∨ w.order k = f k) → (applyWrites w (gls.map (fun k => (k, f k)))).order k = f k) := by
  intro gls
  induction gls with
  | nil => intro w hw hp; exact ⟨hw, hp, fun k hk => hk.elim (fun h => by simp at h) id⟩
  | cons k0 gls ih =>
    intro w hw hp
    obtain ⟨s1, s2, s3, s4⟩ := restore_step f hw hp k0
    obtain ⟨i1, i2, i3⟩ := ih (applyWrite w (k0, f k0)) s1 s2
    simp only [List.map_cons, applyWrites, List.foldl_cons] at *
    refine ⟨i1, i2, ?_⟩
    intro k hk
    apply i3
    rcases hk with hk | hk
    · rcases List.mem_cons.1 hk with rfl | hk
      · exact Or.inr s4
      · exact Or.inl hk
    · exact Or.inr (s3 k hk)

/-- a sort whose tree is well formed leaves in every container an arrangement of what it held -/
theorem sortW_perm (w : SWorld) (hw : LinkedSet.WorldWF w.rw) (ord : List Nat) (g : Nat)
    (hyp : (sortW w ord g).out = .ok → ∃ t, unfoldG w w.fuel g = some t ∧ WF t ∧
      ord.Perm (sortKeys (nodesOf t))) :
    LinkedSet.WorldWF (sortW w ord g).world.rw ∧
    ∀ k, ((sortW w ord g).world.order k).Perm (w.order k) := by
  by_cases hok : (sortW w ord g).out = .ok
  · obtain ⟨t, hu, hwf, hord⟩ := hyp hok
    obtain ⟨h1, _, _, h4⟩ := C12_state_sort w hw ord g t hu hwf hord
    refine ⟨h1, ?_⟩
    cases hm : sortModel t with
    | none => simp only [hm] at h4; rw [h4.1] at hok; cases hok
    | some res =>
      simp only [hm] at h4
      obtain ⟨_, _, _, hnew, hother⟩ := h4
      intro k
      by_cases hk : k ∈ gidsOf (allGraphs t)
      · obtain ⟨h, hh, rfl⟩ := List.mem_map.1 hk
        have hperm := C12_perm t hwf res hm
        have hmem : orderOf h ∈ graphsOf t := List.mem_map.2 ⟨h, hh, rfl⟩
        obtain ⟨new, hnewmem, hn1, hn2⟩ := forall₂_mem_left hperm hmem
        have := hnew new.1 new.2 (by simpa using hnewmem)
        rw [hn1] at this
        simp only [orderOf] at this hn2
        rw [this, ← unfold_orders hu h hh]
        exact hn2
      · have := hother k hk
        simp only [SWorld.order, this]
        exact List.Perm.refl _
  · obtain ⟨_, hwld⟩ := C12_state_raise_no_write w ord g hok
    rw [hwld]
    exact ⟨hw, fun k => List.Perm.refl _⟩

/-- hypothesis of `C12_state_pass_atomic`, evaluated along the run: every sort of the pass that succeeds was a
    sort of a well-formed tree (no Graph object shared by two attributes) with an arrangement of the keys as
    re-link order.  Decidable; the driver evaluates it on every replayed pass (`pass_hyp`). -/
def PassHyp : SWorld → List (Nat × List Nat) → Prop
  | _, [] => True
  | w, p :: rest => (sortW w p.2 p.1).out = .ok →
      (∃ t, unfoldG w w.fuel p.1 = some t ∧ WF t ∧ p.2.Perm (sortKeys (nodesOf t))) ∧
      PassHyp (sortW w p.2 p.1).world rest

/-- the executable hypothesis implies `PassHyp` -/
theorem passHypB_sound : ∀ (roots : List (Nat × List Nat)) (w : SWorld), passHypB w roots = true →
    PassHyp w roots := by
  intro roots
  induction roots with
  | nil => intro w _; trivial
  | cons p rest ih =>
    intro w h hok
    simp only [passHypB, hok, if_true, Bool.and_eq_true] at h
    obtain ⟨h1, h2⟩ := h
    cases hu : unfoldG w w.fuel p.1 with
    | none => rw [hu] at h1; simp at h1
    | some t =>
      rw [hu] at h1
      simp only [Bool.and_eq_true, decide_eq_true_eq] at h1
      exact ⟨⟨t, rfl, ⟨h1.1.1, h1.1.2⟩, List.isPerm_iff.1 h1.2⟩, ih _ h2⟩

theorem passSortsW_perm : ∀ (roots : List (Nat × List Nat)) (w : SWorld), LinkedSet.WorldWF w.rw →
    PassHyp w roots →
    LinkedSet.WorldWF (passSortsW w roots).world.rw ∧
    ∀ k, ((passSortsW w roots).world.order k).Perm (w.order k) := by
  intro roots
  induction roots with
  | nil => intro w hw _; exact ⟨hw, fun k => List.Perm.refl _⟩
  | cons p rest ih =>
    intro w hw hyp
    obtain ⟨g, ord⟩ := p
    simp only [PassHyp] at hyp
    obtain ⟨s1, s2⟩ := sortW_perm w hw ord g (fun h => (hyp h).1)
    simp only [passSortsW]
    by_cases hok : (sortW w ord g).out = .ok
    · simp only [hok, if_true]
      obtain ⟨i1, i2⟩ := ih (sortW w ord g).world s1 (hyp hok).2
      exact ⟨i1, fun k => (i2 k).trans (s2 k)⟩
    · simp only [hok, if_false]
      exact ⟨s1, s2⟩

/-- **C12_state_pass_atomic**: `TopologicalSortPass.call` on the stateful world (node containers at pointer
    level, arbitrary histories; `roots` = main graph and functions with the re-link order of each sort, `gls`
    = the recorded `graph_likes`, ANY list of graphs): whatever the outcome, every container still satisfies
    C11's invariant and holds an arrangement of the nodes it held; when the pass raises `ValueError` — a cycle
    or a shared Graph object in the main graph or in any function, after any number of successful sorts —
    every recorded graph (main graph, functions, all their nested graphs) holds EXACTLY the node sequence it
    held before the call; with any other outcome the restore loop is not executed: the world is the one the
    sorts left (for `ok`: each sort as `C12_state_sort` describes). -/
theorem C12_state_pass_atomic (w : SWorld) (hw : LinkedSet.WorldWF w.rw)
    (roots : List (Nat × List Nat)) (gls : List Nat) (hyp : PassHyp w roots) :
    LinkedSet.WorldWF (passW w roots gls).world.rw ∧
    (∀ k, ((passW w roots gls).world.order k).Perm (w.order k)) ∧
    ((passW w roots gls).out = .valueError →
      ∀ k ∈ gls, (passW w roots gls).world.order k = w.order k) ∧
    ((passW w roots gls).out ≠ .valueError → passW w roots gls = passSortsW w roots) := by
  obtain ⟨p1, p2⟩ := passSortsW_perm roots w hw hyp
  unfold passW
  by_cases hv : (passSortsW w roots).out = .valueError
  · rw [if_pos hv]
    obtain ⟨r1, r2, r3⟩ := restore_all (fun k => w.order k) gls (passSortsW w roots).world p1 p2
    exact ⟨r1, r2, fun _ k hk => r3 k (Or.inl hk), fun h => absurd rfl h⟩
  · rw [if_neg hv]
    exact ⟨p1, p2, fun h => absurd h hv, fun _ => rfl⟩


/-! ## Part G — `heapq` (`Model/Heap.lean`) -/

theorem isHeap_parent {h : List Nat} (hh : Heap.isHeap h = true) {i : Nat} (hi : i < h.length) (h0 : i ≠ 0) :
    h.getD ((i - 1) / 2) 0 ≤ h.getD i 0 := by
  unfold Heap.isHeap at hh
  have := List.all_eq_true.1 hh i (List.mem_range.2 hi)
  simp only [Bool.or_eq_true, beq_iff_eq, decide_eq_true_eq] at this
  rcases this with h1 | h1
  · exact absurd h1 h0
  · exact h1

/-- in a list satisfying the heap invariant the first entry is below every entry -/
theorem isHeap_root_le {h : List Nat} (hh : Heap.isHeap h = true) :
    ∀ i, i < h.length → h.getD 0 0 ≤ h.getD i 0 := by
  intro i
  induction i using Nat.strongRecOn with
  | _ i ih =>
    intro hi
    by_cases h0 : i = 0
    · subst h0; exact Nat.le_refl _
    · have hp : (i - 1) / 2 < i := by omega
      exact Nat.le_trans (ih _ hp (by omega)) (isHeap_parent hh hi h0)

/-- **C12_heappop_min_partial**: on a list that satisfies the heap invariant (`heap[(i-1)>>1] <= heap[i]`),
    `heapq.heappop` (transcription of CPython's heapq.py) returns an entry of the list that is below every entry —
    with distinct keys: THE minimum, i.e. the queued node with the largest position, which is what `maxOf` in
    `Model/Sort.lean` extracts.  PARTIAL: that `heapify`, `heappush` and `heappop` (`_siftup` / `_siftdown`)
    re-establish the invariant and keep the multiset of entries is not proved; it is compared with the real `heapq`
    step by step on every run and the invariant is evaluated after every operation (`heap_hyp_invariant`). -/
theorem C12_heappop_min_partial (h : List Nat) (hh : Heap.isHeap h = true) (hne : h ≠ []) :
    ∃ m, (Heap.heappop h).1 = some m ∧ m ∈ h ∧ ∀ x ∈ h, m ≤ x := by
  cases h with
  | nil => exact absurd rfl hne
  | cons a t =>
    have hroot : ∀ x ∈ a :: t, a ≤ x := by
      intro x hx
      obtain ⟨i, hi, rfl⟩ := List.getElem_of_mem hx
      have := isHeap_root_le hh i hi
      simpa [List.getD_eq_getElem?_getD, List.getElem?_eq_getElem hi] using this
    refine ⟨a, ?_, by simp, hroot⟩
    cases t with
    | nil => simp [Heap.heappop]
    | cons b t' =>
      simp [Heap.heappop, List.getLast?_cons_cons, List.dropLast]
      cases hl : (b :: t').getLast? with
      | none => simp at hl
      | some last => simp

/-! ## Part H — `heapq` re-establishes its invariant; `Graph.sort`'s loop on the real binary heap (round 5)

This supersedes the PARTIAL status of `C12_heappop_min_partial`: its hypothesis (the heap invariant) is now proved to
hold after every operation `Graph.sort` performs on the queue. -/

/-- **C12_heap_invariant**: for the transcription of CPython's heapq.py (`_siftdown`, `_siftup` as they are: the
    smaller child is moved up until a leaf is reached, then the new item is bubbled up): `heapify` of ANY list
    establishes the heap invariant; `heappush` and `heappop` on a list satisfying it re-establish it; and each of them
    keeps the multiset of keys (`heapify x ~ x`, `heappush h x ~ x :: h`, `h ~ popped :: rest`). -/
theorem C12_heap_invariant :
    (∀ x : List Nat, Heap.isHeap (Heap.heapify x) = true ∧ (Heap.heapify x).Perm x) ∧
    (∀ (h : List Nat) (x : Nat), Heap.isHeap h = true →
      Heap.isHeap (Heap.heappush h x) = true ∧ (Heap.heappush h x).Perm (x :: h)) ∧
    (∀ h : List Nat, Heap.isHeap h = true → h ≠ [] →
      ∃ m, (Heap.heappop h).1 = some m ∧ Heap.isHeap (Heap.heappop h).2 = true ∧
        h.Perm (m :: (Heap.heappop h).2)) := by
  refine ⟨fun x => ?_, fun h x hh => ?_, fun h hh hne => ?_⟩
  · have hs := Heap.heapify_spec x
    exact ⟨(Heap.isHeap_iff _).2 hs.1, List.perm_iff_count.2 hs.2.1⟩
  · have hs := Heap.heappush_spec x ((Heap.isHeap_iff _).1 hh)
    exact ⟨(Heap.isHeap_iff _).2 hs.1, List.perm_iff_count.2 hs.2.1⟩
  · obtain ⟨m, h1, h2, h3⟩ := Heap.heappop_spec ((Heap.isHeap_iff _).1 hh) hne
    exact ⟨m, h1, (Heap.isHeap_iff _).2 h2, (List.perm_iff_count.2 h3).symm⟩

/-- **C12_heap_refines_queue**: a list satisfying the heap invariant answers every sequence of `heappush` /
    `heappop` exactly as the abstract priority queue holding the same keys does (`absPop`: remove one smallest key;
    `none` = IndexError on the empty queue).  Keys need not be distinct. -/
theorem C12_heap_refines_queue (h q : List Nat) (hh : Heap.isHeap h = true) (hp : h.Perm q)
    (ops : List (Option Nat)) : Heap.runHeap h ops = Heap.runAbs q ops :=
  Heap.run_refines ops h q ((Heap.isHeap_iff _).1 hh) (List.perm_iff_count.1 hp)

/-- **C12_heap_extract_min**: after `heapify(init)`, any sequence of pushes and pops returns, at every pop, the
    smallest of the keys present at that moment (those of `init` and of the pushes so far that were not popped yet). -/
theorem C12_heap_extract_min (init : List Nat) (ops : List (Option Nat)) :
    Heap.runHeap (Heap.heapify init) ops = Heap.runAbs init ops :=
  C12_heap_refines_queue _ _ (C12_heap_invariant.1 init).1 (C12_heap_invariant.1 init).2 ops

/-- **C12_heap_pops_increasing**: popping `k <= len(init)` times after `heapify(init)` returns keys of `init` in
    increasing order (never IndexError). -/
theorem C12_heap_pops_increasing (init : List Nat) (k : Nat) (hk : k ≤ init.length) :
    ∃ l : List Nat, Heap.runHeap (Heap.heapify init) (List.replicate k none) = l.map some ∧
      l.Pairwise (· ≤ ·) ∧ (∀ x ∈ l, x ∈ init) ∧ l.length = k := by
  rw [C12_heap_extract_min]
  exact Heap.runAbs_pops k init hk

/-- **C12_heap_kahn_refines**: steps 1-4 of `Graph.sort` with the priority queue as it is in the code -- a list under
    `heapq.heapify` / `heappop` / `heappush` (`Model/SortHeap.lean`) -- and with the queue of `Model/SortIds.lean`
    (`maxKey`: 'the entry with the largest position') pop the same nodes in the same order, leave the same counters
    and give the same result, for EVERY graph tree (also with a Graph object shared by two attributes).  That
    `heappop` returns the queued node with the largest position is thereby derived from the transcribed sift
    operations instead of being assumed. -/
theorem C12_heap_kahn_refines (g : MGraph) :
    (kahnHeap (nodesOf g)).sorted = (kahnIds (nodesOf g)).sorted ∧
    (kahnHeap (nodesOf g)).depth = (kahnIds (nodesOf g)).depth ∧
    Heap.isHeap (kahnHeap (nodesOf g)).heap = true ∧
    sortHeap g = sortIds g := by
  have sim := kahnHeap_sim (nodesOf g)
  exact ⟨sim.sorted.symm, sim.depth.symm, (Heap.isHeap_iff _).2 sim.heap, sortHeap_eq_sortIds g⟩

/-- **C12_heap_sort_refines**: on a well-formed tree the sort on the real binary heap is `sortModel`: every
    `C12_*` theorem about `sortModel` (permutation, producers first, cycle iff raise, fixpoint, determinism) is a
    theorem about the loop that uses `heapq`. -/
theorem C12_heap_sort_refines (g : MGraph) (hwf : WF g) : sortHeap g = sortModel g :=
  (C12_heap_kahn_refines g).2.2.2.trans (C12_ids_refines g hwf)

/-! ## Part I — the full pass refines the container-level pass; a successful pass leaves every graph-like sorted (round 5) -/

theorem FOut.toS_ok {o : FOut} {x : SOut} (h : o.toS = some x) :
    (o = .ok ↔ x = .ok) ∧ (o = .valueError ↔ x = .valueError) ∧ o ≠ .late ∧ o ≠ .assertionError ∧ o ≠ .refused := by
  cases o <;> cases x <;> simp_all [FOut.toS]

theorem passSortsF_refines : ∀ (roots : List (Nat × List Nat)) (w : FWorld), passConsB w roots = true →
    (passSortsF w roots).world.sw = applyWrites w.sw (passSortsF w roots).trace ∧
    (((passSortsF w roots).out.toS = some (passSortsW w.sw roots).out ∧
        (passSortsF w roots).world.sw = (passSortsW w.sw roots).world ∧
        (passSortsF w roots).trace = (passSortsW w.sw roots).trace) ∨
     ((passSortsF w roots).out = .refused ∧ (passSortsF w roots).trace <+: (passSortsW w.sw roots).trace)) := by
  intro roots
  induction roots with
  | nil => intro w _; exact ⟨rfl, Or.inl ⟨rfl, rfl, rfl⟩⟩
  | cons p rest ih =>
    intro w hc
    obtain ⟨g, ord⟩ := p
    simp only [passConsB, Bool.and_eq_true] at hc
    obtain ⟨hc1, hc2⟩ := hc
    have hcons : ∀ t, unfoldG w.sw w.sw.fuel g = some t → Consistent w (nodesOf t) := by
      intro t ht; rw [ht] at hc1; exact of_decide_eq_true hc1
    have hfr := C12_full_refines_state w ord g hcons
    have hsp := sortF_spec w ord g
    simp only [passSortsF, passSortsW]
    rcases hfr with ⟨hF, hW⟩ | ⟨hto, hwd, htr⟩
    · have hne : (sortF w ord g).out ≠ .ok := by rw [hF]; decide
      have htr0 := (hsp.2.2.1 hne).1
      simp only [hne, if_false, hW, if_true]
      exact ⟨hsp.2.2.2, Or.inr ⟨hF, by rw [htr0]; exact List.nil_prefix⟩⟩
    · by_cases hok : (sortF w ord g).out = .ok
      · have hokW : (sortW w.sw ord g).out = .ok := (FOut.toS_ok hto).1.1 hok
        simp only [hok, if_true, hokW]
        rw [hok] at hc2
        simp only [if_true] at hc2
        obtain ⟨i1, i2⟩ := ih (sortF w ord g).world hc2
        rw [hwd] at i2
        refine ⟨?_, ?_⟩
        · rw [i1, hsp.2.2.2, applyWrites_append]
        · rcases i2 with ⟨a, b, c⟩ | ⟨a, b⟩
          · exact Or.inl ⟨a, b, by rw [htr, c]⟩
          · exact Or.inr ⟨a, by rw [htr]; exact (List.prefix_append_right_inj _).2 b⟩
      · have hokW : (sortW w.sw ord g).out ≠ .ok := fun h => hok ((FOut.toS_ok hto).1.2 h)
        simp only [hok, if_false, hokW]
        exact ⟨hsp.2.2.2, Or.inl ⟨hto, hwd, htr⟩⟩

/-- **C12_passF_refines_passW**: `TopologicalSortPass.call` on the full world (`passF`: `Graph.extend` with its checks
    and naming, also in the restore loop) against the container-level pass (`passW`, the subject of
    `C12_state_pass_atomic`), for ANY world and history in which, at each sort the pass performs, `node.graph` names the
    listing container (`passConsB`, decidable, evaluated per replayed pass).  Whatever happens: no check or setter
    raises after a write inside a sort, no assertion fails, the containers are exactly the result of the recorded
    writes, and those writes are a PREFIX of `passW`'s; unless the pass is refused (a node that cannot be re-added, in a
    sort or in the restore loop - observations D391 / finding D392) the two passes end alike: same outcome, same
    writes, same containers.  Hence `C12_state_pass_atomic` speaks about the containers of the full pass.
    (Until this round that was compared per replayed pass only.) -/
theorem C12_passF_refines_passW (w : FWorld) (roots : List (Nat × List Nat)) (gls : List Nat)
    (hgl : graphLikes w.sw (roots.map Prod.fst) = some gls) (hc : passConsB w roots = true) :
    (passF w roots).out ≠ .late ∧ (passF w roots).out ≠ .assertionError ∧
    (passF w roots).world.sw = applyWrites w.sw (passF w roots).trace ∧
    (passF w roots).trace <+: (passW w.sw roots gls).trace ∧
    ((passF w roots).out ≠ .refused →
      (passF w roots).out.toS = some (passW w.sw roots gls).out ∧
      (passF w roots).world.sw = (passW w.sw roots gls).world ∧
      (passF w roots).trace = (passW w.sw roots gls).trace) := by
  obtain ⟨a1, a2⟩ := passSortsF_refines roots w hc
  unfold passF passW
  simp only [hgl]
  by_cases hv : (passSortsF w roots).out = .valueError
  · rcases a2 with ⟨hto, hwd, htr⟩ | ⟨hr, _⟩
    · have hvW : (passSortsW w.sw roots).out = .valueError := (FOut.toS_ok hto).2.1.1 hv
      obtain ⟨g1, g2, g3⟩ := writeAll_gen (passSortsF w roots).world (gls.map (fun k => (k, w.sw.order k)))
      simp only [hv, if_true, hvW]
      refine ⟨by split <;> simp, by split <;> simp, ?_, ?_, ?_⟩
      · rw [g2, a1, applyWrites_append]
      · rw [htr]; exact (List.prefix_append_right_inj _).2 g1
      · intro hnr
        have hl : (writeAll (passSortsF w roots).world (gls.map (fun k => (k, w.sw.order k)))).late = false := by
          cases h : (writeAll (passSortsF w roots).world (gls.map (fun k => (k, w.sw.order k)))).late with
          | false => rfl
          | true => rw [h] at hnr; simp at hnr
        have g3' := g3 hl
        simp only [hl, Bool.false_eq_true, if_false]
        refine ⟨rfl, ?_, by rw [g3', htr]⟩
        rw [g2, g3', hwd]
    · rw [hv] at hr; cases hr
  · simp only [hv, if_false]
    rcases a2 with ⟨hto, hwd, htr⟩ | ⟨hr, hpre⟩
    · have hvW : (passSortsW w.sw roots).out ≠ .valueError := fun h => hv ((FOut.toS_ok hto).2.1.2 h)
      simp only [hvW, if_false]
      exact ⟨(FOut.toS_ok hto).2.2.1, (FOut.toS_ok hto).2.2.2.1, a1, by rw [htr]; exact List.prefix_refl _,
        fun _ => ⟨hto, hwd, htr⟩⟩
    · refine ⟨by rw [hr]; decide, by rw [hr]; decide, a1, ?_, fun h => absurd hr h⟩
      split
      · exact hpre.trans (List.prefix_append _ _)
      · exact hpre

theorem sortW_world (w : SWorld) (order : List Nat) (g : Nat) :
    (sortW w order g).world = applyWrites w (sortW w order g).trace := by
  unfold sortW
  split
  · rfl
  · simp only
    split
    · rfl
    split <;> rfl

theorem passSortsW_world : ∀ (roots : List (Nat × List Nat)) (w : SWorld),
    (passSortsW w roots).world = applyWrites w (passSortsW w roots).trace := by
  intro roots
  induction roots with
  | nil => intro w; rfl
  | cons p rest ih =>
    intro w
    simp only [passSortsW]
    split
    · simp only; rw [ih, applyWrites_append, ← sortW_world]
    · exact sortW_world w p.2 p.1

/-- what `C12_pass_success_sorted` concludes, graph-like by graph-like in the order the pass sorts them: the tree the
    sort read, `sortModel`'s result for it, and every graph of the tree holds its entry of that result in the FINAL
    world `fin` -/
def PassSorted (fin : SWorld) : SWorld → List (Nat × List Nat) → Prop
  | _, [] => True
  | w, p :: rest =>
    (∃ t res, unfoldG w w.fuel p.1 = some t ∧ WF t ∧ sortModel t = some res ∧
      ∀ k new, (k, new) ∈ res → fin.order k = new) ∧
    PassSorted fin (sortW w p.2 p.1).world rest

theorem pass_sorted_aux : ∀ (roots : List (Nat × List Nat)) (w : SWorld), LinkedSet.WorldWF w.rw →
    PassHyp w roots → passDisjB w roots = true → (passSortsW w roots).out = .ok →
    PassSorted (passSortsW w roots).world w roots := by
  intro roots
  induction roots with
  | nil => intro w _ _ _ _; trivial
  | cons p rest ih =>
    intro w hw hyp hdj hout
    obtain ⟨g, ord⟩ := p
    have hok1 : (sortW w ord g).out = .ok := by
      apply Classical.byContradiction; intro hn
      simp only [passSortsW, hn, if_false] at hout
    simp only [passSortsW, hok1, if_true] at hout ⊢
    simp only [PassHyp] at hyp
    obtain ⟨⟨t, hu, hwf, hperm⟩, hrest⟩ := hyp hok1
    simp only [passDisjB, hu, Bool.and_eq_true] at hdj
    obtain ⟨hd1, hd2⟩ := hdj
    obtain ⟨s1, _, _, s4⟩ := C12_state_sort w hw ord g t hu hwf hperm
    cases hm : sortModel t with
    | none =>
      rw [hm] at s4; simp only at s4
      rw [s4.1] at hok1; cases hok1
    | some res =>
      rw [hm] at s4; simp only at s4
      obtain ⟨_, _, _, s44, _⟩ := s4
      refine ⟨⟨t, res, hu, hwf, hm, ?_⟩, ih (sortW w ord g).world s1 hrest hd2 hout⟩
      intro k new hk
      rw [← s44 k new hk]
      have hkg : k ∈ (allGraphs t).map Prod.fst := by
        rw [(sortModel_some hm).2] at hk
        simp only [graphsOf, List.map_map, List.mem_map] at hk
        obtain ⟨h, hh, he⟩ := hk
        have : k = h.1 := by simpa [orderOf] using (congrArg Prod.fst he).symm
        rw [this]; exact List.mem_map_of_mem hh
      have hnot : k ∉ (passSortsW (sortW w ord g).world rest).trace.map Prod.fst := by
        intro hmem
        obtain ⟨q, hq, rfl⟩ := List.mem_map.1 hmem
        have := List.all_eq_true.1 hd1 q hq
        simp only [Bool.not_eq_true', List.contains_eq_mem, decide_eq_false_iff_not] at this
        exact this hkg
      unfold SWorld.order
      rw [passSortsW_world rest, applyWrites_setOf_other _ _ k hnot]

/-- **C12_pass_success_sorted**: when `TopologicalSortPass.call` succeeds on the stateful world (containers at pointer
    level, arbitrary histories), the restore loop is not executed and EVERY graph-like is sorted at the END of the pass,
    not only at the time of its own sort: for the main graph and each function, in the order they are sorted, the tree
    that sort read is well formed, `sortModel` succeeds on it, and every graph of that tree holds in the final world
    exactly its entry of `sortModel`'s result (for which `C12_perm`, `C12_respects`, `C12_fixpoint` hold).
    Hypotheses, both decidable and evaluated per replayed pass: `PassHyp` (as `C12_state_pass_atomic`) and `passDisjB`:
    no later sort of the pass writes a container of an earlier graph-like's tree (the graph-likes of a model are
    disjoint trees). -/
theorem C12_pass_success_sorted (w : SWorld) (hw : LinkedSet.WorldWF w.rw)
    (roots : List (Nat × List Nat)) (gls : List Nat) (hyp : PassHyp w roots) (hdj : passDisjB w roots = true)
    (hok : (passW w roots gls).out = .ok) :
    (passW w roots gls).world = (passSortsW w roots).world ∧
    PassSorted (passW w roots gls).world w roots := by
  have hnv : ¬ (passSortsW w roots).out = .valueError := by
    intro hv
    simp only [passW, hv, if_true] at hok
    cases hok
  have hw' : (passW w roots gls) = passSortsW w roots := by simp only [passW, hnv, if_false]
  rw [hw'] at hok ⊢
  exact ⟨rfl, pass_sorted_aux roots w hw hyp hdj hok⟩

/-- **C12_passF_success_sorted**: the same for the full pass (names, checks): when `passF` ends normally, its containers
    are those of `passW`, so every graph-like is sorted at the end of the pass. -/
theorem C12_passF_success_sorted (w : FWorld) (hw : LinkedSet.WorldWF w.sw.rw)
    (roots : List (Nat × List Nat)) (gls : List Nat)
    (hgl : graphLikes w.sw (roots.map Prod.fst) = some gls) (hc : passConsB w roots = true)
    (hyp : PassHyp w.sw roots) (hdj : passDisjB w.sw roots = true) (hok : (passF w roots).out = .ok) :
    PassSorted (passF w roots).world.sw w.sw roots := by
  obtain ⟨_, _, _, _, h5⟩ := C12_passF_refines_passW w roots gls hgl hc
  obtain ⟨hto, hwd, _⟩ := h5 (by rw [hok]; decide)
  have hokW : (passW w.sw roots gls).out = .ok := (FOut.toS_ok hto).1.1 hok
  rw [hwd]
  exact (C12_pass_success_sorted w.sw hw roots gls hyp hdj hokW).2

/-! ## Part J — the pass after the proposed fix D392 (restore only graph-likes whose order changed) -/

theorem changedB_false : ∀ {a b : List Nat}, a.length = b.length → changedB a b = false → a = b
  | [], [], _, _ => rfl
  | [], _ :: _, h, _ => by simp at h
  | _ :: _, [], h, _ => by simp at h
  | x :: a, y :: b, h, hc => by
    simp only [changedB, List.zip_cons_cons, List.any_cons, Bool.or_eq_false_iff, bne_eq_false_iff_eq] at hc
    have := changedB_false (a := a) (b := b) (by simpa using h) hc.2
    rw [hc.1, this]

/-- the restore loop of D392: every recorded graph ends with its recorded sequence -/
theorem restoreD_all (w0 : SWorld) : ∀ (gls : List Nat) (s : SWorld × List (Nat × List Nat)),
    LinkedSet.WorldWF s.1.rw → (∀ k, (s.1.order k).Perm (w0.order k)) →
    LinkedSet.WorldWF (gls.foldl (restoreStepWD w0) s).1.rw ∧
    (∀ k, ((gls.foldl (restoreStepWD w0) s).1.order k).Perm (w0.order k)) ∧
    (∀ k, (k ∈ gls ∨ s.1.order k = w0.order k) → (gls.foldl (restoreStepWD w0) s).1.order k = w0.order k) := by
  intro gls
  induction gls with
  | nil => intro s hw hp; exact ⟨hw, hp, fun k hk => hk.elim (fun h => by simp at h) id⟩
  | cons k0 gls ih =>
    intro s hw hp
    simp only [List.foldl_cons]
    by_cases hc : changedB (w0.order k0) (s.1.order k0) = true
    · obtain ⟨s1, s2, s3, s4⟩ := restore_step (fun k => w0.order k) hw hp k0
      have hstep : restoreStepWD w0 s k0 = (applyWrite s.1 (k0, w0.order k0), s.2 ++ [(k0, w0.order k0)]) := by
        simp [restoreStepWD, hc]
      rw [hstep]
      obtain ⟨i1, i2, i3⟩ := ih (applyWrite s.1 (k0, w0.order k0), s.2 ++ [(k0, w0.order k0)]) s1 s2
      refine ⟨i1, i2, ?_⟩
      intro k hk
      apply i3
      rcases hk with hk | hk
      · rcases List.mem_cons.1 hk with rfl | hk
        · exact Or.inr s4
        · exact Or.inl hk
      · exact Or.inr (s3 k hk)
    · have hc' : changedB (w0.order k0) (s.1.order k0) = false := by
        cases h : changedB (w0.order k0) (s.1.order k0) <;> simp_all
      have hstep : restoreStepWD w0 s k0 = s := by simp [restoreStepWD, hc']
      rw [hstep]
      obtain ⟨i1, i2, i3⟩ := ih s hw hp
      refine ⟨i1, i2, ?_⟩
      intro k hk
      apply i3
      rcases hk with hk | hk
      · rcases List.mem_cons.1 hk with rfl | hk
        · exact Or.inr (changedB_false (hp k).length_eq.symm hc').symm
        · exact Or.inl hk
      · exact Or.inr hk

/-- **C12_state_pass_atomic_D392**: `C12_state_pass_atomic` for the pass as it is after the proposed fix D392
    (`passWD`: the restore loop re-extends only the graph-likes whose order changed, tested when the loop gets to them):
    same four conclusions - in particular on `ValueError` EVERY recorded graph holds exactly the node sequence it held
    before the call (a graph that is skipped is one whose sequence is already the recorded one). -/
theorem C12_state_pass_atomic_D392 (w : SWorld) (hw : LinkedSet.WorldWF w.rw)
    (roots : List (Nat × List Nat)) (gls : List Nat) (hyp : PassHyp w roots) :
    LinkedSet.WorldWF (passWD w roots gls).world.rw ∧
    (∀ k, ((passWD w roots gls).world.order k).Perm (w.order k)) ∧
    ((passWD w roots gls).out = .valueError →
      ∀ k ∈ gls, (passWD w roots gls).world.order k = w.order k) ∧
    ((passWD w roots gls).out ≠ .valueError → passWD w roots gls = passSortsW w roots) := by
  obtain ⟨p1, p2⟩ := passSortsW_perm roots w hw hyp
  unfold passWD
  by_cases hv : (passSortsW w roots).out = .valueError
  · rw [if_pos hv]
    obtain ⟨r1, r2, r3⟩ := restoreD_all w gls ((passSortsW w roots).world, []) p1 p2
    exact ⟨r1, r2, fun _ k hk => r3 k (Or.inl hk), fun h => absurd rfl h⟩
  · rw [if_neg hv]
    exact ⟨p1, p2, fun h => absurd h hv, fun _ => rfl⟩

theorem restoreWD_prefix (w0 : SWorld) : ∀ (gls : List Nat) (s : SWorld × List (Nat × List Nat)),
    s.2 <+: (gls.foldl (restoreStepWD w0) s).2 := by
  intro gls
  induction gls with
  | nil => intro s; exact List.prefix_refl _
  | cons k gls ih =>
    intro s
    simp only [List.foldl_cons]
    by_cases hc : changedB (w0.order k) (s.1.order k) = true
    · have hW : restoreStepWD w0 s k = (applyWrite s.1 (k, w0.order k), s.2 ++ [(k, w0.order k)]) := by
        simp [restoreStepWD, hc]
      rw [hW]
      exact (List.prefix_append s.2 [(k, w0.order k)]).trans
        (ih (applyWrite s.1 (k, w0.order k), s.2 ++ [(k, w0.order k)]))
    · have hW : restoreStepWD w0 s k = s := by simp [restoreStepWD, hc]
      rw [hW]; exact ih s

theorem restoreFD_skip (w0 : SWorld) : ∀ (gls : List Nat) (s : WSt), s.late = true →
    gls.foldl (restoreStepFD w0) s = s := by
  intro gls
  induction gls with
  | nil => intro s _; rfl
  | cons k gls ih =>
    intro s hs
    simp only [List.foldl_cons]
    rw [show restoreStepFD w0 s k = s by simp [restoreStepFD, hs]]
    exact ih s hs

/-- the two restore loops of D392 side by side -/
theorem restoreFD_gen (w0 : SWorld) : ∀ (gls : List Nat) (sF : WSt) (sW : SWorld × List (Nat × List Nat)),
    sF.late = false → sF.world.sw = sW.1 → sF.trace = sW.2 →
    (gls.foldl (restoreStepFD w0) sF).trace <+: (gls.foldl (restoreStepWD w0) sW).2 ∧
    ((gls.foldl (restoreStepFD w0) sF).late = false →
      (gls.foldl (restoreStepFD w0) sF).world.sw = (gls.foldl (restoreStepWD w0) sW).1 ∧
      (gls.foldl (restoreStepFD w0) sF).trace = (gls.foldl (restoreStepWD w0) sW).2) := by
  intro gls
  induction gls with
  | nil =>
    intro sF sW _ hw ht
    simp only [List.foldl_nil]
    exact ⟨by rw [ht]; exact List.prefix_refl _, fun _ => ⟨hw, ht⟩⟩
  | cons k gls ih =>
    intro sF sW hl hw ht
    simp only [List.foldl_cons]
    by_cases hc : changedB (w0.order k) (sW.1.order k) = true
    · have hcF : changedB (w0.order k) (sF.world.sw.order k) = true := by rw [hw]; exact hc
      have hW : restoreStepWD w0 sW k = (applyWrite sW.1 (k, w0.order k), sW.2 ++ [(k, w0.order k)]) := by
        simp [restoreStepWD, hc]
      have hF : restoreStepFD w0 sF k = writeStep sF (k, w0.order k) := by simp [restoreStepFD, hl, hcF]
      rw [hW, hF]
      have hsw := extendF_sw sF.world (k, w0.order k)
      by_cases he : (extendF sF.world (k, w0.order k)).2 = true
      · have hstep : writeStep sF (k, w0.order k) = ⟨(extendF sF.world (k, w0.order k)).1, true, sF.trace⟩ := by
          simp [writeStep, hl, he]
        rw [hstep, restoreFD_skip w0 gls _ rfl]
        refine ⟨?_, fun h => by simp at h⟩
        show sF.trace <+: _
        rw [ht]
        exact (List.prefix_append sW.2 [(k, w0.order k)]).trans
          (restoreWD_prefix w0 gls (applyWrite sW.1 (k, w0.order k), sW.2 ++ [(k, w0.order k)]))
      · have he' : (extendF sF.world (k, w0.order k)).2 = false := by
          cases h : (extendF sF.world (k, w0.order k)).2 <;> simp_all
        have hstep : writeStep sF (k, w0.order k) =
            ⟨(extendF sF.world (k, w0.order k)).1, false, sF.trace ++ [(k, w0.order k)]⟩ := by
          simp [writeStep, hl, he']
        rw [hstep]
        simp only [he', Bool.false_eq_true, if_false] at hsw
        exact ih _ _ rfl (by rw [hsw, hw]) (by rw [ht])
    · have hc' : changedB (w0.order k) (sW.1.order k) = false := by
        cases h : changedB (w0.order k) (sW.1.order k) <;> simp_all
      have hcF : changedB (w0.order k) (sF.world.sw.order k) = false := by rw [hw]; exact hc'
      have hW : restoreStepWD w0 sW k = sW := by simp [restoreStepWD, hc']
      have hF : restoreStepFD w0 sF k = sF := by simp [restoreStepFD, hl, hcF]
      rw [hW, hF]
      exact ih sF sW hl hw ht

/-- **C12_passF_refines_passW_D392**: `C12_passF_refines_passW` for the pass after the proposed fix D392
    (`passFD` against `passWD`): no late raise, no failed assertion, the container writes of the full pass are a prefix
    of the container-level pass's, and unless the pass is refused the two end alike. -/
theorem C12_passF_refines_passW_D392 (w : FWorld) (roots : List (Nat × List Nat)) (gls : List Nat)
    (hgl : graphLikes w.sw (roots.map Prod.fst) = some gls) (hc : passConsB w roots = true) :
    (passFD w roots).out ≠ .late ∧ (passFD w roots).out ≠ .assertionError ∧
    (passFD w roots).trace <+: (passWD w.sw roots gls).trace ∧
    ((passFD w roots).out ≠ .refused →
      (passFD w roots).out.toS = some (passWD w.sw roots gls).out ∧
      (passFD w roots).world.sw = (passWD w.sw roots gls).world ∧
      (passFD w roots).trace = (passWD w.sw roots gls).trace) := by
  obtain ⟨_, a2⟩ := passSortsF_refines roots w hc
  unfold passFD passWD
  simp only [hgl]
  by_cases hv : (passSortsF w roots).out = .valueError
  · rcases a2 with ⟨hto, hwd, htr⟩ | ⟨hr, _⟩
    · have hvW : (passSortsW w.sw roots).out = .valueError := (FOut.toS_ok hto).2.1.1 hv
      obtain ⟨g1, g2⟩ := restoreFD_gen w.sw gls ⟨(passSortsF w roots).world, false, []⟩
        ((passSortsW w.sw roots).world, []) rfl hwd rfl
      simp only [hv, if_true, hvW]
      refine ⟨by split <;> simp, by split <;> simp, ?_, ?_⟩
      · rw [htr]; exact (List.prefix_append_right_inj _).2 g1
      · intro hnr
        have hl : (gls.foldl (restoreStepFD w.sw) ⟨(passSortsF w roots).world, false, []⟩).late = false := by
          cases h : (gls.foldl (restoreStepFD w.sw) ⟨(passSortsF w roots).world, false, []⟩).late with
          | false => rfl
          | true => rw [h] at hnr; simp at hnr
        obtain ⟨g3, g4⟩ := g2 hl
        simp only [hl, Bool.false_eq_true, if_false]
        exact ⟨rfl, g3, by rw [g4, htr]⟩
    · rw [hv] at hr; cases hr
  · simp only [hv, if_false]
    rcases a2 with ⟨hto, hwd, htr⟩ | ⟨hr, hpre⟩
    · have hvW : (passSortsW w.sw roots).out ≠ .valueError := fun h => hv ((FOut.toS_ok hto).2.1.2 h)
      simp only [hvW, if_false]
      exact ⟨(FOut.toS_ok hto).2.2.1, (FOut.toS_ok hto).2.2.2.1, by rw [htr]; exact List.prefix_refl _,
        fun _ => ⟨hto, hwd, htr⟩⟩
    · refine ⟨by rw [hr]; decide, by rw [hr]; decide, ?_, fun h => absurd hr h⟩
      split
      · exact hpre.trans (List.prefix_append _ _)
      · exact hpre

/-! ## non-vacuity -/

/-- `g0 = [n1, n0]`, `n1` uses `n0` and owns the body `g1 = [n2]`, `n2` captures `n0` -/
def ex1 : MGraph := (0, [MNode.mk 1 [some 0] [(1, [MNode.mk 2 [some 0] []])], MNode.mk 0 [] []])
/-- two nodes using each other -/
def ex2 : MGraph := (0, [MNode.mk 0 [some 1] [], MNode.mk 1 [some 0] []])

example : WF ex1 := ⟨by decide, by decide⟩
example : WF ex2 := ⟨by decide, by decide⟩
example : sortModel ex1 = some [(0, [0, 1]), (1, [2])] := by decide
example : sortModel ex2 = none := by decide
example : sortEffect ex2 = (true, [(0, [0, 1])]) := by decide
example : Relation.TransGen (LiftedDep ex2) 0 0 :=
  Relation.TransGen.tail (Relation.TransGen.single (show LiftedDep ex2 0 1 by unfold LiftedDep; decide))
    (show LiftedDep ex2 1 0 by unfold LiftedDep; decide)
example : ∀ c, c < 3 → ∀ p ∈ predsAt (nodesOf ex1) c, p < 3 := predsAt_lt (nodesOf ex1)
example : (kahn 3 (predsAt (nodesOf ex1))) = [2, 1, 0] := by decide
example : relink [3, 1, 2] [1, 2, 3] = [1, 2, 3] := by decide
example : LinkedSet.WF LinkedSet.empty := LinkedSet.C11_rep_empty.1
example : LinkedSet.toList (LinkedSet.apply (LinkedSet.apply LinkedSet.empty (.extend [3, 1, 2])).1
    (.extend [1, 2, 3])).1 = [1, 2, 3] := by decide

/-- `g0 = [n0, n1, n3]`: `n1` uses `n0` and owns `g1 = [n2, n4]` where `n2` captures `n0` and
    `n4` uses `n2`; `n3` uses `n1` — well scoped and already in order -/
def ex3 : MGraph :=
  (0, [MNode.mk 0 [] [],
       MNode.mk 1 [some 0, none] [(1, [MNode.mk 2 [some 0] [], MNode.mk 4 [some 2, some 2] []])],
       MNode.mk 3 [some 1] []])
/-- like `ex3` with the outer graph out of order (`n1` before `n0`) but the body in order -/
def ex4 : MGraph :=
  (0, [MNode.mk 1 [some 0, none] [(1, [MNode.mk 2 [some 0] [], MNode.mk 4 [some 2, some 2] []])],
       MNode.mk 0 [] [],
       MNode.mk 3 [some 1] []])

example : WF ex3 := ⟨by decide, by decide⟩
example : WellScoped ex3 := by unfold WellScoped; decide
example : ∀ h ∈ allGraphs ex3, OrderedG h := by unfold OrderedG; decide
example : sortModel ex3 = some (graphsOf ex3) := by decide
example : WF ex4 ∧ WellScoped ex4 := ⟨⟨by decide, by decide⟩, by unfold WellScoped; decide⟩
example : OrderedG (1, [MNode.mk 2 [some 0] [], MNode.mk 4 [some 2, some 2] []]) ∧
    ¬ OrderedG ex4 := by unfold OrderedG; decide
example : sortModel ex4 = some [(0, [0, 1, 3]), (1, [2, 4])] := by decide
/-- the same body graph `g1 = [n1, n2]` (already in order) as the value of two attributes of `n0` -/
def ex5 : MGraph :=
  (0, [MNode.mk 0 [] [(1, [MNode.mk 1 [] [], MNode.mk 2 [some 1] []]),
                      (1, [MNode.mk 1 [] [], MNode.mk 2 [some 1] []])]])
example : ¬ ((nodesOf ex5).map Ent.id).Nodup := by decide
example : sortEffect ex5 = (true, [(0, [0]), (1, [1, 2]), (1, [1, 2])]) := by decide
example : passEffect [ex4, ex3, ex2] = (true, [graphsOf ex4, graphsOf ex3, graphsOf ex2]) := by decide
example : (passSorts [ex4, ex3, ex2]).2 ≠ [graphsOf ex4, graphsOf ex3, graphsOf ex2] := by decide
example : passEffect [ex4, ex3] = (false, [[(0, [0, 1, 3]), (1, [2, 4])], graphsOf ex3]) := by decide
example : (graphsOf ex1).reverse.Perm (graphsOf ex1) := List.reverse_perm _
example : runEffs (graphsOf ex1) (sortTraceIn (graphsOf ex1).reverse ex1) = sortEffect ex1 := by decide
example : Function.Injective (fun n : Nat => n + 7) := fun a b h => by simpa using h

/-! non-vacuity of Parts C and D -/

/-- the world of `ex1`: container 0 = `[n1, n0]`, container 1 = `[n2]`, `n1` owns graph 1 -/
def exW : SWorld :=
  ⟨⟨[(LinkedSet.extend LinkedSet.empty [1, 0]).1, (LinkedSet.extend LinkedSet.empty [2]).1],
    [(1, [.graph 1])], none⟩, [(0, []), (1, [some 0]), (2, [some 0])]⟩
/-- the same abstract world reached by another history: `[0, 1]`, then `append 0` -/
def exW' : SWorld :=
  ⟨⟨[(LinkedSet.append (LinkedSet.extend LinkedSet.empty [0, 1]).1 0).1,
     (LinkedSet.extend (LinkedSet.remove (LinkedSet.extend LinkedSet.empty [7, 2]).1 7).1 []).1],
    [(1, [.graph 1])], none⟩, [(0, []), (1, [some 0]), (2, [some 0])]⟩
/-- `exW` with graph 0 also the value of an attribute of `n2`: graph 0 is nested in itself -/
def exWself : SWorld := { exW with rw := { exW.rw with attrs := [(1, [.graph 1]), (2, [.graphs [0]])] } }

theorem exW_wf : LinkedSet.WorldWF exW.rw := by
  intro s hs
  simp only [exW, List.mem_cons, List.mem_nil_iff, or_false] at hs
  rcases hs with rfl | rfl <;> exact LinkedSet.C11_rep_step LinkedSet.C11_rep_empty.1 (.extend _)
theorem exW'_wf : LinkedSet.WorldWF exW'.rw := by
  intro s hs
  simp only [exW', List.mem_cons, List.mem_nil_iff, or_false] at hs
  rcases hs with rfl | rfl
  · exact LinkedSet.C11_rep_step (LinkedSet.C11_rep_step LinkedSet.C11_rep_empty.1 (.extend [0, 1])) (.append 0)
  · exact LinkedSet.C11_rep_step (LinkedSet.C11_rep_step
      (LinkedSet.C11_rep_step LinkedSet.C11_rep_empty.1 (.extend [7, 2])) (.remove 7)) (.extend [])

example : unfoldG exW exW.fuel 0 = some ex1 := by rfl
example : [1, 0].Perm (sortKeys (nodesOf ex1)) := by decide
example : (sortW exW [1, 0] 0).out = .ok ∧ (sortW exW [1, 0] 0).trace = [(1, [2]), (0, [0, 1])] ∧
    (sortW exW [1, 0] 0).world.order 0 = [0, 1] := by decide
example : absW exW = absW exW' := by
  have h : exW.rw.sets.map LinkedSet.toList = exW'.rw.sets.map LinkedSet.toList := by decide
  simp only [absW, h]
  rfl
example : exW.rw.sets.map (fun s => s.boxes.size) ≠ exW'.rw.sets.map (fun s => s.boxes.size) := by decide
example : (sortW exW' [0, 1] 0).world.order 0 = [0, 1] := by decide
example : Relation.TransGen (Nests exWself) 0 0 :=
  Relation.TransGen.tail (Relation.TransGen.single (show Nests exWself 0 1 from ⟨1, by decide, by decide⟩))
    (show Nests exWself 1 0 from ⟨2, by decide, by decide⟩)
example : (sortW exWself [] 0).out = .recursionError := by decide
example : (sortW exW [0, 1] 0).out ≠ .recursionError := by decide
/-- `ex2` as a world: the cycle test fails, nothing is written -/
def exWcyc : SWorld :=
  ⟨⟨[(LinkedSet.extend LinkedSet.empty [0, 1]).1], [], none⟩, [(0, [some 1]), (1, [some 0])]⟩
example : unfoldG exWcyc exWcyc.fuel 0 = some ex2 := by rfl
example : (sortW exWcyc [0] 0).out = .valueError ∧ (sortW exWcyc [0] 0).trace = [] := by decide
/-- a history: build, sort, move `n0` back in front of... behind `n1`, sort again -/
example : ((runW SWorld.init [.newGraph, .newGraph, .edit 1 (.extend [2]), .edit 0 (.extend [1, 0]),
    .tables [(0, []), (1, [some 0]), (2, [some 0])] [(1, [.graph 1])], .sort 0 none,
    .edit 0 (.insertBefore 0 [1]), .sort 0 (some [1, 0])]).2.map (fun r => (r.out, r.trace))) =
    [(.ok, [(0, [0, 1]), (1, [2])]), (.ok, [(1, [2]), (0, [0, 1])])] := by decide
example : ∀ n ∈ ex5.2, ((nodesOf ex5).map Ent.id).count n.id = 1 := by decide
example : sortIds ex5 = none ∧ (kahnIds (nodesOf ex5)).sorted = [1, 2, 0] := by decide
example : sortIds ex4 = some [(0, [0, 1, 3]), (1, [2, 4])] := by decide
example : sortEffect (renG (fun n => n + 7) (fun k => k + 3) ex4) =
    (false, [(3, [7, 8, 10]), (4, [9, 11])]) := by decide

/-! non-vacuity of Parts E and F -/

/-- a full world over `exW`: every node knows its graph; `n0` and its output `v10` have no name; `v12` (output of
    `n2`) has no name and is backed by a tensor that refuses one when `lock` -/
def exF (lock : Bool) : FWorld :=
  ⟨exW,
   fun n => match n with
    | 0 => ⟨some 0, none, "A", [10]⟩
    | 1 => ⟨some 0, some "n1", "B", [11]⟩
    | 2 => ⟨some 1, some "n2", "C", [12]⟩
    | _ => {},
   fun v => match v with
    | 10 => ⟨none, none, some 0⟩
    | 11 => ⟨some "v1", none, some 0⟩
    | 12 => ⟨none, some (lock, some "t"), some 1⟩
    | _ => {},
   fun _ => {}⟩

example : Consistent (exF true) (nodesOf ex1) := by decide
example : (sortF (exF false) [1, 0] 0).out = .ok ∧
    (sortF (exF false) [1, 0] 0).trace = [(1, [2]), (0, [0, 1])] := by decide
example : (sortF (exF true) [1, 0] 0).out = .refused := by decide
example : (sortW (exF true).sw [1, 0] 0).out = .ok := by decide
example : ((sortF (exF false) [1, 0] 0).world.nodes 0).name.isSome = true ∧
    ((sortF (exF false) [1, 0] 0).world.vals 12).name.isSome = true ∧
    ((sortF (exF false) [1, 0] 0).world.auths 1).vCtr = 1 := by decide
/-- `n0.graph = None`: the assertion in the loop fails -/
example : (sortF ((exF false).setNode 0 {}) [1, 0] 0).out = .assertionError := by decide
example : ¬ Consistent ((exF false).setNode 0 {}) (nodesOf ex1) := by decide

/-- `exW` plus a function body (container 2) whose two nodes use each other -/
def exP : SWorld :=
  ⟨⟨exW.rw.sets ++ [(LinkedSet.extend LinkedSet.empty [3, 4]).1], [(1, [.graph 1])], none⟩,
   [(0, []), (1, [some 0]), (2, [some 0]), (3, [some 4]), (4, [some 3])]⟩

theorem exP_wf : LinkedSet.WorldWF exP.rw := by
  intro s hs
  simp only [exP, exW, List.cons_append, List.nil_append, List.mem_cons, List.mem_nil_iff, or_false] at hs
  rcases hs with rfl | rfl | rfl <;> exact LinkedSet.C11_rep_step LinkedSet.C11_rep_empty.1 (.extend _)

example : passHypB exP [(0, [1, 0]), (2, [2])] = true := by decide
example : graphLikes exP [0, 2] = some [0, 1, 2] := by decide
example : (passSortsW exP [(0, [1, 0]), (2, [2])]).out = .valueError ∧
    (passSortsW exP [(0, [1, 0]), (2, [2])]).world.order 0 = [0, 1] := by decide
example : (passW exP [(0, [1, 0]), (2, [2])] [0, 1, 2]).out = .valueError ∧
    (passW exP [(0, [1, 0]), (2, [2])] [0, 1, 2]).world.order 0 = [1, 0] := by decide
example : (passW exP [(0, [1, 0])] [0, 1]).out = .ok := by decide
/-- Part I: hypotheses and conclusions are inhabited (a pass over `exW` that succeeds; over `exP` it meets the cycle) -/
example : passDisjB exP [(0, [1, 0]), (2, [2])] = true ∧ passDisjB exP [(0, [1, 0])] = true := by decide
example : passConsB (exF false) [(0, [1, 0])] = true ∧ graphLikes (exF false).sw [0] = some [0, 1] := by decide
example : (passF (exF false) [(0, [1, 0])]).out = .ok ∧ (passF (exF true) [(0, [1, 0])]).out = .refused := by decide
example : passConsB ((exF false).setNode 0 {}) [(0, [1, 0])] = false := by decide
/-- Part J: over `exP` the pass sorts graph 0 (and its body 1), meets the cycle in graph 2 and restores: `passW` writes all
    three recorded graph-likes, `passWD` only the one whose order changed; both end with the recorded orders -/
example : (passW exP [(0, [1, 0]), (2, [2])] [0, 1, 2]).trace.length = 5 ∧
    (passWD exP [(0, [1, 0]), (2, [2])] [0, 1, 2]).trace.length = 3 ∧
    (passWD exP [(0, [1, 0]), (2, [2])] [0, 1, 2]).out = .valueError ∧
    (passWD exP [(0, [1, 0]), (2, [2])] [0, 1, 2]).world.order 0 = [1, 0] := by decide
example : (passW exW [(0, [1, 0])] [0, 1]).world.order 0 = [0, 1] ∧ sortModel ex1 = some [(0, [0, 1]), (1, [2])] := by decide

example : Heap.isHeap (Heap.heapify [5, 3, 9, 1, 7]) = true ∧ Heap.heapify [5, 3, 9, 1, 7] = [1, 3, 9, 5, 7] := by decide
example : Heap.heappop [1, 3, 9, 5, 7] = (some 1, [3, 5, 9, 7]) := by decide
example : Heap.heappush [3, 5, 9, 7] 2 = [2, 3, 9, 7, 5] := by decide
example : Heap.isHeap [3, 1] = false := by decide
example : Heap.runHeap (Heap.heapify [5, 3, 9]) [none, some 1, none, none, none, none] =
    [some 3, some 1, some 5, some 9, none] := by decide
example : Heap.runAbs [5, 3, 9] [none, some 1, none, none, none, none] = [some 3, some 1, some 5, some 9, none] := by decide
example : sortHeap ex1 = some [(0, [0, 1]), (1, [2])] ∧ sortHeap ex2 = none := by decide

end IrVerif.Sort
